(* Session/ImportExec.v — executable instance of the resolver model over a
   concrete module table (module paths and defined names are strings), the
   reader for the generated table text (Gen/ModuleGraph.v), the boolean
   side-condition checkers used by the table lemmas, and the printer for the
   correspondence check of C17.  No proofs here. *)
From Coq Require Import List Bool String Ascii.
From NV Require Import Base.Show Session.Resolver Session.Toy.
Import ListNotations.
Open Scope string_scope.

(* a non-`use` statement is represented by the names it defines
   ("v:" value namespace: let / fn / unit incl. aliases, "t:" type namespace:
   dimension / struct) and by the identifiers its text uses without binding them:
   for each such identifier the list of names that would satisfy it (itself as a
   value or type name, or the unit it is a prefixed spelling of) *)
Definition def := (list string * list (list string))%type.
Definition def_names (d : def) : list string := fst d.
Definition def_free (d : def) : list (list string) := snd d.
Definition mprog := list (stmt string def).
Definition mtable := list (string * mprog).

Definition g_importer (t : mtable) (m : string) : option mprog := assoc m t.
Definition g_parse (p : mprog) : option mprog := Some p.

Definition g_pass (t : mtable) (r : resolver string mprog) (p : mprog) :=
  inlining_pass string String.eqb mprog def (g_importer t) g_parse (Datatypes.S (length t)) r p.

Definition use_all (ms : list string) : mprog := map (fun m => SUse m) ms.

(* `use m1; use m2; ...` submitted as ONE input to a fresh resolver *)
Definition import_seq (t : mtable) (ms : list string) :=
  g_pass t (new_resolver string mprog) (use_all ms).

(* ... or one input per module (imported_modules persists between inputs) *)
Fixpoint import_each (t : mtable) (r : resolver string mprog) (ms : list string)
  : resolver string mprog * bool :=
  match ms with
  | [] => (r, true)
  | m :: rest => match g_pass t r [SUse m] with
                 | (r1, ROk _) => import_each t r1 rest
                 | (r1, _) => (r1, false)
                 end
  end.

(* ---- reading Gen/ModuleGraph.v:  one line per module  name|item;item;...
        item = u:<module>  or  d:<name>,<name>,... ---- *)
Definition parse_item (s : string) : option (stmt string def) :=
  let (k, rest) := split_first ":"%char s in
  if String.eqb k "u" then Some (SUse rest)
  else if String.eqb k "d" then
    let (names, free) := split_first "~"%char rest in
    Some (SOther (match names with EmptyString => [] | _ => split ","%char names end,
                  match free with
                  | EmptyString => []
                  | _ => map (split "|"%char) (split ","%char free)
                  end))
  else None.

Fixpoint parse_items (l : list string) : mprog :=
  match l with
  | [] => []
  | x :: r => match parse_item x with Some s => s :: parse_items r | None => parse_items r end
  end.

Definition parse_module_line (l : string) : option (string * mprog) :=
  match l with
  | EmptyString => None
  | _ => let (name, rest) := split_first "|"%char l in
         Some (name, match rest with EmptyString => [] | _ => parse_items (split ";"%char rest) end)
  end.

Fixpoint parse_graph_lines (ls : list string) : mtable :=
  match ls with
  | [] => []
  | l :: r => match parse_module_line l with
              | Some e => e :: parse_graph_lines r
              | None => parse_graph_lines r
              end
  end.
Definition parse_graph (src : string) : mtable := parse_graph_lines (split nl src).

(* ---- boolean side conditions ---- *)
Definition m_uses (p : mprog) : list string :=
  flat_map (fun s => match s with SUse m => [m] | SOther _ => [] end) p.
Definition m_names (p : mprog) : list string :=
  flat_map (fun s => match s with SUse _ => [] | SOther d => def_names d end) p.

Definition is_some {X} (o : option X) : bool := match o with Some _ => true | None => false end.

(* every `use` inside a module names a module of the table *)
Definition wf_tableb (t : mtable) : bool :=
  forallb (fun e => forallb (fun u => is_some (assoc u t)) (m_uses (snd e))) t.

Fixpoint nodupb (l : list string) : bool :=
  match l with
  | [] => true
  | x :: r => negb (mem x r) && nodupb r
  end.

Definition all_names (t : mtable) : list string := flat_map (fun e => m_names (snd e)) t.
(* no name is defined twice, within a module or by two modules *)
Definition clash_freeb (t : mtable) : bool := nodupb (all_names t).
Definition keys_nodupb (t : mtable) : bool := nodupb (map fst t).

(* names defined more than once (for the report when clash_freeb fails) *)
Fixpoint dups (l : list string) : list string :=
  match l with
  | [] => []
  | x :: r => if mem x r then x :: dups r else dups r
  end.

(* ---- closedness: every identifier a definition uses is defined before it, by the module itself
        or by a module that an earlier `use` of the module imports (transitively, computed with the
        resolver model itself), or is built into the language ---- *)
Definition builtin_names : list string := [].    (* keywords and built-in types are removed by the translator *)

Definition names_of_modules (t : mtable) (ms : list string) : list string :=
  flat_map (fun m => match assoc m t with Some p => m_names p | None => [] end) ms.

Fixpoint skipn_str (n : nat) (l : list string) : list string :=
  match n, l with
  | O, _ => l
  | Datatypes.S k, _ :: r => skipn_str k r
  | Datatypes.S _, [] => []
  end.

Fixpoint closed_items (t : mtable) (avail : list string) (r : resolver string mprog) (items : mprog) : bool :=
  match items with
  | [] => true
  | SUse m :: rest =>
      match g_pass t r [SUse m] with
      | (r1, ROk _) =>
          let new := skipn_str (length (imported string mprog r)) (imported string mprog r1) in
          closed_items t (avail ++ names_of_modules t new) r1 rest
      | (_, _) => false
      end
  | SOther d :: rest =>
      forallb (fun alts => existsb (fun a => mem a (def_names d ++ avail)) alts) (def_free d)
      && closed_items t (avail ++ def_names d) r rest
  end.

(* the first module and identifier that break closedness (for the report) *)
Definition closedb (t : mtable) : bool :=
  forallb (fun e => closed_items t builtin_names (new_resolver string mprog) (snd e)) t.

Fixpoint open_items (t : mtable) (avail : list string) (r : resolver string mprog) (items : mprog)
  : list (list string) :=
  match items with
  | [] => []
  | SUse m :: rest =>
      match g_pass t r [SUse m] with
      | (r1, ROk _) =>
          let new := skipn_str (length (imported string mprog r)) (imported string mprog r1) in
          open_items t (avail ++ names_of_modules t new) r1 rest
      | (_, _) => [["use fails: " ++ m]]
      end
  | SOther d :: rest =>
      filter (fun alts => negb (existsb (fun a => mem a (def_names d ++ avail)) alts)) (def_free d)
      ++ open_items t (avail ++ def_names d) r rest
  end.
Definition open_names (t : mtable) : list (string * list (list string)) :=
  filter (fun x => match snd x with [] => false | _ => true end)
         (map (fun e => (fst e, open_items t builtin_names (new_resolver string mprog) (snd e))) t).

(* the module graph has no cycle: no module is reachable from one of its own `use`s *)
Definition acyclicb (t : mtable) : bool :=
  forallb (fun e =>
             match import_each t (new_resolver string mprog) (m_uses (snd e)) with
             | (r, true) => negb (mem (fst e) (imported string mprog r))
             | (_, false) => false
             end) t.

(* ---- printing for the correspondence check ---- *)
Definition show_imports (t : mtable) (mods_csv : string) : string :=
  match import_each t (new_resolver string mprog) (split ","%char mods_csv) with
  | (r, true) => "imp=[" ++ join "," (imported string mprog r) ++ "]"
  | (r, false) => "err imp=[" ++ join "," (imported string mprog r) ++ "]"
  end.
