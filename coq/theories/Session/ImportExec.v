(* Session/ImportExec.v — executable instance of the resolver model over a
   concrete module table (module paths and defined names are strings), the
   reader for the generated table text (Gen/ModuleGraph.v), the boolean
   side-condition checkers used by the table lemmas, and the printer for the
   correspondence check of C17.  No proofs here. *)
From Coq Require Import List Bool String Ascii.
From NV Require Import Base.Show Session.Resolver Session.Toy.
Import ListNotations.
Open Scope string_scope.

(* a non-`use` statement is represented by the names it defines
   ("v:" value namespace: let / fn / unit incl. aliases, "t:" type namespace:
   dimension / struct) *)
Definition def := list string.
Definition mprog := list (stmt string def).
Definition mtable := list (string * mprog).

Definition g_importer (t : mtable) (m : string) : option mprog := assoc m t.
Definition g_parse (p : mprog) : option mprog := Some p.

Definition g_pass (t : mtable) (r : resolver string mprog) (p : mprog) :=
  inlining_pass string String.eqb mprog def (g_importer t) g_parse (Datatypes.S (length t)) r p.

Definition use_all (ms : list string) : mprog := map (fun m => SUse m) ms.

(* `use m1; use m2; ...` submitted as ONE input to a fresh resolver *)
Definition import_seq (t : mtable) (ms : list string) :=
  g_pass t (new_resolver string mprog) (use_all ms).

(* ... or one input per module (imported_modules persists between inputs) *)
Fixpoint import_each (t : mtable) (r : resolver string mprog) (ms : list string)
  : resolver string mprog * bool :=
  match ms with
  | [] => (r, true)
  | m :: rest => match g_pass t r [SUse m] with
                 | (r1, ROk _) => import_each t r1 rest
                 | (r1, _) => (r1, false)
                 end
  end.

(* ---- reading Gen/ModuleGraph.v:  one line per module  name|item;item;...
        item = u:<module>  or  d:<name>,<name>,... ---- *)
Definition parse_item (s : string) : option (stmt string def) :=
  let (k, rest) := split_first ":"%char s in
  if String.eqb k "u" then Some (SUse rest)
  else if String.eqb k "d" then Some (SOther (split ","%char rest))
  else None.

Fixpoint parse_items (l : list string) : mprog :=
  match l with
  | [] => []
  | x :: r => match parse_item x with Some s => s :: parse_items r | None => parse_items r end
  end.

Definition parse_module_line (l : string) : option (string * mprog) :=
  match l with
  | EmptyString => None
  | _ => let (name, rest) := split_first "|"%char l in
         Some (name, match rest with EmptyString => [] | _ => parse_items (split ";"%char rest) end)
  end.

Fixpoint parse_graph_lines (ls : list string) : mtable :=
  match ls with
  | [] => []
  | l :: r => match parse_module_line l with
              | Some e => e :: parse_graph_lines r
              | None => parse_graph_lines r
              end
  end.
Definition parse_graph (src : string) : mtable := parse_graph_lines (split nl src).

(* ---- boolean side conditions ---- *)
Definition m_uses (p : mprog) : list string :=
  flat_map (fun s => match s with SUse m => [m] | SOther _ => [] end) p.
Definition m_names (p : mprog) : list string :=
  flat_map (fun s => match s with SUse _ => [] | SOther d => d end) p.

Definition is_some {X} (o : option X) : bool := match o with Some _ => true | None => false end.

(* every `use` inside a module names a module of the table *)
Definition wf_tableb (t : mtable) : bool :=
  forallb (fun e => forallb (fun u => is_some (assoc u t)) (m_uses (snd e))) t.

Fixpoint nodupb (l : list string) : bool :=
  match l with
  | [] => true
  | x :: r => negb (mem x r) && nodupb r
  end.

Definition all_names (t : mtable) : list string := flat_map (fun e => m_names (snd e)) t.
(* no name is defined twice, within a module or by two modules *)
Definition clash_freeb (t : mtable) : bool := nodupb (all_names t).
Definition keys_nodupb (t : mtable) : bool := nodupb (map fst t).

(* names defined more than once (for the report when clash_freeb fails) *)
Fixpoint dups (l : list string) : list string :=
  match l with
  | [] => []
  | x :: r => if mem x r then x :: dups r else dups r
  end.

(* ---- printing for the correspondence check ---- *)
Definition show_imports (t : mtable) (mods_csv : string) : string :=
  match import_each t (new_resolver string mprog) (split ","%char mods_csv) with
  | (r, true) => "imp=[" ++ join "," (imported string mprog r) ++ "]"
  | (r, false) => "err imp=[" ++ join "," (imported string mprog r) ++ "]"
  end.
