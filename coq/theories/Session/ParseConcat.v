(* Session/ParseConcat.v — C07_parse_concat on the statement-level skeleton of
   numbat/src/parser.rs Parser::parse: the loop

       skip_empty_lines; while !at_end { statement; match peek { Newline => skip_empty_lines,
                                                                  Semicolon => advance, Eof => break,
                                                                  _ => error } }

   over an ARBITRARY statement parser `stmt` that satisfies three locality
   conditions (what one statement parser may look at):
     (progress)  a statement consumes at least one token;
     (local)     if it stops in front of a significant token (not newline /
                 semicolon), tokens after that one do not matter;
     (stable)    if it consumed everything up to separators only, then appending
                 a newline and further text does not matter either, unless the
                 first significant token of that text is a continuation token
                 (`where`, `and`: Parser::look_ahead_beyond_linebreak), and
     (start)     no statement can start with a continuation token or a separator.
   `semi_skips` says whether the Semicolon arm also skips the empty lines that
   follow (it does since the repair of finding C07-semicolon-before-newline; the
   flag is re-derived from parser.rs on every run, Gen/ParserLoop.v).
   Error recovery (collecting several errors) is not modelled: any error is Err. *)
From Coq Require Import List Bool Arith Lia.
Import ListNotations.

Section ParseConcat.
  Variable tok : Type.
  Variable is_nl is_semi cont : tok -> bool.   (* Newline, Semicolon, continuation tokens *)
  Variable semi_skips : bool.                   (* does the Semicolon arm also skip empty lines? *)
  Variable NL : tok.
  Hypothesis NL_is_nl : is_nl NL = true.
  Hypothesis nl_not_semi : forall t, is_nl t = true -> is_semi t = false.
  Variable Stmt Err : Type.

  Inductive sres := SOk (s : Stmt) (rest : list tok) | SErr (e : Err).
  Variable stmt : list tok -> sres.             (* Parser::statement *)
  Variable trailing : Err.                      (* TrailingCharacters / TrailingEqualSign *)

  Inductive pres := POk (l : list Stmt) | PErr (e : Err) | PFuel.

  Fixpoint skip_empty_lines (ts : list tok) : list tok :=
    match ts with
    | t :: r => if is_nl t then skip_empty_lines r else ts
    | [] => []
    end.

  Fixpoint loop (n : nat) (acc : list Stmt) (ts : list tok) : pres :=
    match n with
    | 0 => PFuel
    | S n =>
        match ts with
        | [] => POk acc
        | _ =>
            match stmt ts with
            | SErr e => PErr e
            | SOk s rest =>
                match rest with
                | [] => POk (acc ++ [s])
                | t :: r =>
                    (* Newline arm: skip_empty_lines (rest) = skip_empty_lines r *)
                    if is_nl t || (is_semi t && semi_skips) then loop n (acc ++ [s]) (skip_empty_lines r)
                    else if is_semi t then loop n (acc ++ [s]) r
                    else PErr trailing
                end
            end
        end
    end.

  Definition parse_fuel (n : nat) (ts : list tok) : pres := loop n [] (skip_empty_lines ts).
  Definition parse (ts : list tok) : pres := parse_fuel (S (length ts)) ts.

  (* ---- what a statement parser may depend on ---- *)
  Definition sep (t : tok) : bool := is_nl t || is_semi t.
  Fixpoint first_sig (ts : list tok) : option tok :=
    match ts with
    | [] => None
    | t :: r => if sep t then first_sig r else Some t
    end.

  Hypothesis progress : forall ts s rest, stmt ts = SOk s rest -> length rest < length ts.
  Hypothesis local : forall ts s rest t,
      stmt ts = SOk s rest -> first_sig rest = Some t -> forall X, stmt (ts ++ X) = SOk s (rest ++ X).
  Hypothesis stable : forall ts s rest X,
      stmt ts = SOk s rest -> first_sig rest = None ->
      (forall t, first_sig X = Some t -> cont t = false) ->
      stmt (ts ++ NL :: X) = SOk s (rest ++ NL :: X).
  Hypothesis start : forall t r s rest, stmt (t :: r) = SOk s rest -> cont t = false /\ sep t = false.

  (* ---- fuel ---- *)
  Lemma skip_length : forall ts, length (skip_empty_lines ts) <= length ts.
  Proof. induction ts as [|t r IH]; cbn; [lia|]. destruct (is_nl t); cbn; lia. Qed.

  Lemma loop_mono : forall n acc ts r k, loop n acc ts = r -> r <> PFuel -> loop (n + k) acc ts = r.
  Proof.
    induction n as [|n IH]; intros acc ts r k H Hr; [cbn in H; congruence|].
    cbn [plus loop] in *. destruct ts as [|t0 ts0]; [exact H|].
    destruct (stmt (t0 :: ts0)) as [s rest|e]; [|exact H].
    destruct rest as [|t r0]; [exact H|].
    destruct (is_nl t || is_semi t && semi_skips); [now apply IH|].
    destruct (is_semi t); [now apply IH | exact H].
  Qed.

  Lemma loop_enough : forall n acc ts, length ts < n -> loop n acc ts <> PFuel.
  Proof.
    induction n as [|n IH]; intros acc ts Hl; [lia|].
    cbn [loop]. destruct ts as [|t0 ts0]; [discriminate|].
    destruct (stmt (t0 :: ts0)) as [s rest|e] eqn:E; [|discriminate].
    apply progress in E.
    destruct rest as [|t r0]; [discriminate|].
    destruct (is_nl t || is_semi t && semi_skips).
    - apply IH. pose proof (skip_length r0). cbn in *. lia.
    - destruct (is_semi t); [apply IH; cbn in *; lia | discriminate].
  Qed.

  Lemma parse_of_fuel : forall n ts l, parse_fuel n ts = POk l -> parse ts = POk l.
  Proof.
    intros n ts l H. unfold parse, parse_fuel in *.
    pose proof (loop_enough (S (length ts)) [] (skip_empty_lines ts)) as He.
    assert (Hl : length (skip_empty_lines ts) < S (length ts)) by (pose proof (skip_length ts); lia).
    specialize (He Hl).
    pose proof (loop_mono _ _ _ _ (S (length ts)) H) as M1.
    pose proof (loop_mono _ _ _ _ n eq_refl He) as M2.
    rewrite Nat.add_comm in M2. rewrite M2 in M1. apply M1. discriminate.
  Qed.

  (* ---- accumulator ---- *)
  Definition with_acc (acc : list Stmt) (r : pres) : pres :=
    match r with POk l => POk (acc ++ l) | other => other end.

  Lemma loop_acc : forall n acc ts, loop n acc ts = with_acc acc (loop n [] ts).
  Proof.
    induction n as [|n IH]; intros acc ts; [reflexivity|].
    cbn [loop]. destruct ts as [|t0 ts0]; [cbn; now rewrite app_nil_r|].
    destruct (stmt (t0 :: ts0)) as [s rest|e]; [|reflexivity].
    destruct rest as [|t r0]; [reflexivity|].
    destruct (is_nl t || is_semi t && semi_skips).
    - rewrite (IH (acc ++ [s])), (IH ([] ++ [s])). cbn [app].
      destruct (loop n [] _); cbn; try reflexivity. now rewrite <- app_assoc.
    - destruct (is_semi t); [|reflexivity].
      rewrite (IH (acc ++ [s])), (IH ([] ++ [s])). cbn [app].
      destruct (loop n [] _); cbn; try reflexivity. now rewrite <- app_assoc.
  Qed.

  (* ---- separators ---- *)
  Lemma first_sig_app_none : forall a b, first_sig a = None -> first_sig (a ++ b) = first_sig b.
  Proof.
    induction a as [|t r IH]; intros b H; [reflexivity|]. cbn in *.
    destruct (sep t); [now apply IH | discriminate].
  Qed.

  Lemma first_sig_app_some : forall a b t, first_sig a = Some t -> first_sig (a ++ b) = Some t.
  Proof.
    induction a as [|x r IH]; intros b t H; [discriminate|]. cbn in *.
    destruct (sep x); [now apply IH | exact H].
  Qed.

  Lemma first_sig_skip : forall ts, first_sig (skip_empty_lines ts) = first_sig ts.
  Proof.
    induction ts as [|t r IH]; [reflexivity|]. cbn [skip_empty_lines].
    destruct (is_nl t) eqn:E; [|reflexivity].
    cbn [first_sig]. unfold sep. rewrite E. cbn. exact IH.
  Qed.

  Lemma skip_all_nl : forall a b, skip_empty_lines a = [] -> skip_empty_lines (a ++ b) = skip_empty_lines b.
  Proof.
    induction a as [|x r IH]; intros b H; [reflexivity|]. cbn in *.
    destruct (is_nl x); [now apply IH | discriminate].
  Qed.

  Lemma skip_app_nonempty : forall a b, skip_empty_lines a <> [] ->
      skip_empty_lines (a ++ b) = skip_empty_lines a ++ b.
  Proof.
    induction a as [|x r IH]; intros b H; [now contradiction H|].
    cbn in *. destruct (is_nl x); [now apply IH | reflexivity].
  Qed.

  Lemma skip_NL : forall X, skip_empty_lines (NL :: X) = skip_empty_lines X.
  Proof. intro X. cbn. now rewrite NL_is_nl. Qed.

  (* a program that parses does not begin (after blank lines) with a continuation token *)
  Lemma parses_no_cont : forall m tb lb,
      loop m [] (skip_empty_lines tb) = POk lb -> forall t, first_sig tb = Some t -> cont t = false.
  Proof.
    intros m tb lb H t Hf. rewrite <- first_sig_skip in Hf.
    destruct m as [|m]; [discriminate|]. cbn [loop] in H.
    destruct (skip_empty_lines tb) as [|t0 r]; [discriminate|].
    destruct (stmt (t0 :: r)) as [s rest|e] eqn:E; [|discriminate].
    destruct (start _ _ _ _ E) as [Hc Hs]. cbn in Hf. rewrite Hs in Hf. now inversion Hf; subst.
  Qed.

  Lemma stmt_ext : forall ts s rest tb m lb,
      stmt ts = SOk s rest -> loop m [] (skip_empty_lines tb) = POk lb ->
      stmt (ts ++ NL :: tb) = SOk s (rest ++ NL :: tb).
  Proof.
    intros ts s rest tb m lb E Hb. destruct (first_sig rest) as [t|] eqn:F.
    - eapply local; eassumption.
    - apply stable; [assumption | assumption | eapply parses_no_cont; eassumption].
  Qed.

  Lemma loop_nil_ok : forall n acc l, loop n acc [] = POk l -> l = acc.
  Proof. intros [|n] acc l H; [discriminate | now inversion H]. Qed.

  Lemma tail_ok : forall k m acc lb tb,
      loop m [] (skip_empty_lines tb) = POk lb -> loop (k + m) acc (skip_empty_lines tb) = POk (acc ++ lb).
  Proof.
    intros k m acc lb tb H. rewrite loop_acc. rewrite Nat.add_comm.
    rewrite (loop_mono _ _ _ _ k H); [reflexivity | discriminate].
  Qed.

  Lemma loop_concat :
    semi_skips = true ->
    forall n acc ts la tb m lb,
      ts <> [] -> loop n acc ts = POk la -> loop m [] (skip_empty_lines tb) = POk lb ->
      loop (n + m) acc (ts ++ NL :: tb) = POk (la ++ lb).
  Proof.
    intros Hsk. induction n as [|n IH]; intros acc ts la tb m lb Hne H Hb; [discriminate|].
    cbn [plus loop] in *. destruct ts as [|t0 ts0]; [now contradiction Hne|].
    change ((t0 :: ts0) ++ NL :: tb) with (t0 :: (ts0 ++ NL :: tb)).
    destruct (stmt (t0 :: ts0)) as [s rest|e] eqn:E; [|discriminate].
    change (t0 :: ts0 ++ NL :: tb) with ((t0 :: ts0) ++ NL :: tb).
    rewrite (stmt_ext _ _ _ _ _ _ E Hb).
    destruct rest as [|t r].
    - inversion H; subst la. cbn [app]. rewrite NL_is_nl. cbn [orb].
      now apply tail_ok.
    - cbn [app]. rewrite Hsk, andb_true_r in *.
      destruct (is_nl t || is_semi t) eqn:Et.
      + destruct (skip_empty_lines r) as [|t1 r1] eqn:Sr.
        * apply loop_nil_ok in H. subst la.
          rewrite (skip_all_nl _ _ Sr), skip_NL. now apply tail_ok.
        * rewrite skip_app_nonempty; [|rewrite Sr; discriminate]. rewrite Sr in *.
          apply IH; [discriminate | exact H | exact Hb].
      + apply orb_false_iff in Et. destruct Et as [_ Es]. rewrite Es in H. discriminate.
  Qed.

  (* C07_parse_concat on the skeleton *)
  Theorem parse_concat :
    semi_skips = true ->
    forall ta tb la lb,
      parse ta = POk la -> parse tb = POk lb -> parse (ta ++ NL :: tb) = POk (la ++ lb).
  Proof.
    intros Hsk ta tb la lb Ha Hb. unfold parse in Ha, Hb. unfold parse_fuel in *.
    destruct (skip_empty_lines ta) as [|t0 r0] eqn:Sa.
    - apply loop_nil_ok in Ha. subst la. cbn [app].
      apply (parse_of_fuel (S (length tb))). unfold parse_fuel.
      rewrite (skip_all_nl _ _ Sa), skip_NL. exact Hb.
    - apply (parse_of_fuel (S (length ta) + S (length tb))). unfold parse_fuel.
      rewrite skip_app_nonempty; [|rewrite Sa; discriminate]. rewrite Sa.
      apply (loop_concat Hsk); [discriminate | exact Ha | exact Hb].
  Qed.
End ParseConcat.

(* ---- non-vacuity: a concrete statement parser that satisfies the four locality
        conditions (statements are single tokens > 2; 0 = newline, 1 = semicolon,
        2 = a continuation token), so parse_concat applies to it unconditionally ---- *)
Definition one_tok (ts : list nat) : sres nat nat unit :=
  match ts with
  | t :: r => if Nat.leb t 2 then SErr nat nat unit tt else SOk nat nat unit t r
  | [] => SErr nat nat unit tt
  end.

Lemma one_tok_inv : forall ts s rest, one_tok ts = SOk nat nat unit s rest -> ts = s :: rest /\ 2 < s.
Proof.
  intros [|t r] s rest H; cbn in H; [discriminate|].
  destruct (Nat.leb t 2) eqn:E; [discriminate|]. inversion H; subst.
  split; [reflexivity|]. apply Nat.leb_gt in E. exact E.
Qed.

Theorem one_tok_parse_concat :
  forall semi_skips, semi_skips = true ->
  forall ta tb la lb,
    parse nat (Nat.eqb 0) (Nat.eqb 1) semi_skips nat unit one_tok tt ta = POk nat unit la ->
    parse nat (Nat.eqb 0) (Nat.eqb 1) semi_skips nat unit one_tok tt tb = POk nat unit lb ->
    parse nat (Nat.eqb 0) (Nat.eqb 1) semi_skips nat unit one_tok tt (ta ++ 0 :: tb) = POk nat unit (la ++ lb).
Proof.
  intros semi_skips Hs.
  apply (parse_concat nat (Nat.eqb 0) (Nat.eqb 1) (Nat.eqb 2) semi_skips 0 eq_refl nat unit one_tok tt).
  - intros ts s rest H. apply one_tok_inv in H. destruct H as [-> _]. cbn. lia.
  - intros ts s rest t H _ X. apply one_tok_inv in H. destruct H as [-> H2]. cbn.
    destruct (Nat.leb s 2) eqn:E; [apply Nat.leb_le in E; lia | reflexivity].
  - intros ts s rest X H _ _. apply one_tok_inv in H. destruct H as [-> H2]. cbn.
    destruct (Nat.leb s 2) eqn:E; [apply Nat.leb_le in E; lia | reflexivity].
  - intros t r s rest H. apply one_tok_inv in H. destruct H as [E H2]. inversion E; subst.
    unfold sep. destruct s as [|[|[|s]]]; try lia. split; reflexivity.
  - exact Hs.
Qed.
