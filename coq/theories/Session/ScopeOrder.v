(* Session/ScopeOrder.v — C17: on a closed, ACYCLIC module table the depth-first
   inlining pass emits every definition AFTER everything it needs: each statement
   of the inlined program is well-scoped in the environment made of the
   statements before it (plus what was imported earlier), in every import order. *)
From Coq Require Import List Bool Arith Lia Permutation.
From NV Require Import Session.Resolver Session.ResolverProofs Session.ImportProofs.
Import ListNotations.

Section ScopeOrder.
  Variable M : Type.
  Variable M_eqb : M -> M -> bool.
  Hypothesis M_eqb_spec : forall a b, M_eqb a b = true <-> a = b.
  Variable Code : Type.
  Variable S : Type.
  Variable importer : M -> option Code.
  Variable parse : Code -> option (list (stmt M S)).
  Variable ok : (S -> Prop) -> S -> Prop.
  Hypothesis ok_mono : forall (E E' : S -> Prop) s, (forall x, E x -> E' x) -> ok E s -> ok E' s.

  Notation resolver := (resolver M Code).
  Notation rres := (rres M S).
  Notation imported := (imported M Code).
  Notation inline_loop := (inline_loop M M_eqb Code S importer parse).
  Notation inlining_pass := (inlining_pass M M_eqb Code S importer parse).
  Notation body := (body M Code S importer parse).
  Notation own := (own M S).
  Notation uses := (uses M S).
  Notation own_of := (own_of M Code S importer parse).
  Notation reach := (reach M Code S importer parse).
  Notation closed_except := (closed_except M Code S importer parse).
  Notation is_imported := (is_imported M M_eqb Code).
  Notation add_code_source := (add_code_source M Code).
  Notation push_imported := (push_imported M Code).

  Hypothesis acyclic : forall m q, body m = Some q -> ~ reach (uses q) m.

  (* a program whose statements need only its own earlier statements, the modules
     satisfying Bm, and the modules reachable from its own earlier `use`s *)
  Definition closed_rel (Bm : M -> Prop) (p : list (stmt M S)) : Prop :=
    forall p1 s p2, p = p1 ++ SOther s :: p2 ->
      ok (fun x => In x (own p1) \/ exists m', (Bm m' \/ reach (uses p1) m') /\ In x (own_of m')) s.
  Hypothesis table_closed : forall m q, body m = Some q -> closed_rel (fun _ => False) q.

  Definition complete_in (Em : S -> Prop) (m : M) : Prop := forall x, In x (own_of m) -> Em x.

  Lemma reach_nil : forall m, ~ reach [] m.
  Proof. intros m H. induction H as [m []|]; assumption. Qed.

  Lemma reach_app : forall A B m, reach (A ++ B) m <-> reach A m \/ reach B m.
  Proof.
    intros A B m. split.
    - intro H. induction H as [m Hin | m m' p H IH Hb Hu].
      + apply in_app_iff in Hin. destruct Hin; [left | right]; now apply reach_root.
      + destruct IH as [IH|IH]; [left | right]; eapply reach_step; eassumption.
    - intros [H|H]; (eapply reach_mono; [|exact H]); [apply incl_appl | apply incl_appr]; apply incl_refl.
  Qed.

  Lemma reach_single : forall m q x, body m = Some q -> reach [m] x -> x = m \/ reach (uses q) x.
  Proof.
    intros m q x Hb H. induction H as [x [<-|[]] | x x' p H IH Hp Hu].
    - now left.
    - right. destruct IH as [->|IH].
      + rewrite Hb in Hp. inversion Hp; subst. now apply reach_root.
      + eapply reach_step; eassumption.
  Qed.

  (* everything reachable from roots that are imported is imported, as long as the
     reachable modules avoid the excepted (in-progress) ones *)
  Lemma closed_reach_except : forall st r roots,
      closed_except st r -> (forall x, reach roots x -> ~ In x st) -> incl roots (imported r) ->
      forall x, reach roots x -> In x (imported r).
  Proof.
    intros st r roots Hc Hn Hi x H. induction H as [x Hin | x x' p H IH Hb Hu].
    - now apply Hi.
    - eapply Hc; [exact IH | apply Hn; exact H | exact Hb | exact Hu].
  Qed.

  Lemma split_app_cons : forall (l1 l2 a1 a2 : list S) s,
      l1 ++ l2 = a1 ++ s :: a2 ->
      (exists b2, l1 = a1 ++ s :: b2 /\ a2 = b2 ++ l2) \/ (exists b1, a1 = l1 ++ b1 /\ l2 = b1 ++ s :: a2).
  Proof.
    induction l1 as [|x r IH]; intros l2 a1 a2 s E.
    - right. exists a1. split; [reflexivity | exact E].
    - destruct a1 as [|y a1'].
      + cbn in E. inversion E; subst. left. exists r. split; reflexivity.
      + cbn in E. inversion E; subst. destruct (IH _ _ _ _ H1) as [(b2 & E1 & E2)|(b1 & E1 & E2)].
        * left. exists b2. split; [now rewrite E1 | exact E2].
        * right. exists b1. split; [now rewrite E1 | exact E2].
  Qed.

  Definition ord_spec (rec_res : resolver * rres) (stack : list M) (Bm : M -> Prop) (Em : S -> Prop)
             (r : resolver) (done_ p : list (stmt M S)) (acc : list S) : Prop :=
    closed_except stack r ->
    NoDup (imported r) ->
    (forall a, In a stack -> ~ reach (uses (done_ ++ p)) a) ->
    (forall m', reach (uses (done_ ++ p)) m' -> In m' (imported r) ->
                complete_in (fun x => Em x \/ In x acc) m') ->
    (forall m', reach (uses done_) m' -> In m' (imported r)) ->
    (forall m', Bm m' -> complete_in Em m') ->
    (forall x, In x (own done_) -> Em x \/ In x acc) ->
    (forall a1 s a2, acc = a1 ++ s :: a2 -> ok (fun x => Em x \/ In x a1) s) ->
    closed_rel Bm (done_ ++ p) ->
    forall r' out, rec_res = (r', ROk out) ->
      forall o1 s o2, out = o1 ++ s :: o2 -> ok (fun x => Em x \/ In x o1) s.

  Lemma uses_snoc_other : forall d s, uses (d ++ [SOther s]) = uses d.
  Proof. intros. rewrite (uses_app M S). cbn. now rewrite app_nil_r. Qed.
  Lemma uses_snoc_use : forall d m, uses (d ++ [SUse m]) = uses d ++ [m].
  Proof. intros. now rewrite (uses_app M S). Qed.
  Lemma own_snoc_other : forall d s, own (d ++ [SOther s]) = own d ++ [s].
  Proof. intros. now rewrite (own_app M S). Qed.
  Lemma own_snoc_use : forall d m, own (d ++ [SUse m]) = own d.
  Proof. intros. rewrite (own_app M S). cbn. now rewrite app_nil_r. Qed.

  Lemma loop_ord :
    forall rec : resolver -> list (stmt M S) -> resolver * rres,
      (forall r p, mono_spec M Code S r (rec r p)) ->
      (forall r p, NoDup (imported r) -> once_spec M Code S importer parse r p [] (rec r p)) ->
      (forall r p, closed_spec M Code S importer parse r p (rec r p)) ->
      (forall stack Bm Em r p, ord_spec (rec r p) stack Bm Em r [] p []) ->
      forall p stack Bm Em r done_ acc, ord_spec (inline_loop rec r p acc) stack Bm Em r done_ p acc.
  Proof.
    intros rec Hmono Honce Hclosed Hord p.
    induction p as [|st rest IH]; intros stack Bm Em r done_ acc; unfold ord_spec;
      intros Hc ND HN HI HD HB HO HA HC r' out E o1 s o2 Eo.
    - rewrite (loop_nil M M_eqb Code S importer parse) in E. inversion E; subst. eapply HA; reflexivity.
    - destruct st as [m | d].
      + (* use m *)
        rewrite (loop_use M M_eqb Code S importer parse) in E.
        assert (Hassoc : done_ ++ SUse m :: rest = (done_ ++ [SUse m]) ++ rest) by now rewrite <- app_assoc.
        assert (Hm_root : reach (uses (done_ ++ SUse m :: rest)) m).
        { apply reach_root. rewrite (uses_app M S). apply in_app_iff. right. now left. }
        assert (Hvia : forall q x, body m = Some q -> reach (uses q) x -> reach (uses (done_ ++ SUse m :: rest)) x).
        { intros q x Hq Hx. eapply reach_via; [exact Hm_root | exact Hq | exact Hx]. }
        destruct (is_imported r m) eqn:Ei.
        * (* already imported: nothing is inlined *)
          apply (is_imported_In M M_eqb M_eqb_spec Code) in Ei.
          refine (IH stack Bm Em r (done_ ++ [SUse m]) acc Hc ND _ _ _ HB _ HA _ r' out E o1 s o2 Eo).
          -- intros a Ha. rewrite <- Hassoc. now apply HN.
          -- intros m' Hr. rewrite <- Hassoc in Hr. now apply HI.
          -- intros m' Hr. rewrite uses_snoc_use in Hr. apply reach_app in Hr. destruct Hr as [Hr|Hr]; [now apply HD|].
             apply (closed_reach_except stack r [m] Hc); [| intros x [<-|[]]; exact Ei | exact Hr].
             intros x Hx Hin. apply (HN x Hin). eapply reach_mono; [|exact Hx].
             intros y [<-|[]]. rewrite (uses_app M S). apply in_app_iff. right. now left.
          -- intros x Hx. rewrite own_snoc_use in Hx. now apply HO.
          -- now rewrite <- Hassoc.
        * apply (is_imported_false M M_eqb M_eqb_spec Code) in Ei.
          destruct (importer m) as [code|] eqn:Him; [|discriminate]. cbv zeta in E.
          set (r2 := fst (add_code_source (push_imported r m) (CSModule m) code)) in *.
          assert (I2 : imported r2 = imported r ++ [m]) by apply (push_add_imported M Code).
          destruct (parse code) as [q|] eqn:Hp; [|discriminate].
          assert (Hb : body m = Some q) by (unfold ImportProofs.body; now rewrite Him, Hp).
          assert (ND2 : NoDup (imported r2)).
          { rewrite I2. apply (NoDup_snoc M); assumption. }
          pose proof (Hmono r2 q) as Hm3. unfold ImportProofs.mono_spec in Hm3.
          destruct (Honce r2 q ND2) as (new1 & O1 & O2 & O3).
          pose proof (Hclosed r2 q (m :: stack)) as Hcl.
          pose proof (Hord (m :: stack) (fun _ => False) (fun x => Em x \/ In x acc) r2 q) as Ho.
          destruct (rec r2 q) as [r3 res] eqn:Er. cbn [fst snd] in *.
          destruct res as [out_m| |]; try discriminate.
          specialize (O3 out_m eq_refl). cbn [app] in O3.
          assert (C2 : closed_except (m :: stack) r2).
          { intros y Hy Hns q0 Hq0. rewrite I2 in Hy. apply in_app_iff in Hy.
            destruct Hy as [Hy|[Hy|[]]].
            - eapply incl_tran; [eapply Hc; eauto|]. + intro. apply Hns. now right.
              + rewrite I2. apply incl_appl, incl_refl.
            - subst. exfalso. apply Hns. now left. }
          destruct (Hcl out_m C2 eq_refl) as [C3 U3].
          assert (HN' : forall a, In a (m :: stack) -> ~ reach (uses q) a).
          { intros a [<-|Ha] Hr; [exact (acyclic m q Hb Hr)|]. apply (HN a Ha). eapply Hvia; eassumption. }
          (* the inlined module is scoped relative to everything emitted so far *)
          assert (Sm : forall o1 s o2, out_m = o1 ++ s :: o2 -> ok (fun x => (Em x \/ In x acc) \/ In x o1) s).
          { intros o1' s' o2' Eo'. unfold ord_spec in Ho.
            refine (Ho C2 ND2 HN' _ _ _ _ _ _ r3 out_m eq_refl o1' s' o2' Eo').
            - intros m' Hr Hi x Hx. left. rewrite I2 in Hi. apply in_app_iff in Hi. destruct Hi as [Hi|[<-|[]]].
              + apply (HI m'); [eapply Hvia; eassumption | exact Hi | exact Hx].
              + exfalso. exact (acyclic m q Hb Hr).
            - intros m' Hr. exfalso. exact (reach_nil m' Hr).
            - intros m' [].
            - intros x [].
            - intros a1 s0 a2 Ea. destruct a1; discriminate.
            - exact (table_closed m q Hb). }
          assert (C3' : closed_except stack r3).
          { intros y Hy Hns q0 Hq0. destruct (M_dec M M_eqb M_eqb_spec y m) as [->|Hne].
            - rewrite Hb in Hq0. inversion Hq0; subst. exact U3.
            - eapply C3; eauto. intros [H|H]; [congruence | contradiction]. }
          assert (ND3 : NoDup (imported r3)) by now rewrite O1.
          assert (Hinc : incl (imported r) (imported r3)).
          { eapply incl_tran; [|exact Hm3]. rewrite I2. apply incl_appl, incl_refl. }
          assert (Hcomp_new : forall m', In m' (imported r3) -> ~ In m' (imported r) ->
                                         forall x, In x (own_of m') -> In x out_m).
          { intros m' Hi Hn x Hx. apply (Permutation_in _ (Permutation_sym O3)). apply in_app_iff.
            rewrite O1, I2 in Hi. apply in_app_iff in Hi. destruct Hi as [Hi|Hi].
            - apply in_app_iff in Hi. destruct Hi as [Hi|[<-|[]]]; [contradiction|].
              left. unfold ImportProofs.own_of in Hx. now rewrite Hb in Hx.
            - right. apply in_flat_map. now exists m'. }
          refine (IH stack Bm Em r3 (done_ ++ [SUse m]) (acc ++ out_m) C3' ND3 _ _ _ HB _ _ _ r' out E o1 s o2 Eo).
          -- intros a Ha. rewrite <- Hassoc. now apply HN.
          -- intros m' Hr Hi x Hx. rewrite <- Hassoc in Hr.
             destruct (is_imported r m') eqn:Eim;
               [apply (is_imported_In M M_eqb M_eqb_spec Code) in Eim; rename Eim into Hold
               |apply (is_imported_false M M_eqb M_eqb_spec Code) in Eim; rename Eim into Hnew].
             ++ destruct (HI m' Hr Hold x Hx) as [H|H]; [now left | right; apply in_app_iff; now left].
             ++ right. apply in_app_iff. right. eapply Hcomp_new; eassumption.
          -- intros m' Hr. rewrite uses_snoc_use in Hr. apply reach_app in Hr. destruct Hr as [Hr|Hr].
             ++ apply Hinc. now apply HD.
             ++ destruct (reach_single m q m' Hb Hr) as [->|Hq].
                ** apply Hm3. rewrite I2. apply in_app_iff. right. now left.
                ** apply (closed_reach_except (m :: stack) r3 (uses q) C3); [|exact U3 | exact Hq].
                   intros x Hx Hin. exact (HN' x Hin Hx).
          -- intros x Hx. rewrite own_snoc_use in Hx. destruct (HO x Hx) as [H|H]; [now left|].
             right. apply in_app_iff. now left.
          -- intros a1 s0 a2 Ea. destruct (split_app_cons _ _ _ _ _ Ea) as [(b2 & E1 & E2)|(b1 & E1 & E2)].
             ++ eapply HA. exact E1.
             ++ subst a1. eapply ok_mono; [|eapply Sm; exact E2].
                intros x [[H|H]|H]; [now left | right; apply in_app_iff; now left | right; apply in_app_iff; now right].
          -- now rewrite <- Hassoc.
      + (* a statement of the program itself *)
        rewrite (loop_other M M_eqb Code S importer parse) in E.
        assert (Hassoc : done_ ++ SOther d :: rest = (done_ ++ [SOther d]) ++ rest) by now rewrite <- app_assoc.
        refine (IH stack Bm Em r (done_ ++ [SOther d]) (acc ++ [d]) Hc ND _ _ _ HB _ _ _ r' out E o1 s o2 Eo).
        * intros a Ha. rewrite <- Hassoc. now apply HN.
        * intros m' Hr Hi x Hx. rewrite <- Hassoc in Hr. destruct (HI m' Hr Hi x Hx) as [H|H]; [now left|].
          right. apply in_app_iff. now left.
        * intros m' Hr. rewrite uses_snoc_other in Hr. now apply HD.
        * intros x Hx. rewrite own_snoc_other in Hx. apply in_app_iff in Hx. destruct Hx as [Hx|[<-|[]]].
          -- destruct (HO x Hx) as [H|H]; [now left | right; apply in_app_iff; now left].
          -- right. apply in_app_iff. right. now left.
        * intros a1 s0 a2 Ea. destruct (split_app_cons _ _ _ _ _ Ea) as [(b2 & E1 & E2)|(b1 & E1 & E2)].
          -- eapply HA. exact E1.
          -- destruct b1 as [|y b1]; [|destruct b1; discriminate].
             cbn in E2. inversion E2; subst s0 a2. rewrite app_nil_r in E1. subst a1.
             eapply ok_mono; [|eapply (HC done_ d rest eq_refl)].
             intros x [Hx|(m' & [Hbm|Hr] & Hx)].
             ++ now apply HO.
             ++ left. now apply (HB m').
             ++ apply (HI m'); [|now apply HD | exact Hx].
                eapply reach_mono; [|exact Hr]. rewrite (uses_app M S). apply incl_appl, incl_refl.
        * now rewrite <- Hassoc.
  Qed.
  Lemma pass_ord :
    forall fuel stack Bm Em r p, ord_spec (inlining_pass fuel r p) stack Bm Em r [] p [].
  Proof.
    induction fuel as [|f IH]; intros stack Bm Em r p.
    - unfold ord_spec. intros _ _ _ _ _ _ _ _ _ r' out E. rewrite (pass_0 M M_eqb Code S importer parse) in E.
      discriminate.
    - rewrite (pass_S M M_eqb Code S importer parse).
      apply (loop_ord (inlining_pass f)).
      + apply (pass_mono M M_eqb Code S importer parse).
      + apply (pass_once M M_eqb M_eqb_spec Code S importer parse).
      + apply (pass_closed M M_eqb M_eqb_spec Code S importer parse).
      + exact IH.
  Qed.

  (* every statement of the inlined program is well-scoped in what comes BEFORE it
     (the earlier output and the modules imported earlier) *)
  Theorem scoped_in_order :
    forall fuel r p r' out,
      closed_except [] r -> NoDup (imported r) ->
      inlining_pass fuel r p = (r', ROk out) ->
      closed_rel (fun m => In m (imported r)) p ->
      forall o1 s o2, out = o1 ++ s :: o2 ->
        ok (fun x => (exists m, In m (imported r) /\ In x (own_of m)) \/ In x o1) s.
  Proof.
    intros fuel r p r' out Hc ND E Hp o1 s o2 Eo.
    pose proof (pass_ord fuel [] (fun m => In m (imported r))
                         (fun x => exists m, In m (imported r) /\ In x (own_of m)) r p) as H.
    unfold ord_spec in H. cbn [app] in H.
    refine (H Hc ND _ _ _ _ _ _ Hp r' out E o1 s o2 Eo).
    - intros a [].
    - intros m' _ Hi x Hx. left. now exists m'.
    - intros m' Hr. exfalso. exact (reach_nil m' Hr).
    - intros m' Hi x Hx. now exists m'.
    - intros x [].
    - intros a1 s0 a2 Ea. destruct a1; discriminate.
  Qed.
End ScopeOrder.
