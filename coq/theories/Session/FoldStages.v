(* Session/FoldStages.v — premise (a) of C07_fold_partial discharged for EVERY
   instance of the Context model whose stages are defined as folds over the
   statement list:
     transform = fold of a per-statement step over the Transformer state,
     check     = fold of a per-statement step over the TypeChecker state,
     run       = fold of a per-statement step over the VM state that yields the
                 value of an expression statement and the prints, and does not
                 consult the name tables.
   Each fold stops at the first failing statement and keeps the state reached
   (the "dirty" state the Context then rolls back).  What this leaves as an
   assumption about numbat itself: that prefix_transformer.rs Transformer::transform,
   typechecker TypeChecker::check and bytecode_interpreter
   interpret_statements + Vm::run ARE such folds (they are `for statement in
   statements` loops; the VM continues at the old instruction pointer). *)
From Coq Require Import List Bool.
From NV Require Import Session.Resolver Session.ResolverProofs Session.Context Session.ContextProofs
     Session.BatchProofs.
Import ListNotations.

Section Fold.
  Variables (St In X Er : Type) (step : St -> In -> St * (X + Er)).

  Fixpoint fold_stage (st : St) (l : list In) : St * (list X + Er) :=
    match l with
    | [] => (st, inl [])
    | s :: r =>
        match step st s with
        | (st1, inr e) => (st1, inr e)
        | (st1, inl x) =>
            match fold_stage st1 r with
            | (st2, inl xs) => (st2, inl (x :: xs))
            | (st2, inr e) => (st2, inr e)
            end
        end
    end.

  Lemma fold_stage_app : forall l1 l2 st st1 x1 st2 x2,
      fold_stage st l1 = (st1, inl x1) -> fold_stage st1 l2 = (st2, inl x2) ->
      fold_stage st (l1 ++ l2) = (st2, inl (x1 ++ x2)).
  Proof.
    induction l1 as [|s r IH]; intros l2 st st1 x1 st2 x2 H1 H2.
    - cbn in H1. inversion H1; subst. exact H2.
    - cbn [app fold_stage] in *. destruct (step st s) as [sa [x|e]]; [|discriminate].
      destruct (fold_stage sa r) as [sb [xs|e]] eqn:E; [|discriminate]. inversion H1; subst.
      rewrite (IH _ _ _ _ _ _ E H2). reflexivity.
  Qed.
End Fold.

Section RunFold.
  Variables (C X2 V0 EC P : Type) (rstep : C -> X2 -> C * (option V0 + EC) * list P).

  Definition keep (v later : option V0) : option V0 :=
    match later with Some _ => later | None => v end.

  Fixpoint run_fold (c : C) (l : list X2) : C * (option V0 + EC) * list P :=
    match l with
    | [] => (c, inl None, [])
    | s :: r =>
        match rstep c s with
        | (c1, inr e, p) => (c1, inr e, p)
        | (c1, inl v, p) =>
            match run_fold c1 r with
            | (c2, inl v2, p2) => (c2, inl (keep v v2), p ++ p2)
            | (c2, inr e, p2) => (c2, inr e, p ++ p2)
            end
        end
    end.

  Lemma keep_assoc : forall a b c, keep (keep a b) c = keep a (keep b c).
  Proof. intros a b [x|]; cbn; [reflexivity|]. reflexivity. Qed.

  Lemma run_fold_app : forall l1 l2 c c1 v1 p1 c2 v2 p2,
      run_fold c l1 = (c1, inl v1, p1) -> run_fold c1 l2 = (c2, inl v2, p2) ->
      run_fold c (l1 ++ l2) = (c2, inl (keep v1 v2), p1 ++ p2).
  Proof.
    induction l1 as [|s r IH]; intros l2 c c1 v1 p1 c2 v2 p2 H1 H2.
    - cbn in H1. inversion H1; subst. cbn [app]. rewrite H2. now destruct v2.
    - cbn [app run_fold] in *. destruct (rstep c s) as [[ca [v|e]] pa]; [|discriminate].
      destruct (run_fold ca r) as [[cb [vb|e]] pb] eqn:E; [|discriminate]. inversion H1; subst.
      rewrite (IH _ _ _ _ _ _ _ _ E H2). rewrite keep_assoc, app_assoc. reflexivity.
  Qed.
End RunFold.

(* batched = incremental for every Context whose stages are such folds *)
Section FoldedContext.
  Variables (M : Type) (M_eqb : M -> M -> bool) (Code S : Type)
            (importer : M -> option Code) (parse : Code -> option (list (stmt M S)))
            (A B C X1 X2 EA EB EC V0 P : Type)
            (tstep : A -> S -> A * (X1 + EA))
            (cstep : B -> X1 -> B * (X2 + EB))
            (rstep : C -> X2 -> C * (option V0 + EC) * list P)
            (cat : Code -> Code -> Code).
  Hypothesis parse_cat :
    forall a b pa pb, parse a = Some pa -> parse b = Some pb -> parse (cat a b) = Some (pa ++ pb).

  Definition f_transform := fold_stage A S X1 EA tstep.
  Definition f_check := fold_stage B X1 X2 EB cstep.
  Definition f_run (c : C) (_ : A) (_ : B) (t : list X2) := run_fold C X2 V0 EC P rstep c t.

  Theorem folded_batched_equals_incremental :
    forall k fuel c a b cs c1 v1 p1 c2 v2 p2,
      interpret M M_eqb Code S importer parse A B C (list X1) (list X2) EA EB EC (option V0) P
                f_transform f_check f_run k fuel c a cs = (c1, Done M EA EB EC (option V0) P v1 p1) ->
      interpret M M_eqb Code S importer parse A B C (list X1) (list X2) EA EB EC (option V0) P
                f_transform f_check f_run k fuel c1 b cs = (c2, Done M EA EB EC (option V0) P v2 p2) ->
      exists c2',
        interpret M M_eqb Code S importer parse A B C (list X1) (list X2) EA EB EC (option V0) P
                  f_transform f_check f_run k fuel c (cat a b) cs
        = (c2', Done M EA EB EC (option V0) P (keep V0 v1 v2) (p1 ++ p2))
        /\ ctx_eqv M Code A B C c2' c2.
  Proof.
    apply (batched_equals_incremental M M_eqb Code S importer parse A B C X1 X2 EA EB EC (option V0) P
             f_transform f_check f_run cat (keep V0) parse_cat).
    - intros a s1 s2 a1 t1 a2 t2. apply fold_stage_app.
    - intros b s1 s2 b1 t1 b2 t2. apply fold_stage_app.
    - intros c a1 b1 a2 b2 t1 t2 c1 v1 p1 c2 v2 p2. unfold f_run. apply run_fold_app.
  Qed.
End FoldedContext.
