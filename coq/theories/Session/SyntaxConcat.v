(* Session/SyntaxConcat.v — C07 premise (b) on the syntax area's parser model
   (Syntax/Parser.v: statement-level parser for expressions, let, procedure calls and
   all definition forms; parse_loop):
   programs that are sequences of canonically printed well-formed items (statements and
   definitions) separated by `;`/newlines round-trip (the syntax area's
   roundtrip_program), hence joining two such programs with a newline concatenates the
   statement lists; and by the soundness theorem of the syntax area every single-line
   simple input that parses IS such a print, so the concatenation property holds for all
   of those inputs. *)
From Coq Require Import List NArith Bool Arith Lia.
From NV Require Import Syntax.Token Syntax.Ast Syntax.StmtAst Syntax.Parser Syntax.Grammar Syntax.StmtGrammar
     Syntax.ParserProofs Syntax.StmtProofs Syntax.SoundProofs.
Import ListNotations.

(* locality of the single-statement parser on printed items: whatever follows, as long as it
   starts like the end of a statement (and is not a where/and continuation), is left untouched *)
Theorem statement_ext : forall i rest,
    wf_item i = true -> srest rest = true ->
    statement (pr_item i ++ rest) = Ok (desugar_item i) rest.
Proof. exact item_ok. Qed.

Lemma pr_more_app : forall a b, pr_more (a ++ b) = pr_more a ++ pr_more b.
Proof.
  induction a as [|[s i] r IH]; intro b; [reflexivity|].
  cbn [app pr_more]. rewrite IH. now rewrite <- !app_assoc.
Qed.

Lemma repeat_shift : forall (x : token) a l, repeat x a ++ x :: l = x :: repeat x a ++ l.
Proof. induction a as [|a IH]; intro l; [reflexivity|]. cbn. now rewrite IH. Qed.

Definition trees (i : sitem) (more : list ((bool * nat) * sitem)) : list stmt :=
  desugar_item i :: map (fun p => desugar_item (snd p)) more.

Lemma pr_prog_join : forall lead1 i1 more1 trail1 lead2 i2 more2 trail2,
    pr_prog lead1 i1 more1 trail1 ++ TNewline :: pr_prog lead2 i2 more2 trail2
    = pr_prog lead1 i1 (more1 ++ ((false, trail1 + lead2), i2) :: more2) trail2.
Proof.
  intros. unfold pr_prog. rewrite pr_more_app. cbn [pr_more]. unfold pr_sep. cbn [fst snd].
  rewrite repeat_app. rewrite <- !app_assoc. cbn [app].
  do 3 f_equal. rewrite repeat_shift. cbn [app]. now rewrite <- !app_assoc.
Qed.

(* C07 premise (b) for canonical programs: joining with a newline concatenates *)
Theorem parse_concat_canonical : forall lead1 i1 more1 trail1 lead2 i2 more2 trail2,
    wf_item i1 = true -> wf_more more1 = true -> wf_item i2 = true -> wf_more more2 = true ->
    parse (pr_prog lead1 i1 more1 trail1) = Ok (trees i1 more1) []
    /\ parse (pr_prog lead2 i2 more2 trail2) = Ok (trees i2 more2) []
    /\ parse (pr_prog lead1 i1 more1 trail1 ++ TNewline :: pr_prog lead2 i2 more2 trail2)
       = Ok (trees i1 more1 ++ trees i2 more2) [].
Proof.
  intros lead1 i1 more1 trail1 lead2 i2 more2 trail2 W1 M1 W2 M2.
  split; [now apply roundtrip_program|]. split; [now apply roundtrip_program|].
  rewrite pr_prog_join. rewrite roundtrip_program.
  - unfold trees. rewrite map_app. cbn [map snd app]. reflexivity.
  - exact W1.
  - unfold wf_more in *. rewrite forallb_app. cbn [forallb snd]. now rewrite M1, W2, M2.
Qed.

(* an input that only consists of blank lines *)
Lemma parse_blank : forall n, parse (repeat TNewline n) = Ok [] [].
Proof.
  intro n. unfold parse. rewrite <- (app_nil_r (repeat TNewline n)). rewrite skip_repeat.
  reflexivity.
Qed.

(* ... and for ALL single-line simple inputs (no newline, trailing comma, `;`; not a definition
   keyword): every such token list that parses is a canonical print (parse_sound) *)
Theorem parse_concat_single_line : forall ta tb la lb,
    core ta = true -> no_separator ta = true -> simple_start ta = true ->
    core tb = true -> no_separator tb = true -> simple_start tb = true ->
    parse ta = Ok la [] -> parse tb = Ok lb [] ->
    parse (ta ++ TNewline :: tb) = Ok (la ++ lb) [].
Proof.
  intros ta tb la lb Ca Na Sa Cb Nb Sb Ha Hb.
  destruct (parse_sound ta la Ca Na Sa Ha) as [[-> ->]|(sa & Wa & <- & ->)];
  destruct (parse_sound tb lb Cb Nb Sb Hb) as [[-> ->]|(sb & Wb & <- & ->)].
  - exact (parse_blank 1).
  - change ([] ++ TNewline :: pr_stmt sb) with (pr_prog 1 (IStmt sb) [] 0 ++ []) || idtac.
    assert (E : [] ++ TNewline :: pr_stmt sb = pr_prog 1 (IStmt sb) [] 0).
    { unfold pr_prog. cbn. now rewrite app_nil_r. }
    rewrite E. rewrite roundtrip_program; [reflexivity | exact Wb | reflexivity].
  - assert (E : pr_stmt sa ++ [TNewline] = pr_prog 0 (IStmt sa) [] 1).
    { unfold pr_prog. cbn. reflexivity. }
    rewrite E. rewrite roundtrip_program; [reflexivity | exact Wa | reflexivity].
  - assert (E1 : pr_stmt sa = pr_prog 0 (IStmt sa) [] 0) by (unfold pr_prog; cbn; now rewrite app_nil_r).
    assert (E2 : pr_stmt sb = pr_prog 0 (IStmt sb) [] 0) by (unfold pr_prog; cbn; now rewrite app_nil_r).
    rewrite E1, E2.
    destruct (parse_concat_canonical 0 (IStmt sa) [] 0 0 (IStmt sb) [] 0 Wa eq_refl Wb eq_refl) as (_ & _ & H).
    exact H.
Qed.
