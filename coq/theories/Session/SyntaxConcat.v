(* Session/SyntaxConcat.v — C07 premise (b) on the syntax area's parser model
   (Syntax/Parser.v: statement = expression | let | procedure call; parse_loop):
   programs that are sequences of canonically printed well-formed statements
   separated by newlines parse to the sequence of their trees, hence joining two
   such programs with a newline concatenates the statement lists; and by the
   soundness theorem of the syntax area every single-line input of the fragment
   that parses IS such a print, so the concatenation property holds for all
   single-line inputs of the fragment. *)
From Coq Require Import List NArith Bool Arith Lia.
From NV Require Import Syntax.Token Syntax.Ast Syntax.Parser Syntax.Grammar Syntax.ParserProofs
     Syntax.FuelProofs Syntax.SoundProofs.
Import ListNotations.

(* a token that ends a statement *)
Definition ends_stmt (rest : list token) : bool :=
  match rest with
  | [] => true
  | TNewline :: _ | TSemicolon :: _ => true
  | _ => false
  end.

Lemma follow_ends_stmt : forall k t rest, ends_stmt rest = true -> follow k t rest = true.
Proof.
  intros k t [|tok r] H; [reflexivity|].
  destruct tok; try discriminate; unfold follow, blocks; cbn; now rewrite !andb_false_r.
Qed.

Lemma statement_ext : forall s rest,
    wf_stmt s = true -> ends_stmt rest = true ->
    statement (pr_stmt s ++ rest) = Ok (desugar_stmt s) rest
    /\ starts_other_statement (pr_stmt s ++ rest) = false.
Proof.
  intros [t|n t|k args] rest W E; simpl in W.
  - destruct (pr_first t W) as (tok & r & Ep & Fi & _). cbn [pr_stmt desugar_stmt].
    split.
    + rewrite Ep. cbn [app]. rewrite statement_first by exact Fi. unfold expression.
      change (expression_d (S (length (tok :: r ++ rest)))) with (L (length (tok :: r ++ rest)) 0).
      change (tok :: r ++ rest) with ((tok :: r) ++ rest). rewrite <- Ep.
      rewrite (expression_ok t rest W (follow_ends_stmt 0 t rest E)); [reflexivity|].
      rewrite app_length. lia.
    + rewrite Ep. destruct tok; try discriminate; reflexivity.
  - destruct (pr_first t W) as (tok & r & Ep & Fi & _). cbn [pr_stmt desugar_stmt app].
    split; [|reflexivity].
    cbn [statement parse_variable]. rewrite Ep. cbn [app]. rewrite skip_first by exact Fi. unfold expression.
    change (expression_d (S (length (tok :: r ++ rest)))) with (L (length (tok :: r ++ rest)) 0).
    change (tok :: r ++ rest) with ((tok :: r) ++ rest). rewrite <- Ep.
    rewrite (expression_ok t rest W (follow_ends_stmt 0 t rest E)); [reflexivity|].
    rewrite app_length. lia.
  - apply andb_prop in W. destruct W as [Hk Wa]. cbn [pr_stmt desugar_stmt app].
    split; [|destruct k; try discriminate; reflexivity].
    assert (St : statement (TKw k :: TLParen :: (pr_args args ++ [TRParen]) ++ rest)
                 = parse_procedure k (TLParen :: (pr_args args ++ [TRParen]) ++ rest))
      by (destruct k; try discriminate; reflexivity).
    rewrite St. cbn [parse_procedure]. rewrite <- app_assoc. cbn [app].
    rewrite arguments_ok; [reflexivity|].
    intros a Ha. assert (Waa : wf a = true) by (eapply forallb_forall in Wa; eauto).
    split; [exact Waa|]. intros rest' F.
    apply expression_ok; auto.
    clear - Ha. rewrite app_length. simpl.
    induction args as [|b r IH]; [contradiction|].
    rewrite pr_args_cons, app_length. destruct Ha as [->|Ha]; [lia|].
    specialize (IH Ha). destruct r as [|c r']; [contradiction|].
    rewrite pr_args_cons in IH. cbn [tailp]. cbn [length]. rewrite !app_length in *. simpl in *. lia.
Qed.

(* ---- programs: canonically printed statements separated by one newline ---- *)
Fixpoint pr_prog (l : list sst) : list token :=
  match l with
  | [] => []
  | [s] => pr_stmt s
  | s :: r => pr_stmt s ++ TNewline :: pr_prog r
  end.

Lemma pr_prog_cons : forall s r, r <> [] -> pr_prog (s :: r) = pr_stmt s ++ TNewline :: pr_prog r.
Proof. intros s [|x r] H; [now contradiction H | reflexivity]. Qed.

Lemma stmt_nonempty : forall ts st rest, statement ts = Ok st rest -> ts <> [].
Proof.
  intros ts st rest H E. subst. destruct (statement_good []) as [_ G].
  specialize (G st rest H). cbn in G. lia.
Qed.

Lemma pr_stmt_first : forall s, wf_stmt s = true ->
    exists tok r, pr_stmt s = tok :: r /\ forall x, skip_empty_lines (tok :: x) = tok :: x.
Proof.
  intros [t|n t|k args] W; simpl in W.
  - destruct (pr_first t W) as (tok & r & E & Fi & _). exists tok, r. split; [exact E|].
    intro x. now apply skip_first.
  - eexists; eexists; split; [reflexivity | intro x; reflexivity].
  - eexists; eexists; split; [reflexivity | intro x; reflexivity].
Qed.

Lemma parse_loop_prog : forall l n acc,
    Forall (fun s => wf_stmt s = true) l -> length l < n ->
    parse_loop n acc (pr_prog l) = Ok (acc ++ map desugar_stmt l) [].
Proof.
  induction l as [|s r IH]; intros n acc W Hn.
  - destruct n; [cbn in Hn; lia|]. cbn. now rewrite app_nil_r.
  - destruct n as [|n]; [cbn in Hn; lia|]. inversion W as [|? ? Ws Wr]; subst.
    destruct r as [|s2 r'].
    + (* last statement *)
      cbn [pr_prog]. destruct (statement_ext s [] Ws eq_refl) as [St So]. rewrite app_nil_r in St, So.
      destruct (pr_stmt s) as [|tok ts] eqn:Ep; [exfalso; eapply stmt_nonempty; eauto|].
      cbn [parse_loop]. rewrite So, St. reflexivity.
    + rewrite pr_prog_cons by discriminate.
      destruct (statement_ext s (TNewline :: pr_prog (s2 :: r')) Ws eq_refl) as [St So].
      destruct (pr_stmt s ++ TNewline :: pr_prog (s2 :: r')) as [|tok ts] eqn:Ep;
        [exfalso; eapply stmt_nonempty; eauto|].
      cbn [parse_loop]. rewrite So, St.
      assert (Sk : skip_empty_lines (TNewline :: pr_prog (s2 :: r')) = pr_prog (s2 :: r')).
      { cbn [skip_empty_lines]. inversion Wr as [|? ? W2 Wr']; subst.
        destruct (pr_stmt_first s2 W2) as (tok2 & r2 & E2 & Sk2).
        destruct r' as [|s3 r''].
        - cbn [pr_prog]. rewrite E2. apply Sk2.
        - rewrite pr_prog_cons by discriminate. rewrite E2. cbn [app]. apply Sk2. }
      rewrite Sk. rewrite (IH n (acc ++ [desugar_stmt s]) Wr); [|cbn in Hn |- *; lia].
      cbn [map]. now rewrite <- app_assoc.
Qed.

Lemma length_pr_prog : forall l, Forall (fun s => wf_stmt s = true) l -> length l <= length (pr_prog l).
Proof.
  induction l as [|s r IH]; intro W; [cbn; lia|]. inversion W as [|? ? Ws Wr]; subst.
  destruct (pr_stmt_first s Ws) as (tok & ts & E & _).
  destruct r as [|s2 r']; [cbn [pr_prog]; rewrite E; cbn; lia|].
  rewrite pr_prog_cons by discriminate. rewrite app_length, E. specialize (IH Wr). cbn in *. lia.
Qed.

(* round trip for whole programs *)
Theorem parse_prog : forall l,
    Forall (fun s => wf_stmt s = true) l -> parse (pr_prog l) = Ok (map desugar_stmt l) [].
Proof.
  intros l W. unfold parse.
  assert (Sk : skip_empty_lines (pr_prog l) = pr_prog l).
  { destruct l as [|s r]; [reflexivity|]. inversion W as [|? ? Ws Wr]; subst.
    destruct (pr_stmt_first s Ws) as (tok & ts & E & Sk).
    destruct r as [|s2 r']; [cbn [pr_prog]; rewrite E; apply Sk|].
    rewrite pr_prog_cons by discriminate. rewrite E. cbn [app]. apply Sk. }
  rewrite Sk. apply (parse_loop_prog l _ [] W). pose proof (length_pr_prog l W). lia.
Qed.

Lemma pr_prog_app : forall l1 l2, l1 <> [] -> l2 <> [] ->
    pr_prog (l1 ++ l2) = pr_prog l1 ++ TNewline :: pr_prog l2.
Proof.
  induction l1 as [|s r IH]; intros l2 H1 H2; [now contradiction H1|].
  destruct r as [|s2 r'].
  - cbn [app]. now rewrite pr_prog_cons.
  - change ((s :: s2 :: r') ++ l2) with (s :: ((s2 :: r') ++ l2)).
    rewrite pr_prog_cons by (destruct l2; discriminate).
    rewrite (pr_prog_cons s (s2 :: r')) by discriminate.
    rewrite IH by (try discriminate; exact H2). now rewrite <- app_assoc.
Qed.

(* C07 premise (b) for canonical programs: joining with a newline concatenates *)
Theorem parse_concat_canonical : forall l1 l2,
    Forall (fun s => wf_stmt s = true) l1 -> Forall (fun s => wf_stmt s = true) l2 ->
    parse (pr_prog l1 ++ TNewline :: pr_prog l2) = Ok (map desugar_stmt l1 ++ map desugar_stmt l2) [].
Proof.
  intros l1 l2 W1 W2.
  destruct l1 as [|a r1].
  - (* empty first part: the leading newline is skipped *)
    cbn [pr_prog app map]. unfold parse. cbn [skip_empty_lines].
    pose proof (parse_prog l2 W2) as H. unfold parse in H.
    assert (Sk : skip_empty_lines (pr_prog l2) = pr_prog l2).
    { destruct l2 as [|s r]; [reflexivity|]. inversion W2 as [|? ? Ws Wr]; subst.
      destruct (pr_stmt_first s Ws) as (tok & ts & E & Sk).
      destruct r as [|s2 r']; [cbn [pr_prog]; rewrite E; apply Sk|].
      rewrite pr_prog_cons by discriminate. rewrite E. cbn [app]. apply Sk. }
    rewrite Sk in *. apply (parse_loop_prog l2 _ [] W2). pose proof (length_pr_prog l2 W2). cbn. lia.
  - destruct l2 as [|b r2].
    + (* empty second part: a trailing newline *)
      change (pr_prog (@nil sst)) with (@nil token). change (map desugar_stmt []) with (@nil stmt).
      rewrite app_nil_r.
      assert (W : Forall (fun s => wf_stmt s = true) (a :: r1)) by exact W1.
      unfold parse.
      assert (Sk : skip_empty_lines (pr_prog (a :: r1) ++ [TNewline]) = pr_prog (a :: r1) ++ [TNewline]).
      { inversion W as [|? ? Ws Wr]; subst. destruct (pr_stmt_first a Ws) as (tok & ts & E & Sk).
        destruct r1 as [|s2 r']; [cbn [pr_prog]; rewrite E; apply Sk|].
        rewrite pr_prog_cons by discriminate. rewrite E. cbn [app]. apply Sk. }
      rewrite Sk.
      (* run the loop over the program followed by a final newline *)
      assert (G : forall l n acc, l <> [] -> Forall (fun s => wf_stmt s = true) l -> Datatypes.S (length l) < n ->
                   parse_loop n acc (pr_prog l ++ [TNewline]) = Ok (acc ++ map desugar_stmt l) []).
      { induction l as [|s r IH]; intros n acc Hne Wl Hn; [now contradiction Hne|].
        destruct n as [|n]; [lia|]. inversion Wl as [|? ? Ws Wr]; subst.
        destruct r as [|s2 r'].
        - cbn [pr_prog]. destruct (statement_ext s [TNewline] Ws eq_refl) as [St So].
          destruct (pr_stmt s ++ [TNewline]) as [|tok ts] eqn:Ep; [exfalso; eapply stmt_nonempty; eauto|].
          cbn [parse_loop]. rewrite So, St. cbn [skip_empty_lines].
          destruct n as [|n]; [cbn in Hn; lia|]. reflexivity.
        - rewrite pr_prog_cons by discriminate. rewrite <- app_assoc. cbn [app].
          destruct (statement_ext s (TNewline :: pr_prog (s2 :: r') ++ [TNewline]) Ws eq_refl) as [St So].
          destruct (pr_stmt s ++ TNewline :: pr_prog (s2 :: r') ++ [TNewline]) as [|tok ts] eqn:Ep;
            [exfalso; eapply stmt_nonempty; eauto|].
          cbn [parse_loop]. rewrite So, St.
          assert (Sk2 : skip_empty_lines (TNewline :: pr_prog (s2 :: r') ++ [TNewline])
                        = pr_prog (s2 :: r') ++ [TNewline]).
          { cbn [skip_empty_lines]. inversion Wr as [|? ? W2' Wr']; subst.
            destruct (pr_stmt_first s2 W2') as (tok2 & t2 & E2 & Sk2).
            destruct r' as [|s3 r'']; [cbn [pr_prog]; rewrite E2; apply Sk2|].
            rewrite pr_prog_cons by discriminate. rewrite E2. cbn [app]. apply Sk2. }
          rewrite Sk2. rewrite (IH n (acc ++ [desugar_stmt s])); [|discriminate|exact Wr|cbn in Hn |- *; lia].
          cbn [map]. now rewrite <- app_assoc. }
      apply (G (a :: r1) _ []); [discriminate | exact W|].
      pose proof (length_pr_prog (a :: r1) W). rewrite app_length. cbn in *. lia.
    + rewrite <- pr_prog_app by discriminate. rewrite <- map_app. apply parse_prog.
      apply Forall_app. split; assumption.
Qed.

(* ... and for ALL single-line inputs of the fragment (every token list without
   newline, trailing comma and `;` that parses is a canonical print: parse_sound) *)
Theorem parse_concat_single_line : forall ta tb la lb,
    core ta = true -> no_separator ta = true -> core tb = true -> no_separator tb = true ->
    parse ta = Ok la [] -> parse tb = Ok lb [] ->
    parse (ta ++ TNewline :: tb) = Ok (la ++ lb) [].
Proof.
  intros ta tb la lb Ca Na Cb Nb Ha Hb.
  destruct (parse_sound ta la Ca Na Ha) as [[-> ->]|(sa & Wa & <- & ->)];
  destruct (parse_sound tb lb Cb Nb Hb) as [[-> ->]|(sb & Wb & <- & ->)].
  - exact (parse_concat_canonical [] [] (Forall_nil _) (Forall_nil _)).
  - exact (parse_concat_canonical [] [sb] (Forall_nil _) (Forall_cons _ Wb (Forall_nil _))).
  - exact (parse_concat_canonical [sa] [] (Forall_cons _ Wa (Forall_nil _)) (Forall_nil _)).
  - exact (parse_concat_canonical [sa] [sb] (Forall_cons _ Wa (Forall_nil _)) (Forall_cons _ Wb (Forall_nil _))).
Qed.
