(* Session/CliProofs.v — C22 for the model of Cli::run (Session/Cli.v). *)
From Coq Require Import List Bool String.
From NV Require Import Session.Resolver Session.ResolverProofs Session.Context
     Session.ContextProofs.
From NV Require Import Session.Cli.
Import ListNotations.

Section CliProofs.
  Variable M : Type.
  Variable M_eqb : M -> M -> bool.
  Variable Code : Type.
  Variable S : Type.
  Variable importer : M -> option Code.
  Variable parse : Code -> option (list (stmt M S)).
  Variables A B C T1 T2 EA EB EC V P : Type.
  Variable transform : A -> list S -> A * (T1 + EA).
  Variable check : B -> T1 -> B * (T2 + EB).
  Variable run : C -> A -> B -> T2 -> C * (V + EC) * list P.
  Variable k : skeleton.
  Variable fuel : nat.
  Variable join_lines : list Code -> Code.
  Variable Out : Type.
  Variable show_print : P -> Out.
  Variable show_value : V -> list Out.
  Variable show_diag : failure M EA EB EC -> Out.
  Variable stopped : Out.
  Variable prelude_code : Code.
  Variables msg_prelude msg_init stopped_repl : Out.
  Variables is_blank is_quit : Code -> bool.
  Variable command : Code -> option (cmd Out).
  Variable reset_ctx : Context.ctx M Code A B C.

  Notation ctx := (ctx M Code A B C).
  Notation outcome := (outcome M EA EB EC V P).
  Notation interpret := (interpret M M_eqb Code S importer parse A B C T1 T2 EA EB EC V P
                                   transform check run k fuel).
  Notation session := (session M M_eqb Code S importer parse A B C T1 T2 EA EB EC V P
                               transform check run k).
  Notation run_inputs := (run_inputs M M_eqb Code S importer parse A B C T1 T2 EA EB EC V P
                                     transform check run k fuel Out show_print show_value show_diag stopped).
  Notation cli := (cli M M_eqb Code S importer parse A B C T1 T2 EA EB EC V P
                       transform check run k fuel join_lines Out show_print show_value show_diag stopped).
  Notation is_fail := (is_fail M EA EB EC V P).

  (* the same inputs as a library session (every input evaluated, also after a failure) *)
  Definition as_session (l : list (Code * code_source M)) : list (input M Code) :=
    map (fun x => (fuel, fst x, snd x)) l.

  Definition all_succeed (os : list outcome) : bool := forallb (fun o => negb (is_fail o)) os.

  (* what parse_and_evaluate writes to stdout for a successful input *)
  Definition render (o : outcome) : list Out :=
    match o with
    | Done _ _ _ _ _ _ v prints => map show_print prints ++ show_value v
    | Fail _ _ _ _ _ _ _ _ => []
    end.

  Fixpoint done_prefix (os : list outcome) : list outcome :=
    match os with
    | [] => []
    | o :: r => if is_fail o then [] else o :: done_prefix r
    end.

  Fixpoint first_failure (os : list outcome) : option (failure M EA EB EC) :=
    match os with
    | [] => None
    | Done _ _ _ _ _ _ _ _ :: r => first_failure r
    | Fail _ _ _ _ _ _ f _ :: _ => Some f
    end.

  Lemma run_inputs_spec :
    forall l c out,
      let os := snd (session c (as_session l)) in
      let r := run_inputs c l out in
      (exit_status Out r = 0 <-> all_succeed os = true)
      /\ (exit_status Out r = 0 \/ exit_status Out r = 1)
      /\ stdout Out r = out ++ flat_map render (done_prefix os)
      /\ stderr Out r = match first_failure os with
                        | None => []
                        | Some f => [show_diag f; stopped]
                        end.
  Proof.
    induction l as [|[code cs] rest IH]; intros c out.
    - cbn. rewrite app_nil_r. repeat split; auto.
    - change (as_session ((code, cs) :: rest)) with ((fuel, code, cs) :: as_session rest).
      cbn [Context.session Cli.run_inputs].
      destruct (interpret c code cs) as [c1 o] eqn:E.
      specialize (IH c1).
      destruct (session c1 (as_session rest)) as [c2 os] eqn:Es.
      cbn [snd] in *.
      destruct o as [v prints | f prints].
      + specialize (IH (out ++ map show_print prints ++ show_value v)).
        cbn [fst snd] in IH. destruct IH as (I1 & I2 & I3 & I4).
        cbn [snd all_succeed forallb Context.is_fail negb andb done_prefix first_failure flat_map render].
        split; [exact I1|]. split; [exact I2|]. split; [|exact I4].
        rewrite I3. now rewrite <- !app_assoc.
      + cbn [snd all_succeed forallb Context.is_fail negb andb done_prefix first_failure flat_map
             exit_status stdout stderr].
        rewrite app_nil_r. split; [split; discriminate|]. split; [now right|]. split; reflexivity.
  Qed.

  (* C22_exit *)
  Theorem cli_exit_iff_all_succeed :
    forall c file exprs,
      exit_status Out (cli c file exprs) = 0
      <-> all_succeed (snd (session c (as_session (code_and_source M Code join_lines file exprs)))) = true.
  Proof. intros. unfold Cli.cli. apply (run_inputs_spec _ c []). Qed.

  Theorem cli_exit_0_or_1 :
    forall c file exprs,
      exit_status Out (cli c file exprs) = 0 \/ exit_status Out (cli c file exprs) = 1.
  Proof. intros. unfold Cli.cli. apply (run_inputs_spec _ c []). Qed.

  (* C22_streams *)
  Theorem cli_streams :
    forall c file exprs,
      let os := snd (session c (as_session (code_and_source M Code join_lines file exprs))) in
      stdout Out (cli c file exprs) = flat_map render (done_prefix os)
      /\ stderr Out (cli c file exprs) = match first_failure os with
                                         | None => []
                                         | Some f => [show_diag f; stopped]
                                         end
      /\ (stderr Out (cli c file exprs) = [] <-> exit_status Out (cli c file exprs) = 0).
  Proof.
    intros c file exprs os. unfold Cli.cli.
    destruct (run_inputs_spec (code_and_source M Code join_lines file exprs) c []) as (H1 & H2 & H3 & H4).
    fold os in H1, H3, H4. cbn [app] in H3. repeat split; try assumption.
    - intro E. apply H1. rewrite H4 in E.
      clear - E. induction os as [|[v p|f p] r IH]; cbn in *; [reflexivity | now apply IH | discriminate].
    - intro E. apply H1 in E. rewrite H4.
      clear - E. induction os as [|[v p|f p] r IH]; cbn in *; [reflexivity | now apply IH | discriminate].
  Qed.

  (* C22_e_is_file: -e e1 .. -e en behaves like a file containing the same lines *)
  Lemma run_inputs_cs :
    forall code cs cs' c out,
      run_inputs c [(code, cs)] out = run_inputs c [(code, cs')] out.
  Proof.
    intros code cs cs' c out. cbn [Cli.run_inputs].
    destruct (interpret_eqv_cs M M_eqb Code S importer parse A B C T1 T2 EA EB EC V P
                transform check run k fuel c c code cs cs'
                (ctx_eqv_refl M Code A B C c)) as [Eo _].
    destruct (interpret c code cs) as [c1 o]. destruct (interpret c code cs') as [c1' o'].
    cbn [snd] in Eo. subst o'. destruct o; reflexivity.
  Qed.

  Theorem cli_e_is_file :
    forall c exprs,
      cli c None (Some exprs) = cli c (Some (join_lines exprs)) None.
  Proof.
    intros c exprs. unfold Cli.cli, Cli.code_and_source. cbn [app].
    apply run_inputs_cs.
  Qed.

  (* ------------------------------------------------------------------ *)
  (* Phase 2: arguments (prelude / init / inspect) and the non-interactive REPL *)
  Notation repl := (repl M M_eqb Code S importer parse A B C T1 T2 EA EB EC V P
                         transform check run k fuel Out show_print show_value show_diag stopped_repl is_blank is_quit).
  Notation run_inputs_k := (run_inputs_k M M_eqb Code S importer parse A B C T1 T2 EA EB EC V P
                                         transform check run k fuel Out show_print show_value show_diag stopped).
  Notation cli_full := (cli_full M M_eqb Code S importer parse A B C T1 T2 EA EB EC V P
                                 transform check run k fuel join_lines Out show_print show_value show_diag stopped
                                 prelude_code msg_prelude msg_init stopped_repl is_blank is_quit).
  Notation stage_inputs := (stage_inputs M Code join_lines prelude_code is_blank is_quit).
  Notation effective_lines := (effective_lines Code is_blank is_quit).

  (* two runs agree on what the property observes: exit status and stdout; and each keeps
     "stderr is empty iff the status is 0" *)
  Definition agree (r r' : cli_result Out) : Prop :=
    exit_status Out r = exit_status Out r' /\ stdout Out r = stdout Out r'
    /\ (stderr Out r = [] <-> exit_status Out r = 0).

  Lemma repl_as_inputs : forall lines c out,
      agree (repl c lines out) (run_inputs c (map (fun l => (l, CSText)) (effective_lines lines)) out).
  Proof.
    induction lines as [|l rest IH]; intros c out; cbn [Cli.repl Cli.effective_lines].
    - cbn. repeat split; auto.
    - destruct (is_blank l); [apply IH|]. destruct (is_quit l); [cbn; repeat split; auto|].
      cbn [map Cli.run_inputs]. destruct (interpret c l CSText) as [c1 [v pr|f pr]]; [apply IH|].
      cbn. repeat split; auto; discriminate.
  Qed.

  Lemma run_inputs_k_agree : forall l l2 c out (kk : ctx -> list Out -> cli_result Out),
      (forall c' out', agree (kk c' out') (run_inputs c' l2 out')) ->
      agree (run_inputs_k c l out kk) (run_inputs c (l ++ l2) out).
  Proof.
    induction l as [|[code cs] rest IH]; intros l2 c out kk Hk; cbn [Cli.run_inputs_k app].
    - apply Hk.
    - cbn [Cli.run_inputs]. destruct (interpret c code cs) as [c1 [v pr|f pr]]; [now apply IH|].
      cbn. repeat split; auto; discriminate.
  Qed.

  Lemma agree_nil : forall c out, agree (mkCli Out 0 out []) (run_inputs c [] out).
  Proof. intros. cbn. repeat split; auto. Qed.

  (* the whole run is: evaluate the stage inputs in order, stop at the first failure *)
  Theorem cli_full_as_inputs :
    forall cfg c init_file file exprs stdin,
      agree (cli_full cfg c init_file file exprs stdin)
            (run_inputs c (stage_inputs cfg init_file file exprs stdin) []).
  Proof.
    intros cfg c init_file file exprs stdin. unfold Cli.cli_full, Cli.stage_inputs.
    set (rest3 := if (is_none file && is_none exprs) || inspect cfg
                  then map (fun l => (l, CSText)) (effective_lines stdin) else []).
    assert (H3 : forall c3 out3,
               agree (if (is_none file && is_none exprs) || inspect cfg
                      then repl c3 stdin out3 else mkCli Out 0 out3 [])
                     (run_inputs c3 rest3 out3)).
    { intros c3 out3. unfold rest3. destruct ((is_none file && is_none exprs) || inspect cfg);
        [apply repl_as_inputs | apply agree_nil]. }
    assert (H2 : forall c2 out2,
               agree (run_inputs_k c2 (code_and_source M Code join_lines file exprs) out2
                        (fun c3 out3 => if (is_none file && is_none exprs) || inspect cfg
                                        then repl c3 stdin out3 else mkCli Out 0 out3 []))
                     (run_inputs c2 (code_and_source M Code join_lines file exprs ++ rest3) out2)).
    { intros. apply run_inputs_k_agree. exact H3. }
    assert (H1 : forall c1 out1,
               agree (match (if load_user_init cfg then init_file else None) with
                      | None => run_inputs_k c1 (code_and_source M Code join_lines file exprs) out1
                                  (fun c3 out3 => if (is_none file && is_none exprs) || inspect cfg
                                                  then repl c3 stdin out3 else mkCli Out 0 out3 [])
                      | Some code =>
                          match interpret c1 code CSFile with
                          | (c2, Done _ _ _ _ _ _ v prints) =>
                              run_inputs_k c2 (code_and_source M Code join_lines file exprs)
                                (out1 ++ map show_print prints ++ show_value v)
                                (fun c3 out3 => if (is_none file && is_none exprs) || inspect cfg
                                                then repl c3 stdin out3 else mkCli Out 0 out3 [])
                          | (_, Fail _ _ _ _ _ _ f _) => mkCli Out 1 out1 [show_diag f; msg_init]
                          end
                      end)
                     (run_inputs c1 ((match (if load_user_init cfg then init_file else None) with
                                      | Some code => [(code, CSFile)] | None => [] end)
                                       ++ code_and_source M Code join_lines file exprs ++ rest3) out1)).
    { intros c1 out1. destruct (if load_user_init cfg then init_file else None) as [code|]; [|apply H2].
      cbn [app Cli.run_inputs]. destruct (interpret c1 code CSFile) as [c2 [v pr|f pr]]; [apply H2|].
      cbn. repeat split; auto; discriminate. }
    destruct (load_prelude cfg); [|apply H1].
    cbn [app Cli.run_inputs]. destruct (interpret c prelude_code CSInternal) as [c1 [v pr|f pr]].
    - cbn [app]. apply H1.
    - cbn. repeat split; auto; discriminate.
  Qed.

  (* --no-prelude implies --no-init; and without -i the REPL (stdin) is not consulted
     when a file or -e is given *)
  Theorem no_prelude_implies_no_init :
    forall no_init insp c init_file file exprs stdin,
      cli_full (config_of_args true no_init insp) c init_file file exprs stdin
      = cli_full (config_of_args true true insp) c None file exprs stdin.
  Proof. reflexivity. Qed.

  Theorem stdin_ignored_without_inspect :
    forall no_prelude no_init c init_file file exprs stdin,
      (is_none file && is_none exprs = false)%bool ->
      cli_full (config_of_args no_prelude no_init false) c init_file file exprs stdin
      = cli_full (config_of_args no_prelude no_init false) c init_file file exprs [].
  Proof.
    intros no_prelude no_init c init_file file exprs stdin H.
    unfold Cli.cli_full. cbn [inspect config_of_args]. rewrite H. reflexivity.
  Qed.

  (* ------------------------------------------------------------------ *)
  (* Phase 4: REPL commands *)
  Notation repl_cmd := (repl_cmd M M_eqb Code S importer parse A B C T1 T2 EA EB EC V P
                                 transform check run k fuel Out show_print show_value show_diag stopped_repl
                                 is_blank command reset_ctx).
  Notation without_failing_commands := (without_failing_commands Code Out is_blank command).

  (* with no command other than quit/exit on stdin the richer REPL is the one of C22_args *)
  Theorem repl_cmd_plain :
    (forall l, is_quit l = true <-> command l = Some (CQuit Out)) ->
    forall lines c out,
      (forall l, In l lines -> command l = None \/ command l = Some (CQuit Out)) ->
      repl_cmd c lines out [] = repl c lines out.
  Proof.
    intros Hq lines. induction lines as [|l rest IH]; intros c out Hl; [reflexivity|].
    cbn [Cli.repl_cmd Cli.repl]. destruct (is_blank l); [apply IH; intros; apply Hl; now right|].
    destruct (Hl l (or_introl eq_refl)) as [Hc|Hc]; rewrite Hc.
    - assert (Hnq : is_quit l = false).
      { destruct (is_quit l) eqn:E; [|reflexivity]. apply Hq in E. congruence. }
      rewrite Hnq. destruct (interpret c l CSText) as [c1 [v pr|f pr]]; [|reflexivity].
      apply IH. intros; apply Hl; now right.
    - apply Hq in Hc. rewrite Hc. reflexivity.
  Qed.

  Theorem repl_cmd_exit_0_or_1 : forall lines c out err,
      exit_status Out (repl_cmd c lines out err) = 0 \/ exit_status Out (repl_cmd c lines out err) = 1.
  Proof.
    induction lines as [|l rest IH]; intros c out err; cbn [Cli.repl_cmd]; [now left|].
    destruct (is_blank l); [apply IH|].
    destruct (command l) as [[| |o|d]|]; try apply IH; [now left|].
    destruct (interpret c l CSText) as [c1 [v pr|f pr]]; [apply IH | now right].
  Qed.

  (* a failure is always reported on stderr; and stderr only ever grows *)
  Theorem repl_cmd_failure_on_stderr : forall lines c out err,
      exit_status Out (repl_cmd c lines out err) = 1 -> stderr Out (repl_cmd c lines out err) <> [].
  Proof.
    induction lines as [|l rest IH]; intros c out err; cbn [Cli.repl_cmd]; [discriminate|].
    destruct (is_blank l); [apply IH|].
    destruct (command l) as [[| |o|d]|]; try apply IH; [discriminate|].
    destruct (interpret c l CSText) as [c1 [v pr|f pr]]; [apply IH|].
    intros _. cbn. destruct err; discriminate.
  Qed.

  (* a command with wrong arguments changes neither the exit status nor stdout *)
  Theorem failing_commands_do_not_matter : forall lines c out err,
      exists err',
        exit_status Out (repl_cmd c lines out err)
        = exit_status Out (repl_cmd c (without_failing_commands lines) out err')
        /\ stdout Out (repl_cmd c lines out err)
           = stdout Out (repl_cmd c (without_failing_commands lines) out err').
  Proof.
    induction lines as [|l rest IH]; intros c out err; cbn [Cli.repl_cmd Cli.without_failing_commands].
    - exists err. split; reflexivity.
    - destruct (is_blank l) eqn:Eb.
      + destruct (command l) as [[| |o|d]|]; cbn [Cli.repl_cmd]; rewrite ?Eb; apply IH.
      + destruct (command l) as [[| |o|d]|] eqn:Ec; cbn [Cli.repl_cmd]; rewrite ?Eb, ?Ec.
        * exists err. split; reflexivity.
        * apply IH.
        * apply IH.
        * apply IH.
        * destruct (interpret c l CSText) as [c1 [v pr|f pr]]; [apply IH|].
          exists err. split; reflexivity.
  Qed.

  (* reset: the rest of the session runs on the re-initialised context *)
  Theorem repl_cmd_reset : forall l rest c out err,
      is_blank l = false -> command l = Some (CReset Out) ->
      repl_cmd c (l :: rest) out err = repl_cmd reset_ctx rest out err.
  Proof. intros l rest c out err Hb Hc. cbn [Cli.repl_cmd]. now rewrite Hb, Hc. Qed.

End CliProofs.
