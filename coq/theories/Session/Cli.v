(* Session/Cli.v — executable model of numbat-cli/src/main.rs Cli::run /
   parse_and_evaluate / main for non-interactive use (a file and/or -e
   expressions, ExecutionMode::Normal, no REPL).  No proofs here.

   Cli::run builds code_and_source = [file content (CodeSource::File)] ++
   [the -e expressions joined by "\n" (CodeSource::Text)] and evaluates them in
   this order on one Context.  parse_and_evaluate buffers the prints; on success
   it writes the buffered prints and then the result to stdout and continues; on
   any error it writes the diagnostic to stderr, DROPS the buffered prints, and
   (Normal mode) breaks: run bails out with "Interpreter stopped", main prints
   that to stderr and exits with status 1.  Exit status 0 otherwise.
   The interpreter is the Session/Context.v model with abstract stages.
   Not modelled: --pretty-print, config files, the prelude/init loading done
   before (an error there also exits 1), OS-level failures of reading the file. *)
From Coq Require Import List Bool String.
From NV Require Import Session.Resolver Session.Context.
Import ListNotations.

Section Cli.
  Variable M : Type.
  Variable M_eqb : M -> M -> bool.
  Variable Code : Type.
  Variable S : Type.
  Variable importer : M -> option Code.
  Variable parse : Code -> option (list (stmt M S)).
  Variables A B C T1 T2 EA EB EC V P : Type.
  Variable transform : A -> list S -> A * (T1 + EA).
  Variable check : B -> T1 -> B * (T2 + EB).
  Variable run : C -> A -> B -> T2 -> C * (V + EC) * list P.
  Variable k : skeleton.
  Variable fuel : nat.

  Variable join_lines : list Code -> Code.        (* expressions.iter().join("\n") *)
  Variable Out : Type.                            (* a chunk of text on a stream *)
  Variable show_print : P -> Out.                 (* println!("{}", ansi_format(s, false)) *)
  Variable show_value : V -> list Out.            (* print!("{}", result_markup): nothing for Continue *)
  Variable show_diag : failure M EA EB EC -> Out. (* print_diagnostic *)
  Variable stopped : Out.                         (* "Interpreter stopped" *)

  Notation ctx := (ctx M Code A B C).
  Notation interpret := (interpret M M_eqb Code S importer parse A B C T1 T2 EA EB EC V P
                                   transform check run k fuel).

  Record cli_result : Type := mkCli { exit_status : nat; stdout : list Out; stderr : list Out }.

  (* the list Cli::run iterates over *)
  Definition code_and_source (file : option Code) (exprs : option (list Code))
    : list (Code * code_source M) :=
    (match file with Some f => [(f, CSFile)] | None => [] end)
      ++ (match exprs with Some es => [(join_lines es, CSText)] | None => [] end).

  (* the `for (code, code_source) in code_and_source` loop with parse_and_evaluate inlined *)
  Fixpoint run_inputs (c : ctx) (inputs : list (Code * code_source M)) (out : list Out) : cli_result :=
    match inputs with
    | [] => mkCli 0 out []
    | (code, cs) :: rest =>
        match interpret c code cs with
        | (c1, Done _ _ _ _ _ _ v prints) =>
            run_inputs c1 rest (out ++ map show_print prints ++ show_value v)
        | (_, Fail _ _ _ _ _ _ f _) => mkCli 1 out [show_diag f; stopped]
        end
    end.

  Definition cli (c : ctx) (file : option Code) (exprs : option (list Code)) : cli_result :=
    run_inputs c (code_and_source file exprs) [].

End Cli.
