(* Session/Cli.v — executable model of numbat-cli/src/main.rs Cli::run /
   parse_and_evaluate / main for non-interactive use (a file and/or -e
   expressions, ExecutionMode::Normal, no REPL).  No proofs here.

   Cli::run builds code_and_source = [file content (CodeSource::File)] ++
   [the -e expressions joined by "\n" (CodeSource::Text)] and evaluates them in
   this order on one Context.  parse_and_evaluate buffers the prints; on success
   it writes the buffered prints and then the result to stdout and continues; on
   any error it writes the diagnostic to stderr, DROPS the buffered prints, and
   (Normal mode) breaks: run bails out with "Interpreter stopped", main prints
   that to stderr and exits with status 1.  Exit status 0 otherwise.
   The interpreter is the Session/Context.v model with abstract stages.
   Not modelled: --pretty-print, config files, the prelude/init loading done
   before (an error there also exits 1), OS-level failures of reading the file. *)
From Coq Require Import List Bool String.
From NV Require Import Session.Resolver Session.Context.
Import ListNotations.

Section Cli.
  Variable M : Type.
  Variable M_eqb : M -> M -> bool.
  Variable Code : Type.
  Variable S : Type.
  Variable importer : M -> option Code.
  Variable parse : Code -> option (list (stmt M S)).
  Variables A B C T1 T2 EA EB EC V P : Type.
  Variable transform : A -> list S -> A * (T1 + EA).
  Variable check : B -> T1 -> B * (T2 + EB).
  Variable run : C -> A -> B -> T2 -> C * (V + EC) * list P.
  Variable k : skeleton.
  Variable fuel : nat.

  Variable join_lines : list Code -> Code.        (* expressions.iter().join("\n") *)
  Variable Out : Type.                            (* a chunk of text on a stream *)
  Variable show_print : P -> Out.                 (* println!("{}", ansi_format(s, false)) *)
  Variable show_value : V -> list Out.            (* print!("{}", result_markup): nothing for Continue *)
  Variable show_diag : failure M EA EB EC -> Out. (* print_diagnostic *)
  Variable stopped : Out.                         (* "Interpreter stopped" *)

  Notation ctx := (ctx M Code A B C).
  Notation interpret := (interpret M M_eqb Code S importer parse A B C T1 T2 EA EB EC V P
                                   transform check run k fuel).

  Record cli_result : Type := mkCli { exit_status : nat; stdout : list Out; stderr : list Out }.

  (* the list Cli::run iterates over *)
  Definition code_and_source (file : option Code) (exprs : option (list Code))
    : list (Code * code_source M) :=
    (match file with Some f => [(f, CSFile)] | None => [] end)
      ++ (match exprs with Some es => [(join_lines es, CSText)] | None => [] end).

  (* the `for (code, code_source) in code_and_source` loop with parse_and_evaluate inlined *)
  Fixpoint run_inputs (c : ctx) (inputs : list (Code * code_source M)) (out : list Out) : cli_result :=
    match inputs with
    | [] => mkCli 0 out []
    | (code, cs) :: rest =>
        match interpret c code cs with
        | (c1, Done _ _ _ _ _ _ v prints) =>
            run_inputs c1 rest (out ++ map show_print prints ++ show_value v)
        | (_, Fail _ _ _ _ _ _ f _) => mkCli 1 out [show_diag f; stopped]
        end
    end.

  Definition cli (c : ctx) (file : option Code) (exprs : option (list Code)) : cli_result :=
    run_inputs c (code_and_source file exprs) [].

  (* ------------------------------------------------------------------ *)
  (* Phase 2: the arguments that decide WHAT is evaluated (Cli::new, initialize_context,
     enter_repl), and the non-interactive REPL that follows with --inspect-interactively or
     when neither a file nor -e is given (stdin is not a terminal: ExecutionMode::Normal). *)
  Record config : Type := mkCfg { load_prelude : bool; load_user_init : bool; inspect : bool }.

  (* Cli::new: config.load_prelude &= !no_prelude; config.load_user_init &= !(no_prelude || no_init) *)
  Definition config_of_args (no_prelude no_init inspect_interactively : bool) : config :=
    mkCfg (negb no_prelude) (negb (no_prelude || no_init)) inspect_interactively.

  Variable prelude_code : Code.                  (* "use prelude", CodeSource::Internal *)
  Variable msg_prelude msg_init stopped_repl : Out.
  Variable is_blank is_quit : Code -> bool.      (* line.trim().is_empty(); the `quit` / `exit` commands *)

  Definition is_none {X} (o : option X) : bool := match o with None => true | Some _ => false end.

  (* Cli::repl_loop on a non-terminal stdin; REPL commands other than quit/exit are outside the model *)
  Fixpoint repl (c : ctx) (lines : list Code) (out : list Out) : cli_result :=
    match lines with
    | [] => mkCli 0 out []                                   (* ReadlineError::Eof *)
    | l :: rest =>
        if is_blank l then repl c rest out
        else if is_quit l then mkCli 0 out []
        else match interpret c l CSText with
             | (c1, Done _ _ _ _ _ _ v prints) => repl c1 rest (out ++ map show_print prints ++ show_value v)
             | (_, Fail _ _ _ _ _ _ f _) => mkCli 1 out [show_diag f; stopped_repl]
             end
    end.

  (* the input loop followed by whatever comes next (the REPL or nothing) *)
  Fixpoint run_inputs_k (c : ctx) (inputs : list (Code * code_source M)) (out : list Out)
           (k : ctx -> list Out -> cli_result) : cli_result :=
    match inputs with
    | [] => k c out
    | (code, cs) :: rest =>
        match interpret c code cs with
        | (c1, Done _ _ _ _ _ _ v prints) =>
            run_inputs_k c1 rest (out ++ map show_print prints ++ show_value v) k
        | (_, Fail _ _ _ _ _ _ f _) => mkCli 1 out [show_diag f; stopped]
        end
    end.

  (* Cli::run with initialize_context *)
  Definition cli_full (cfg : config) (c : ctx) (init_file : option Code)
             (file : option Code) (exprs : option (list Code)) (stdin : list Code) : cli_result :=
    let after_init (c2 : ctx) (out : list Out) : cli_result :=
        let enter_repl := (is_none file && is_none exprs) || inspect cfg in
        run_inputs_k c2 (code_and_source file exprs) out
                     (fun c3 out3 => if enter_repl then repl c3 stdin out3 else mkCli 0 out3 []) in
    let after_prelude (c1 : ctx) (out : list Out) : cli_result :=
        match (if load_user_init cfg then init_file else None) with
        | None => after_init c1 out
        | Some code =>
            match interpret c1 code CSFile with
            | (c2, Done _ _ _ _ _ _ v prints) => after_init c2 (out ++ map show_print prints ++ show_value v)
            | (_, Fail _ _ _ _ _ _ f _) => mkCli 1 out [show_diag f; msg_init]
            end
        end in
    if load_prelude cfg then
      match interpret c prelude_code CSInternal with
      | (c1, Done _ _ _ _ _ _ v prints) => after_prelude c1 (map show_print prints ++ show_value v)
      | (_, Fail _ _ _ _ _ _ f _) => mkCli 1 [] [show_diag f; msg_prelude]
      end
    else after_prelude c [].

  (* everything cli_full evaluates, in order, as one list of inputs *)
  Fixpoint effective_lines (lines : list Code) : list Code :=
    match lines with
    | [] => []
    | l :: rest => if is_blank l then effective_lines rest
                   else if is_quit l then [] else l :: effective_lines rest
    end.

  Definition stage_inputs (cfg : config) (init_file : option Code) (file : option Code)
             (exprs : option (list Code)) (stdin : list Code) : list (Code * code_source M) :=
    (if load_prelude cfg then [(prelude_code, CSInternal)] else [])
      ++ (match (if load_user_init cfg then init_file else None) with
          | Some code => [(code, CSFile)] | None => [] end)
      ++ code_and_source file exprs
      ++ (if (is_none file && is_none exprs) || inspect cfg
          then map (fun l => (l, CSText)) (effective_lines stdin) else []).

  (* ------------------------------------------------------------------ *)
  (* Phase 4: the REPL commands (numbat/src/command.rs CommandRunner::try_run_command as used by
     Cli::repl_loop).  A line whose first word is a command name is never interpreted:
       quit / exit          leave the REPL (status 0 if nothing failed before)
       reset                make_fresh_context + initialize_context: later lines run on a fresh session
       help, list, info, clear, save   print to stdout (save also writes the history file)
     and a command with wrong arguments (`list foo`, `save a b`, `quit now`) prints a diagnostic to
     stderr and the loop CONTINUES — in non-interactive mode too: such a line never changes the exit
     status, it only makes stderr non-empty. *)
  Inductive cmd : Type :=
  | CQuit
  | CReset
  | COut (o : list Out)
  | CErr (d : Out).
  Variable command : Code -> option cmd.       (* None = CommandControlFlow::NotACommand *)
  Variable reset_ctx : ctx.                    (* make_fresh_context() followed by initialize_context() *)

  Fixpoint repl_cmd (c : ctx) (lines : list Code) (out err : list Out) : cli_result :=
    match lines with
    | [] => mkCli 0 out err
    | l :: rest =>
        if is_blank l then repl_cmd c rest out err
        else match command l with
             | Some CQuit => mkCli 0 out err
             | Some CReset => repl_cmd reset_ctx rest out err
             | Some (COut o) => repl_cmd c rest (out ++ o) err
             | Some (CErr d) => repl_cmd c rest out (err ++ [d])
             | None =>
                 match interpret c l CSText with
                 | (c1, Done _ _ _ _ _ _ v prints) =>
                     repl_cmd c1 rest (out ++ map show_print prints ++ show_value v) err
                 | (_, Fail _ _ _ _ _ _ f _) => mkCli 1 out (err ++ [show_diag f; stopped_repl])
                 end
             end
    end.

  (* Cli::run with the REPL that knows the commands *)
  Definition cli_full_cmd (cfg : config) (c : ctx) (init_file : option Code)
             (file : option Code) (exprs : option (list Code)) (stdin : list Code) : cli_result :=
    let after_init (c2 : ctx) (out : list Out) : cli_result :=
        let enter_repl := (is_none file && is_none exprs) || inspect cfg in
        run_inputs_k c2 (code_and_source file exprs) out
                     (fun c3 out3 => if enter_repl then repl_cmd c3 stdin out3 [] else mkCli 0 out3 []) in
    let after_prelude (c1 : ctx) (out : list Out) : cli_result :=
        match (if load_user_init cfg then init_file else None) with
        | None => after_init c1 out
        | Some code =>
            match interpret c1 code CSFile with
            | (c2, Done _ _ _ _ _ _ v prints) => after_init c2 (out ++ map show_print prints ++ show_value v)
            | (_, Fail _ _ _ _ _ _ f _) => mkCli 1 out [show_diag f; msg_init]
            end
        end in
    if load_prelude cfg then
      match interpret c prelude_code CSInternal with
      | (c1, Done _ _ _ _ _ _ v prints) => after_prelude c1 (map show_print prints ++ show_value v)
      | (_, Fail _ _ _ _ _ _ f _) => mkCli 1 [] [show_diag f; msg_prelude]
      end
    else after_prelude c [].

  (* the lines that are not failing commands *)
  Fixpoint without_failing_commands (lines : list Code) : list Code :=
    match lines with
    | [] => []
    | l :: rest => match command l with
                   | Some (CErr _) => if is_blank l then l :: without_failing_commands rest
                                      else without_failing_commands rest
                   | _ => l :: without_failing_commands rest
                   end
    end.

End Cli.
