(* Session/ImportProofs.v — C17: the depth-first, de-duplicated inlining pass of
   resolver.rs over an ARBITRARY module table (cyclic or not):
     * imported_modules only grows, and never contains a module twice;
     * every newly imported module contributes its own statements exactly once;
     * re-importing is a no-op;
     * after a successful import the set of imported modules is exactly the
       set of modules reachable from the `use`s (so it does not depend on order);
     * on a well-formed finite table every import succeeds with fuel > #modules. *)
From Coq Require Import List Bool Arith Lia Permutation.
From NV Require Import Session.Resolver Session.ResolverProofs.
Import ListNotations.

Section ImportProofs.
  Variable M : Type.
  Variable M_eqb : M -> M -> bool.
  Hypothesis M_eqb_spec : forall a b, M_eqb a b = true <-> a = b.
  Variable Code : Type.
  Variable S : Type.
  Variable importer : M -> option Code.
  Variable parse : Code -> option (list (stmt M S)).

  Notation resolver := (resolver M Code).
  Notation rres := (rres M S).
  Notation imported := (imported M Code).
  Notation inline_loop := (inline_loop M M_eqb Code S importer parse).
  Notation inlining_pass := (inlining_pass M M_eqb Code S importer parse).
  Notation add_code_source := (add_code_source M Code).
  Notation push_imported := (push_imported M Code).
  Notation is_imported := (is_imported M M_eqb Code).
  Notation loop_nil := (loop_nil M M_eqb Code S importer parse).
  Notation loop_other := (loop_other M M_eqb Code S importer parse).
  Notation loop_use := (loop_use M M_eqb Code S importer parse).
  Notation pass_0 := (pass_0 M M_eqb Code S importer parse).
  Notation pass_S := (pass_S M M_eqb Code S importer parse).
  Notation push_add_imported := (push_add_imported M Code).

  (* the module table seen through importer and parser *)
  Definition body (m : M) : option (list (stmt M S)) :=
    match importer m with Some c => parse c | None => None end.
  Definition own (p : list (stmt M S)) : list S :=
    flat_map (fun s => match s with SOther x => [x] | SUse _ => [] end) p.
  Definition uses (p : list (stmt M S)) : list M :=
    flat_map (fun s => match s with SUse m => [m] | SOther _ => [] end) p.
  Definition own_of (m : M) : list S :=
    match body m with Some p => own p | None => [] end.

  Lemma is_imported_In : forall r m, is_imported r m = true <-> In m (imported r).
  Proof.
    intros r m. unfold Resolver.is_imported. rewrite existsb_exists. split.
    - intros [x [Hx He]]. apply M_eqb_spec in He. now subst.
    - intro H. exists m. split; [exact H | now apply M_eqb_spec].
  Qed.

  Lemma is_imported_false : forall r m, is_imported r m = false <-> ~ In m (imported r).
  Proof.
    intros r m. rewrite <- is_imported_In. destruct (is_imported r m); split; congruence.
  Qed.

  Lemma NoDup_snoc : forall (l : list M) m, NoDup l -> ~ In m l -> NoDup (l ++ [m]).
  Proof.
    induction l as [|x l IH]; intros m ND Hn; cbn.
    - constructor; [intros []|constructor].
    - inversion ND; subst. constructor.
      + rewrite in_app_iff. intros [H|[H|[]]]; [contradiction|]. subst. apply Hn. now left.
      + apply IH; [assumption|]. intro H. apply Hn. now right.
  Qed.

  (* ------------------------------------------------------------------ *)
  (* exactly once *)
  Definition once_spec (r : resolver) (p : list (stmt M S)) (acc : list S) (res : resolver * rres) : Prop :=
    exists new,
      imported (fst res) = imported r ++ new
      /\ NoDup (imported r ++ new)
      /\ (forall out, snd res = ROk out -> Permutation out (acc ++ own p ++ flat_map own_of new)).

  Lemma loop_once :
    forall rec : resolver -> list (stmt M S) -> resolver * rres,
      (forall r p, NoDup (imported r) -> once_spec r p [] (rec r p)) ->
      forall p r acc, NoDup (imported r) -> once_spec r p acc (inline_loop rec r p acc).
  Proof.
    intros rec Hrec p. unfold once_spec in *. induction p as [|st rest IH]; intros r acc ND.
    - rewrite loop_nil. exists []. cbn [fst snd]. rewrite !app_nil_r. repeat split; auto.
      intros out E. inversion E; subst. cbn. rewrite ?app_nil_r. apply Permutation_refl.
    - destruct st as [m | s].
      + rewrite loop_use. destruct (is_imported r m) eqn:Ei.
        * destruct (IH r acc ND) as (new & H1 & H2 & H3). exists new. repeat split; auto.
        * apply is_imported_false in Ei.
          destruct (importer m) as [code|] eqn:Him.
          2:{ exists []. cbn [fst snd]. rewrite app_nil_r. repeat split; auto. intros out E; discriminate. }
          cbv zeta.
          set (r2 := fst (add_code_source (push_imported r m) (CSModule m) code)).
          assert (I2 : imported r2 = imported r ++ [m]) by apply push_add_imported.
          assert (ND2 : NoDup (imported r2)).
          { rewrite I2. apply NoDup_snoc; assumption. }
          destruct (parse code) as [ip|] eqn:Hp.
          2:{ exists [m]. cbn [fst snd]. rewrite <- I2. repeat split; auto. intros out E; discriminate. }
          destruct (Hrec r2 ip ND2) as (new1 & H1 & H2 & H3).
          destruct (rec r2 ip) as [r3 x]. cbn [fst snd] in *.
          destruct x as [inl_ | e | ].
          2:{ exists (m :: new1). cbn [fst snd]. rewrite H1, I2, <- app_assoc. cbn.
              repeat split; auto. now rewrite I2, <- app_assoc in H2. intros out E; discriminate. }
          2:{ exists (m :: new1). cbn [fst snd]. rewrite H1, I2, <- app_assoc. cbn.
              repeat split; auto. now rewrite I2, <- app_assoc in H2. intros out E; discriminate. }
          assert (ND3 : NoDup (imported r3)) by now rewrite H1.
          destruct (IH r3 (acc ++ inl_) ND3) as (new2 & G1 & G2 & G3).
          exists (m :: new1 ++ new2). repeat split.
          -- rewrite G1, H1, I2. rewrite <- !app_assoc. reflexivity.
          -- rewrite H1, I2 in G2. rewrite <- !app_assoc in G2. exact G2.
          -- intros out E. specialize (G3 out E). specialize (H3 inl_ eq_refl).
             eapply Permutation_trans; [exact G3|].
             cbn [flat_map]. rewrite flat_map_app.
             assert (Hown : own_of m = own ip).
             { unfold own_of, body. now rewrite Him, Hp. }
             rewrite Hown. cbn in H3.
             rewrite <- !app_assoc. apply Permutation_app_head.
             eapply Permutation_trans.
             { apply Permutation_app_tail. exact H3. }
             rewrite <- !app_assoc.
             (* own ip ++ fm new1 ++ own rest ++ fm new2  ~  own rest ++ own ip ++ fm new1 ++ fm new2 *)
             cbn [own flat_map]. fold (own rest).
             rewrite (app_assoc (own ip)). rewrite (app_assoc (own ip ++ _)).
             eapply Permutation_trans; [apply Permutation_app_tail; apply Permutation_app_comm|].
             rewrite <- !app_assoc. apply Permutation_refl.
      + rewrite loop_other. destruct (IH r (acc ++ [s]) ND) as (new & H1 & H2 & H3).
        exists new. repeat split; auto. intros out E. specialize (H3 out E).
        rewrite <- app_assoc in H3. exact H3.
  Qed.

  Lemma pass_once :
    forall fuel r p, NoDup (imported r) -> once_spec r p [] (inlining_pass fuel r p).
  Proof.
    unfold once_spec. induction fuel as [|f IH]; intros r p ND.
    - rewrite pass_0. exists []. cbn [fst snd]. rewrite app_nil_r. repeat split; auto.
      intros out E; discriminate.
    - rewrite pass_S. apply loop_once; [exact IH | assumption].
  Qed.

  (* ------------------------------------------------------------------ *)
  (* re-importing is a no-op *)
  Lemma reimport_noop :
    forall f r m, In m (imported r) -> inlining_pass (Datatypes.S f) r [SUse m] = (r, ROk []).
  Proof.
    intros f r m H. rewrite pass_S, loop_use.
    apply is_imported_In in H. rewrite H. apply loop_nil.
  Qed.

  (* ------------------------------------------------------------------ *)
  (* imported_modules only grows *)
  Definition mono_spec (r : resolver) (res : resolver * rres) : Prop :=
    incl (imported r) (imported (fst res)).

  Lemma loop_mono :
    forall rec : resolver -> list (stmt M S) -> resolver * rres,
      (forall r p, mono_spec r (rec r p)) ->
      forall p r acc, mono_spec r (inline_loop rec r p acc).
  Proof.
    intros rec Hrec p. unfold mono_spec in *. induction p as [|st rest IH]; intros r acc.
    - rewrite loop_nil. apply incl_refl.
    - destruct st as [m | s]; [|rewrite loop_other; apply IH].
      rewrite loop_use. destruct (is_imported r m); [apply IH|].
      destruct (importer m) as [code|]; [|apply incl_refl].
      cbv zeta.
      set (r2 := fst (add_code_source (push_imported r m) (CSModule m) code)).
      assert (I2 : imported r2 = imported r ++ [m]) by apply push_add_imported.
      assert (M2 : incl (imported r) (imported r2)) by (rewrite I2; apply incl_appl, incl_refl).
      destruct (parse code) as [ip|]; [|exact M2].
      specialize (Hrec r2 ip). destruct (rec r2 ip) as [r3 x]. cbn [fst] in *.
      assert (M3 : incl (imported r) (imported r3)) by (eapply incl_tran; eassumption).
      destruct x; try exact M3.
      eapply incl_tran; [exact M3 | apply IH].
  Qed.

  Lemma pass_mono : forall fuel r p, mono_spec r (inlining_pass fuel r p).
  Proof.
    induction fuel as [|f IH]; intros r p.
    - rewrite pass_0. apply incl_refl.
    - rewrite pass_S. apply loop_mono. exact IH.
  Qed.

  (* ------------------------------------------------------------------ *)
  (* reachability in the module graph *)
  Inductive reach (roots : list M) : M -> Prop :=
  | reach_root : forall m, In m roots -> reach roots m
  | reach_step : forall m m' p, reach roots m -> body m = Some p -> In m' (uses p) -> reach roots m'.

  Lemma reach_mono : forall roots roots' m, incl roots roots' -> reach roots m -> reach roots' m.
  Proof.
    intros roots roots' m Hi H. induction H.
    - apply reach_root. now apply Hi.
    - eapply reach_step; eassumption.
  Qed.

  Lemma reach_via : forall roots m p x,
      reach roots m -> body m = Some p -> reach (uses p) x -> reach roots x.
  Proof.
    intros roots m p x Hm Hb H. induction H.
    - eapply reach_step; eassumption.
    - eapply reach_step; eassumption.
  Qed.

  Lemma uses_cons_use : forall m rest, uses (SUse m :: rest) = m :: uses rest.
  Proof. reflexivity. Qed.
  Lemma uses_cons_other : forall s rest, uses (SOther s :: rest) = uses rest.
  Proof. reflexivity. Qed.

  (* soundness: whatever gets imported is reachable from the `use`s *)
  Definition sound_spec (r : resolver) (p : list (stmt M S)) (res : resolver * rres) : Prop :=
    forall m, In m (imported (fst res)) -> In m (imported r) \/ reach (uses p) m.

  Lemma loop_sound :
    forall rec : resolver -> list (stmt M S) -> resolver * rres,
      (forall r p, sound_spec r p (rec r p)) ->
      forall p r acc, sound_spec r p (inline_loop rec r p acc).
  Proof.
    intros rec Hrec p. unfold sound_spec in *. induction p as [|st rest IH]; intros r acc x Hx.
    - rewrite loop_nil in Hx. now left.
    - destruct st as [m | s].
      2:{ rewrite loop_other in Hx. rewrite uses_cons_other. eapply IH; eassumption. }
      rewrite loop_use in Hx. rewrite uses_cons_use.
      assert (Hup : forall y, reach (uses rest) y -> reach (m :: uses rest) y).
      { intros y. apply reach_mono. apply incl_tl, incl_refl. }
      destruct (is_imported r m).
      { destruct (IH _ _ _ Hx) as [H|H]; [now left | right; now apply Hup]. }
      destruct (importer m) as [code|] eqn:Him; [|now left].
      cbv zeta in Hx.
      set (r2 := fst (add_code_source (push_imported r m) (CSModule m) code)) in *.
      assert (I2 : imported r2 = imported r ++ [m]) by apply push_add_imported.
      assert (H2 : forall y, In y (imported r2) -> In y (imported r) \/ reach (m :: uses rest) y).
      { intros y Hy. rewrite I2 in Hy. apply in_app_iff in Hy. destruct Hy as [Hy|[Hy|[]]].
        - now left. - right. subst. apply reach_root. now left. }
      destruct (parse code) as [ip|] eqn:Hp; [|now apply H2].
      specialize (Hrec r2 ip). destruct (rec r2 ip) as [r3 res]. cbn [fst] in *.
      assert (Hb : body m = Some ip) by (unfold body; now rewrite Him, Hp).
      assert (H3 : forall y, In y (imported r3) -> In y (imported r) \/ reach (m :: uses rest) y).
      { intros y Hy. destruct (Hrec y Hy) as [H|H]; [now apply H2|].
        right. eapply reach_via; [|exact Hb|exact H]. apply reach_root. now left. }
      destruct res; try (now apply H3).
      destruct (IH _ _ _ Hx) as [H|H]; [now apply H3 | right; now apply Hup].
  Qed.

  Lemma pass_sound : forall fuel r p, sound_spec r p (inlining_pass fuel r p).
  Proof.
    induction fuel as [|f IH]; intros r p.
    - rewrite pass_0. intros m H. now left.
    - rewrite pass_S. apply loop_sound. exact IH.
  Qed.

  (* completeness: after a successful pass everything reachable is imported *)
  Definition closed_except (stack : list M) (r : resolver) : Prop :=
    forall m, In m (imported r) -> ~ In m stack ->
              forall p, body m = Some p -> incl (uses p) (imported r).

  Definition closed_spec (r : resolver) (p : list (stmt M S)) (res : resolver * rres) : Prop :=
    forall stack out, closed_except stack r -> snd res = ROk out ->
      closed_except stack (fst res) /\ incl (uses p) (imported (fst res)).

  Lemma M_dec : forall a b : M, a = b \/ a <> b.
  Proof.
    intros a b. destruct (M_eqb a b) eqn:E.
    - left. now apply M_eqb_spec.
    - right. intro H. apply M_eqb_spec in H. congruence.
  Qed.

  Lemma loop_closed :
    forall rec : resolver -> list (stmt M S) -> resolver * rres,
      (forall r p, mono_spec r (rec r p)) ->
      (forall r p, closed_spec r p (rec r p)) ->
      forall p r acc, closed_spec r p (inline_loop rec r p acc).
  Proof.
    intros rec Hmono Hrec p. unfold closed_spec in *.
    induction p as [|st rest IH]; intros r acc stack out Hc E.
    - rewrite loop_nil in *. split; [exact Hc | intros x []].
    - destruct st as [m | s].
      2:{ rewrite loop_other in *. rewrite uses_cons_other. eapply IH; eassumption. }
      pose proof (loop_mono rec Hmono rest) as Lm. unfold mono_spec in Lm.
      rewrite loop_use in *. rewrite uses_cons_use.
      destruct (is_imported r m) eqn:Ei.
      { destruct (IH _ _ _ _ Hc E) as [C1 C2]. split; [exact C1|].
        apply incl_cons; [|exact C2]. apply Lm. now apply is_imported_In. }
      destruct (importer m) as [code|] eqn:Him; [|discriminate].
      cbv zeta in *.
      set (r2 := fst (add_code_source (push_imported r m) (CSModule m) code)) in *.
      assert (I2 : imported r2 = imported r ++ [m]) by apply push_add_imported.
      destruct (parse code) as [ip|] eqn:Hp; [|discriminate].
      assert (Hb : body m = Some ip) by (unfold body; now rewrite Him, Hp).
      pose proof (Hmono r2 ip) as Hm3. unfold mono_spec in Hm3.
      specialize (Hrec r2 ip (m :: stack)).
      destruct (rec r2 ip) as [r3 res]. cbn [fst snd] in *.
      destruct res as [inl_| |]; try discriminate.
      assert (C2 : closed_except (m :: stack) r2).
      { intros y Hy Hns q Hq. rewrite I2 in Hy. apply in_app_iff in Hy.
        destruct Hy as [Hy|[Hy|[]]].
        - eapply incl_tran; [eapply Hc; eauto|]. + intro. apply Hns. now right.
          + rewrite I2. apply incl_appl, incl_refl.
        - subst. exfalso. apply Hns. now left. }
      destruct (Hrec inl_ C2 eq_refl) as [C3 U3].
      assert (C3' : closed_except stack r3).
      { intros y Hy Hns q Hq. destruct (M_dec y m) as [->|Hne].
        - rewrite Hb in Hq. inversion Hq; subst. exact U3.
        - eapply C3; eauto. intros [H|H]; [congruence | contradiction]. }
      destruct (IH _ _ _ _ C3' E) as [C4 U4]. split; [exact C4|].
      apply incl_cons; [|exact U4].
      apply Lm. apply Hm3. rewrite I2. apply in_app_iff. right. now left.
  Qed.

  Lemma pass_closed : forall fuel r p, closed_spec r p (inlining_pass fuel r p).
  Proof.
    induction fuel as [|f IH]; intros r p.
    - rewrite pass_0. intros stack out Hc E. discriminate.
    - rewrite pass_S. apply loop_closed; [apply pass_mono | exact IH].
  Qed.

  (* the set of imported modules after a successful pass: old ones + closure *)
  Theorem imported_is_closure :
    forall fuel r p r' out,
      closed_except [] r ->
      inlining_pass fuel r p = (r', ROk out) ->
      forall m, In m (imported r') <-> In m (imported r) \/ reach (uses p) m.
  Proof.
    intros fuel r p r' out Hc E m.
    pose proof (pass_sound fuel r p) as Hs. pose proof (pass_closed fuel r p [] out Hc) as Hcl.
    pose proof (pass_mono fuel r p) as Hm. unfold sound_spec, mono_spec in *.
    rewrite E in *. cbn [fst snd] in *. destruct (Hcl eq_refl) as [C U].
    split; [apply Hs|].
    intros [H|H]; [now apply Hm|].
    induction H.
    - now apply U.
    - eapply C; eauto.
  Qed.

  Lemma reach_same_roots : forall roots roots' m,
      (forall x, In x roots <-> In x roots') -> reach roots m <-> reach roots' m.
  Proof.
    intros roots roots' m H. split; apply reach_mono; intros x Hx; now apply H.
  Qed.

  (* order independence: two programs with the same set of `use`s, run from the
     same (closed, duplicate-free) state, import the same modules — each exactly
     once — and inline the same module statements, up to order *)
  Theorem order_free :
    forall fuel fuel' r p p' r1 out1 r2 out2,
      closed_except [] r -> NoDup (imported r) ->
      (forall m, In m (uses p) <-> In m (uses p')) ->
      inlining_pass fuel r p = (r1, ROk out1) ->
      inlining_pass fuel' r p' = (r2, ROk out2) ->
      exists new1 new2,
        imported r1 = imported r ++ new1 /\ imported r2 = imported r ++ new2
        /\ NoDup (imported r1) /\ NoDup (imported r2)
        /\ Permutation new1 new2
        /\ Permutation out1 (own p ++ flat_map own_of new1)
        /\ Permutation out2 (own p' ++ flat_map own_of new2)
        /\ Permutation (flat_map own_of new1) (flat_map own_of new2).
  Proof.
    intros fuel fuel' r p p' r1 out1 r2 out2 Hc ND Hu E1 E2.
    destruct (pass_once fuel r p ND) as (new1 & A1 & A2 & A3).
    destruct (pass_once fuel' r p' ND) as (new2 & B1 & B2 & B3).
    rewrite E1 in *. rewrite E2 in *. cbn [fst snd] in *.
    exists new1, new2.
    assert (P : Permutation new1 new2).
    { apply (Permutation_app_inv_l (imported r)).
      apply NoDup_Permutation; [assumption|assumption|].
      intro m. rewrite <- A1, <- B1.
      rewrite (imported_is_closure _ _ _ _ _ Hc E1), (imported_is_closure _ _ _ _ _ Hc E2).
      rewrite (reach_same_roots _ _ m Hu). reflexivity. }
    repeat split; try assumption.
    - now rewrite A1.
    - now rewrite B1.
    - now apply (A3 out1).
    - now apply (B3 out2).
    - apply Permutation_flat_map. exact P.
  Qed.

  (* ------------------------------------------------------------------ *)
  (* every import succeeds on a well-formed finite table, and the model's fuel
     (nesting depth) is never exhausted when it exceeds the number of modules *)
  Definition wf_prog (p : list (stmt M S)) : Prop :=
    forall m, In m (uses p) -> exists q, body m = Some q.
  Definition wf_table : Prop := forall m q, body m = Some q -> wf_prog q.

  Definition missing (mods : list M) (r : resolver) : nat :=
    length (filter (fun m => negb (is_imported r m)) mods).

  Lemma missing_le_length : forall mods r, missing mods r <= length mods.
  Proof.
    intros mods r. unfold missing. induction mods as [|x l IH]; cbn; [lia|].
    destruct (negb (is_imported r x)); cbn; lia.
  Qed.

  Lemma missing_mono : forall mods r r',
      incl (imported r) (imported r') -> missing mods r' <= missing mods r.
  Proof.
    intros mods r r' Hi. unfold missing. induction mods as [|x l IH]; cbn; [lia|].
    destruct (is_imported r x) eqn:E.
    - apply is_imported_In in E. apply Hi in E. apply is_imported_In in E. rewrite E. cbn. exact IH.
    - destruct (is_imported r' x); cbn; lia.
  Qed.

  Lemma missing_strict : forall mods r r' m,
      incl (imported r) (imported r') -> In m mods -> ~ In m (imported r) -> In m (imported r') ->
      missing mods r' < missing mods r.
  Proof.
    intros mods r r' m Hi Hm Hn Hy. unfold missing. induction mods as [|x l IH]; [destruct Hm|].
    pose proof (missing_mono l r r' Hi) as Hl. unfold missing in Hl. cbn.
    destruct (M_dec x m) as [->|Hne].
    - apply is_imported_false in Hn. apply is_imported_In in Hy. rewrite Hn, Hy. cbn. lia.
    - destruct Hm as [Hm|Hm]; [congruence|]. specialize (IH Hm).
      destruct (is_imported r x) eqn:E.
      + apply is_imported_In in E. apply Hi in E. apply is_imported_In in E. rewrite E. cbn. exact IH.
      + destruct (is_imported r' x); cbn; lia.
  Qed.

  Definition ok_spec (mods : list M) (bound : nat) (r : resolver) (p : list (stmt M S))
             (res : resolver * rres) : Prop :=
    missing mods r <= bound -> wf_prog p -> exists out, snd res = ROk out.

  Lemma loop_ok :
    forall mods, wf_table -> (forall m q, body m = Some q -> In m mods) ->
    forall (rec : resolver -> list (stmt M S) -> resolver * rres) f,
      (forall r p, mono_spec r (rec r p)) ->
      (forall r p, missing mods r < f -> wf_prog p -> exists out, snd (rec r p) = ROk out) ->
      forall p r acc, ok_spec mods f r p (inline_loop rec r p acc).
  Proof.
    intros mods Hwf Hall rec f Hmono Hrec p. unfold ok_spec.
    induction p as [|st rest IH]; intros r acc Hb Hp.
    - rewrite loop_nil. eexists; reflexivity.
    - destruct st as [m | s].
      2:{ rewrite loop_other. apply IH; [exact Hb|]. intros x Hx. apply Hp. exact Hx. }
      assert (Hrest : wf_prog rest).
      { intros x Hx. apply Hp. rewrite uses_cons_use. now right. }
      rewrite loop_use. destruct (is_imported r m) eqn:Ei; [now apply IH|].
      apply is_imported_false in Ei.
      destruct (Hp m) as [q Hq]; [rewrite uses_cons_use; now left|].
      pose proof Hq as Hq'. unfold body in Hq'.
      destruct (importer m) as [code|]; [|discriminate]. rewrite Hq'. cbv zeta.
      set (r2 := fst (add_code_source (push_imported r m) (CSModule m) code)).
      assert (I2 : imported r2 = imported r ++ [m]) by apply push_add_imported.
      assert (L2 : missing mods r2 < missing mods r).
      { apply (missing_strict mods r r2 m).
        - rewrite I2. apply incl_appl, incl_refl.
        - eapply Hall; eassumption.
        - exact Ei.
        - rewrite I2. apply in_app_iff. right. now left. }
      destruct (Hrec r2 q) as [inl_ Hi]; [lia | eapply Hwf; eassumption |].
      pose proof (Hmono r2 q) as Hm3. unfold mono_spec in Hm3.
      destruct (rec r2 q) as [r3 res]. cbn [fst snd] in *. subst res.
      apply IH; [|exact Hrest].
      pose proof (missing_mono mods r2 r3 Hm3). lia.
  Qed.

  Theorem import_succeeds :
    forall mods, wf_table -> (forall m q, body m = Some q -> In m mods) ->
    forall fuel r p, missing mods r < fuel -> wf_prog p ->
      exists out, snd (inlining_pass fuel r p) = ROk out.
  Proof.
    intros mods Hwf Hall. induction fuel as [|f IH]; intros r p Hb Hp; [lia|].
    rewrite pass_S. apply (loop_ok mods Hwf Hall (inlining_pass f) f).
    - apply pass_mono.
    - exact IH.
    - lia.
    - exact Hp.
  Qed.

  Corollary import_succeeds_any_state :
    forall mods, wf_table -> (forall m q, body m = Some q -> In m mods) ->
    forall r p, wf_prog p ->
      exists out, snd (inlining_pass (Datatypes.S (length mods)) r p) = ROk out.
  Proof.
    intros mods Hwf Hall r p Hp. apply (import_succeeds mods Hwf Hall); [|exact Hp].
    pose proof (missing_le_length mods r). lia.
  Qed.

  (* ------------------------------------------------------------------ *)
  (* closedness: what an inlined definition needs is defined in the session.
     `ok E s` = "statement s is well-scoped in an environment that offers the
     statements satisfying E" — any monotone predicate. *)
  Variable ok : (S -> Prop) -> S -> Prop.
  Hypothesis ok_mono : forall (E E' : S -> Prop) s, (forall x, E x -> E' x) -> ok E s -> ok E' s.

  (* a program is closed relative to already imported modules `base`: each of its
     statements needs only its own earlier statements, modules of `base`, and modules
     reachable from its own earlier `use`s *)
  Definition closed_prog (base : list M) (p : list (stmt M S)) : Prop :=
    forall p1 s p2, p = p1 ++ SOther s :: p2 ->
      ok (fun x => In x (own p1) \/ exists m', (In m' base \/ reach (uses p1) m') /\ In x (own_of m')) s.
  Definition closed_table : Prop := forall m q, body m = Some q -> closed_prog [] q.

  Lemma In_own_split : forall p s, In s (own p) -> exists p1 p2, p = p1 ++ SOther s :: p2.
  Proof.
    induction p as [|st r IH]; intros s H; [destruct H|].
    destruct st as [m|x]; cbn in H.
    - destruct (IH s H) as (p1 & p2 & E). exists (SUse m :: p1), p2. now rewrite E.
    - destruct H as [->|H]; [exists [], r; reflexivity|].
      destruct (IH s H) as (p1 & p2 & E). exists (SOther x :: p1), p2. now rewrite E.
  Qed.

  Lemma own_app : forall p1 p2, own (p1 ++ p2) = own p1 ++ own p2.
  Proof. intros. unfold own. apply flat_map_app. Qed.
  Lemma uses_app : forall p1 p2, uses (p1 ++ p2) = uses p1 ++ uses p2.
  Proof. intros. unfold uses. apply flat_map_app. Qed.

  Lemma closed_reach : forall r m q m',
      closed_except [] r -> In m (imported r) -> body m = Some q -> reach (uses q) m' -> In m' (imported r).
  Proof.
    intros r m q m' Hc Hm Hq H. induction H.
    - eapply Hc; eauto.
    - eapply Hc; eauto.
  Qed.

  (* every statement of a successful run is well-scoped in the environment made of
     the whole output and the modules imported before: nothing an inlined definition
     refers to is missing from the session, in ANY import order *)
  Theorem defs_available :
    closed_table ->
    forall fuel r p r' out,
      closed_except [] r -> NoDup (imported r) ->
      inlining_pass fuel r p = (r', ROk out) ->
      closed_prog (imported r) p ->
      forall s, In s out ->
        ok (fun x => In x out \/ exists m, In m (imported r) /\ In x (own_of m)) s.
  Proof.
    intros Htab fuel r p r' out Hc ND E Hp s Hs.
    destruct (pass_once fuel r p ND) as (new & A1 & A2 & A3). rewrite E in A1, A3. cbn [fst snd] in *.
    specialize (A3 out eq_refl). cbn [app] in A3.
    pose proof (pass_closed fuel r p [] out Hc) as Hcl. rewrite E in Hcl. cbn [fst snd] in Hcl.
    destruct (Hcl eq_refl) as [C' U'].
    assert (Hout : forall x, In x out <-> In x (own p) \/ exists m, In m new /\ In x (own_of m)).
    { intro x. split.
      - intro H. apply (Permutation_in _ A3) in H. apply in_app_iff in H. destruct H as [H|H]; [now left|].
        right. apply in_flat_map in H. exact H.
      - intro H. apply (Permutation_in _ (Permutation_sym A3)). apply in_app_iff.
        destruct H as [H|H]; [now left|]. right. apply in_flat_map. exact H. }
    assert (Hmods : forall m' x, In m' (imported r') -> In x (own_of m') ->
                                 In x out \/ exists m, In m (imported r) /\ In x (own_of m)).
    { intros m' x Hm Hx. rewrite A1 in Hm. apply in_app_iff in Hm. destruct Hm as [Hm|Hm].
      - right. now exists m'.
      - left. apply Hout. right. now exists m'. }
    apply Hout in Hs. destruct Hs as [Hs|(m & Hm & Hs)].
    - destruct (In_own_split _ _ Hs) as (p1 & p2 & Ep). specialize (Hp p1 s p2 Ep).
      eapply ok_mono; [|exact Hp]. intros x [Hx|(m' & [Hb|Hr] & Hx)].
      + left. apply Hout. left. rewrite Ep, own_app. apply in_app_iff. now left.
      + right. now exists m'.
      + apply (Hmods m' x); [|exact Hx].
        apply (imported_is_closure _ _ _ _ _ Hc E). right.
        eapply reach_mono; [|exact Hr]. rewrite Ep, uses_app. apply incl_appl, incl_refl.
    - unfold own_of in Hs. destruct (body m) as [q|] eqn:Hq; [|destruct Hs].
      destruct (In_own_split _ _ Hs) as (q1 & q2 & Eq). pose proof (Htab m q Hq q1 s q2 Eq) as Hk.
      assert (Hmi : In m (imported r')) by (rewrite A1; apply in_app_iff; now right).
      eapply ok_mono; [|exact Hk]. intros x [Hx|(m' & [[]|Hr] & Hx)].
      + left. apply Hout. right. exists m. split; [exact Hm|]. unfold own_of. rewrite Hq, Eq, own_app.
        apply in_app_iff. now left.
      + apply (Hmods m' x); [|exact Hx].
        eapply closed_reach; [exact C' | exact Hmi | exact Hq|].
        eapply reach_mono; [|exact Hr]. rewrite Eq, uses_app. apply incl_appl, incl_refl.
  Qed.

End ImportProofs.
