(* Session/ContextProofs.v — C06 (and the determinism part of C07) for the
   model of Context::interpret_with_settings, for ARBITRARY stage functions. *)
From Coq Require Import List Bool.
From NV Require Import Session.Resolver Session.ResolverProofs Session.Context.
Import ListNotations.

Section ContextProofs.
  Variable M : Type.
  Variable M_eqb : M -> M -> bool.
  Variable Code : Type.
  Variable S : Type.
  Variable importer : M -> option Code.
  Variable parse : Code -> option (list (stmt M S)).
  Variables A B C T1 T2 EA EB EC V P : Type.
  Variable transform : A -> list S -> A * (T1 + EA).
  Variable check : B -> T1 -> B * (T2 + EB).
  Variable run : C -> A -> B -> T2 -> C * (V + EC) * list P.

  Notation ctx := (ctx M Code A B C).
  Notation outcome := (outcome M EA EB EC V P).
  Notation interpret := (interpret M M_eqb Code S importer parse A B C T1 T2 EA EB EC V P transform check run).
  Notation session := (session M M_eqb Code S importer parse A B C T1 T2 EA EB EC V P transform check run).
  Notation cA := (cA M Code A B C).
  Notation cB := (cB M Code A B C).
  Notation cC := (cC M Code A B C).
  Notation cR := (cR M Code A B C).
  Notation imported := (imported M Code).

  (* everything a later input can depend on *)
  Definition ctx_eqv (c c' : ctx) : Prop :=
    cA c = cA c' /\ cB c = cB c' /\ cC c = cC c' /\ imported (cR c) = imported (cR c').

  Lemma ctx_eqv_refl : forall c, ctx_eqv c c.
  Proof. intro c; repeat split. Qed.

  Lemma ctx_eqv_sym : forall c c', ctx_eqv c c' -> ctx_eqv c' c.
  Proof. intros c c' (a & b & d & e); repeat split; congruence. Qed.

  Lemma ctx_eqv_trans : forall a b c, ctx_eqv a b -> ctx_eqv b c -> ctx_eqv a c.
  Proof. intros a b c (h1 & h2 & h3 & h4) (g1 & g2 & g3 & g4); repeat split; congruence. Qed.

  Lemma sk_complete_all : forall k, sk_complete k = true ->
    sk_res_imp k = true /\ sk_nam_A k = true /\ sk_nam_imp k = true /\ sk_typ_A k = true /\
    sk_typ_B k = true /\ sk_typ_imp k = true /\ sk_run_A k = true /\ sk_run_B k = true /\
    sk_run_C k = true /\ sk_run_imp k = true.
  Proof.
    intros k H. unfold sk_complete in H.
    repeat (apply andb_true_iff in H; destruct H as [H ?]). repeat split; assumption.
  Qed.

  (* C06_ABC + the imported_modules part of C06_resolver *)
  Lemma interpret_fail_restores :
    forall k fuel c code cs c' f pr,
      sk_complete k = true ->
      interpret k fuel c code cs = (c', Fail M EA EB EC V P f pr) ->
      ctx_eqv c c'.
  Proof.
    intros k fuel c code cs c' f pr Hk H.
    apply sk_complete_all in Hk.
    destruct Hk as (k1 & k2 & k3 & k4 & k5 & k6 & k7 & k8 & k9 & k10).
    unfold Context.interpret in H.
    rewrite k1, k2, k3, k4, k5, k6, k7, k8, k9, k10 in H.
    destruct (resolve M M_eqb Code S importer parse fuel (cR c) code cs) as [r1 res].
    destruct res as [stmts | e | ].
    - destruct (transform (cA c) stmts) as [a1 [t1 | ea]].
      + destruct (check (cB c) t1) as [b1 [t2 | eb]].
        * destruct (run (cC c) a1 b1 t2) as [[c1 [v | ec]] prints];
            inversion H; subst; repeat split.
        * inversion H; subst; repeat split.
      + inversion H; subst; repeat split.
    - inversion H; subst; repeat split.
    - inversion H; subst; repeat split.
  Qed.

  (* the diagnostics side of the resolver (files / source labels) only grows *)
  Lemma interpret_files_grow :
    forall k fuel c code cs,
      files_grow M Code (cR c) (cR (fst (interpret k fuel c code cs))).
  Proof.
    intros k fuel c code cs. unfold Context.interpret.
    pose proof (resolve_grow M M_eqb Code S importer parse fuel (cR c) code cs) as G.
    destruct (resolve M M_eqb Code S importer parse fuel (cR c) code cs) as [r1 res].
    cbn [fst] in G.
    assert (Hset : forall b old, files_grow M Code (cR c) (set_imported M Code b old r1)).
    { intros b old. destruct b; [|exact G]. destruct G as [x Hx]. exists x. exact Hx. }
    destruct res as [stmts | e | ]; try (cbn; apply Hset).
    destruct (transform (cA c) stmts) as [a1 [t1 | ea]]; [|cbn; apply Hset].
    destruct (check (cB c) t1) as [b1 [t2 | eb]]; [|cbn; apply Hset].
    destruct (run (cC c) a1 b1 t2) as [[c1 [v | ec]] prints]; cbn; [exact G | apply Hset].
  Qed.

  (* interpret reads the resolver only through imported_modules, and the
     CodeSource only labels the source file *)
  Lemma interpret_eqv_gen :
    forall k fuel c c' code code' cs cs',
      ctx_eqv c c' -> parse code = parse code' ->
      snd (interpret k fuel c code cs) = snd (interpret k fuel c' code' cs')
      /\ ctx_eqv (fst (interpret k fuel c code cs)) (fst (interpret k fuel c' code' cs')).
  Proof.
    intros k fuel c c' code code' cs cs' (Ha & Hb & Hc & Hi) Hp.
    unfold Context.interpret.
    pose proof (resolve_eqv_gen M M_eqb Code S importer parse fuel (cR c) (cR c') code code' cs cs' Hi Hp) as [Ei Es].
    destruct (resolve M M_eqb Code S importer parse fuel (cR c) code cs) as [r1 res].
    destruct (resolve M M_eqb Code S importer parse fuel (cR c') code' cs') as [r1' res'].
    cbn [fst snd] in Ei, Es. subst res'. rewrite <- Ha, <- Hb, <- Hc, <- Hi.
    assert (Hset : forall b old, imported (set_imported M Code b old r1)
                                 = imported (set_imported M Code b old r1')).
    { intros b old. destruct b; [reflexivity | exact Ei]. }
    destruct res as [stmts | e | ];
      try (cbn; split; [reflexivity | repeat split; apply Hset]).
    destruct (transform (cA c) stmts) as [a1 [t1 | ea]];
      [|cbn; split; [reflexivity | repeat split; apply Hset]].
    destruct (check (cB c) t1) as [b1 [t2 | eb]];
      [|cbn; split; [reflexivity | repeat split; apply Hset]].
    destruct (run (cC c) a1 b1 t2) as [[c1 [v | ec]] prints]; cbn;
      (split; [reflexivity | repeat split; try apply Hset; exact Ei]).
  Qed.

  Lemma interpret_eqv_cs :
    forall k fuel c c' code cs cs',
      ctx_eqv c c' ->
      snd (interpret k fuel c code cs) = snd (interpret k fuel c' code cs')
      /\ ctx_eqv (fst (interpret k fuel c code cs)) (fst (interpret k fuel c' code cs')).
  Proof. intros. now apply interpret_eqv_gen. Qed.

  Lemma interpret_eqv :
    forall k fuel c c' code cs,
      ctx_eqv c c' ->
      snd (interpret k fuel c code cs) = snd (interpret k fuel c' code cs)
      /\ ctx_eqv (fst (interpret k fuel c code cs)) (fst (interpret k fuel c' code cs)).
  Proof. intros. now apply interpret_eqv_cs. Qed.

  Lemma session_eqv :
    forall k inputs c c',
      ctx_eqv c c' ->
      snd (session k c inputs) = snd (session k c' inputs)
      /\ ctx_eqv (fst (session k c inputs)) (fst (session k c' inputs)).
  Proof.
    intros k inputs. induction inputs as [|[[fuel code] cs] rest IH]; intros c c' E.
    - split; [reflexivity | exact E].
    - cbn [Context.session].
      destruct (interpret_eqv k fuel c c' code cs E) as [Eo Ec].
      destruct (interpret k fuel c code cs) as [c1 o].
      destruct (interpret k fuel c' code cs) as [c1' o'].
      cbn [fst snd] in Eo, Ec. subst o'.
      destruct (IH c1 c1' Ec) as [Eos Ecs].
      destruct (session k c1 rest) as [c2 os].
      destruct (session k c1' rest) as [c2' os'].
      cbn [fst snd] in *. subst os'. split; [reflexivity | exact Ecs].
  Qed.

  (* C06: a failing input is unobservable by any later sequence of inputs *)
  Theorem failing_input_unobservable :
    forall k fuel c code cs c' f pr,
      sk_complete k = true ->
      interpret k fuel c code cs = (c', Fail M EA EB EC V P f pr) ->
      forall later,
        snd (session k c' later) = snd (session k c later)
        /\ ctx_eqv (fst (session k c' later)) (fst (session k c later)).
  Proof.
    intros k fuel c code cs c' f pr Hk H later.
    apply session_eqv. apply ctx_eqv_sym.
    eapply interpret_fail_restores; eassumption.
  Qed.

  (* the same inside an arbitrary history: deleting the failing inputs of a
     session changes neither the outcomes of the other inputs nor the final state *)
  Fixpoint drop_failing (k : skeleton) (c : ctx) (inputs : list (input M Code))
    : list (input M Code) :=
    match inputs with
    | [] => []
    | (fuel, code, cs) :: rest =>
        let (c1, o) := interpret k fuel c code cs in
        if is_fail M EA EB EC V P o then drop_failing k c1 rest
        else (fuel, code, cs) :: drop_failing k c1 rest
    end.

  Definition successes (os : list outcome) : list outcome :=
    filter (fun o => negb (is_fail M EA EB EC V P o)) os.

  Theorem session_without_failing_inputs :
    forall k, sk_complete k = true ->
      forall inputs c c0,
        ctx_eqv c c0 ->
        snd (session k c0 (drop_failing k c inputs)) = successes (snd (session k c inputs))
        /\ ctx_eqv (fst (session k c0 (drop_failing k c inputs))) (fst (session k c inputs)).
  Proof.
    intros k Hk inputs. induction inputs as [|[[fuel code] cs] rest IH]; intros c c0 E.
    - split; [reflexivity | apply ctx_eqv_sym; exact E].
    - cbn [drop_failing Context.session].
      destruct (interpret k fuel c code cs) as [c1 o] eqn:Hi.
      destruct o as [v pr | f pr]; cbn [is_fail].
      + (* success: kept *)
        cbn [Context.session].
        destruct (interpret_eqv k fuel c c0 code cs E) as [Eo Ec].
        rewrite Hi in Eo, Ec. cbn [fst snd] in Eo, Ec.
        destruct (interpret k fuel c0 code cs) as [c1' o']. cbn [fst snd] in Eo, Ec. subst o'.
        destruct (IH c1 c1' Ec) as [Eos Ecs].
        destruct (session k c1' (drop_failing k c1 rest)) as [c2' os'].
        destruct (session k c1 rest) as [c2 os].
        cbn [fst snd] in *. unfold successes. cbn [filter is_fail negb].
        split; [f_equal; exact Eos | exact Ecs].
      + (* failure: dropped; c1 is equivalent to c *)
        assert (E1 : ctx_eqv c1 c0).
        { eapply ctx_eqv_trans; [|exact E]. apply ctx_eqv_sym.
          eapply interpret_fail_restores; eassumption. }
        destruct (IH c1 c0 E1) as [Eos Ecs].
        destruct (session k c1 rest) as [c2 os]. cbn [fst snd] in *.
        unfold successes. cbn [filter is_fail negb]. split; assumption.
  Qed.

  (* any observation of the session state that does not look at source labels *)
  Corollary failing_input_same_observation :
    forall (O : Type) (obs : A -> B -> C -> list M -> O) k fuel c code cs c' f pr,
      sk_complete k = true ->
      interpret k fuel c code cs = (c', Fail M EA EB EC V P f pr) ->
      obs (cA c') (cB c') (cC c') (imported (cR c')) = obs (cA c) (cB c) (cC c) (imported (cR c)).
  Proof.
    intros O obs k fuel c code cs c' f pr Hk H.
    destruct (interpret_fail_restores k fuel c code cs c' f pr Hk H) as (a & b & d & e).
    now rewrite a, b, d, e.
  Qed.

  (* C07 (clone): a Context is a value; the session function is deterministic,
     so two copies fed the same inputs agree, and what is fed to one copy cannot
     influence the other (there is no shared mutable component in the model). *)
  Lemma session_app :
    forall k a b c,
      session k c (a ++ b) =
      (fst (session k (fst (session k c a)) b),
       snd (session k c a) ++ snd (session k (fst (session k c a)) b)).
  Proof.
    intros k a. induction a as [|[[fuel code] cs] rest IH]; intros b c.
    - cbn. destruct (session k c b); reflexivity.
    - cbn [app Context.session].
      destruct (interpret k fuel c code cs) as [c1 o].
      rewrite IH.
      destruct (session k c1 rest) as [c2 os]. cbn [fst snd].
      destruct (session k c2 b) as [c3 os']. reflexivity.
  Qed.

End ContextProofs.
