(* C08 — proofs about Overflow/Model.v *)
From Coq Require Import ZArith List Bool Lia PrimFloat.
From NV Require Import Overflow.Model.
Import ListNotations.
Local Open Scope Z_scope.

(* ------------------------------------------------- the checked paths never panic *)
Definition np {A} (x : out A) : Prop := x <> Panic.

Lemma np_bind : forall A B (x : out A) (f : A -> out B),
  np x -> (forall a, np (f a)) -> np (bind x f).
Proof. intros A B [| |a] f Hx Hf; simpl; [contradiction|discriminate|apply Hf]. Qed.

Lemma np_val : forall A (a : A), np (Val a). Proof. discriminate. Qed.
Lemma np_c_mul : forall a b, np (c_mul a b). Proof. intros. unfold c_mul. destruct (fits _); discriminate. Qed.
Lemma np_c_add : forall a b, np (c_add a b). Proof. intros. unfold c_add. destruct (fits _); discriminate. Qed.

Lemma np_rmul_checked : forall x y, np (rmul_checked x y).
Proof.
  intros [a b] [c d]. unfold rmul_checked.
  apply np_bind; [apply np_c_mul|]. intros n. apply np_bind; [apply np_c_mul|]. intros. apply np_val.
Qed.

Lemma np_radd_checked : forall x y, np (radd_checked x y).
Proof.
  intros [a b] [c d]. unfold radd_checked.
  repeat (apply np_bind; [first [apply np_c_mul|apply np_c_add]|intros ?]). apply np_val.
Qed.

Lemma np_fmap_exp : forall f fs, (forall m, np (f m)) -> np (fmap_exp f fs).
Proof.
  intros f fs Hf. induction fs as [|[k m] r IH]; [apply np_val|].
  cbn [fmap_exp]. apply np_bind; [apply Hf|]. intros x. apply np_bind; [exact IH|]. intros. apply np_val.
Qed.

Lemma np_fmerge_with : forall add fs, (forall a b, np (add a b)) -> np (fmerge_with add fs).
Proof.
  intros add fs Ha. induction fs as [|[k m] r IH]; [apply np_val|].
  cbn [fmerge_with]. apply np_bind; [exact IH|]. intros [|[k' m'] r'']; [apply np_val|].
  destruct (Nat.eqb k k'); [|apply np_val]. apply np_bind; [apply Ha|]. intros. apply np_val.
Qed.

Theorem checked_paths_never_panic : forall fs gs n,
  np (dtry_power fs n) /\ np (dtry_multiply fs gs).
Proof.
  intros. split.
  - apply np_fmap_exp. intros. apply np_rmul_checked.
  - apply np_fmerge_with. apply np_radd_checked.
Qed.

(* ---------------------- unchecked = checked with "overflow" turned into a panic *)
Lemma expect_bind : forall A B (x : out A) (f : A -> out B),
  expect (bind x f) = bind (expect x) (fun a => expect (f a)).
Proof. intros A B [| |a] f; reflexivity. Qed.

Lemma i_mul_expect : forall a b, i_mul a b = expect (c_mul a b).
Proof. intros. unfold i_mul, c_mul. destruct (fits _); reflexivity. Qed.
Lemma i_add_expect : forall a b, i_add a b = expect (c_add a b).
Proof. intros. unfold i_add, c_add. destruct (fits _); reflexivity. Qed.

Lemma bind_ext : forall A B (x : out A) (f g : A -> out B), (forall a, f a = g a) -> bind x f = bind x g.
Proof. intros A B [| |a] f g H; simpl; auto. Qed.

Lemma rmul_expect : forall x y, rmul x y = expect (rmul_checked x y).
Proof.
  intros [a b] [c d]. unfold rmul, rmul_checked.
  rewrite expect_bind, <- i_mul_expect. apply bind_ext. intros n.
  rewrite expect_bind, <- i_mul_expect. reflexivity.
Qed.

Lemma fmap_exp_expect : forall f g fs, (forall m, f m = expect (g m)) ->
  fmap_exp f fs = expect (fmap_exp g fs).
Proof.
  intros f g fs H. induction fs as [|[k m] r IH]; [reflexivity|].
  cbn [fmap_exp]. rewrite expect_bind, <- H. apply bind_ext. intros x.
  rewrite expect_bind, <- IH. reflexivity.
Qed.

(* DType::power panics exactly where DType::try_power reports an overflow, and
   returns the same exponents otherwise *)
Theorem dpower_expect : forall fs n, dpower fs n = expect (dtry_power fs n).
Proof. intros. apply fmap_exp_expect. intros. apply rmul_expect. Qed.

Theorem dmultiply_expect : forall a b, dmultiply a b = expect (dtry_multiply a b).
Proof. reflexivity. Qed.

(* Ratio addition: for well-formed operands (components in range, positive
   denominators) `+` panics exactly where checked_add returns None *)
Definition wf_ratio (x : ratio) : Prop := fits (fst x) = true /\ fits (snd x) = true /\ 0 < snd x.

Lemma div_mul_swap : forall b d, 0 < b -> 0 < d ->
  b * (d / Z.gcd b d) = (b / Z.gcd b d) * d.
Proof.
  intros b d Hb Hd. set (g := Z.gcd b d).
  assert (Hg : 0 < g).
  { unfold g. pose proof (Z.gcd_nonneg b d). assert (Z.gcd b d <> 0); [|lia].
    intro E. apply Z.gcd_eq_0_l in E. lia. }
  destruct (Z.gcd_divide_l b d) as [qb Eb]. destruct (Z.gcd_divide_r b d) as [qd Ed].
  fold g in Eb, Ed.
  replace (d / g) with qd by (rewrite Ed at 1; rewrite Z.div_mul; lia).
  replace (b / g) with qb by (rewrite Eb at 1; rewrite Z.div_mul; lia).
  clearbody g. subst b d. ring.
Qed.

Lemma c_mul_comm : forall x y, c_mul x y = c_mul y x.
Proof. intros. unfold c_mul. rewrite Z.mul_comm. reflexivity. Qed.

Lemma radd_expect : forall x y, wf_ratio x -> wf_ratio y -> radd x y = expect (radd_checked x y).
Proof.
  intros [a b] [c d] (Fa & Fb & Pb) (Fc & Fd & Pd). cbn [fst snd] in *.
  unfold radd, radd_checked. cbv zeta.
  destruct (b =? d) eqn:E.
  - apply Z.eqb_eq in E. subst d.
    rewrite Z.gcd_diag, Z.abs_eq by lia. rewrite Z.div_same by lia.
    unfold c_mul at 1. rewrite Z.mul_1_l, Fb. cbn [bind].
    rewrite Z.div_same by lia. unfold c_mul. rewrite !Z.mul_1_l, Fa, Fc. cbn [bind].
    rewrite expect_bind, <- i_add_expect. reflexivity.
  - assert (Ec : c_mul (b / Z.gcd b d) d = c_mul b (d / Z.gcd b d)).
    { unfold c_mul. rewrite <- (div_mul_swap b d Pb Pd). reflexivity. }
    rewrite Ec. set (l := b * (d / Z.gcd b d)).
    assert (Pl : 0 <= l).
    { unfold l. apply Z.mul_nonneg_nonneg; [lia|]. apply Z.div_pos; [lia|].
      pose proof (Z.gcd_nonneg b d). assert (Z.gcd b d <> 0); [|lia].
      intro G. apply Z.gcd_eq_0_l in G. lia. }
    rewrite expect_bind, <- i_mul_expect.
    destruct (i_mul b (d / Z.gcd b d)) as [| |l'] eqn:El; try reflexivity.
    assert (l' = l).
    { unfold i_mul in El. fold l in El. destruct (fits l); inversion El; reflexivity. }
    subst l'. cbn [bind]. rewrite Z.abs_eq by assumption.
    rewrite expect_bind, (c_mul_comm (l / b) a), <- i_mul_expect. apply bind_ext. intros ln.
    rewrite expect_bind, (c_mul_comm (l / d) c), <- i_mul_expect. apply bind_ext. intros rn.
    rewrite expect_bind, <- i_add_expect. reflexivity.
Qed.

(* a value returned by the checked multiplication is in range *)
Lemma rmul_checked_fits : forall x y n d, rmul_checked x y = Val (n, d) -> fits n = true /\ fits d = true.
Proof.
  intros [a b] [c e] n d. unfold rmul_checked, c_mul.
  destruct (fits (a / Z.gcd a e * (c / Z.gcd b c))) eqn:E1; [|discriminate]. cbn [bind].
  destruct (fits (b / Z.gcd b c * (e / Z.gcd a e))) eqn:E2; [|discriminate]. cbn [bind].
  intros H. inversion H; subst. split; assumption.
Qed.

(* ------------------------------------------------ the guarded run-time paths *)
Lemma expect_val : forall A (x : out A) r, x = Val r -> expect x = Val r.
Proof. intros A x r H. rewrite H. reflexivity. Qed.

Theorem upower_guarded_no_panic : forall fs e, upower_guarded fs e <> Panic.
Proof.
  intros fs e. unfold upower_guarded.
  destruct (fmap_exp (fun m => rmul_checked m e) fs) as [| |r] eqn:E.
  - exfalso. revert E. apply np_fmap_exp. intros. apply np_rmul_checked.
  - discriminate.
  - unfold upower. rewrite (fmap_exp_expect _ (fun m => rmul_checked m e)) by (intros; apply rmul_expect).
    rewrite E. discriminate.
Qed.

Definition all_wf (fs : list factor) : Prop := Forall (fun f => wf_ratio (snd f)) fs.

Lemma radd_checked_wf : forall x y r, wf_ratio x -> wf_ratio y -> radd_checked x y = Val r -> wf_ratio r.
Proof.
  intros [a b] [c d] r (Fa & Fb & Pb) (Fc & Fd & Pd). cbn [fst snd] in *.
  unfold radd_checked. cbv zeta. set (g := Z.gcd b d).
  assert (Hg : 0 < g).
  { unfold g. pose proof (Z.gcd_nonneg b d). assert (Z.gcd b d <> 0); [|lia].
    intro E. apply Z.gcd_eq_0_l in E. lia. }
  unfold c_mul at 1. destruct (fits (b / g * d)) eqn:Fl; [|discriminate]. cbn [bind].
  set (l := b / g * d) in *.
  assert (Pl : 0 < l).
  { unfold l. apply Z.mul_pos_pos; [|lia]. apply Z.div_str_pos. split; [lia|].
    apply Z.divide_pos_le; [lia|]. unfold g. apply Z.gcd_divide_l. }
  intros H.
  destruct (c_mul (l / b) a) as [| |ln]; try discriminate. cbn [bind] in H.
  destruct (c_mul (l / d) c) as [| |rn]; try discriminate. cbn [bind] in H.
  unfold c_add in H. destruct (fits (ln + rn)) eqn:Fs; [|discriminate]. cbn [bind] in H.
  inversion H; subst. repeat split; cbn [fst snd]; assumption.
Qed.

Lemma fmerge_expect_wf : forall fs, all_wf fs ->
  fmerge fs = expect (ftry_merge fs) /\ (forall r, ftry_merge fs = Val r -> all_wf r).
Proof.
  induction fs as [|[k m] fs IH]; intros W.
  - split; [reflexivity|]. intros r H. inversion H. constructor.
  - inversion W as [|? ? Wm Wfs]; subst. cbn [snd] in Wm.
    destruct (IH Wfs) as [IH1 IH2]. unfold fmerge, ftry_merge in *. cbn [fmerge_with].
    rewrite IH1. destruct (fmerge_with radd_checked fs) as [| |r'] eqn:E.
    + split; [reflexivity|discriminate].
    + split; [reflexivity|discriminate].
    + specialize (IH2 r' eq_refl). cbn [expect bind].
      destruct r' as [|[k' m'] r'']; [split; [reflexivity|]; intros r H; inversion H; subst; constructor; [assumption|constructor]|].
      inversion IH2 as [|? ? Wm' Wr'']; subst. cbn [snd] in Wm'.
      destruct (Nat.eqb k k').
      * rewrite (radd_expect m m' Wm Wm').
        destruct (radd_checked m m') as [| |s] eqn:Es.
        -- exfalso. revert Es. apply np_radd_checked.
        -- split; [reflexivity|discriminate].
        -- split; [reflexivity|]. intros r H. inversion H; subst. constructor; [|assumption].
           cbn [snd]. apply (radd_checked_wf m m'); assumption.
      * split; [reflexivity|]. intros r H. inversion H; subst. constructor; [assumption|]. constructor; assumption.
Qed.

Lemma all_wf_concat : forall a b, all_wf a -> all_wf b -> all_wf (fconcat_sorted a b).
Proof.
  induction a as [|[ka ma] ra IHa]; intros b Wa Wb; [exact Wb|].
  inversion Wa; subst.
  induction b as [|[kb mb] rb IHb]; [exact Wa|].
  inversion Wb; subst. cbn [fconcat_sorted].
  destruct (Nat.leb ka kb).
  - constructor; [assumption|]. apply IHa; assumption.
  - constructor; [assumption|]. apply IHb. assumption.
Qed.

Theorem pmultiply_guarded_no_panic : forall a b, all_wf a -> all_wf b -> pmultiply_guarded a b <> Panic.
Proof.
  intros a b Wa Wb. unfold pmultiply_guarded.
  destruct (ftry_merge (fconcat_sorted a b)) as [| |r] eqn:E.
  - exfalso. revert E. apply np_fmerge_with. apply np_radd_checked.
  - discriminate.
  - unfold pmultiply. destruct (fmerge_expect_wf _ (all_wf_concat a b Wa Wb)) as [H _].
    rewrite H, E. discriminate.
Qed.

Lemma order_u16_small : forall b, 1 <= b < 65536 -> order_u16 b = b.
Proof. intros. unfold order_u16. apply Z.mod_small. lia. Qed.

Lemma parse_factorial_order_exact : forall b n, parse_factorial_order b = Some n -> order_u16 n = n /\ 1 <= n.
Proof.
  intros b n. unfold parse_factorial_order.
  destruct ((1 <=? b) && (b <=? 65535)) eqn:E; [|discriminate].
  intros H. inversion H; subst. apply andb_true_iff in E. destruct E as [E1 E2].
  apply Z.leb_le in E1. apply Z.leb_le in E2. split; [apply order_u16_small; lia|lia].
Qed.

(* ------------------------------------------ witnesses of the unchecked paths *)
(* ((m/cm)^1e30)^1e30 : UnitFactor::power, exponent 1e30 * 1e30 *)
Lemma upower_refuted :
  upower [(0%nat, (10 ^ 30, 1)); (1%nat, (- 10 ^ 30, 1))] (10 ^ 30, 1) = Panic
  /\ rmul_checked (10 ^ 30, 1) (10 ^ 30, 1) = Overflow.
Proof. vm_compute. split; reflexivity. Qed.

(* fn f(x) = x^(2^126) * x^(2^126) : DType::power during substitution, exponent 2 * 2^126 *)
Lemma dpower_refuted :
  dpower [(0%nat, (2 ^ 126, 1))] (2, 1) = Panic /\ dtry_power [(0%nat, (2 ^ 126, 1))] (2, 1) = Overflow.
Proof. vm_compute. split; reflexivity. Qed.

(* dimension Z = Length^(2^126) * Length^(2^126) : merge of equal keys, 2^126 + 2^126 *)
Lemma pmultiply_refuted :
  pmultiply [(0%nat, (2 ^ 126, 1))] [(0%nat, (2 ^ 126, 1))] = Panic
  /\ dtry_multiply [(0%nat, (2 ^ 126, 1))] [(0%nat, (2 ^ 126, 1))] = Overflow
  /\ dmultiply [(0%nat, (2 ^ 126, 1))] [(0%nat, (2 ^ 126, 1))] = Panic.
Proof. vm_compute. repeat split; reflexivity. Qed.

(* m^(1/2^100) + m^(1/3^70) : exponents 1/2^100 and 1/3^70, the lcm of the denominators *)
Lemma radd_lcm_refuted :
  radd (1, 2 ^ 100) (-1, 3 ^ 70) = Panic /\ radd_checked (1, 2 ^ 100) (-1, 3 ^ 70) = Overflow
  /\ wf_ratio (1, 2 ^ 100) /\ wf_ratio (-1, 3 ^ 70).
Proof. vm_compute. repeat split; reflexivity. Qed.

(* ---------------------------------------------------------------- factorial *)
Lemma fact_loop_terminates : forall fuel x order result,
  1 <= order -> x < Z.of_nat fuel + 1 -> exists v, fact_loop fuel x order result = Some v.
Proof.
  induction fuel as [|f IH]; intros x order result Ho Hx.
  - simpl in *. assert (E : (x <? 1) = true) by (apply Z.ltb_lt; lia). rewrite E. eauto.
  - cbn [fact_loop]. destruct (x <? 1) eqn:E; [eauto|].
    apply IH; [assumption|]. apply Z.ltb_ge in E. lia.
Qed.

Lemma factorial_order_ge1 : forall x order, 1 <= order -> 0 <= x ->
  exists v, factorial_dbg (Z.to_nat x) x order = Val (Some v).
Proof.
  intros x order Ho Hx. unfold factorial_dbg.
  assert (E : (order <? 1) = false) by (apply Z.ltb_ge; assumption). rewrite E.
  destruct (fact_loop_terminates (Z.to_nat x) x order 1 Ho) as [v Hv]; [lia|].
  rewrite Hv. eauto.
Qed.

Lemma factorial_truncation_refuted :
  order_u16 65536 = 0 /\
  (forall fuel x, factorial_dbg fuel x (order_u16 65536) = Panic) /\
  (forall fuel result, fact_loop fuel 1 (order_u16 65536) result = None).
Proof.
  split; [reflexivity|]. split.
  - intros. reflexivity.
  - change (order_u16 65536) with 0. induction fuel as [|f IH]; intros result; [reflexivity|].
    cbn [fact_loop]. change (1 <? 1) with false. cbv iota. rewrite Z.sub_0_r. apply IH.
Qed.

Lemma order_u16_ok : forall b, 1 <= b < 65536 -> order_u16 b = b.
Proof. intros. unfold order_u16. apply Z.mod_small. lia. Qed.

Set Warnings "-inexact-float".
(* ------------------------------ 1 Rm^12/m < 1 Qm^11 : both unit factors are +inf in f64 *)
Lemma cmp_nan_refuted :
  cmp_after_conversion 1 1 (fpow 1e30 11) (fpow 1e27 12 / 1)%float = Panic
  /\ PrimFloat.is_nan (fpow 1e30 11 / (fpow 1e27 12 / 1))%float = true
  /\ cmp_after_conversion 1 1 (fpow 1e30 2) (fpow 1e27 2)%float = Val FLt.
Proof. vm_compute. repeat split; reflexivity. Qed.
