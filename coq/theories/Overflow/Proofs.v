(* C08 — proofs about Overflow/Model.v *)
From Coq Require Import ZArith List Bool Lia.
From NV Require Import Overflow.Model.
Import ListNotations.
Local Open Scope Z_scope.

(* the checked operation fails exactly where the unchecked one panics, and
   otherwise returns the same in-range result *)
Lemma rmul_checked_iff : forall x y,
  (rmul x y = Panic <-> rmul_checked x y = None) /\
  (forall r, rmul x y = Val r <-> rmul_checked x y = Some r).
Proof.
  intros x y. unfold rmul, rmul_checked. destruct (mul_parts x y) as [n d].
  destruct (fits n && fits d); split; try split; intros; try discriminate; try reflexivity;
    try (inversion H; reflexivity).
Qed.

Lemma rmul_checked_fits : forall x y n d, rmul_checked x y = Some (n, d) -> fits n = true /\ fits d = true.
Proof.
  intros x y n d. unfold rmul_checked. destruct (mul_parts x y) as [n' d'].
  destruct (fits n' && fits d') eqn:E; [|discriminate].
  intros H. inversion H; subst. apply andb_true_iff. assumption.
Qed.

(* the value is the product: n/d = (a*c)/(b*d') as a cross-multiplied identity *)
Lemma mul_parts_value : forall a b c d, b <> 0 -> d <> 0 ->
  let '(n, m) := mul_parts (a, b) (c, d) in n * (b * d) = (a * c) * m.
Proof.
  intros a b c d Hb Hd. unfold mul_parts.
  set (g1 := Z.gcd a d). set (g2 := Z.gcd b c).
  assert (G1 : g1 <> 0) by (unfold g1; intro H; apply Z.gcd_eq_0_r in H; contradiction).
  assert (G2 : g2 <> 0) by (unfold g2; intro H; apply Z.gcd_eq_0_l in H; contradiction).
  destruct (Z.gcd_divide_l a d) as [qa Ha]. destruct (Z.gcd_divide_r a d) as [qd Hdd].
  destruct (Z.gcd_divide_l b c) as [qb Hbb]. destruct (Z.gcd_divide_r b c) as [qc Hc].
  fold g1 in Ha, Hdd. fold g2 in Hbb, Hc.
  rewrite Ha at 1. rewrite Z.div_mul by assumption.
  rewrite Hc at 1. rewrite Z.div_mul by assumption.
  rewrite Hbb at 2. rewrite Z.div_mul by assumption.
  rewrite Hdd at 2. rewrite Z.div_mul by assumption.
  rewrite Hbb at 1. rewrite Hdd at 1. rewrite Ha at 1. rewrite Hc at 1. ring.
Qed.

Lemma dtry_power_iff : forall fs n,
  (dpower fs n = Panic <-> dtry_power fs n = None) /\
  (forall r, dpower fs n = Val r <-> dtry_power fs n = Some r).
Proof.
  induction fs as [|[f m] fs IH]; intros n.
  - simpl. split; split; intros H; try discriminate; inversion H; reflexivity.
  - cbn [dpower dtry_power]. destruct (IH n) as [IH1 IH2].
    destruct (rmul_checked_iff n m) as [M1 M2].
    destruct (rmul n m) as [|e] eqn:Em.
    + rewrite (proj1 M1 eq_refl). split; split; intros; try discriminate; reflexivity.
    + rewrite (proj1 (M2 e) eq_refl).
      destruct (dpower fs n) as [|r'] eqn:Ed.
      * rewrite (proj1 IH1 eq_refl). split; split; intros; try discriminate; reflexivity.
      * rewrite (proj1 (IH2 r') eq_refl). split; split; intros H; try discriminate; inversion H; reflexivity.
Qed.

(* witnesses of the unchecked paths *)
Lemma rmul_refuted : exists x y, fits (fst x) = true /\ fits (fst y) = true /\ rmul x y = Panic.
Proof. exists (10 ^ 30, 1), (10 ^ 30, 1). vm_compute. repeat split. Qed.

Lemma radd_refuted : exists x y, fits (fst x) = true /\ fits (fst y) = true /\ radd_same x y = Panic.
Proof. exists (2 ^ 126, 1), (2 ^ 126, 1). vm_compute. repeat split. Qed.

Lemma dpower_refuted : exists fs n, dpower fs n = Panic /\ dtry_power fs n = None.
Proof. exists [(0%nat, (10 ^ 30, 1))], (10 ^ 30, 1). vm_compute. split; reflexivity. Qed.

(* ---------------------------------------------------------------- factorial *)
Lemma fact_loop_terminates : forall fuel x order result,
  1 <= order -> x < Z.of_nat fuel + 1 -> exists v, fact_loop fuel x order result = Some v.
Proof.
  induction fuel as [|f IH]; intros x order result Ho Hx.
  - simpl in *. assert (E : (x <? 1) = true) by (apply Z.ltb_lt; lia). rewrite E. eauto.
  - cbn [fact_loop]. destruct (x <? 1) eqn:E; [eauto|].
    apply IH; [assumption|]. apply Z.ltb_ge in E. lia.
Qed.

Lemma factorial_order_ge1 : forall x order, 1 <= order -> 0 <= x ->
  exists v, factorial_dbg (Z.to_nat x) x order = Val (Some v).
Proof.
  intros x order Ho Hx. unfold factorial_dbg.
  assert (E : (order <? 1) = false) by (apply Z.ltb_ge; assumption). rewrite E.
  destruct (fact_loop_terminates (Z.to_nat x) x order 1 Ho) as [v Hv]; [lia|].
  rewrite Hv. eauto.
Qed.

(* 65536 exclamation marks: the order becomes 0; the debug assertion fails, and
   without it the loop never ends for x = 1 *)
Lemma factorial_truncation_refuted :
  order_u16 65536 = 0 /\
  (forall fuel x, factorial_dbg fuel x (order_u16 65536) = Panic) /\
  (forall fuel result, fact_loop fuel 1 (order_u16 65536) result = None).
Proof.
  split; [reflexivity|]. split.
  - intros. reflexivity.
  - change (order_u16 65536) with 0. induction fuel as [|f IH]; intros result; [reflexivity|].
    cbn [fact_loop]. change (1 <? 1) with false. cbv iota. rewrite Z.sub_0_r. apply IH.
Qed.

Lemma order_u16_ok : forall b, 1 <= b < 65536 -> order_u16 b = b.
Proof. intros. unfold order_u16. apply Z.mod_small. lia. Qed.
