(* C08 — the arithmetic cores that panic: num-rational 0.4.2 Ratio<i128>
   multiplication/addition as used for unit and dimension exponents
   (arithmetic.rs `Rational = Ratio<i128>`; typed_ast.rs DType::power / try_power,
   canonicalize; unit.rs / product.rs power), and the factorial operator
   (bytecode_interpreter.rs `order.get() as u16`, math.rs factorial).
   i128 overflow is a panic in builds with overflow checks (the profile the check
   uses); `checked_*` return None instead.  Ratio::new's final gcd reduction is
   not modelled (it cannot overflow except for i128::MIN).  No proofs here. *)
From Coq Require Import ZArith List Bool.
Import ListNotations.
Local Open Scope Z_scope.

Inductive out (A : Type) := Panic | Val (a : A).
Arguments Panic {A}. Arguments Val {A} a.

Definition fits (z : Z) : bool := (- 2 ^ 127 <=? z) && (z <? 2 ^ 127).
Definition ratio : Type := (Z * Z)%type.          (* numer, denom; denom > 0 *)

(* a/b * c/d: gcd_ad = gcd(a,d), gcd_bc = gcd(b,c); (a/gcd_ad * (c/gcd_bc)) / (b/gcd_bc * (d/gcd_ad)) *)
Definition mul_parts (x y : ratio) : Z * Z :=
  let '(a, b) := x in let '(c, d) := y in
  let g1 := Z.gcd a d in let g2 := Z.gcd b c in
  ((a / g1) * (c / g2), (b / g2) * (d / g1)).

(* impl Mul for Ratio<T>: plain `*` on i128 *)
Definition rmul (x y : ratio) : out ratio :=
  let '(n, d) := mul_parts x y in if fits n && fits d then Val (n, d) else Panic.
(* impl CheckedMul for Ratio<T> *)
Definition rmul_checked (x y : ratio) : option ratio :=
  let '(n, d) := mul_parts x y in if fits n && fits d then Some (n, d) else None.

(* a/b + c/d, the branch self.denom == rhs.denom of arith_impl!(Add): numer + numer *)
Definition radd_same (x y : ratio) : out ratio :=
  let '(a, b) := x in let '(c, _) := y in if fits (a + c) then Val (a + c, b) else Panic.

(* typed_ast.rs DType::power: every factor's exponent is multiplied with `*`;
   DType::try_power: with checked_mul *)
Fixpoint dpower (fs : list (nat * ratio)) (n : ratio) : out (list (nat * ratio)) :=
  match fs with
  | [] => Val []
  | (f, m) :: r =>
      match rmul n m, dpower r n with
      | Val e, Val r' => Val ((f, e) :: r')
      | _, _ => Panic
      end
  end.
Fixpoint dtry_power (fs : list (nat * ratio)) (n : ratio) : option (list (nat * ratio)) :=
  match fs with
  | [] => Some []
  | (f, m) :: r =>
      match rmul_checked n m, dtry_power r n with
      | Some e, Some r' => Some ((f, e) :: r')
      | _, _ => None
      end
  end.

(* ---------------------------------------------------------------- factorial *)
(* parser: `order` counts the `!` characters (NonZeroUsize); compiler: `order.get() as u16` *)
Definition order_u16 (bangs : Z) : Z := bangs mod 65536.

(* math.rs factorial on an integral argument, f64 infinity aside:
     debug_assert!(order >= 1);
     while x >= 1 { result *= x; x -= order }
   fuel-indexed; None = still running when the fuel is used up *)
Fixpoint fact_loop (fuel : nat) (x order result : Z) : option Z :=
  if x <? 1 then Some result else
  match fuel with
  | O => None
  | S f => fact_loop f (x - order) order (result * x)
  end.

Definition factorial_dbg (fuel : nat) (x order : Z) : out (option Z) :=
  if order <? 1 then Panic else Val (fact_loop fuel x order 1).
