(* C08 — the arithmetic cores that panic.

   num-rational 0.4.2 `Ratio<i128>` (numbat/src/arithmetic.rs: Rational = Exponent =
   Ratio<i128>) as used for unit and dimension exponents:
     * unit.rs UnitFactor::power, registry.rs BaseRepresentationFactor::power,
       typed_ast.rs DType::power:               exponent * e     (impl Mul, plain i128 `*`)
     * unit.rs / registry.rs Canonicalize::merge: exponent + exponent (impl Add, plain `+`, lcm)
     * typed_ast.rs DType::try_power:           checked_mul
     * typed_ast.rs DType::try_canonicalize:    checked_add ;  DType::canonicalize = try_canonicalize().expect(..)
   An i128 overflow is a panic in builds with overflow checks; `checked_*` return None,
   which the type checker reports as an error.  Outcomes are three-valued so that
   "the checked paths never panic" is a statement that can be false.
   Not modelled: Ratio::new's final gcd reduction (cannot overflow except for
   i128::MIN), the sort before merging (lists are taken sorted by key).
   Also here: the factorial operator (bytecode_interpreter.rs `order.get() as u16`,
   math.rs factorial) and the f64 comparison after a unit conversion that overflows
   (quantity.rs partial_cmp_preserve_nan), the latter on primitive floats.
   No proofs in this file. *)
From Coq Require Import ZArith List Bool PrimFloat.
Import ListNotations.
Local Open Scope Z_scope.

Inductive out (A : Type) := Panic | Overflow | Val (a : A).
Arguments Panic {A}. Arguments Overflow {A}. Arguments Val {A} a.

Definition bind {A B} (x : out A) (f : A -> out B) : out B :=
  match x with Panic => Panic | Overflow => Overflow | Val a => f a end.
Notation "x <- e ;; f" := (bind e (fun x => f)) (at level 61, e at next level, right associativity).

Definition fits (z : Z) : bool := (- 2 ^ 127 <=? z) && (z <? 2 ^ 127).

(* i128 primitives: `a * b`, `a + b` (panic on overflow) and checked_mul / checked_add *)
Definition i_mul (a b : Z) : out Z := if fits (a * b) then Val (a * b) else Panic.
Definition i_add (a b : Z) : out Z := if fits (a + b) then Val (a + b) else Panic.
Definition c_mul (a b : Z) : out Z := if fits (a * b) then Val (a * b) else Overflow.
Definition c_add (a b : Z) : out Z := if fits (a + b) then Val (a + b) else Overflow.

Definition ratio : Type := (Z * Z)%type.          (* numer, denom; denom > 0 *)

(* impl Mul for Ratio:  gcd_ad = gcd(a,d); gcd_bc = gcd(b,c);
   Ratio::new(a/gcd_ad * (c/gcd_bc), b/gcd_bc * (d/gcd_ad)) *)
Definition rmul (x y : ratio) : out ratio :=
  let '(a, b) := x in let '(c, d) := y in
  let g1 := Z.gcd a d in let g2 := Z.gcd b c in
  n <- i_mul (a / g1) (c / g2) ;; m <- i_mul (b / g2) (d / g1) ;; Val (n, m).
(* impl CheckedMul for Ratio: the same with checked_mul *)
Definition rmul_checked (x y : ratio) : out ratio :=
  let '(a, b) := x in let '(c, d) := y in
  let g1 := Z.gcd a d in let g2 := Z.gcd b c in
  n <- c_mul (a / g1) (c / g2) ;; m <- c_mul (b / g2) (d / g1) ;; Val (n, m).

(* arith_impl!(impl Add): same denominators: numer + numer; else
   lcm = b.lcm(d) = |b * (d / gcd(b,d))| ; a * (lcm / b) + c * (lcm / d) over lcm *)
Definition radd (x y : ratio) : out ratio :=
  let '(a, b) := x in let '(c, d) := y in
  if b =? d then n <- i_add a c ;; Val (n, d)
  else l <- i_mul b (d / Z.gcd b d) ;;
       ln <- i_mul a (Z.abs l / b) ;; rn <- i_mul c (Z.abs l / d) ;;
       s <- i_add ln rn ;; Val (s, Z.abs l).
(* checked_arith_impl!(impl CheckedAdd): gcd = gcd(b,d); lcm = (b/gcd).checked_mul(d)?;
   (lcm/b).checked_mul(a)? ; (lcm/d).checked_mul(c)? ; checked_add *)
Definition radd_checked (x y : ratio) : out ratio :=
  let '(a, b) := x in let '(c, d) := y in
  let g := Z.gcd b d in
  l <- c_mul (b / g) d ;;
  ln <- c_mul (l / b) a ;; rn <- c_mul (l / d) c ;;
  s <- c_add ln rn ;; Val (s, l).

(* ---- products of factors with rational exponents (key = position in a table) *)
Definition factor : Type := (nat * ratio)%type.

Fixpoint fmap_exp (f : ratio -> out ratio) (fs : list factor) : out (list factor) :=
  match fs with
  | [] => Val []
  | (k, m) :: r => x <- f m ;; r' <- fmap_exp f r ;; Val ((k, x) :: r')
  end.
(* UnitFactor::power / BaseRepresentationFactor::power: self.exponent * e *)
Definition upower (fs : list factor) (e : ratio) := fmap_exp (fun m => rmul m e) fs.
(* DType::power: n * m ;  DType::try_power: n.checked_mul(m) *)
Definition dpower (fs : list factor) (n : ratio) := fmap_exp (fun m => rmul n m) fs.
Definition dtry_power (fs : list factor) (n : ratio) := fmap_exp (fun m => rmul_checked n m) fs.

(* merging neighbours with equal keys of a key-sorted list:
   Product::canonicalize (merge = `+`) and DType::try_canonicalize (checked_add) *)
Fixpoint fmerge_with (add : ratio -> ratio -> out ratio) (fs : list factor) : out (list factor) :=
  match fs with
  | [] => Val []
  | (k, m) :: r =>
      r' <- fmerge_with add r ;;
      match r' with
      | (k', m') :: r'' => if Nat.eqb k k' then s <- add m m' ;; Val ((k, s) :: r'')
                           else Val ((k, m) :: r')
      | [] => Val [(k, m)]
      end
  end.
Definition fmerge := fmerge_with radd.
Definition ftry_merge := fmerge_with radd_checked.

(* fn canonicalize(&mut self) { self.try_canonicalize().expect("overflow in dimension type exponent computation") } *)
Definition expect {A} (x : out A) : out A := match x with Overflow => Panic | o => o end.

(* DType::try_multiply / DType::multiply (concatenate, canonicalize) on sorted operands:
   the concatenation is merged pairwise here, which is what sorting + merging neighbours gives *)
Definition fconcat_sorted (a b : list factor) : list factor :=
  (* merge of two key-sorted lists, stable *)
  (fix go (a : list factor) : list factor -> list factor :=
     match a with
     | [] => fun b => b
     | (ka, ma) :: ra =>
         fix gob (b : list factor) : list factor :=
           match b with
           | [] => (ka, ma) :: ra
           | (kb, mb) :: rb => if Nat.leb ka kb then (ka, ma) :: go ra b else (kb, mb) :: gob rb
           end
     end) a b.
Definition dtry_multiply (a b : list factor) : out (list factor) := ftry_merge (fconcat_sorted a b).
Definition dmultiply (a b : list factor) : out (list factor) := expect (dtry_multiply a b).
(* Unit / BaseRepresentation multiplication: Product::mul -> canonicalize with `+` *)
Definition pmultiply (a b : list factor) : out (list factor) := fmerge (fconcat_sorted a b).

(* ---- the guarded run-time paths (after the repairs of phase 4)
   Quantity::checked_power: every `exponent.checked_mul(&e)` is tried first (error
   QuantityError::ExponentOverflow), then the unchecked Unit::power runs;
   VM Multiply/Divide: the product is formed, `unit.try_canonicalized()` is tried once
   (same error), later canonicalizations of that unit use the unchecked merge. *)
Definition upower_guarded (fs : list factor) (e : ratio) : out (list factor) :=
  match fmap_exp (fun m => rmul_checked m e) fs with
  | Val _ => upower fs e
  | Overflow => Overflow
  | Panic => Panic
  end.
Definition pmultiply_guarded (a b : list factor) : out (list factor) :=
  match ftry_merge (fconcat_sorted a b) with
  | Val _ => pmultiply a b
  | Overflow => Overflow
  | Panic => Panic
  end.

(* parser: more than u16::MAX consecutive `!` is a parse error (None), so the order that
   reaches `order.get() as u16` is never truncated *)
Definition parse_factorial_order (bangs : Z) : option Z :=
  if (1 <=? bangs) && (bangs <=? 65535) then Some bangs else None.

(* ---------------------------------------------------------------- factorial *)
(* parser: `order` counts the `!` characters (NonZeroUsize); compiler: `order.get() as u16` *)
Definition order_u16 (bangs : Z) : Z := bangs mod 65536.

(* math.rs factorial on an integral argument, f64 infinity aside:
     debug_assert!(order >= 1);
     while x >= 1 { result *= x; x -= order }
   fuel-indexed; None = still running when the fuel is used up *)
Fixpoint fact_loop (fuel : nat) (x order result : Z) : option Z :=
  if x <? 1 then Some result else
  match fuel with
  | O => None
  | S f => fact_loop f (x - order) order (result * x)
  end.

Definition factorial_dbg (fuel : nat) (x order : Z) : out (option Z) :=
  if order <? 1 then Panic else Val (fact_loop fuel x order 1).

(* ------------------------------------------- comparison after an overflowing conversion *)
(* quantity.rs partial_cmp_preserve_nan: neither operand is NaN; other.convert_to(self.unit())
   multiplies by (factor of other's unit) / (factor of self's unit), both computed in f64;
   self.value.partial_cmp(&converted).expect("unexpectedly got a None partial_cmp from non-NaN arguments") *)
Local Open Scope float_scope.
Fixpoint fpow (b : float) (n : nat) : float := match n with O => 1 | S k => b * fpow b k end.

Definition cmp_after_conversion (v_self v_other f_other f_self : float) : out float_comparison :=
  let converted := v_other * (f_other / f_self) in
  match PrimFloat.compare v_self converted with
  | FNotComparable => Panic
  | c => Val c
  end.
