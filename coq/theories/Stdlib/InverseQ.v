(* C23 — inverse-pair identities for the generated rational definitions and the
   hand-ported mixed-unit list. *)
From Coq Require Import QArith Qround ZArith Lia Lqa List Setoid.
From NV Require Import Stdlib.Model Gen.NbtFunsQ.
Import ListNotations.
Local Open Scope Q_scope.

(* ------------------------------------------------------------- temperatures *)
Lemma celsius_inv : forall x, nbt_deg_C (nbt_from_celsius x) == x /\ nbt_from_celsius (nbt_deg_C x) == x.
Proof.
  intros x. unfold nbt_deg_C, nbt_from_celsius, nbt__offset_celsius, nbt_kelvin. split; field.
Qed.

Lemma fahrenheit_inv : forall x,
  nbt_deg_F (nbt_from_fahrenheit x) == x /\ nbt_from_fahrenheit (nbt_deg_F x) == x.
Proof.
  intros x. unfold nbt_deg_F, nbt_from_fahrenheit, nbt__offset_fahrenheit, nbt__scale_fahrenheit, nbt_kelvin.
  split; field; discriminate.
Qed.

(* -------------------------------------------------------------- Julian date *)
Lemma julian_inv : forall x,
  nbt_julian_date (nbt_from_julian_date x) == x /\ nbt_from_julian_date (nbt_julian_date x) == x.
Proof. intros x. unfold nbt_julian_date, nbt_from_julian_date. split; ring. Qed.

(* ---------------------------------------------------------------- Unix time *)
Lemma Qfloor_of_Z : forall x n, x == inject_Z n -> Qfloor x = n.
Proof. intros x n H. rewrite H. apply Qfloor_Z. Qed.

Lemma qtrunc_of_Z : forall x n, x == inject_Z n -> qtrunc x = n.
Proof.
  intros x n H. unfold qtrunc.
  destruct (Qle_bool 0 x) eqn:E.
  - apply Qfloor_of_Z. assumption.
  - rewrite (Qfloor_of_Z (- x) (- n)); [lia|]. rewrite H, inject_Z_opp. reflexivity.
Qed.

Lemma q_trunc_of_Z : forall x n, x == inject_Z n -> q_trunc x == inject_Z n.
Proof. intros. unfold q_trunc. rewrite (qtrunc_of_Z x n) by assumption. reflexivity. Qed.

Lemma Qfloor_unique_aux : forall x n, inject_Z n <= x -> x < inject_Z (n + 1) -> n = Qfloor x.
Proof.
  intros x n H1 H2.
  assert (A : (n <= Qfloor x)%Z).
  { rewrite <- (Qfloor_Z n). apply Qfloor_resp_le. assumption. }
  assert (B : (Qfloor x < n + 1)%Z).
  { rewrite Zlt_Qlt. apply Qle_lt_trans with x; [apply Qfloor_le|assumption]. }
  lia.
Qed.

Lemma qround_of_Z : forall x n, x == inject_Z n -> qround x = n.
Proof.
  intros x n H. unfold qround.
  destruct (Qle_bool 0 x) eqn:E.
  - assert (B : inject_Z n <= x + (1 # 2) /\ x + (1 # 2) < inject_Z (n + 1)).
    { rewrite H, inject_Z_plus. split; [|change (inject_Z 1) with 1]; lra. }
    destruct B as [B1 B2]. symmetry. apply Qfloor_unique_aux; assumption.
  - assert (B : inject_Z (- n) <= - x + (1 # 2) /\ - x + (1 # 2) < inject_Z (- n + 1)).
    { rewrite H, inject_Z_plus, inject_Z_opp. split; [|change (inject_Z 1) with 1]; lra. }
    destruct B as [B1 B2]. rewrite <- (Qfloor_unique_aux _ _ B1 B2). lia.
Qed.

Lemma q_round_of_Z : forall x n, x == inject_Z n -> q_round x == inject_Z n.
Proof. intros. unfold q_round. rewrite (qround_of_Z x n) by assumption. reflexivity. Qed.

Lemma q_floor_of_Z : forall x n, x == inject_Z n -> q_floor x == inject_Z n.
Proof. intros. unfold q_floor. rewrite (Qfloor_of_Z x n) by assumption. reflexivity. Qed.

Global Instance q_trunc_proper : Proper (Qeq ==> Qeq) q_trunc.
Proof.
  intros x y H. unfold q_trunc, qtrunc. rewrite H.
  destruct (Qle_bool 0 y); [rewrite H|rewrite (Qfloor_comp (- x) (- y))]; try reflexivity.
  rewrite H. reflexivity.
Qed.

(* an instant that is a whole number k of microseconds *)
Definition us_instant (k : Z) : Q := inject_Z k / 1000000.

Lemma ffi_to_from : forall k, ffi_unixtime_us (us_instant k) == inject_Z k.
Proof.
  intros k. unfold ffi_unixtime_us, us_instant. apply q_trunc_of_Z. field.
Qed.

Lemma from_unixtime_us_instant : forall x k, x == inject_Z k -> ffi_from_unixtime_us x == us_instant k.
Proof.
  intros x k H. unfold ffi_from_unixtime_us, us_instant. rewrite (q_round_of_Z x k H). reflexivity.
Qed.

(* unixtime_X(from_unixtime_X(n)) = n for every integer n *)
Lemma unixtime_int : forall n : Z,
  nbt_unixtime_s (nbt_from_unixtime_s (inject_Z n)) == inject_Z n /\
  nbt_unixtime_ms (nbt_from_unixtime_ms (inject_Z n)) == inject_Z n /\
  nbt_unixtime_us (nbt_from_unixtime_us (inject_Z n)) == inject_Z n.
Proof.
  intros n.
  assert (Hs : nbt_from_unixtime_s (inject_Z n) == us_instant (n * 1000000)).
  { unfold nbt_from_unixtime_s, nbt_from_unixtime. apply from_unixtime_us_instant.
    rewrite inject_Z_mult. unfold nbt_unix_us, nbt_unix_s. change (inject_Z 1000000) with (1000000 # 1). field. }
  assert (Hm : nbt_from_unixtime_ms (inject_Z n) == us_instant (n * 1000)).
  { unfold nbt_from_unixtime_ms, nbt_from_unixtime. apply from_unixtime_us_instant.
    rewrite inject_Z_mult. unfold nbt_unix_us, nbt_unix_ms, nbt_unix_s. change (inject_Z 1000) with (1000 # 1). field. }
  assert (Hu : nbt_from_unixtime_us (inject_Z n) == us_instant n).
  { unfold nbt_from_unixtime_us, nbt_from_unixtime. apply from_unixtime_us_instant.
    unfold nbt_unix_us, nbt_unix_s. field. }
  assert (P : forall a b, a == b -> ffi_unixtime_us a == ffi_unixtime_us b).
  { intros a b H. unfold ffi_unixtime_us. rewrite H. reflexivity. }
  repeat split.
  - unfold nbt_unixtime_s. apply q_floor_of_Z.
    rewrite (P _ _ Hs), ffi_to_from, inject_Z_mult.
    change (inject_Z 1000000) with (1000000 # 1). field.
  - unfold nbt_unixtime_ms. apply q_floor_of_Z.
    rewrite (P _ _ Hm), ffi_to_from, inject_Z_mult.
    change (inject_Z 1000) with (1000 # 1). field.
  - unfold nbt_unixtime_us. rewrite (P _ _ Hu). apply ffi_to_from.
Qed.

(* from_unixtime(unixtime(t)) = t and unixtime(from_unixtime(x)) = x on whole microseconds *)
Lemma unixtime_aligned : forall k : Z,
  nbt_from_unixtime (nbt_unixtime (us_instant k)) == us_instant k /\
  nbt_unixtime (nbt_from_unixtime (inject_Z k * nbt_unix_us)) == inject_Z k * nbt_unix_us.
Proof.
  intros k.
  assert (P : forall a b, a == b -> ffi_unixtime_us a == ffi_unixtime_us b).
  { intros a b H. unfold ffi_unixtime_us. rewrite H. reflexivity. }
  split.
  - unfold nbt_from_unixtime, nbt_unixtime. apply from_unixtime_us_instant.
    rewrite ffi_to_from. unfold nbt_unix_us, nbt_unix_s. field.
  - unfold nbt_from_unixtime, nbt_unixtime.
    assert (H : ffi_from_unixtime_us (inject_Z k * nbt_unix_us / nbt_unix_us) == us_instant k).
    { apply from_unixtime_us_instant. unfold nbt_unix_us, nbt_unix_s. field. }
    rewrite (P _ _ H), ffi_to_from. reflexivity.
Qed.

(* ----------------------------------------------------------- mixed-unit lists *)
Lemma qsum_app : forall a b, qsum (a ++ b) == qsum a + qsum b.
Proof.
  induction a as [|x a IH]; intros b; simpl.
  - ring.
  - rewrite IH. ring.
Qed.

Lemma qsum_zeros : forall (A : Type) (l : list A), qsum (map (fun _ => 0) l) == 0.
Proof. induction l; simpl; [reflexivity|]. rewrite IHl. ring. Qed.

Lemma mixed_sum : forall units val acc l,
  mixed_unit_list val units acc = Some l -> qsum l == qsum acc + val.
Proof.
  induction units as [|u rest IH]; intros val acc l H; [discriminate|].
  cbn [mixed_unit_list] in H.
  destruct (Qeq_bool val 0) eqn:E.
  - inversion H; subst. apply Qeq_bool_iff in E.
    rewrite qsum_app. rewrite (qsum_zeros Q (u :: rest)). rewrite E. ring.
  - destruct rest as [|u2 rest'].
    + inversion H; subst. rewrite qsum_app. simpl. ring.
    + apply IH in H. rewrite H, qsum_app. simpl. ring.
Qed.

(* all parts but the last are whole multiples of their unit *)
Fixpoint whole_but_last (units parts : list Q) : Prop :=
  match units, parts with
  | [], [] => True
  | u :: us, p :: ps =>
      match us with
      | [] => ps = []
      | _ => (exists k : Z, p == inject_Z k * u) /\ whole_but_last us ps
      end
  | _, _ => False
  end.

Lemma whole_zeros : forall units, whole_but_last units (map (fun _ => 0) units).
Proof.
  induction units as [|u us IH]; [exact I|].
  cbn [map whole_but_last]. destruct us as [|u2 us'].
  - reflexivity.
  - split; [exists 0%Z; ring|exact IH].
Qed.

Lemma mixed_whole : forall units val acc l,
  mixed_unit_list val units acc = Some l ->
  exists parts, l = acc ++ parts /\ length parts = length units /\ whole_but_last units parts.
Proof.
  induction units as [|u rest IH]; intros val acc l H; [discriminate|].
  cbn [mixed_unit_list] in H.
  destruct (Qeq_bool val 0) eqn:E.
  - exists (map (fun _ => 0) (u :: rest)). split; [inversion H; reflexivity|].
    split; [apply map_length|apply whole_zeros].
  - destruct rest as [|u2 rest'].
    + inversion H; subst. exists [val]. repeat split.
    + apply IH in H. destruct H as (parts & El & Ll & W).
      exists (nbt_trunc_in u val :: parts). split; [|split].
      * rewrite El, <- app_assoc. reflexivity.
      * simpl in *. lia.
      * cbn [whole_but_last]. split; [|exact W].
        exists (qtrunc (val / u)). unfold nbt_trunc_in, q_trunc. reflexivity.
Qed.

Lemma mixed_empty_units : forall val acc, mixed_unit_list val [] acc = None.
Proof. reflexivity. Qed.

(* unit_list = _mixed_unit_list on the cleaned unit list: the two theorems carry over to
   whatever list _clean_units produces *)
Lemma unit_list_spec : forall units value l, unit_list units value = Some l ->
  qsum l == value /\ length l = length (clean_units units) /\ whole_but_last (clean_units units) l.
Proof.
  intros units value l H. unfold unit_list in H.
  pose proof (mixed_sum _ _ _ _ H) as S. destruct (mixed_whole _ _ _ _ H) as (parts & E & L & W).
  simpl in E. subst parts. split; [|split; assumption].
  rewrite S. simpl. ring.
Qed.

Lemma floor_bounds : forall x, inject_Z (Qfloor x) <= x /\ x < inject_Z (Qfloor x) + 1.
Proof.
  intros x. split; [apply Qfloor_le|].
  pose proof (Qlt_floor x) as H. rewrite inject_Z_plus in H. exact H.
Qed.

(* ---- positive unit sizes: what is split off is a whole number of units and leaves less than one unit *)
Lemma trunc_in_remainder : forall u val, 0 < u -> 0 <= val ->
  0 <= val - nbt_trunc_in u val /\ val - nbt_trunc_in u val < u /\ 0 <= nbt_trunc_in u val.
Proof.
  intros u val Hu Hv. unfold nbt_trunc_in, q_trunc, qtrunc.
  assert (Hq : 0 <= val / u) by (apply Qle_shift_div_l; [assumption|lra]).
  assert (E : Qle_bool 0 (val / u) = true) by (apply Qle_bool_iff; assumption). rewrite E.
  destruct (floor_bounds (val / u)) as [A B].
  set (f := inject_Z (Qfloor (val / u))) in *.
  assert (V : val == (val / u) * u) by (field; lra).
  assert (F0 : 0 <= f).
  { unfold f. change 0 with (inject_Z 0). rewrite <- Zle_Qle. rewrite <- (Qfloor_Z 0).
    apply Qfloor_resp_le. assumption. }
  split; [|split].
  - assert (f * u <= (val / u) * u) by (apply Qmult_le_compat_r; lra). lra.
  - assert ((val / u) * u < (f + 1) * u) by (apply Qmult_lt_compat_r; assumption). lra.
  - apply Qmult_le_0_compat; lra.
Qed.

Lemma zeros_nonneg : forall (A : Type) (l : list A), Forall (fun p => 0 <= p) (map (fun _ => 0) l).
Proof. induction l; simpl; constructor; [lra|assumption]. Qed.

Lemma mixed_nonneg : forall units val acc l,
  Forall (fun u => 0 < u) units -> 0 <= val -> Forall (fun p => 0 <= p) acc ->
  mixed_unit_list val units acc = Some l -> Forall (fun p => 0 <= p) l.
Proof.
  induction units as [|u rest IH]; intros val acc l Hu Hv Ha H; [discriminate|].
  inversion Hu as [|? ? Hu1 Hur]; subst. cbn [mixed_unit_list] in H.
  destruct (Qeq_bool val 0).
  - inversion H; subst. apply Forall_app. split; [assumption|]. apply (zeros_nonneg Q (u :: rest)).
  - destruct rest as [|u2 rest'].
    + inversion H; subst. apply Forall_app. split; [assumption|]. constructor; [assumption|constructor].
    + destruct (trunc_in_remainder u val Hu1 Hv) as (R1 & R2 & R3).
      apply (IH (val - nbt_trunc_in u val) (acc ++ [nbt_trunc_in u val]) l); try assumption.
      apply Forall_app. split; [assumption|]. constructor; [lra|constructor].
Qed.

(* ------------------------------------------------------------ further pairs *)
Lemma temperature_aliases : forall x,
  nbt_celsius (nbt_from_celsius x) == x /\ nbt_degree_celsius (nbt_from_celsius x) == x /\
  nbt_fahrenheit (nbt_from_fahrenheit x) == x /\ nbt_degree_fahrenheit (nbt_from_fahrenheit x) == x.
Proof.
  intros x. unfold nbt_celsius, nbt_degree_celsius, nbt_fahrenheit, nbt_degree_fahrenheit.
  destruct (celsius_inv x) as [C _]. destruct (fahrenheit_inv x) as [F _]. repeat split; assumption.
Qed.

Lemma reverse_app : forall (A : Type) (a b : list A), nbt_reverse (a ++ b) = nbt_reverse b ++ nbt_reverse a.
Proof.
  induction a as [|x a IH]; intros b; simpl; [rewrite app_nil_r; reflexivity|].
  rewrite IH, app_assoc. reflexivity.
Qed.

Lemma reverse_involutive : forall (A : Type) (xs : list A), nbt_reverse (nbt_reverse xs) = xs.
Proof.
  induction xs as [|x r IH]; [reflexivity|]. simpl. rewrite reverse_app, IH. reflexivity.
Qed.
