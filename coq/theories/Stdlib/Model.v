(* C23 — hand-written part of the standard-library model (no proofs here).

   Quantities are represented by their magnitude in the base unit of their
   dimension (kelvin, unix_s, second); a DateTime is its instant in seconds since
   the Unix epoch, as a rational.  `x -> u` for a unit u is then the identity and
   `value_of(x -> u)` is x / u; the translator (tools/props/c23.py) applies
   exactly these two rules.

   The arithmetic library functions themselves are NOT here: they are generated
   from numbat/modules/**.nbt into Gen/NbtFunsQ.v and Gen/NbtFunsR.v on every run. *)
From Coq Require Import QArith Qround ZArith List.
Import ListNotations.
Local Open Scope Q_scope.

(* base units *)
Definition nbt_kelvin : Q := 1.

(* f64 `as i64` / jiff as_microsecond: truncation toward zero (range limits are not modelled) *)
Definition qtrunc (x : Q) : Z := if Qle_bool 0 x then Qfloor x else (- Qfloor (- x))%Z.
Definition q_floor (x : Q) : Q := inject_Z (Qfloor x).
Definition q_trunc (x : Q) : Q := inject_Z (qtrunc x).

(* ffi/datetime.rs unixtime_us: input.timestamp().as_microsecond() as f64 *)
Definition ffi_unixtime_us (t : Q) : Q := q_trunc (t * 1000000).
(* f64::round: half away from zero *)
Definition qround (x : Q) : Z :=
  if Qle_bool 0 x then Qfloor (x + (1 # 2)) else (- Qfloor (- x + (1 # 2)))%Z.
Definition q_round (x : Q) : Q := inject_Z (qround x).
(* ffi/datetime.rs from_unixtime_us: Timestamp::from_microsecond(x.round() as i64) *)
Definition ffi_from_unixtime_us (x : Q) : Q := q_round x / 1000000.

(* core::functions floor_in(base, value) = floor(value / base) × base *)
Definition nbt_floor_in (base value : Q) : Q := q_floor (value / base) * base.
Definition nbt_trunc_in (base value : Q) : Q := q_trunc (value / base) * base.

(* ------------------------------------------------------------------------
   core/mixed_units.nbt  _mixed_unit_list  (hand port; lists and recursion are
   outside the translator's fragment).  A unit is its size in the base unit.

     fn _mixed_unit_list(val, units, acc) =
       if val == 0 then concat(acc, map(_zero_length, units))
       else if len(units) == 1 then cons_end(val -> head(units), acc)
       else _mixed_unit_list(val - unit_val, tail(units), cons_end(unit_val, acc))
       where unit_val = if len(units) > 0 then (val -> head(units)) |> trunc_in(head(units))
                        else error("Units list cannot be empty")

   `where` bindings are evaluated before the body, so an empty unit list is an
   error even for val == 0 (confirmed on the implementation). *)
Fixpoint mixed_unit_list (val : Q) (units : list Q) (acc : list Q) : option (list Q) :=
  match units with
  | [] => None
  | u :: rest =>
      let unit_val := nbt_trunc_in u val in
      if Qeq_bool val 0 then Some (acc ++ map (fun _ => 0) units)
      else match rest with
           | [] => Some (acc ++ [val])
           | _ => mixed_unit_list (val - unit_val) rest (acc ++ [unit_val])
           end
  end.

Definition qsum (l : list Q) : Q := fold_right Qplus 0 l.

(* core/mixed_units.nbt  _clean_units = unique |> sort_by_key(_negate)  and
   _unit_list(units, value) = _mixed_unit_list(value, _clean_units(units), []).
   `unique` (core/lists.nbt) keeps first occurrences; after it all sizes are distinct, so the
   merge sort by the negated size of the library and the insertion sort below give the same list. *)
Fixpoint q_unique_acc (acc l : list Q) : list Q :=
  match l with
  | [] => acc
  | x :: r => if existsb (Qeq_bool x) acc then q_unique_acc acc r else q_unique_acc (acc ++ [x]) r
  end.
Fixpoint insert_desc (x : Q) (l : list Q) : list Q :=
  match l with
  | [] => [x]
  | y :: r => if Qle_bool y x then x :: l else y :: insert_desc x r
  end.
Definition sort_desc (l : list Q) : list Q := fold_right insert_desc [] l.
Definition clean_units (units : list Q) : list Q := sort_desc (q_unique_acc [] units).
Definition unit_list (units : list Q) (value : Q) : option (list Q) :=
  mixed_unit_list value (clean_units units) [].

(* core/lists.nbt  reverse(xs) = if is_empty(xs) then [] else cons_end(head(xs), reverse(tail(xs)))  (hand port) *)
Fixpoint nbt_reverse {A : Type} (xs : list A) : list A :=
  match xs with [] => [] | x :: r => nbt_reverse r ++ [x] end.
