(* C23 — printers for the correspondence check. *)
From Coq Require Import QArith List.
From NV Require Import Base.Show Stdlib.Model.
Import ListNotations.
Local Open Scope string_scope.

Definition show_Q (q : Q) : string :=
  let r := Qred q in show_Z (Qnum r) ++ "/" ++ show_Z (Zpos (Qden r)).

Definition show_mixed (o : option (list Q)) : string :=
  match o with
  | None => "E"
  | Some l => join "," (map show_Q l)
  end.
