(* C23 — inverse-pair identities over the reals for the generated definitions of
   math/trigonometry_extra.nbt. *)
From Coq Require Import Reals Lra.
From NV Require Import Gen.NbtFunsR.
Local Open Scope R_scope.

Lemma cot_acot : forall x, x <> 0 -> nbt_cot (nbt_acot x) = x.
Proof.
  intros x H. unfold nbt_cot, nbt_acot. rewrite atan_right_inv. field. assumption.
Qed.

Lemma exp_neq_1 : forall x, x <> 0 -> exp x <> 1.
Proof.
  intros x H E. destruct (Rtotal_order x 0) as [L|[L|L]]; [|contradiction|].
  - pose proof (exp_increasing x 0 L) as I. rewrite exp_0 in I. lra.
  - pose proof (exp_increasing 0 x L) as I. rewrite exp_0 in I. lra.
Qed.

Lemma coth_acoth : forall x, (1 < x \/ x < -1) -> nbt_coth (nbt_acoth x) = x.
Proof.
  intros x Hx. unfold nbt_coth, nbt_acoth.
  set (y := (x + 1) / (x - 1)).
  assert (Hy : 0 < y).
  { unfold y. destruct Hx.
    - apply Rdiv_lt_0_compat; lra.
    - replace ((x + 1) / (x - 1)) with ((- x - 1) / (1 - x)) by (field; lra).
      apply Rdiv_lt_0_compat; lra. }
  set (a := 1 / 2 * ln y).
  assert (HE : exp a * exp a = y).
  { rewrite <- exp_plus. replace (a + a) with (ln y) by (unfold a; field). apply exp_ln. assumption. }
  rewrite exp_Ropp. pose proof (exp_pos a) as P. set (E := exp a) in *.
  assert (Hy1 : y - 1 <> 0).
  { unfold y. replace ((x + 1) / (x - 1) - 1) with (2 / (x - 1)) by (field; lra).
    intro H0. apply Rmult_integral in H0. destruct H0 as [H0|H0]; [lra|].
    revert H0. apply Rinv_neq_0_compat. lra. }
  replace ((E + / E) / (E - / E)) with ((E * E + 1) / (E * E - 1)).
  - rewrite HE. unfold y. field. split; lra.
  - field. split; [lra|]. rewrite HE. lra.
Qed.

Lemma acoth_coth : forall x, x <> 0 -> nbt_acoth (nbt_coth x) = x.
Proof.
  intros x Hx. unfold nbt_coth, nbt_acoth. rewrite exp_Ropp.
  pose proof (exp_pos x) as P.
  assert (H1 : exp x * exp x <> 1).
  { rewrite <- exp_plus. apply exp_neq_1. lra. }
  assert (HE : exp x * exp x = exp (x + x)) by (rewrite exp_plus; reflexivity).
  set (E := exp x) in *.
  replace (((E + / E) / (E - / E) + 1) / ((E + / E) / (E - / E) - 1)) with (E * E).
  - rewrite HE, ln_exp. field.
  - field. repeat split; try lra; intro H0; apply H1; lra.
Qed.

Lemma sech_asech : forall x, 0 < x <= 1 -> nbt_sech (nbt_asech x) = x.
Proof.
  intros x [H0 H1]. unfold nbt_sech, nbt_asech, nbt_sqrt.
  assert (Hi : 1 <= 1 / x).
  { apply (Rmult_le_reg_r x); [assumption|]. replace (1 / x * x) with 1 by (field; lra). lra. }
  set (s1 := sqrt (1 / x - 1)). set (s2 := sqrt (1 / x + 1)).
  assert (S1 : s1 * s1 = 1 / x - 1) by (apply sqrt_sqrt; lra).
  assert (S2 : s2 * s2 = 1 / x + 1) by (apply sqrt_sqrt; lra).
  assert (P1 : 0 <= s1) by apply sqrt_pos.
  assert (P2 : 0 <= s2) by apply sqrt_pos.
  set (w := s1 * s2 + 1 / x).
  assert (Hw : 0 < w).
  { unfold w. assert (0 <= s1 * s2) by (apply Rmult_le_pos; assumption). lra. }
  assert (Hinv : / w = 1 / x - s1 * s2).
  { apply Rmult_eq_reg_l with w; [|lra]. rewrite Rinv_r by lra. unfold w.
    replace ((s1 * s2 + 1 / x) * (1 / x - s1 * s2))
      with (1 / x * (1 / x) - (s1 * s1) * (s2 * s2)) by ring.
    rewrite S1, S2. field. lra. }
  unfold cosh. rewrite exp_Ropp, exp_ln by assumption. rewrite Hinv. unfold w. field. lra.
Qed.

Lemma csch_acsch : forall x, x <> 0 -> nbt_csch (nbt_acsch x) = x.
Proof.
  intros x Hx. unfold nbt_csch, nbt_acsch, nbt_sqrt.
  assert (Hsq : 0 < 1 / x ^ 2).
  { apply Rdiv_lt_0_compat; [lra|]. simpl. rewrite Rmult_1_r.
    destruct (Rtotal_order x 0) as [L|[L|L]]; [|contradiction|]; nra. }
  set (s := sqrt (1 + 1 / x ^ 2)).
  assert (S : s * s = 1 + 1 / x ^ 2) by (apply sqrt_sqrt; lra).
  assert (Ps : 0 <= s) by apply sqrt_pos.
  set (t := 1 / x) in *.
  assert (T : 1 / x ^ 2 = t * t) by (unfold t; field; assumption).
  set (w := s + t).
  assert (Hw : 0 < w).
  { unfold w. rewrite T in S. destruct (Rlt_le_dec 0 (s + t)) as [L|L]; [assumption|]. exfalso. nra. }
  assert (Hinv : / w = s - t).
  { apply Rmult_eq_reg_l with w; [|lra]. rewrite Rinv_r by lra. unfold w.
    replace ((s + t) * (s - t)) with (s * s - t * t) by ring.
    rewrite S, T. ring. }
  unfold sinh. rewrite exp_Ropp, exp_ln by assumption. rewrite Hinv.
  replace (w - (s - t)) with (2 * t) by (unfold w; ring). unfold t. field. assumption.
Qed.

Lemma inv_abs_le_1 : forall x, (1 <= x \/ x <= -1) -> -1 <= 1 / x <= 1.
Proof.
  intros x [H|H].
  - assert (0 < 1 / x) by (apply Rdiv_lt_0_compat; lra).
    assert (1 / x <= 1).
    { apply (Rmult_le_reg_r x); [lra|]. replace (1 / x * x) with 1 by (field; lra). lra. }
    lra.
  - assert (1 / x < 0).
    { replace (1 / x) with (- (1 / - x)) by (field; lra).
      assert (0 < 1 / - x) by (apply Rdiv_lt_0_compat; lra). lra. }
    assert (-1 <= 1 / x).
    { replace (1 / x) with (- (1 / - x)) by (field; lra).
      assert (1 / - x <= 1).
      { apply (Rmult_le_reg_r (- x)); [lra|]. replace (1 / - x * - x) with 1 by (field; lra). lra. }
      lra. }
    lra.
Qed.

Lemma sec_arcsec : forall x, (1 <= x \/ x <= -1) -> nbt_secant (nbt_arcsecant x) = x.
Proof.
  intros x H. unfold nbt_secant, nbt_arcsecant.
  rewrite cos_acos by (apply inv_abs_le_1; assumption). field. destruct H; lra.
Qed.

Lemma csc_acsc : forall x, (1 <= x \/ x <= -1) -> nbt_csc (nbt_acsc x) = x.
Proof.
  intros x H. unfold nbt_csc, nbt_cosecant, nbt_acsc.
  rewrite sin_asin by (apply inv_abs_le_1; assumption). field. destruct H; lra.
Qed.

Lemma sqrt_sqr_inv : forall x, 0 <= x -> nbt_sqrt (nbt_sqr x) = x /\ nbt_sqr (nbt_sqrt x) = x.
Proof.
  intros x H. unfold nbt_sqrt, nbt_sqr. split.
  - apply sqrt_pow2. assumption.
  - apply pow2_sqrt. assumption.
Qed.

Lemma rpower_cube_root : forall y, 0 < y -> Rpower (y ^ 3) (1 / 3) = y.
Proof.
  intros y Hy. rewrite <- (Rpower_pow 3 y Hy). rewrite Rpower_mult.
  replace (INR 3 * (1 / 3)) with 1 by (simpl; field). apply Rpower_1. assumption.
Qed.

(* cbrt(x) = if x > 0 then x^(1/3) else -(-x)^(1/3).  x = 0 is excluded: Coq's Rpower 0 y is 1
   (ln 0 = 0 by convention), which is an artefact of the real-number library, not of numbat *)
Lemma cbrt_cube : forall x, x <> 0 -> nbt_cbrt (x ^ 3) = x.
Proof.
  intros x Hx. unfold nbt_cbrt.
  destruct (Rtotal_order x 0) as [L|[L|L]]; [|contradiction|].
  - assert (Hneg : x ^ 3 < 0).
    { replace (x ^ 3) with (- ((- x) ^ 3)) by ring. assert (0 < (- x) ^ 3) by (apply pow_lt; lra). lra. }
    destruct (Rlt_dec 0 (x ^ 3)) as [H|H]; [lra|].
    replace (- x ^ 3) with ((- x) ^ 3) by ring. rewrite rpower_cube_root by lra. ring.
  - assert (Hpos : 0 < x ^ 3) by (apply pow_lt; assumption).
    destruct (Rlt_dec 0 (x ^ 3)) as [H|H]; [|lra]. apply rpower_cube_root. assumption.
Qed.
