(* C20 — printers for the correspondence check *)
From NV Require Import Base.Show Format.Html.
Local Open Scope string_scope.

Definition S (b : bytes) : string := string_of_list_ascii b.

Definition show_item (i : item) : string :=
  match i with
  | Open k => "O(" ++ S k ++ ")"
  | Close => "C"
  | Txt c => String c EmptyString
  end.

(* compact rendering of a read result: tags as O(class)/C, text verbatim is
   ambiguous, so text runs are printed with their length only plus nesting *)
Definition show_read (r : option (list item)) : string :=
  match r with
  | None => "REJECT"
  | Some l =>
      "OK tags=" ++ join "," (flat_map (fun i => match i with Txt _ => [] | _ => [show_item i] end) l)
      ++ " nested=" ++ show_bool (well_nested false l)
      ++ " text=" ++ S (text_of l)
  end.

Definition ftype_of_nat (n : nat) : ftype :=
  match n with
  | 0 => FWhitespace | 1 => FEmphasized | 2 => FDimmed | 3 => FText | 4 => FString
  | 5 => FKeyword | 6 => FValue | 7 => FUnit | 8 => FIdentifier | 9 => FTypeIdentifier
  | 10 => FOperator | _ => FDecorator
  end.

Definition render_s (m : list (nat * string)) : string :=
  S (render (map (fun p => (ftype_of_nat (fst p), B (snd p))) m)).

(* writer ops: (0,_,_) reset; (1,fg,bold) set_color with fg 0=none 1=red 2=blue 3=other; (2,_,_) write *)
Definition wop_of (t : nat * nat * bool * string) : wop :=
  match t with
  | (0, _, _, _) => WReset
  | (1, f, b, _) => WSetColor (mkSpec (match f with 0 => None | 1 => Some Red | 2 => Some Blue | _ => Some OtherColor end) b)
  | (_, _, _, s) => WWrite (B s)
  end.

Definition wrun_s (ops : list (nat * nat * bool * string)) : string :=
  S (buffer (wrun (map wop_of ops))).

Definition read_s (s : string) : string := show_read (read_html (B s)).

(* ---- byte-exact interface for the correspondence check: bytes come in as
   lists of numbers and go out hex-encoded ---- *)
Definition BL (l : list nat) : bytes := map ascii_of_nat l.

Definition hexdigit (n : nat) : ascii :=
  match n with
  | 0 => "0" | 1 => "1" | 2 => "2" | 3 => "3" | 4 => "4" | 5 => "5" | 6 => "6" | 7 => "7"
  | 8 => "8" | 9 => "9" | 10 => "a" | 11 => "b" | 12 => "c" | 13 => "d" | 14 => "e" | _ => "f"
  end%char.

Fixpoint hex_of (b : bytes) : string :=
  match b with
  | [] => EmptyString
  | c :: r => let n := nat_of_ascii c in
              String (hexdigit (Nat.div n 16)) (String (hexdigit (Nat.modulo n 16)) (hex_of r))
  end.

Definition render_h (m : list (nat * list nat)) : string :=
  hex_of (render (map (fun p => (ftype_of_nat (fst p), BL (snd p))) m)).

Definition wop_of_h (t : nat * nat * bool * list nat) : wop :=
  match t with
  | (0, _, _, _) => WReset
  | (1, f, b, _) => WSetColor (mkSpec (match f with 0 => None | 1 => Some Red | 2 => Some Blue | _ => Some OtherColor end) b)
  | (_, _, _, s) => WWrite (BL s)
  end.

Definition wrun_h (ops : list (nat * nat * bool * list nat)) : string :=
  hex_of (buffer (wrun (map wop_of_h ops))).

Definition show_read_h (r : option (list item)) : string :=
  match r with
  | None => "REJECT"
  | Some l =>
      "OK tags=" ++ join "," (flat_map (fun i => match i with Txt _ => [] | _ => [show_item i] end) l)
      ++ " nested=" ++ show_bool (well_nested false l)
      ++ " text=" ++ hex_of (text_of l)
  end.

Definition read_h (l : list nat) : string := show_read_h (read_html (BL l)).

(* the same with byte strings given as Coq string literals (valid UTF-8 only) *)
Definition render_hs (m : list (nat * string)) : string :=
  hex_of (render (map (fun p => (ftype_of_nat (fst p), B (snd p))) m)).
Definition wrun_hs (ops : list (nat * nat * bool * string)) : string :=
  hex_of (buffer (wrun (map wop_of ops))).
Definition read_hs (s : string) : string := show_read_h (read_html (B s)).

Definition format_hs (indent : bool) (m : list (nat * string)) : string :=
  hex_of (format (map (fun p => (ftype_of_nat (fst p), B (snd p))) m) indent).
