(* C20 — model of numbat/src/html_formatter.rs.

   Strings are byte lists ([list ascii]); html_escape::encode_text and the
   HtmlWriter escape only the ASCII bytes & < >, so a byte-level model is exact
   for UTF-8 text (multi-byte sequences contain no ASCII bytes).

   html_format / HtmlFormatter::format_part : [render_part]
   HtmlWriter (set_color / reset / write)     : [wstep]
   [scan] is the verified reader used as specification: it accepts exactly
   text in escaped form interleaved with tags from a fixed allow-list. *)
From Coq Require Export List Ascii String Bool.
Export ListNotations.
Local Open Scope char_scope.

Definition bytes := list ascii.
Definition B (s : string) : bytes := list_ascii_of_string s.

(* html_escape::encode_text: & < > *)
Definition esc1 (c : ascii) : bytes :=
  if Ascii.eqb c "&" then B "&amp;"
  else if Ascii.eqb c "<" then B "&lt;"
  else if Ascii.eqb c ">" then B "&gt;"
  else [c].

Definition escape (s : bytes) : bytes := flat_map esc1 s.

(* markup::FormatType *)
Inductive ftype :=
| FWhitespace | FEmphasized | FDimmed | FText | FString | FKeyword | FValue
| FUnit | FIdentifier | FTypeIdentifier | FOperator | FDecorator.

(* HtmlFormatter::format_part: the css class of each format type *)
Definition css_class (t : ftype) : option bytes :=
  match t with
  | FWhitespace => None
  | FEmphasized => Some (B "emphasized")
  | FDimmed => Some (B "dimmed")
  | FText => None
  | FString => Some (B "string")
  | FKeyword => Some (B "keyword")
  | FValue => Some (B "value")
  | FUnit => Some (B "unit")
  | FIdentifier => Some (B "identifier")
  | FTypeIdentifier => Some (B "type-identifier")
  | FOperator => Some (B "operator")
  | FDecorator => Some (B "decorator")
  end.

Definition open_tag (cls : bytes) : bytes := B "<span class=""numbat-" ++ cls ++ B """>".
Definition close_tag : bytes := B "</span>".

(* html_format(class, content) *)
Definition html_format (cls : option bytes) (content : bytes) : bytes :=
  match content with
  | [] => []
  | _ =>
      match cls with
      | Some k => open_tag k ++ escape content ++ close_tag
      | None => escape content
      end
  end.

Definition render_part (p : ftype * bytes) : bytes := html_format (css_class (fst p)) (snd p).

(* Formatter::format: concatenation of the parts *)
Definition render (m : list (ftype * bytes)) : bytes := flat_map render_part m.

(* Formatter::format(markup, indent) — the provided method of the trait, which
   HtmlFormatter inherits: with [indent] two spaces (formatted as a Whitespace
   part) are put in front and after every part whose text contains a newline *)
Definition spaces_part : ftype * bytes := (FWhitespace, B "  ").

Definition has_nl (s : bytes) : bool := existsb (fun c => Ascii.eqb c "010") s.

Definition format (m : list (ftype * bytes)) (indent : bool) : bytes :=
  (if indent then render_part spaces_part else [])
  ++ flat_map (fun p => render_part p
                        ++ (if indent && has_nl (snd p) then render_part spaces_part else [])) m.

(* the same output described as a plain markup: the indentation parts inserted *)
Definition expand (m : list (ftype * bytes)) (indent : bool) : list (ftype * bytes) :=
  (if indent then [spaces_part] else [])
  ++ flat_map (fun p => p :: (if indent && has_nl (snd p) then [spaces_part] else [])) m.

(* ---------------- HtmlWriter ---------------- *)
Inductive fgcolor := Red | Blue | OtherColor.
Record colorspec := mkSpec { fg : option fgcolor; bold : bool }.

Inductive wop :=
| WSetColor (c : colorspec)
| WReset
| WWrite (buf : bytes).

Record wstate := mkW { buffer : bytes; color : option colorspec }.
Definition winit : wstate := mkW [] None.

Definition writer_class (c : option colorspec) : option bytes :=
  match c with
  | Some spec =>
      match fg spec with
      | Some Red => Some (B "diagnostic-red")
      | Some Blue => Some (B "diagnostic-blue")
      | _ => if bold spec then Some (B "diagnostic-bold") else None
      end
  | None => None
  end.

(* HtmlWriter::write (with write_escaped) *)
Definition wwrite (st : wstate) (buf : bytes) : wstate :=
  match writer_class (color st) with
  | Some k => mkW (buffer st ++ open_tag k ++ escape buf ++ close_tag) (color st)
  | None => mkW (buffer st ++ escape buf) (color st)
  end.

Definition wstep (st : wstate) (o : wop) : wstate :=
  match o with
  | WSetColor c => mkW (buffer st) (Some c)
  | WReset => mkW (buffer st) None
  | WWrite buf => wwrite st buf
  end.

Definition wrun (ops : list wop) : wstate := fold_left wstep ops winit.

(* the writer as it was before the repair: bytes copied verbatim *)
Definition wwrite_verbatim (st : wstate) (buf : bytes) : wstate :=
  match writer_class (color st) with
  | Some k => mkW (buffer st ++ open_tag k ++ buf ++ close_tag) (color st)
  | None => mkW (buffer st ++ buf) (color st)
  end.

(* ---------------- the reader (specification side) ---------------- *)
Inductive item :=
| Open (cls : bytes)
| Close
| Txt (c : ascii).        (* one decoded text byte *)

Definition allowed_classes : list bytes :=
  map B ["emphasized"; "dimmed"; "string"; "keyword"; "value"; "unit"; "identifier";
         "type-identifier"; "operator"; "decorator";
         "diagnostic-red"; "diagnostic-blue"; "diagnostic-bold"]%string.

Fixpoint bytes_eqb (a b : bytes) : bool :=
  match a, b with
  | [], [] => true
  | x :: a', y :: b' => Ascii.eqb x y && bytes_eqb a' b'
  | _, _ => false
  end.

Fixpoint strip_prefix (p s : bytes) : option bytes :=
  match p, s with
  | [], _ => Some s
  | x :: p', y :: s' => if Ascii.eqb x y then strip_prefix p' s' else None
  | _, [] => None
  end.

(* tag body (between < and >) -> item; anything else is a foreign tag *)
Definition classify (body : bytes) : option item :=
  if bytes_eqb body (B "/span") then Some Close
  else
    match strip_prefix (B "span class=""numbat-") body with
    | Some rest =>
        match rev rest with
        | q :: rcls =>
            if Ascii.eqb q """" then
              let cls := rev rcls in
              if existsb (bytes_eqb cls) allowed_classes then Some (Open cls) else None
            else None
        | [] => None
        end
    | None => None
    end.

Definition decode_entity (name : bytes) : option ascii :=
  if bytes_eqb name (B "amp") then Some "&"
  else if bytes_eqb name (B "lt") then Some "<"
  else if bytes_eqb name (B "gt") then Some ">"
  else None.

Inductive sstate :=
| SText
| SEnt (acc : bytes)   (* reversed entity name so far *)
| STag (acc : bytes).  (* reversed tag body so far *)

(* [scan st s out]: [out] is the reversed list of items read so far *)
Fixpoint scan (st : sstate) (s : bytes) (out : list item) : option (list item) :=
  match s with
  | [] => match st with SText => Some (rev out) | _ => None end
  | c :: r =>
      match st with
      | SText =>
          if Ascii.eqb c "<" then scan (STag []) r out
          else if Ascii.eqb c "&" then scan (SEnt []) r out
          else if Ascii.eqb c ">" then None
          else scan SText r (Txt c :: out)
      | SEnt acc =>
          if Ascii.eqb c ";" then
            match decode_entity (rev acc) with
            | Some d => scan SText r (Txt d :: out)
            | None => None
            end
          else scan (SEnt (c :: acc)) r out
      | STag acc =>
          if Ascii.eqb c ">" then
            match classify (rev acc) with
            | Some it => scan SText r (it :: out)
            | None => None
            end
          else if Ascii.eqb c "<" then None
          else scan (STag (c :: acc)) r out
      end
  end.

Definition read_html (s : bytes) : option (list item) := scan SText s [].

(* spans never nest and are always closed: depth is 0 or 1 *)
Fixpoint well_nested (inside : bool) (l : list item) : bool :=
  match l with
  | [] => negb inside
  | Open _ :: r => if inside then false else well_nested true r
  | Close :: r => if inside then well_nested false r else false
  | Txt _ :: r => well_nested inside r
  end.

Definition text_of (l : list item) : bytes :=
  flat_map (fun i => match i with Txt c => [c] | _ => [] end) l.

(* what a markup / a writer session is expected to read back as *)
Definition items_of_part (p : ftype * bytes) : list item :=
  match snd p with
  | [] => []
  | _ => match css_class (fst p) with
         | Some k => Open k :: map Txt (snd p) ++ [Close]
         | None => map Txt (snd p)
         end
  end.

Definition items_of (m : list (ftype * bytes)) : list item := flat_map items_of_part m.

Fixpoint witems (c : option colorspec) (ops : list wop) : list item :=
  match ops with
  | [] => []
  | WSetColor s :: r => witems (Some s) r
  | WReset :: r => witems None r
  | WWrite buf :: r =>
      match writer_class c with
      | Some k => Open k :: map Txt buf ++ Close :: witems c r
      | None => map Txt buf ++ witems c r
      end
  end.
