(* C20 — proofs about Format.Html *)
From NV Require Import Format.Html.
Local Open Scope char_scope.

Lemma scan_escape s : forall rest out,
  scan SText (escape s ++ rest) out = scan SText rest (rev (map Txt s) ++ out).
Proof.
  induction s as [|c s IH]; intros rest out; [reflexivity|].
  unfold escape in *. cbn [flat_map map rev]. rewrite <- !app_assoc. cbn [app].
  unfold esc1.
  destruct (Ascii.eqb c "&") eqn:E1; [apply Ascii.eqb_eq in E1; subst c; cbn; apply IH|].
  destruct (Ascii.eqb c "<") eqn:E2; [apply Ascii.eqb_eq in E2; subst c; cbn; apply IH|].
  destruct (Ascii.eqb c ">") eqn:E3; [apply Ascii.eqb_eq in E3; subst c; cbn; apply IH|].
  cbn [app scan]. rewrite E2, E1, E3. apply IH.
Qed.

Lemma scan_close rest out :
  scan SText (close_tag ++ rest) out = scan SText rest (Close :: out).
Proof. reflexivity. Qed.

Lemma scan_open k rest out :
  In k allowed_classes ->
  scan SText (open_tag k ++ rest) out = scan SText rest (Open k :: out).
Proof.
  intros H. unfold allowed_classes in H. cbn [map In] in H.
  repeat (destruct H as [H|H]; [subst k; reflexivity|]). contradiction.
Qed.

Lemma css_class_allowed t k : css_class t = Some k -> In k allowed_classes.
Proof.
  destruct t; cbn; intros H; inversion H; subst; cbn; auto 20.
Qed.

Lemma writer_class_allowed c k : writer_class c = Some k -> In k allowed_classes.
Proof.
  unfold writer_class. destruct c as [[f b]|]; cbn; [|discriminate].
  destruct f as [[| |]|]; try destruct b; intros H; inversion H; subst; cbn; auto 20.
Qed.

Lemma scan_span k body rest out :
  In k allowed_classes ->
  scan SText ((open_tag k ++ escape body ++ close_tag) ++ rest) out
  = scan SText rest (Close :: rev (map Txt body) ++ Open k :: out).
Proof.
  intros H. rewrite <- !app_assoc. rewrite scan_open by exact H.
  rewrite scan_escape. apply scan_close.
Qed.

Lemma scan_part p rest out :
  scan SText (render_part p ++ rest) out = scan SText rest (rev (items_of_part p) ++ out).
Proof.
  destruct p as [t s]. unfold render_part, items_of_part, html_format. cbn [fst snd].
  destruct s as [|c s]; [reflexivity|].
  destruct (css_class t) as [k|] eqn:Ek.
  - rewrite scan_span by (eapply css_class_allowed; eauto).
    f_equal. cbn [rev]. rewrite rev_app_distr. cbn [rev app]. rewrite <- !app_assoc. reflexivity.
  - apply scan_escape.
Qed.

Lemma scan_render m : forall rest out,
  scan SText (render m ++ rest) out = scan SText rest (rev (items_of m) ++ out).
Proof.
  induction m as [|p m IH]; intros rest out; [reflexivity|].
  unfold render, items_of in *. cbn [flat_map]. rewrite <- app_assoc.
  rewrite scan_part. rewrite IH. rewrite rev_app_distr, <- app_assoc. reflexivity.
Qed.

Theorem read_render m : read_html (render m) = Some (items_of m).
Proof.
  unfold read_html. rewrite <- (app_nil_r (render m)). rewrite scan_render.
  cbn [scan]. rewrite app_nil_r, rev_involutive. reflexivity.
Qed.

Theorem read_escape s : read_html (escape s) = Some (map Txt s).
Proof.
  unfold read_html. rewrite <- (app_nil_r (escape s)). rewrite scan_escape.
  cbn [scan]. rewrite app_nil_r, rev_involutive. reflexivity.
Qed.

Lemma esc1_clean c x : In x (esc1 c) -> x <> "<" /\ x <> ">".
Proof.
  unfold esc1.
  destruct (Ascii.eqb c "&") eqn:E1;
    [cbn; intros H; repeat (destruct H as [H|H]; [subst x; split; discriminate|]); contradiction|].
  destruct (Ascii.eqb c "<") eqn:E2;
    [cbn; intros H; repeat (destruct H as [H|H]; [subst x; split; discriminate|]); contradiction|].
  destruct (Ascii.eqb c ">") eqn:E3;
    [cbn; intros H; repeat (destruct H as [H|H]; [subst x; split; discriminate|]); contradiction|].
  cbn. intros [H|[]]. subst x. apply Ascii.eqb_neq in E2, E3. auto.
Qed.

Theorem escape_clean s : ~ In "<" (escape s) /\ ~ In ">" (escape s).
Proof.
  unfold escape. split; intros H; apply in_flat_map in H as [c [_ Hx]];
    apply esc1_clean in Hx; destruct Hx; congruence.
Qed.

(* nesting and text *)
Lemma well_nested_txt s b r : well_nested b (map Txt s ++ r) = well_nested b r.
Proof. induction s; cbn; auto. Qed.

Lemma well_nested_items m : well_nested false (items_of m) = true.
Proof.
  induction m as [|[t s] m IH]; [reflexivity|].
  unfold items_of in *. cbn [flat_map]. unfold items_of_part at 1. cbn [fst snd].
  destruct s as [|c s]; [exact IH|].
  destruct (css_class t) as [k|].
  - cbn [app well_nested]. rewrite <- app_assoc.
    change (Txt c :: map Txt s) with (map Txt (c :: s)).
    cbn [well_nested map app]. rewrite well_nested_txt. cbn. exact IH.
  - rewrite well_nested_txt. exact IH.
Qed.

Lemma text_of_txt s : text_of (map Txt s) = s.
Proof. induction s as [|c s IH]; cbn; [reflexivity|]. unfold text_of in IH. now rewrite IH. Qed.

Lemma text_of_app a b : text_of (a ++ b) = text_of a ++ text_of b.
Proof. unfold text_of. apply flat_map_app. Qed.

Lemma text_of_items m : text_of (items_of m) = flat_map snd m.
Proof.
  induction m as [|[t s] m IH]; [reflexivity|].
  unfold items_of in *. cbn [flat_map]. rewrite text_of_app, IH. f_equal.
  unfold items_of_part. cbn [fst snd].
  destruct s as [|c s]; [reflexivity|].
  destruct (css_class t).
  - change (Open b :: map Txt (c :: s) ++ [Close]) with ([Open b] ++ map Txt (c :: s) ++ [Close]).
    rewrite !text_of_app, text_of_txt. cbn. now rewrite app_nil_r.
  - apply text_of_txt.
Qed.

(* Formatter::format with indentation is the rendering of the expanded markup *)
Lemma format_expand m indent : format m indent = render (expand m indent).
Proof.
  unfold format, expand, render. rewrite flat_map_app. f_equal.
  - destruct indent; cbn [flat_map]; rewrite ?app_nil_r; reflexivity.
  - induction m as [|p m IH]; [reflexivity|]. cbn [flat_map]. rewrite flat_map_app, <- IH.
    destruct (indent && has_nl (snd p)); cbn [flat_map app];
      rewrite ?app_nil_r, <- ?app_assoc; reflexivity.
Qed.

Lemma text_of_expand_false m : flat_map snd (expand m false) = flat_map snd m.
Proof.
  unfold expand. simpl. induction m as [|p m IH]; [reflexivity|].
  simpl. now rewrite IH.
Qed.

(* ---------------- writer ---------------- *)
Fixpoint wbytes (c : option colorspec) (ops : list wop) : bytes :=
  match ops with
  | [] => []
  | WSetColor s :: r => wbytes (Some s) r
  | WReset :: r => wbytes None r
  | WWrite buf :: r =>
      match writer_class c with
      | Some k => (open_tag k ++ escape buf ++ close_tag) ++ wbytes c r
      | None => escape buf ++ wbytes c r
      end
  end.

Lemma wrun_buffer ops : forall st,
  buffer (fold_left wstep ops st) = buffer st ++ wbytes (color st) ops.
Proof.
  induction ops as [|o ops IH]; intros st; cbn [fold_left wbytes]; [now rewrite app_nil_r|].
  rewrite IH. destruct o as [s| |buf]; cbn [wstep buffer color]; auto.
  unfold wwrite. destruct (writer_class (color st)); cbn [buffer color];
    now rewrite <- !app_assoc.
Qed.

Lemma scan_wbytes ops : forall c rest out,
  scan SText (wbytes c ops ++ rest) out = scan SText rest (rev (witems c ops) ++ out).
Proof.
  induction ops as [|o ops IH]; intros c rest out; [reflexivity|].
  destruct o as [s| |buf]; cbn [wbytes witems]; auto.
  destruct (writer_class c) as [k|] eqn:Ek.
  - rewrite <- app_assoc. rewrite scan_span by (eapply writer_class_allowed; eauto).
    rewrite IH. f_equal. cbn [rev]. rewrite rev_app_distr. cbn [rev].
    rewrite <- !app_assoc. reflexivity.
  - rewrite <- app_assoc, scan_escape, IH. now rewrite rev_app_distr, <- app_assoc.
Qed.

Theorem read_writer ops : read_html (buffer (wrun ops)) = Some (witems None ops).
Proof.
  unfold read_html, wrun. rewrite wrun_buffer. cbn [buffer winit color app].
  rewrite <- (app_nil_r (wbytes None ops)). rewrite scan_wbytes.
  cbn [scan]. now rewrite app_nil_r, rev_involutive.
Qed.

Lemma well_nested_witems ops : forall c, well_nested false (witems c ops) = true.
Proof.
  induction ops as [|o ops IH]; intros c; [reflexivity|].
  destruct o as [s| |buf]; cbn [witems]; auto.
  destruct (writer_class c).
  - cbn [well_nested]. rewrite well_nested_txt. cbn. apply IH.
  - rewrite well_nested_txt. apply IH.
Qed.

Fixpoint written (ops : list wop) : bytes :=
  match ops with
  | [] => []
  | WWrite buf :: r => buf ++ written r
  | _ :: r => written r
  end.

Lemma text_of_witems ops : forall c, text_of (witems c ops) = written ops.
Proof.
  induction ops as [|o ops IH]; intros c; [reflexivity|].
  destruct o as [s| |buf]; cbn [witems written]; auto.
  destruct (writer_class c).
  - change (Open b :: map Txt buf ++ Close :: witems c ops)
      with ([Open b] ++ map Txt buf ++ [Close] ++ witems c ops).
    rewrite !text_of_app, text_of_txt, IH. reflexivity.
  - rewrite text_of_app, text_of_txt, IH. reflexivity.
Qed.

(* every Open item the reader returns carries an allowed class *)
Lemma classify_open body k : classify body = Some (Open k) -> In k allowed_classes.
Proof.
  unfold classify. destruct (bytes_eqb body (B "/span")); [discriminate|].
  destruct (strip_prefix _ body) as [rest|]; [|discriminate].
  destruct (rev rest) as [|q rcls]; [discriminate|].
  destruct (Ascii.eqb q """"); [|discriminate].
  destruct (existsb (bytes_eqb (rev rcls)) allowed_classes) eqn:E; [|discriminate].
  intros H; inversion H; subst k. apply existsb_exists in E as [x [Hin Hx]].
  assert (rev rcls = x) as ->; [|exact Hin].
  clear - Hx. revert x Hx. generalize (rev rcls). intros a.
  induction a as [|c a IH]; intros [|d x] H; cbn in H; try discriminate; auto.
  apply andb_true_iff in H as [H1 H2]. apply Ascii.eqb_eq in H1. subst. f_equal. auto.
Qed.

Lemma scan_open_allowed s : forall st out res,
  (forall k, In (Open k) out -> In k allowed_classes) ->
  scan st s out = Some res ->
  forall k, In (Open k) res -> In k allowed_classes.
Proof.
  induction s as [|c s IH]; intros st out res Hout H k Hk.
  - destruct st; cbn in H; try discriminate. inversion H; subst.
    apply Hout. now apply in_rev.
  - cbn in H. destruct st as [|acc|acc].
    + destruct (Ascii.eqb c "<"); [eapply IH; eauto|].
      destruct (Ascii.eqb c "&"); [eapply IH; eauto|].
      destruct (Ascii.eqb c ">"); [discriminate|].
      eapply IH; [|exact H|exact Hk].
      intros k' [E|E]; [discriminate|auto].
    + destruct (Ascii.eqb c ";").
      * destruct (decode_entity (rev acc)); [|discriminate].
        eapply IH; [|exact H|exact Hk]. intros k' [E|E]; [discriminate|auto].
      * eapply IH; eauto.
    + destruct (Ascii.eqb c ">").
      * destruct (classify (rev acc)) as [it|] eqn:Ec; [|discriminate].
        eapply IH; [|exact H|exact Hk].
        intros k' [E|E]; [subst it; eapply classify_open; eauto|auto].
      * destruct (Ascii.eqb c "<"); [discriminate|]. eapply IH; eauto.
Qed.

Theorem read_html_only_allowed s res :
  read_html s = Some res -> forall k, In (Open k) res -> In k allowed_classes.
Proof. intros H. eapply scan_open_allowed; eauto. intros k []. Qed.
