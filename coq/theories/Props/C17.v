(* C17 — Standard-library modules compose in any order.
   Property theorems only; proofs are in Session/ImportProofs.v and
   Session/ImportExecProofs.v.  The general theorems hold for ANY module table
   (importer and parser arbitrary, cyclic imports allowed) and any starting
   state; the table lemmas instantiate them to the module graph regenerated from
   numbat/modules/**/*.nbt on every run (Gen/ModuleGraph.v). *)
From Coq Require Import List String Permutation.
From NV Require Import Session.Resolver Session.ResolverProofs Session.ImportProofs
     Session.ImportExec Session.ImportExecProofs Session.ScopeOrder Session.ScopeOrderExec Gen.ModuleGraph.
Import ListNotations.
Local Open Scope list_scope.

Section C17.
  Variables (M : Type) (M_eqb : M -> M -> bool)
            (M_eqb_spec : forall a b, M_eqb a b = true <-> a = b)
            (Code S : Type) (importer : M -> option Code)
            (parse : Code -> option (list (stmt M S))).
  Let pass := inlining_pass M M_eqb Code S importer parse.
  Let imp := imported M Code.
  Let own_of := own_of M Code S importer parse.
  Let own := own M S.
  Let uses := uses M S.

  (* Each module is inlined at most once, ever: imported_modules stays free of
     duplicates, only grows, and the inlined program consists of the program's own
     statements plus the statements of exactly the newly imported modules, each
     exactly once (whatever the outcome, also on errors, the first two hold). *)
  Theorem C17_once :
    forall fuel r p, NoDup (imp r) ->
      exists new,
        imp (fst (pass fuel r p)) = imp r ++ new
        /\ NoDup (imp r ++ new)
        /\ (forall out, snd (pass fuel r p) = ROk out ->
                        Permutation out ([] ++ own p ++ flat_map own_of new)).
  Proof. exact (pass_once M M_eqb M_eqb_spec Code S importer parse). Qed.

  (* Importing an already imported module changes nothing and inlines nothing. *)
  Theorem C17_reimport_noop :
    forall f r m, In m (imp r) -> pass (Datatypes.S f) r [SUse m] = (r, ROk []).
  Proof. exact (reimport_noop M M_eqb M_eqb_spec Code S importer parse). Qed.

  (* After a successful input the imported set is the old set plus everything
     reachable in the module graph from the input's `use`s — a property of the SET
     of requested modules, not of their order. *)
  Theorem C17_closure :
    forall fuel r p r' out,
      closed_except M Code S importer parse [] r ->
      pass fuel r p = (r', ROk out) ->
      forall m, In m (imp r') <-> In m (imp r) \/ reach M Code S importer parse (uses p) m.
  Proof. exact (imported_is_closure M M_eqb M_eqb_spec Code S importer parse). Qed.

  (* Two programs requesting the same set of modules (in any order, with any
     repetitions), run from the same state, import the same modules (each once) and
     inline the same module statements, up to order. *)
  Theorem C17_order_free :
    forall fuel fuel' r p p' r1 out1 r2 out2,
      closed_except M Code S importer parse [] r -> NoDup (imp r) ->
      (forall m, In m (uses p) <-> In m (uses p')) ->
      pass fuel r p = (r1, ROk out1) ->
      pass fuel' r p' = (r2, ROk out2) ->
      exists new1 new2,
        imp r1 = imp r ++ new1 /\ imp r2 = imp r ++ new2
        /\ NoDup (imp r1) /\ NoDup (imp r2)
        /\ Permutation new1 new2
        /\ Permutation out1 (own p ++ flat_map own_of new1)
        /\ Permutation out2 (own p' ++ flat_map own_of new2)
        /\ Permutation (flat_map own_of new1) (flat_map own_of new2).
  Proof. exact (order_free M M_eqb M_eqb_spec Code S importer parse). Qed.

  (* On a well-formed finite table (every `use` inside a known module names a
     known module that parses) every import of known modules succeeds from any
     state; the model's fuel (nesting depth) #modules + 1 is never exhausted. *)
  Theorem C17_imports_succeed :
    forall mods,
      wf_table M Code S importer parse ->
      (forall m q, body M Code S importer parse m = Some q -> In m mods) ->
      forall r p, wf_prog M Code S importer parse p ->
        exists out, snd (pass (Datatypes.S (List.length mods)) r p) = ROk out.
  Proof. exact (import_succeeds_any_state M M_eqb M_eqb_spec Code S importer parse). Qed.
End C17.

(* If two inlined programs are permutations of each other and no name is defined
   twice, they define the same finite map name |-> defining statement. *)
Theorem C17_env_order_free :
  forall (St Name : Type) (defs : St -> list Name) (out out' : list St),
    Permutation out out' -> NoDup (map fst (env St Name defs out)) ->
    (forall x s, In (x, s) (env St Name defs out) <-> In (x, s) (env St Name defs out'))
    /\ (forall x s s', In (x, s) (env St Name defs out) -> In (x, s') (env St Name defs out') -> s = s').
Proof. exact env_order_free. Qed.

(* ---- table lemmas over the generated standard-library graph ---- *)
Theorem C17_table_wf : wf_tableb stdlib = true.
Proof. vm_compute. reflexivity. Qed.
Theorem C17_table_clash_free : clash_freeb stdlib = true.
Proof. vm_compute. reflexivity. Qed.
Theorem C17_table_keys : keys_nodupb stdlib = true.
Proof. vm_compute. reflexivity. Qed.
(* closedness: in every module, every identifier used by a definition is defined
   earlier in that module or by a module that an earlier `use` of the module
   imports transitively (closure computed by the resolver model itself); and the
   graph is acyclic, so "imported" means "completely inlined before" *)
Theorem C17_table_closed : closedb stdlib = true.
Proof. vm_compute. reflexivity. Qed.
Theorem C17_table_acyclic : acyclicb stdlib = true.
Proof. vm_compute. reflexivity. Qed.

(* every sequence of imports of standard-library modules succeeds, in any order,
   with any repetitions, from any resolver state *)
Theorem C17_stdlib_succeeds :
  forall r ms, (forall m, In m ms -> In m (map fst stdlib)) ->
    exists out, snd (g_pass stdlib r (use_all ms)) = ROk out.
Proof. exact (table_imports_succeed stdlib C17_table_wf). Qed.

(* two orders of the same set of standard-library modules in a fresh session:
   same imported modules, and the same map name |-> defining statement *)
Theorem C17_stdlib_order_free :
  forall ms ms' r1 out1 r2 out2,
    (forall m, In m ms <-> In m ms') ->
    import_seq stdlib ms = (r1, ROk out1) -> import_seq stdlib ms' = (r2, ROk out2) ->
    Permutation (imported string mprog r1) (imported string mprog r2)
    /\ Permutation out1 out2
    /\ forall x s, In (x, s) (env def string def_names out1) <-> In (x, s) (env def string def_names out2).
Proof. exact (stdlib_order_free stdlib). Qed.

(* ---- closedness (phase 2) ---- *)
(* General: if every module of the table is closed (each statement needs only its
   own earlier statements and modules reachable from its own earlier `use`s) then in
   ANY successful import into a closed state, every inlined statement is
   well-scoped in the environment made of the whole output plus the previously
   imported modules — nothing it refers to is missing, whatever the import order.
   `ok` is any monotone scoping predicate. *)
Theorem C17_defs_available :
  forall (M : Type) (M_eqb : M -> M -> bool), (forall a b, M_eqb a b = true <-> a = b) ->
  forall (Code S : Type) (importer : M -> option Code) (parse : Code -> option (list (stmt M S)))
         (ok : (S -> Prop) -> S -> Prop),
    (forall (E E' : S -> Prop) s, (forall x, E x -> E' x) -> ok E s -> ok E' s) ->
    closed_table M Code S importer parse ok ->
    forall fuel r p r' out,
      closed_except M Code S importer parse [] r -> NoDup (imported M Code r) ->
      inlining_pass M M_eqb Code S importer parse fuel r p = (r', ROk out) ->
      closed_prog M Code S importer parse ok (imported M Code r) p ->
      forall s, In s out ->
        ok (fun x => In x out \/ exists m, In m (imported M Code r) /\ In x (own_of M Code S importer parse m)) s.
Proof. exact defs_available. Qed.

(* the real graph: whatever modules are imported into a fresh session, in whatever
   order, every identifier used by an inlined definition (as extracted by the
   translator) is a name of that definition or of some definition of the session *)
Theorem C17_stdlib_defs_available :
  forall ms r1 out,
    import_seq stdlib ms = (r1, ROk out) ->
    forall d, In d out -> ok_str (fun x => In x out) d.
Proof. exact (table_defs_available stdlib C17_table_closed). Qed.

(* ORDER (phase 2): on a closed and ACYCLIC table every statement of the inlined
   program is well-scoped in what comes BEFORE it — the earlier part of the output
   and the modules imported earlier — for every import order; so the depth-first
   de-duplicated pass never puts a user in front of its provider. *)
Theorem C17_scoped_in_order :
  forall (M : Type) (M_eqb : M -> M -> bool), (forall a b, M_eqb a b = true <-> a = b) ->
  forall (Code S : Type) (importer : M -> option Code) (parse : Code -> option (list (stmt M S)))
         (ok : (S -> Prop) -> S -> Prop),
    (forall (E E' : S -> Prop) s, (forall x, E x -> E' x) -> ok E s -> ok E' s) ->
    (forall m q, body M Code S importer parse m = Some q -> ~ reach M Code S importer parse (uses M S q) m) ->
    (forall m q, body M Code S importer parse m = Some q ->
                 closed_rel M Code S importer parse ok (fun _ => False) q) ->
    forall fuel r p r' out,
      closed_except M Code S importer parse [] r -> NoDup (imported M Code r) ->
      inlining_pass M M_eqb Code S importer parse fuel r p = (r', ROk out) ->
      closed_rel M Code S importer parse ok (fun m => In m (imported M Code r)) p ->
      forall o1 s o2, out = o1 ++ s :: o2 ->
        ok (fun x => (exists m, In m (imported M Code r) /\ In x (own_of M Code S importer parse m)) \/ In x o1) s.
Proof. exact scoped_in_order. Qed.

(* the real graph: in any sequence of imports into a fresh session, every identifier
   used by an inlined definition is a name of that definition or of a definition
   inlined BEFORE it *)
Theorem C17_stdlib_scoped_in_order :
  forall ms r1 out,
    import_seq stdlib ms = (r1, ROk out) ->
    forall o1 d o2, out = o1 ++ d :: o2 -> ok_str (fun x => In x o1) d.
Proof. exact (table_scoped_in_order stdlib C17_table_closed C17_table_acyclic). Qed.

Print Assumptions C17_scoped_in_order.
Print Assumptions C17_stdlib_scoped_in_order.
Print Assumptions C17_defs_available.
Print Assumptions C17_stdlib_defs_available.
Print Assumptions C17_once.
Print Assumptions C17_reimport_noop.
Print Assumptions C17_closure.
Print Assumptions C17_order_free.
Print Assumptions C17_imports_succeed.
Print Assumptions C17_env_order_free.
Print Assumptions C17_table_wf.
Print Assumptions C17_table_clash_free.
Print Assumptions C17_table_closed.
Print Assumptions C17_table_acyclic.
Print Assumptions C17_stdlib_succeeds.
Print Assumptions C17_stdlib_order_free.

(* Non-vacuity: the real graph has 62 modules; importing units::stoney into a
   fresh session pulls in six further modules depth-first, and a second order of
   a pair yields a different LIST but the same SET. *)
Example C17_nonvacuous_depth_first :
  show_imports stdlib "units::stoney"
  = "imp=[units::stoney,core::functions,core::scalar,math::constants,physics::constants,units::si,core::dimensions]"%string.
Proof. vm_compute. reflexivity. Qed.

Example C17_nonvacuous_orders_differ :
  show_imports stdlib "core::strings,units::bit" <> show_imports stdlib "units::bit,core::strings"
  /\ List.length stdlib = 62.
Proof. vm_compute. split; [discriminate | reflexivity]. Qed.
