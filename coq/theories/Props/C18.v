(* C18 — Lists behave as immutable values despite internal sharing.
   Property theorems only; proofs are in ListM/Proofs.v. *)
From NV Require Import ListM.Model ListM.Proofs.
From Coq Require Import NArith.

(* Every operation history (any number of handles k, any length) on the
   shared-storage implementation model produces exactly the outputs of the
   same history on plain immutable sequences, and every handle denotes exactly
   the sequence the specification holds for it. *)
Theorem C18_refines :
  forall (T : Type) (teqb : T -> T -> bool),
    (forall x, teqb x x = true) ->
    forall (k : nat) (ops : list (op T)),
      prun T teqb (pinit T k) ops
      = (abs T (fst (run T teqb (init T k) ops)), snd (run T teqb (init T k) ops)).
Proof. exact history_refines. Qed.
Print Assumptions C18_refines.

(* No history reaches a VecDeque index panic or a usize underflow; in
   particular the off-by-one branch of push_back is dead code. *)
Theorem C18_no_panic :
  forall (T : Type) (teqb : T -> T -> bool),
    (forall x, teqb x x = true) ->
    forall (k : nat) (ops : list (op T)),
      ~ In OPanic (snd (run T teqb (init T k) ops)).
Proof. exact history_no_panic. Qed.
Print Assumptions C18_no_panic.

(* An operation on one list value never changes another (frame property), at
   every state satisfying the invariant — hence at every reachable state. *)
Theorem C18_others_unchanged :
  forall (T : Type) (teqb : T -> T -> bool),
    (forall x, teqb x x = true) ->
    forall (st : store T) (o : op T) (j : nat),
      Inv T st -> ~ acts_on T o j ->
      nth j (abs T (fst (step T teqb st o))) None = nth j (abs T st) None.
Proof. exact step_frame. Qed.
Print Assumptions C18_others_unchanged.

Theorem C18_reachable_inv :
  forall (T : Type) (teqb : T -> T -> bool),
    (forall x, teqb x x = true) ->
    forall (k : nat) (ops : list (op T)), Inv T (fst (run T teqb (init T k) ops)).
Proof. intros T teqb H k ops. apply (run_refines T teqb H ops). apply Inv_init. Qed.
Print Assumptions C18_reachable_inv.

(* Non-vacuity: a history that builds a list, shares it, takes views into the
   shared storage and then mutates through a view; the concrete state really
   has two handles on one allocation, one of them a proper view. *)
Example C18_nonvacuous :
  let ops := [New 0; PushBack 0 1%N; PushBack 0 2%N; PushBack 0 3%N;
              Clone 0 1; Tail 1; Clone 1 2; PushFront 1 9%N; Iter 0; Iter 1; Iter 2] in
  let st := fst (run N N.eqb (init N 3) ops) in
  slots st = [Some (mkH 0 None); Some (mkH 1 None); Some (mkH 0 (Some (1, 3)))]
  /\ snd (run N N.eqb (init N 3) ops)
     = [OUnit; OUnit; OUnit; OUnit; OUnit; OUnit; OUnit; OUnit;
        OList [1;2;3]%N; OList [9;2;3]%N; OList [2;3]%N].
Proof. vm_compute. split; reflexivity. Qed.
