(* C01 — Accepted programs never go wrong dimensionally at run time.   PARTIAL.
   Static half: the types the checker reports come from the constraint solver proved sound in
   Props/C02.v (C02_solver_sound).  Proved here (C01_binop_agree_partial): for every binary
   operator of the arithmetic core on operands whose static types are closed dimension types —
   the situation of every operator node in a monomorphic program — if the checker's rule accepts
   the node with type t, then the run-time rule on the physical dimensions of the operand units
   (a) does not fail with IncompatibleUnits and (b) yields exactly the dimension t, provided the
   exponent the VM computes for a power equals the statically evaluated one (ExpAgree — the
   hypothesis the finding C01-exponent-f64 violated; since its repair it is the computable
   condition exps_rt, see C01_expr_agree_fixed_partial).  NOT proved: function calls with
   generic instantiation, conditionals, structs and lists
   (C01_sound_full below); those are decided per run by the oracle of tools/props/c01.py on the
   real implementation (raw unit of every global through the hook vs the inferred type). *)
From Coq Require Import String List ZArith QArith Qcanon Bool.
From NV Require Import Dim.Model Dim.Infer Dim.Sem Dim.Proofs Dim.Run Dim.RunProofs Dim.RunTreeProofs Dim.RunProgProofs Dim.FloatExact Dim.RunFixed.
From Coq Require Import PrimFloat.
Import ListNotations.
Open Scope string_scope.

Theorem C01_binop_agree_partial :
  forall (o : binop) (a b : expr) (d1 d2 : dtype) (s : tc) (t : ty) (s' : tc) (rexp : option Qc),
    is_closed (TDim d1) = true -> is_closed (TDim d2) = true ->
    o <> OAnd -> o <> OOr ->
    (o = OPow -> exists q, const_eval b = Ok q /\ rexp = Some q) ->
    elab_binop o a b (TDim d1) (TDim d2) s = Ok (t, s') ->
    rt_binop o d1 d2 rexp = rt_of_ty t /\ rt_binop o d1 d2 rexp <> RIncompatible.
Proof. exact binop_agree. Qed.
Print Assumptions C01_binop_agree_partial.

(* The agreement lifted to whole expression trees of the arithmetic fragment (non-zero literals,
   names, unary minus, + - -> * / ^ with constant exponents) over a closed, monomorphic
   environment: if the checker's elaboration accepts e, then its type is a variable-free dimension
   type TDim d and the run-time evaluation of unit dimensions yields exactly RDim d — in
   particular it never yields IncompatibleUnits — under ExpAgree (exp_agree_all) and when the
   run-time environment carries, for every name, a unit of the dimension of its static type. *)
Theorem C01_expr_agree_partial :
  forall (gs : env) (g : string -> option dtype) (rexp : expr -> option Qc),
    env_agree gs g -> exp_agree_all rexp ->
    forall e, arith e -> forall s t ns s1,
      tc_env s = gs -> elab_expr e s = Ok (t, ns, s1) ->
      tc_env s1 = gs /\ exists d, t = TDim d /\ novar d = true /\ rt_expr g rexp e = RDim d.
Proof. exact rt_expr_agree. Qed.
Print Assumptions C01_expr_agree_partial.

(* Programs: every accepted sequence of `let` definitions and expression statements of the
   arithmetic fragment over a growing closed (monomorphic) environment runs without a unit
   incompatibility (rt_prog does not return None), and the run-time unit dimension of every
   defined global / expression result is exactly the type the checker reports for it
   (Quantified 0 (TDim d) []).  Hypotheses: ExpAgree; the initial run-time environment agrees with
   the static one (env_agree2); the environment only contains generalised entries (allq); and —
   built into rt_prog — a name resolves to its LATEST binding (bytecode_interpreter.rs
   `rposition`; the assumption the seeded C01 regression violated). *)
Theorem C01_program_sound_partial :
  forall (rexp : expr -> option Qc), exp_agree_all rexp ->
  forall (p : list item), Forall item_arith p ->
  forall (g : string -> option dtype) (s : tc) (outs : list sout) (s' : tc),
    env_agree2 (tc_env s) g -> allq (tc_env s) ->
    check (map stmt_of p) s = Ok (outs, s') ->
    exists ds, rt_prog g rexp p = Some ds
               /\ outs = map (fun id => out_of (fst id) (snd id)) (combine p ds)
               /\ length ds = length p.
Proof. exact prog_sound. Qed.
Print Assumptions C01_program_sound_partial.

(* After the repair of finding C01-exponent-f64 (numbat commit "fix: powers with a dimensionful base
   use the exactly evaluated exponent at run time") the VM no longer re-evaluates the exponent
   expression in f64: it loads to_f64 of the exponent the checker computed, and Quantity::power
   converts that f64 back with Ratio::from_f64.  Dim/RunFixed.v models exactly this (rexp_fixed,
   through the kernel's primitive binary64 floats and the port of approximate_float), and ExpAgree
   becomes the computable side condition exps_rt: every constant exponent in the expression
   survives the f64 round trip.  With it the two theorems above hold WITHOUT the ExpAgree
   hypothesis.  exps_rt is not provable for all rationals (it is false beyond 53-bit parts), so it
   stays a decidable premise (false instance: C01_roundtrip_not_total); on the real implementation
   the check's oracle compares the run-time unit of every generated power with its static type. *)
Theorem C01_expr_agree_fixed_partial :
  forall (gs : env) (g : string -> option dtype),
    env_agree gs g ->
    forall e, arith e -> exps_rt e = true -> forall s t ns s1,
      tc_env s = gs -> elab_expr e s = Ok (t, ns, s1) ->
      tc_env s1 = gs /\ exists d, t = TDim d /\ novar d = true /\ rt_expr g rexp_fixed e = RDim d.
Proof. exact rt_expr_agree_fixed. Qed.
Print Assumptions C01_expr_agree_fixed_partial.

Theorem C01_program_sound_fixed_partial :
  forall (p : list item), Forall item_arith p -> forallb item_rt p = true ->
  forall (g : string -> option dtype) (s : tc) (outs : list sout) (s' : tc),
    env_agree2 (tc_env s) g -> allq (tc_env s) ->
    check (map stmt_of p) s = Ok (outs, s') ->
    exists ds, rt_prog g rexp_fixed p = Some ds
               /\ outs = map (fun id => out_of (fst id) (snd id)) (combine p ds)
               /\ length ds = length p.
Proof. exact prog_sound_fixed. Qed.
Print Assumptions C01_program_sound_fixed_partial.

(* Regression example for the repaired finding C01-exponent-f64 (formerly the theorem
   C01_refuted_exponent), computed inside the kernel.  First four conjuncts: what went wrong — for
   `(m^2)^(0.1+0.2)` the checker's exact exponent is 3/10 (type Length^(3/5)), the f64 evaluation
   of 0.1+0.2 converts to 1125899906842624/3752999689475413, and with that exponent the run-time
   `+` with m^(3/5) is a unit incompatibility.  Last three: the repaired path — 3/10 survives the
   round trip through f64, the whole witness satisfies exps_rt, and the repaired run time gives
   `(m^2)^(0.1+0.2) + m^(3/5)` the dimension Length^(3/5). *)
Example C01_exponent_regression :
  let e01 := EBin OAdd (EScalar (qcf 1 10)) (EScalar (qcf 1 5)) in
  let w := EBin OAdd (EBin OPow (EBin OPow (EUnit "meter") (EScalar (qc 2))) e01)
                     (EBin OPow (EUnit "meter") (EBin ODiv (EScalar (qc 3)) (EScalar (qc 5)))) in
  let g := fun x : string => if String.eqb x "meter" then Some [(FBase "Length", Qc1)] else None in
  from_f64 0.1%float = Some (1 # 10)%Q /\ from_f64 0.2%float = Some (1 # 5)%Q
  /\ (match const_eval e01 with Ok q => qc_eqb q (qcf 3 10) | Err _ => false end) = true
  /\ from_f64 (0.1 + 0.2)%float = Some (1125899906842624 # 3752999689475413)%Q
  /\ rt_binop OAdd (dpower [(FBase "Length", qc 2)] (Q2Qc (1125899906842624 # 3752999689475413)))
                   (dpower [(FBase "Length", qc 1)] (qcf 3 5)) None = RIncompatible
  /\ exp_roundtrip (qcf 3 10) = true
  /\ exps_rt w = true
  /\ (match rt_expr g rexp_fixed w with
      | RDim d => dtype_eqb d (dpower [(FBase "Length", qc 1)] (qcf 3 5)) | _ => false end) = true.
Proof. vm_compute. repeat split; reflexivity. Qed.

(* exps_rt is a real restriction: an exponent with a part beyond 2^53 does not survive *)
Example C01_roundtrip_not_total :
  exp_roundtrip (Q2Qc (1 # 9007199254740993)%Q) = false.
Proof. vm_compute. reflexivity. Qed.

(* full statement, not proved (rt_expr is in Dim/Run.v) *)
Definition C01_sound_full : Prop :=
  forall (s : tc) (g : string -> option dtype) (rexp : expr -> option Qc) (e : expr) (sc : scheme) (s' : tc),
    (* the run-time environment carries, for every name, a unit of the dimension of its type *)
    (forall x d, g x = Some d -> env_find (tc_env s) x = Some (IdNormal (Quantified 0 (TDim d) []))) ->
    (* ExpAgree *)
    (forall b q, const_eval b = Ok q -> rexp b = Some q) ->
    check_statement (SExpr e) s = Ok (OExpr sc, s') ->
    rt_expr g rexp e <> RIncompatible /\
    forall d, sc = Quantified 0 (TDim d) [] -> rt_expr g rexp e = RDim d.

(* non-vacuity: Length + Length on closed types is accepted and agrees *)
Example C01_nonvacuous :
  let dL := [(FBase "Length", Qc1)] in
  let s := mkTc [] (mkReg ["Length"] [] []) 0%N [] in
  elab_binop OAdd (EUnit "meter") (EUnit "meter") (TDim dL) (TDim dL) s = Ok (TDim dL, s)
  /\ rt_binop OAdd dL dL None = RDim dL
  /\ rt_binop OAdd dL [(FBase "Time", Qc1)] None = RIncompatible.
Proof. vm_compute. repeat split; reflexivity. Qed.

(* non-vacuity of the tree theorem: the two-unit environment agrees with its run-time reading, and
   (2 meter / second) ^ 2 evaluates statically and dynamically to Length^2 / Time^2 *)
Definition ex01_env : env :=
  [("meter", IdNormal (Quantified 0 (TDim [(FBase "Length", Qc1)]) []));
   ("second", IdNormal (Quantified 0 (TDim [(FBase "Time", Qc1)]) []))].
Definition ex01_g (x : string) : option dtype :=
  if String.eqb x "meter" then Some [(FBase "Length", Qc1)]
  else if String.eqb x "second" then Some [(FBase "Time", Qc1)] else None.
Example C01_tree_nonvacuous :
  env_agree ex01_env ex01_g /\
  arith (EBin OPow (EBin ODiv (EBin OMul (EScalar (qc 2)) (EUnit "meter")) (EUnit "second")) (EScalar (qc 2))).
Proof.
  split.
  - intro x. unfold ex01_env, ex01_g. simpl.
    destruct (String.eqb x "meter"); [repeat split; reflexivity|].
    destruct (String.eqb x "second"); [repeat split; reflexivity|exact I].
  - assert (N : qc 2 <> Qc0) by (intro E; apply (f_equal this) in E; vm_compute in E; discriminate).
    apply ABin; [auto 10| |apply AScalar; exact N].
    apply ABin; [auto 10| |apply AUnit].
    apply ABin; [auto 10|apply AScalar; exact N|apply AUnit].
Qed.

(* non-vacuity of the program theorem: `let va = 2 meter; let vb = va / second; vb * vb` re-using
   and re-binding names *)
Example C01_program_nonvacuous :
  let s := mkTc ex01_env (mkReg ["Length"; "Time"] [] []) 5%N [] in
  let p := [ILet "va" (EBin OMul (EScalar (qc 2)) (EUnit "meter"));
            ILet "vb" (EBin ODiv (EIdent "va") (EUnit "second"));
            ILet "va" (EBin OMul (EIdent "vb") (EIdent "vb"));
            IExpr (EBin OAdd (EIdent "va") (EIdent "va"))] in
  allq (tc_env s) /\
  exists outs s', check (map stmt_of p) s = Ok (outs, s') /\ length outs = 4%nat.
Proof.
  split; [repeat constructor|]. eexists; eexists. split; [vm_compute; reflexivity|reflexivity].
Qed.
