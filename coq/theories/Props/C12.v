(* C12 — Addition commutes and subtraction anti-commutes, units included.
   Property theorems only; proofs in Qty/Proofs.v (exact level) and
   Qty/Struct.v (any number type, hence IEEE doubles, given the stated laws). *)
From Coq Require Import List ZArith QArith Qcanon String Bool.
From NV Require Import Qty.Model Qty.Exec Qty.Proofs Qty.Struct Qty.MinUnit Qty.TableSem Qty.Good Qty.Demo.
Import ListNotations.
Local Open Scope Qc_scope.

(* exact level: a + b and b + a denote the same physical quantity, a - b the
   negation of b - a — through both zero short-cuts, the equal-unit case and the
   smaller-unit conversions *)
Theorem C12_den :
  forall tbl, good_table tbl -> forall keys a b r r',
    unit_int (q_unit a) = true -> unit_int (q_unit b) = true ->
    qadd QcN tbl (resolve QcN tbl) keys a b = Ok r ->
    qadd QcN tbl (resolve QcN tbl) keys b a = Ok r' ->
    DenQ (resolve QcN tbl) r = DenQ (resolve QcN tbl) r'.
Proof.
  intros tbl G keys a b r r' Ha Hb H1 H2.
  destruct (qadd_sound tbl _ keys (good_scale_pos tbl G) a b r Ha Hb H1) as (E1 & _).
  destruct (qadd_sound tbl _ keys (good_scale_pos tbl G) b a r' Hb Ha H2) as (E2 & _).
  rewrite E1, E2. ring.
Qed.
Print Assumptions C12_den.

Theorem C12_den_sub :
  forall tbl, good_table tbl -> forall keys a b r r',
    unit_int (q_unit a) = true -> unit_int (q_unit b) = true ->
    qsub QcN tbl (resolve QcN tbl) keys a b = Ok r ->
    qsub QcN tbl (resolve QcN tbl) keys b a = Ok r' ->
    DenQ (resolve QcN tbl) r = - DenQ (resolve QcN tbl) r'.
Proof.
  intros tbl G keys a b r r' Ha Hb H1 H2.
  destruct (qsub_sound tbl _ keys (good_scale_pos tbl G) a b r Ha Hb H1) as (E1 & _).
  destruct (qsub_sound tbl _ keys (good_scale_pos tbl G) b a r' Hb Ha H2) as (E2 & _).
  rewrite E1, E2. ring.
Qed.
Print Assumptions C12_den_sub.

(* three operands: every bracketing and order of a sum denotes the same quantity *)
Theorem C12_den3 :
  forall tbl, good_table tbl -> forall keys a b c r1 r2 r3,
    expr_int (EAdd (EAdd a b) c) = true ->
    eval QcN tbl (resolve QcN tbl) keys (EAdd (EAdd a b) c) = Ok r1 ->
    eval QcN tbl (resolve QcN tbl) keys (EAdd a (EAdd c b)) = Ok r2 ->
    eval QcN tbl (resolve QcN tbl) keys (EAdd (EAdd c a) b) = Ok r3 ->
    DenQ (resolve QcN tbl) r1 = DenQ (resolve QcN tbl) r2
    /\ DenQ (resolve QcN tbl) r1 = DenQ (resolve QcN tbl) r3.
Proof.
  intros tbl G keys a b c r1 r2 r3 Hi H1 H2 H3.
  assert (Hi2 : expr_int (EAdd a (EAdd c b)) = true).
  { unfold expr_int in *. simpl in *. rewrite !forallb_app in *.
    repeat (apply andb_true_iff in Hi; destruct Hi as [Hi ?]).
    repeat (apply andb_true_iff; split); assumption. }
  assert (Hi3 : expr_int (EAdd (EAdd c a) b) = true).
  { unfold expr_int in *. simpl in *. rewrite !forallb_app in *.
    repeat (apply andb_true_iff in Hi; destruct Hi as [Hi ?]).
    repeat (apply andb_true_iff; split); assumption. }
  destruct (eval_sound tbl _ keys (good_scale_pos tbl G) _ Hi r1 H1) as (E1 & _).
  destruct (eval_sound tbl _ keys (good_scale_pos tbl G) _ Hi2 r2 H2) as (E2 & _).
  destruct (eval_sound tbl _ keys (good_scale_pos tbl G) _ Hi3 r3 H3) as (E3 & _).
  rewrite E1, E2, E3. simpl. split; ring.
Qed.
Print Assumptions C12_den3.

(* any number type (IEEE doubles included), any table: when neither operand is
   zero, the units are different and differ in size (exactly one of
   size a <= size b, size b <= size a holds), a + b and b + a are the SAME
   result: same unit (the smaller one) and the same magnitude bit for bit.
   The only law used is commutativity of the machine addition. *)
Theorem C12_bitwise :
  forall (T : Type) (N : numops T) tbl res keys a b,
    (forall x y, n_add N x y = n_add N y x) ->
    q_is_zero N a = false -> q_is_zero N b = false ->
    unit_eq keys (q_unit a) (q_unit b) = false ->
    sizes_differ N res (q_unit a) (q_unit b) ->
    qadd N tbl res keys a b = qadd N tbl res keys b a.
Proof. intros T N tbl res keys a b. exact (add_comm_struct N tbl res keys a b). Qed.
Print Assumptions C12_bitwise.

(* exactly one operand is zero: both orders return the non-zero operand itself *)
Theorem C12_one_zero :
  forall (T : Type) (N : numops T) tbl res keys a b,
    q_is_zero N a = true -> q_is_zero N b = false ->
    qadd N tbl res keys a b = Ok b /\ qadd N tbl res keys b a = Ok b.
Proof. intros T N tbl res keys a b. exact (add_zero_struct N tbl res keys a b). Qed.
Print Assumptions C12_one_zero.

(* a - b and b - a: same unit, magnitudes negations of each other, given the
   machine law  x - y = -(y - x) *)
Theorem C12_sub_bitwise :
  forall (T : Type) (N : numops T) tbl res keys a b r r',
    (forall x y, n_sub N x y = n_neg N (n_sub N y x)) ->
    q_is_zero N a = false -> q_is_zero N b = false ->
    unit_eq keys (q_unit a) (q_unit b) = false ->
    sizes_differ N res (q_unit a) (q_unit b) ->
    qsub N tbl res keys a b = Ok r -> qsub N tbl res keys b a = Ok r' ->
    q_unit r = q_unit r' /\ q_val r = n_neg N (q_val r').
Proof. intros T N tbl res keys a b r r'. exact (sub_anti_struct N tbl res keys a b r r'). Qed.
Print Assumptions C12_sub_bitwise.

(* three operands: when no operand and no partial sum is zero, (a + b) + c is
   expressed in a unit that is not larger than any of the three operand units
   (so for pairwise different sizes: in the smallest one) *)
Theorem C12_min_unit :
  forall tbl, good_table tbl -> forall keys a b c s r,
    unit_int (q_unit a) = true -> unit_int (q_unit b) = true -> unit_int (q_unit c) = true ->
    q_is_zero QcN a = false -> q_is_zero QcN b = false -> q_is_zero QcN c = false ->
    qadd QcN tbl (resolve QcN tbl) keys a b = Ok s -> q_is_zero QcN s = false ->
    qadd QcN tbl (resolve QcN tbl) keys s c = Ok r ->
    Qcle (Den (resolve QcN tbl) (q_unit r)) (Den (resolve QcN tbl) (q_unit a))
    /\ Qcle (Den (resolve QcN tbl) (q_unit r)) (Den (resolve QcN tbl) (q_unit b))
    /\ Qcle (Den (resolve QcN tbl) (q_unit r)) (Den (resolve QcN tbl) (q_unit c)).
Proof.
  intros tbl G keys a b c s r. exact (sum3_min_unit tbl _ keys (good_scale_pos tbl G) a b c s r).
Qed.
Print Assumptions C12_min_unit.

(* ---- non-vacuity: 3 ft + 10 in and 10 in + 3 ft on the demo table: the
   hypotheses of C12_bitwise hold and the result is 46 in *)
Example C12_nonvacuous :
  let a := qz 3 (u1 4) in let b := qz 10 (u1 3) in
  q_is_zero QcN a = false /\ q_is_zero QcN b = false
  /\ unit_eq D_keys (q_unit a) (q_unit b) = false
  /\ sizes_differ QcN D_res (q_unit a) (q_unit b)
  /\ (exists r, qadd QcN demo_tbl D_res D_keys a b = Ok r /\ q_unit r = u1 3 /\ q_val r = Qc_of_Z 46).
Proof.
  simpl. split; [vm_compute; reflexivity|]. split; [vm_compute; reflexivity|].
  split; [vm_compute; reflexivity|]. split; [vm_compute; discriminate|].
  eexists. split; [vm_compute; reflexivity|]. split; [reflexivity | apply Qc_is_canon; vm_compute; reflexivity].
Qed.
