(* C22 — The command-line tool reports success and failure faithfully.
   Property theorems only; proofs are in Session/CliProofs.v.  The model is
   Session/Cli.v (Cli::run / parse_and_evaluate / main, non-interactive mode) on
   top of the Context model; interpreter stages, importer, parser and the
   rendering functions are arbitrary.  PARTIAL with respect to the property's
   wording: the process and OS level (argument parsing, file reading, byte
   streams, prelude loading, panics) is not modelled — it is exercised through
   the real binary on every run (tools/props/c22.py). *)
From Coq Require Import List String NArith.
From NV Require Import Session.Resolver Session.Context Session.Toy Gen.CtxSkeleton.
From NV Require Import Session.Cli Session.CliProofs Session.CliExec.
Import ListNotations.

Section C22.
  Variables (M : Type) (M_eqb : M -> M -> bool) (Code S : Type)
            (importer : M -> option Code) (parse : Code -> option (list (stmt M S)))
            (A B C T1 T2 EA EB EC V P : Type)
            (transform : A -> list S -> A * (T1 + EA))
            (check : B -> T1 -> B * (T2 + EB))
            (run : C -> A -> B -> T2 -> C * (V + EC) * list P)
            (k : skeleton) (fuel : nat)
            (join_lines : list Code -> Code) (Out : Type)
            (show_print : P -> Out) (show_value : V -> list Out)
            (show_diag : failure M EA EB EC -> Out) (stopped : Out)
            (prelude_code : Code) (msg_prelude msg_init stopped_repl : Out)
            (is_blank is_quit : Code -> bool)
            (command : Code -> option (cmd Out)) (reset_ctx : ctx M Code A B C).
  Let cli := cli M M_eqb Code S importer parse A B C T1 T2 EA EB EC V P transform check run
                 k fuel join_lines Out show_print show_value show_diag stopped.
  Let outcomes c file exprs :=
    snd (session M M_eqb Code S importer parse A B C T1 T2 EA EB EC V P transform check run k c
                 (as_session M Code fuel (code_and_source M Code join_lines file exprs))).

  (* exit status 0 iff every input (the file, then the joined -e expressions)
     succeeds when evaluated in order on the same Context *)
  Theorem C22_exit :
    forall c file exprs,
      exit_status Out (cli c file exprs) = 0
      <-> all_succeed M EA EB EC V P (outcomes c file exprs) = true.
  Proof.
    exact (cli_exit_iff_all_succeed M M_eqb Code S importer parse A B C T1 T2 EA EB EC V P transform
             check run k fuel join_lines Out show_print show_value show_diag stopped).
  Qed.

  Theorem C22_exit_0_or_1 :
    forall c file exprs,
      exit_status Out (cli c file exprs) = 0 \/ exit_status Out (cli c file exprs) = 1.
  Proof.
    exact (cli_exit_0_or_1 M M_eqb Code S importer parse A B C T1 T2 EA EB EC V P transform
             check run k fuel join_lines Out show_print show_value show_diag stopped).
  Qed.

  (* stdout: prints and result of every input before the first failing one, in
     order, nothing else; stderr: empty iff status 0, otherwise the diagnostic of
     the first failure and the final "Interpreter stopped" *)
  Theorem C22_streams :
    forall c file exprs,
      stdout Out (cli c file exprs)
      = flat_map (render M EA EB EC V P Out show_print show_value)
                 (done_prefix M EA EB EC V P (outcomes c file exprs))
      /\ stderr Out (cli c file exprs)
         = match first_failure M EA EB EC V P (outcomes c file exprs) with
           | None => []
           | Some f => [show_diag f; stopped]
           end
      /\ (stderr Out (cli c file exprs) = [] <-> exit_status Out (cli c file exprs) = 0).
  Proof.
    exact (cli_streams M M_eqb Code S importer parse A B C T1 T2 EA EB EC V P transform
             check run k fuel join_lines Out show_print show_value show_diag stopped).
  Qed.

  (* -e e1 ... -e en behaves exactly like a file containing those lines *)
  Theorem C22_e_is_file :
    forall c exprs, cli c None (Some exprs) = cli c (Some (join_lines exprs)) None.
  Proof.
    exact (cli_e_is_file M M_eqb Code S importer parse A B C T1 T2 EA EB EC V P transform
             check run k fuel join_lines Out show_print show_value show_diag stopped).
  Qed.
  (* ---- phase 2: the arguments that decide what is evaluated ---- *)
  Let cli_full := cli_full M M_eqb Code S importer parse A B C T1 T2 EA EB EC V P transform check run
                           k fuel join_lines Out show_print show_value show_diag stopped
                           prelude_code msg_prelude msg_init stopped_repl is_blank is_quit.
  Let run_inputs := run_inputs M M_eqb Code S importer parse A B C T1 T2 EA EB EC V P transform check run
                               k fuel Out show_print show_value show_diag stopped.

  (* With prelude loading, the user init file, file + several -e, and the REPL that
     follows under --inspect-interactively (or without file/-e) on a non-terminal
     stdin: the run has the exit status and the stdout of "evaluate, in this order,
     the prelude import (unless --no-prelude), the init file (unless --no-prelude or
     --no-init), the file, the joined -e expressions, the non-blank stdin lines up
     to quit/exit; stop at the first failure" — so C22_exit / C22_streams apply to
     that list —, and stderr is empty iff the status is 0. *)
  Theorem C22_args :
    forall cfg c init_file file exprs stdin,
      agree Out (cli_full cfg c init_file file exprs stdin)
            (run_inputs c (stage_inputs M Code join_lines prelude_code is_blank is_quit
                                        cfg init_file file exprs stdin) []).
  Proof.
    exact (cli_full_as_inputs M M_eqb Code S importer parse A B C T1 T2 EA EB EC V P transform check run
             k fuel join_lines Out show_print show_value show_diag stopped
             prelude_code msg_prelude msg_init stopped_repl is_blank is_quit).
  Qed.

  Theorem C22_no_prelude_implies_no_init :
    forall no_init insp c init_file file exprs stdin,
      cli_full (config_of_args true no_init insp) c init_file file exprs stdin
      = cli_full (config_of_args true true insp) c None file exprs stdin.
  Proof.
    exact (no_prelude_implies_no_init M M_eqb Code S importer parse A B C T1 T2 EA EB EC V P transform check run
             k fuel join_lines Out show_print show_value show_diag stopped
             prelude_code msg_prelude msg_init stopped_repl is_blank is_quit).
  Qed.

  Theorem C22_stdin_ignored_without_inspect :
    forall no_prelude no_init c init_file file exprs stdin,
      (is_none file && is_none exprs = false)%bool ->
      cli_full (config_of_args no_prelude no_init false) c init_file file exprs stdin
      = cli_full (config_of_args no_prelude no_init false) c init_file file exprs [].
  Proof.
    exact (stdin_ignored_without_inspect M M_eqb Code S importer parse A B C T1 T2 EA EB EC V P transform check run
             k fuel join_lines Out show_print show_value show_diag stopped
             prelude_code msg_prelude msg_init stopped_repl is_blank is_quit).
  Qed.
  (* ---- phase 4: REPL commands (stdin lines under -i or without file/-e) ---- *)
  Let repl_cmd := repl_cmd M M_eqb Code S importer parse A B C T1 T2 EA EB EC V P transform check run
                           k fuel Out show_print show_value show_diag stopped_repl is_blank command reset_ctx.
  Let repl := repl M M_eqb Code S importer parse A B C T1 T2 EA EB EC V P transform check run
                   k fuel Out show_print show_value show_diag stopped_repl is_blank is_quit.

  (* without commands other than quit/exit the REPL with commands is the one C22_args is about *)
  Theorem C22_repl_plain :
    (forall l, is_quit l = true <-> command l = Some (CQuit Out)) ->
    forall lines c out,
      (forall l, In l lines -> command l = None \/ command l = Some (CQuit Out)) ->
      repl_cmd c lines out [] = repl c lines out.
  Proof.
    exact (repl_cmd_plain M M_eqb Code S importer parse A B C T1 T2 EA EB EC V P transform check run
             k fuel Out show_print show_value show_diag stopped_repl is_blank is_quit command reset_ctx).
  Qed.

  (* the status is 0 or 1, and a failure is always reported on stderr *)
  Theorem C22_repl_exit :
    forall lines c out err,
      (exit_status Out (repl_cmd c lines out err) = 0 \/ exit_status Out (repl_cmd c lines out err) = 1)
      /\ (exit_status Out (repl_cmd c lines out err) = 1 -> stderr Out (repl_cmd c lines out err) <> []).
  Proof.
    intros. split.
    - apply (repl_cmd_exit_0_or_1 M M_eqb Code S importer parse A B C T1 T2 EA EB EC V P transform check run
               k fuel Out show_print show_value show_diag stopped_repl is_blank command reset_ctx).
    - apply (repl_cmd_failure_on_stderr M M_eqb Code S importer parse A B C T1 T2 EA EB EC V P transform check run
               k fuel Out show_print show_value show_diag stopped_repl is_blank command reset_ctx).
  Qed.

  (* a command with wrong arguments (`list foo`, `save a b`, `quit now`) writes to stderr but changes
     neither the exit status nor stdout: "stderr is empty iff the status is 0" does NOT hold for REPL
     input that contains such lines — it holds for files and -e (C22_streams) *)
  Theorem C22_failing_commands_do_not_matter :
    forall lines c out err,
      exists err',
        exit_status Out (repl_cmd c lines out err)
        = exit_status Out (repl_cmd c (without_failing_commands Code Out is_blank command lines) out err')
        /\ stdout Out (repl_cmd c lines out err)
           = stdout Out (repl_cmd c (without_failing_commands Code Out is_blank command lines) out err').
  Proof.
    exact (failing_commands_do_not_matter M M_eqb Code S importer parse A B C T1 T2 EA EB EC V P transform check run
             k fuel Out show_print show_value show_diag stopped_repl is_blank command reset_ctx).
  Qed.

  (* `reset`: the rest of the input runs on the re-initialised session (so a later line that uses an
     earlier definition fails and the status becomes 1) *)
  Theorem C22_reset :
    forall l rest c out err,
      is_blank l = false -> command l = Some (CReset Out) ->
      repl_cmd c (l :: rest) out err = repl_cmd reset_ctx rest out err.
  Proof.
    exact (repl_cmd_reset M M_eqb Code S importer parse A B C T1 T2 EA EB EC V P transform check run
             k fuel Out show_print show_value show_diag stopped_repl is_blank command reset_ctx).
  Qed.
End C22.

Print Assumptions C22_repl_plain.
Print Assumptions C22_repl_exit.
Print Assumptions C22_failing_commands_do_not_matter.
Print Assumptions C22_reset.
Print Assumptions C22_args.
Print Assumptions C22_no_prelude_implies_no_init.
Print Assumptions C22_stdin_ignored_without_inspect.
Print Assumptions C22_exit.
Print Assumptions C22_exit_0_or_1.
Print Assumptions C22_streams.
Print Assumptions C22_e_is_file.

(* Non-vacuity on the executable instance (miniature stages, skeleton extracted
   from lib.rs): a file that prints and returns a value, then -e expressions of
   which the second fails at run time: the file's output is on stdout, the
   print of the failing input is dropped, status 1. *)
Example C22_nonvacuous :
  show_cli_line current_skeleton
    ("Funit ua\nlet x = ua + ua\nprint(x)\nx" ++ tab ++ "Eprint(x + ua)" ++ tab ++ "Ex / 0")%string
  = ("exit=1|out=2 ua" ++ rs ++ "2 ua|err=1")%string
  /\ show_cli_line current_skeleton ("Eprint(7)" ++ tab ++ "E1 + 2")%string
     = ("exit=0|out=7" ++ rs ++ "3|err=0")%string.
Proof. vm_compute. split; reflexivity. Qed.

(* with --inspect-interactively the lines on stdin are evaluated after the -e
   expression, up to `quit`; an init file is ignored under --no-prelude *)
Example C22_nonvacuous_args :
  show_cli_full_line current_skeleton
    ("Glet x = 5" ++ tab ++ "Eunit ua" ++ tab ++ "i" ++ tab ++ "Zua + ua" ++ tab ++ "Z" ++ tab
       ++ "Zprint(ua)" ++ tab ++ "Zquit" ++ tab ++ "Zx")%string
  = ("exit=0|out=2 ua" ++ rs ++ "1 ua|err=0")%string
  /\ show_cli_full_line current_skeleton ("E1" ++ tab ++ "i" ++ tab ++ "Z1 / 0" ++ tab ++ "Z2")%string
     = "exit=1|out=1|err=1"%string.
Proof. vm_compute. split; reflexivity. Qed.

(* REPL commands on the text-level instance: a failing command leaves a trace on stderr only; after
   `reset` the earlier definition is gone *)
Example C22_nonvacuous_commands :
  show_cli_cmd_line current_skeleton
    ("Zlet a = 1" ++ tab ++ "Zlist foo" ++ tab ++ "Za" ++ tab ++ "Zreset" ++ tab ++ "Za" ++ tab ++ "Z2")%string
  = "exit=1|out=1|err=1"%string
  /\ show_cli_cmd_line current_skeleton ("E7" ++ tab ++ "i" ++ tab ++ "Zquit now" ++ tab ++ "Z8" ++ tab ++ "Zexit" ++ tab ++ "Z9")%string
     = ("exit=0|out=7" ++ rs ++ "8|err=1")%string.
Proof. vm_compute. split; reflexivity. Qed.
