(* C22 — The command-line tool reports success and failure faithfully.
   Property theorems only; proofs are in Session/CliProofs.v.  The model is
   Session/Cli.v (Cli::run / parse_and_evaluate / main, non-interactive mode) on
   top of the Context model; interpreter stages, importer, parser and the
   rendering functions are arbitrary.  PARTIAL with respect to the property's
   wording: the process and OS level (argument parsing, file reading, byte
   streams, prelude loading, panics) is not modelled — it is exercised through
   the real binary on every run (tools/props/c22.py). *)
From Coq Require Import List String NArith.
From NV Require Import Session.Resolver Session.Context Session.Cli Session.CliProofs
     Session.Toy Session.CliExec Gen.CtxSkeleton.
Import ListNotations.

Section C22.
  Variables (M : Type) (M_eqb : M -> M -> bool) (Code S : Type)
            (importer : M -> option Code) (parse : Code -> option (list (stmt M S)))
            (A B C T1 T2 EA EB EC V P : Type)
            (transform : A -> list S -> A * (T1 + EA))
            (check : B -> T1 -> B * (T2 + EB))
            (run : C -> A -> B -> T2 -> C * (V + EC) * list P)
            (k : skeleton) (fuel : nat)
            (join_lines : list Code -> Code) (Out : Type)
            (show_print : P -> Out) (show_value : V -> list Out)
            (show_diag : failure M EA EB EC -> Out) (stopped : Out).
  Let cli := cli M M_eqb Code S importer parse A B C T1 T2 EA EB EC V P transform check run
                 k fuel join_lines Out show_print show_value show_diag stopped.
  Let outcomes c file exprs :=
    snd (session M M_eqb Code S importer parse A B C T1 T2 EA EB EC V P transform check run k c
                 (as_session M Code fuel (code_and_source M Code join_lines file exprs))).

  (* exit status 0 iff every input (the file, then the joined -e expressions)
     succeeds when evaluated in order on the same Context *)
  Theorem C22_exit :
    forall c file exprs,
      exit_status Out (cli c file exprs) = 0
      <-> all_succeed M EA EB EC V P (outcomes c file exprs) = true.
  Proof.
    exact (cli_exit_iff_all_succeed M M_eqb Code S importer parse A B C T1 T2 EA EB EC V P transform
             check run k fuel join_lines Out show_print show_value show_diag stopped).
  Qed.

  Theorem C22_exit_0_or_1 :
    forall c file exprs,
      exit_status Out (cli c file exprs) = 0 \/ exit_status Out (cli c file exprs) = 1.
  Proof.
    exact (cli_exit_0_or_1 M M_eqb Code S importer parse A B C T1 T2 EA EB EC V P transform
             check run k fuel join_lines Out show_print show_value show_diag stopped).
  Qed.

  (* stdout: prints and result of every input before the first failing one, in
     order, nothing else; stderr: empty iff status 0, otherwise the diagnostic of
     the first failure and the final "Interpreter stopped" *)
  Theorem C22_streams :
    forall c file exprs,
      stdout Out (cli c file exprs)
      = flat_map (render M EA EB EC V P Out show_print show_value)
                 (done_prefix M EA EB EC V P (outcomes c file exprs))
      /\ stderr Out (cli c file exprs)
         = match first_failure M EA EB EC V P (outcomes c file exprs) with
           | None => []
           | Some f => [show_diag f; stopped]
           end
      /\ (stderr Out (cli c file exprs) = [] <-> exit_status Out (cli c file exprs) = 0).
  Proof.
    exact (cli_streams M M_eqb Code S importer parse A B C T1 T2 EA EB EC V P transform
             check run k fuel join_lines Out show_print show_value show_diag stopped).
  Qed.

  (* -e e1 ... -e en behaves exactly like a file containing those lines *)
  Theorem C22_e_is_file :
    forall c exprs, cli c None (Some exprs) = cli c (Some (join_lines exprs)) None.
  Proof.
    exact (cli_e_is_file M M_eqb Code S importer parse A B C T1 T2 EA EB EC V P transform
             check run k fuel join_lines Out show_print show_value show_diag stopped).
  Qed.
End C22.

Print Assumptions C22_exit.
Print Assumptions C22_exit_0_or_1.
Print Assumptions C22_streams.
Print Assumptions C22_e_is_file.

(* Non-vacuity on the executable instance (miniature stages, skeleton extracted
   from lib.rs): a file that prints and returns a value, then -e expressions of
   which the second fails at run time: the file's output is on stdout, the
   print of the failing input is dropped, status 1. *)
Example C22_nonvacuous :
  show_cli_line current_skeleton
    ("Funit ua\nlet x = ua + ua\nprint(x)\nx" ++ tab ++ "Eprint(x + ua)" ++ tab ++ "Ex / 0")%string
  = ("exit=1|out=2 ua" ++ rs ++ "2 ua|err=1")%string
  /\ show_cli_line current_skeleton ("Eprint(7)" ++ tab ++ "E1 + 2")%string
     = ("exit=0|out=7" ++ rs ++ "3|err=0")%string.
Proof. vm_compute. split; reflexivity. Qed.
