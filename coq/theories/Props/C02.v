(* C02 — Static checking accepts exactly the dimensionally consistent programs.
   Property theorems only; proofs are in Dim/Proofs.v; the model is Dim/Model.v + Dim/Infer.v,
   the specification Dim/Sem.v.  See design/dim.md for what is proved and what is tied by
   correspondence only. *)
From Coq Require Import String List ZArith QArith Qcanon Bool.
From NV Require Import Dim.Model Dim.Infer Dim.Sem Dim.Proofs Dim.AcceptProofs Dim.CanonProofs.
From NV Require Import Dim.Run Dim.RunTreeProofs Dim.CompleteProofs.
Import ListNotations.
Open Scope string_scope.

(* The constraint solver (ConstraintSet::solve: unification + Gaussian elimination over the
   exponents) is sound for every constraint set: whenever it returns a substitution sigma and a
   list dts of variables with a remaining `Dim` bound, every valuation of the type variables that
   is an instance of sigma, gives the variables in dts dimensions and is well-sorted for the
   constraints (all their types have a meaning) satisfies every constraint: the two sides of each
   `Equal` denote the same type / the same physical dimension, each `IsDType` type denotes a
   dimension, each `EqualScalar` product denotes the dimensionless dimension.  The outcomes
   "out of fuel", "panic" (division by a zero exponent) and all errors are not `Ok`. *)
Theorem C02_solver_sound :
  forall (cs : list constr) (sigma : subst) (dts : list var),
    solve cs = Ok (sigma, dts) ->
    forall th : valuation,
      respects th sigma ->
      (forall v, In v dts -> is_sdim (th v)) ->
      (forall c, In c cs -> defined th c) ->
      forall c, In c cs -> sat th c.
Proof. exact solve_sound. Qed.
Print Assumptions C02_solver_sound.

(* A rejected input is rejected as a whole before any of its statements runs: if the statements
   before an ill-typed one check, the whole input still yields `Rejected`, the checker state
   (environment, dimension registry, name counter) is the one from before the input, and the run
   stage — where `print` acts and definitions take effect — is not entered at all. *)
Theorem C02_whole_input :
  forall (R : Type) (run : list sout -> R) (pre : list stmt) (st : stmt) (post : list stmt)
         (s : tc) (o : list sout) (s1 : tc) (e : err),
    check pre s = Ok (o, s1) -> check_statement st s1 = Err e ->
    interpret run (pre ++ st :: post) s = (Rejected e, s, None).
Proof. exact @whole_input_rejected. Qed.
Print Assumptions C02_whole_input.

(* ... and an accepted one ran exactly the typed statements of a completely checked input. *)
Theorem C02_whole_input_accepted :
  forall (R : Type) (run : list sout -> R) (sts : list stmt) (s : tc) (outs : list sout)
         (s' : tc) (r : option R),
    interpret run sts s = (Accepted outs, s', r) ->
    check sts s = Ok (outs, s') /\ r = Some (run outs).
Proof. exact @whole_input_accepted. Qed.
Print Assumptions C02_whole_input_accepted.

(* Accept-soundness for every expression form of the model (literals incl. the polymorphic 0,
   identifiers and units, unary operators, + - -> * / ^const, comparisons, == !=, && ||, if, calls
   of functions, list literals: empty, with a closed first element type, with an open one)
   in well-formed environments (env_ok: monomorphic entries have a
   meaning; generalised, quantified entries — generic library and user functions, polymorphic
   values — have a meaning under every instantiation of their bound variables that respects their
   Dim bounds; instantiation of quantified schemes with fresh variables is covered): if the elaborator accepts e with type t and the solver solves the
   generated constraints with sigma, then in EVERY valuation that is an instance of sigma, gives
   the Dim-bounded variables dimensions and is well-sorted, e has — by the declarative dimensional
   analysis has_ty of Dim/Sem.v — exactly the dimension/type that t denotes, which is also what
   the reported type `sigma t` denotes.  (Outside this theorem: function DEFINITIONS — that the
   generalised scheme a definition adds to the environment satisfies env_ok again; that every ground instance of the reported type arises from such a
   valuation — idempotence of sigma — is not proved.) *)
Theorem C02_accept_sound :
  forall (e : expr) (s : tc) (t : ty) (ns : list ty) (s1 : tc) (sigma : subst) (dts : list var),
    core e ->
    elab_expr e s = Ok (t, ns, s1) ->
    solve (tc_cs s1) = Ok (sigma, dts) ->
    forall th : valuation,
      respects th sigma ->
      (forall v, In v dts -> is_sdim (th v)) ->
      (forall c, In c (tc_cs s1) -> defined th c) ->
      (forall m, In m ns -> tdef th m) ->
      env_ok th (tc_env s) ->
      exists a, tden th t = Some a /\ has_ty (sem_env th (tc_env s)) e a /\
                forall t', tapply sigma t = Ok t' -> ts th t' a.
Proof. exact accept_sound_expr. Qed.
Print Assumptions C02_accept_sound.

(* ... and for definitions (`let x = e`, `let x: T = e`, `unit u: T = e`): in addition the meaning of
   the annotation equals the meaning derived for the expression. *)
Theorem C02_accept_sound_annotated :
  forall (e : expr) (ann : option annot) (s : tc) (t : ty) (ns : list ty) (s1 : tc)
         (sigma : subst) (dts : list var),
    core e ->
    elaborate_inner e ann s = Ok (t, ns, s1) ->
    solve (tc_cs s1) = Ok (sigma, dts) ->
    forall th : valuation,
      respects th sigma ->
      (forall v, In v dts -> is_sdim (th v)) ->
      (forall c, In c (tc_cs s1) -> defined th c) ->
      (forall m, In m ns -> tdef th m) ->
      env_ok th (tc_env s) ->
      exists a, tden th t = Some a /\ has_ty (sem_env th (tc_env s)) e a /\
        forall an ta b, ann = Some an -> type_from_annotation (tc_reg s) an = Ok ta ->
                        tden th ta = Some b -> steq a b.
Proof. exact accept_sound_inner. Qed.
Print Assumptions C02_accept_sound_annotated.

(* "Exactly": on the monomorphic arithmetic fragment the checker DECIDES dimensional consistency.
   danalyse (Dim/CompleteProofs.v) is ordinary dimensional analysis of a closed expression: names
   carry the dimension of the environment, + - -> need equal dimensions, * / ^ combine exponents,
   a dimensionful base needs a constant exponent and a dimensionless base a dimensionless exponent.
   Over an environment that holds exactly the names of g as monomorphic, variable-free dimension
   types (env_exact), for every expression of the fragment `arith` (non-zero literals, names,
   unary minus, + - -> * / ^): if dimensional analysis succeeds with d the elaborator accepts with
   exactly the type d, and if it fails the elaborator rejects.  Hence a rejected expression is
   dimensionally inconsistent (reject-complete) and an accepted one consistent with the inferred
   dimension (accept-exact).  PARTIAL: no polymorphic zero, comparisons, conditionals, calls,
   generic entries, lists — there completeness would need principal types of the solver. *)
Theorem C02_decides_partial :
  forall (gs : env) (g : string -> option dtype), env_exact gs g ->
  forall e, arith e -> forall s, tc_env s = gs ->
    match danalyse g e with
    | Some d => exists ns s1, elab_expr e s = Ok (TDim d, ns, s1) /\ tc_env s1 = gs /\ novar d = true
    | None => exists er, elab_expr e s = Err er
    end.
Proof. exact accepts_iff. Qed.
Print Assumptions C02_decides_partial.

Theorem C02_reject_complete_partial :
  forall (gs : env) (g : string -> option dtype), env_exact gs g ->
  forall e, arith e -> forall s er, tc_env s = gs ->
    elab_expr e s = Err er -> danalyse g e = None.
Proof. exact reject_complete. Qed.
Print Assumptions C02_reject_complete_partial.

Theorem C02_accept_exact_partial :
  forall (gs : env) (g : string -> option dtype), env_exact gs g ->
  forall e, arith e -> forall s t ns s1, tc_env s = gs ->
    elab_expr e s = Ok (t, ns, s1) -> exists d, danalyse g e = Some d /\ t = TDim d.
Proof. exact accept_exact. Qed.
Print Assumptions C02_accept_exact_partial.

(* The representation invariant behind "the reported type equals the dimension": every factor list
   produced by DType::try_canonicalize (hence by multiply / divide / power / from_factors) is
   strictly sorted by the factor order (type variables, base dimensions, type parameters; by name)
   and has no zero exponent — so Length^0 cannot survive as a type different from Scalar — and
   canonicalising a canonical list changes nothing. *)
Theorem C02_canonical_form :
  forall l : dtype, canonical (canon l) /\ canon (canon l) = canon l.
Proof. intro l. split; [apply canon_canonical|apply canon_idem]. Qed.
Print Assumptions C02_canonical_form.

(* ------------------------------------------------------------------ non-vacuity *)
(* the constraints of `fn f(a, b) = a * b` (elaborate_expression, Mul with open operand types) *)
Definition ex_a := VNamed "T0". Definition ex_b := VNamed "T1". Definition ex_r := VNamed "T2".
Definition ex_l := VNamed "T3". Definition ex_q := VNamed "T4".
Definition ex_cs : list constr :=
  [CIsD (TVar ex_a); CIsD (TVar ex_b); CIsD (TVar ex_r);
   CEq (TVar ex_a) (TVar ex_l); CEq (TVar ex_b) (TVar ex_q);
   CIsD (TVar ex_l); CIsD (TVar ex_q);
   CScalar (dmultiply (dmultiply (from_var ex_l) (from_var ex_q)) (dinverse (from_var ex_r)))].
Definition ex_sigma : subst :=
  [(ex_a, TVar ex_l); (ex_b, TVar ex_q);
   (ex_r, TDim [(FVar ex_l, Qc1); (FVar ex_q, Qc1)])].
Definition ex_LT : Dim := dadd (dscale Qc1 (dbase "Length")) (dadd (dscale Qc1 (dbase "Time")) dzero).
(* a = Length, b = Time, result = Length x Time *)
Definition ex_th : valuation := fun v =>
  match v with
  | VNamed "T0" | VNamed "T3" => SDim (dbase "Length")
  | VNamed "T1" | VNamed "T4" => SDim (dbase "Time")
  | _ => SDim ex_LT
  end.

Example C02_solver_nonvacuous :
  solve ex_cs = Ok (ex_sigma, [ex_l; ex_q])
  /\ respects ex_th ex_sigma
  /\ (forall v, In v [ex_l; ex_q] -> is_sdim (ex_th v))
  /\ (forall c, In c ex_cs -> defined ex_th c).
Proof.
  split. { vm_compute. reflexivity. }
  split.
  { intros x t Hin. simpl in Hin.
    destruct Hin as [E|[E|[E|[]]]]; inversion E; subst; eexists; (split; [reflexivity|]);
      simpl; apply deq_refl. }
  split.
  { intros v Hin. simpl in Hin. destruct Hin as [E|[E|[]]]; subst; exact I. }
  intros c Hin. simpl in Hin.
  repeat (destruct Hin as [E|Hin]; [subst c; simpl; eauto|]). contradiction.
Qed.

(* a two-statement input whose second statement is ill-dimensioned is rejected as a whole *)
Definition ex_env0 : tc :=
  mkTc [("meter", IdNormal (Quantified 0 (TDim [(FBase "Length", Qc1)]) []));
        ("second", IdNormal (Quantified 0 (TDim [(FBase "Time", Qc1)]) []))]
       (mkReg ["Length"; "Time"] [] []) 10%N [].
Example C02_whole_input_nonvacuous :
  exists o s1 e,
    check [SProc PPrint [EUnit "meter"]] ex_env0 = Ok (o, s1)
    /\ check_statement (SExpr (EBin OAdd (EUnit "meter") (EUnit "second"))) s1 = Err e
    /\ e = EIncompatibleDimensions.
Proof. eexists; eexists; eexists. split; [vm_compute; reflexivity|]. split; vm_compute; reflexivity. Qed.

(* accept-soundness is not vacuous: `2 meter / second + meter / second` in the two-unit
   environment is accepted, its (here empty, all constraints trivially resolved) constraint set is
   solved, and every valuation meets the hypotheses *)
Definition ex_e : expr :=
  EBin OAdd (EBin ODiv (EBin OMul (EScalar (qc 2)) (EUnit "meter")) (EUnit "second"))
            (EBin ODiv (EUnit "meter") (EUnit "second")).
Example C02_accept_nonvacuous :
  exists t ns s1,
    core ex_e /\ elab_expr ex_e ex_env0 = Ok (t, ns, s1) /\ solve (tc_cs s1) = Ok ([], [])
    /\ ty_eqb t (TDim [(FBase "Length", Qc1); (FBase "Time", (- Qc1)%Qc)]) = true
    /\ (forall th : valuation, respects th [] /\ (forall c, In c (tc_cs s1) -> defined th c)
                               /\ (forall m, In m ns -> tdef th m) /\ env_ok th (tc_env ex_env0)).
Proof.
  eexists; eexists; eexists. split; [repeat constructor|].
  split; [vm_compute; reflexivity|]. split; [vm_compute; reflexivity|]. split; [vm_compute; reflexivity|].
  intro th. split; [intros ? ? []|]. split; [intros ? []|]. split.
  - intros m Hm. simpl in Hm. unfold tdef.
    repeat (destruct Hm as [<-|Hm]; [simpl; eauto|]). contradiction.
  - intros x e. simpl.
    destruct (String.eqb x "meter"); [intro H; inversion H; subst; split; [constructor|intros; unfold tdef; simpl; eauto]|].
    destruct (String.eqb x "second"); [intro H; inversion H; subst; split; [constructor|intros; unfold tdef; simpl; eauto]|discriminate].
Qed.

(* ... and the list rule is exercised: `[meter, 2 meter]` is accepted with type List<Length>, while
   `[meter, second]` is rejected by the very loop the proof is about *)
Example C02_accept_list_nonvacuous :
  core (EList [EUnit "meter"; EBin OMul (EScalar (qc 2)) (EUnit "meter")])
  /\ (match elab_expr (EList [EUnit "meter"; EBin OMul (EScalar (qc 2)) (EUnit "meter")]) ex_env0 with
      | Ok (t, _, _) => ty_eqb t (TList (TDim [(FBase "Length", Qc1)])) | Err _ => false end) = true
  /\ (match elab_expr (EList [EUnit "meter"; EUnit "second"]) ex_env0 with
      | Err EIncompatibleTypesInList => true | _ => false end) = true.
Proof. split; [repeat constructor|]. split; vm_compute; reflexivity. Qed.

(* env_ok is satisfiable for a generic entry: sqrt-like  forall D: Dim. (D^2) -> D *)
Example C02_env_ok_polymorphic :
  forall th : valuation,
    env_ok th [("sq", IdFunction (FQuantified 1 [TDim [(FVar (VQuant 0), qc 2)]]
                                               (TDim [(FVar (VQuant 0), Qc1)]) [TVar (VQuant 0)]))].
Proof.
  intros th x e. simpl. destruct (String.eqb x "sq"); [|discriminate].
  intro H. inversion H; subst. split. { repeat constructor. exists 0%nat. reflexivity. }
  intros vsem Hl BH. destruct vsem as [|v0 [|? ?]]; try discriminate.
  destruct (BH (TVar (VQuant 0)) (or_introl eq_refl)) as [d Hd]. simpl in Hd. inversion Hd; subst.
  split; [repeat constructor|]; unfold tdef; simpl; eauto.
Qed.

(* the decision theorem is not vacuous: the two-unit environment is exact for its run-time
   reading, `meter / second ^ 2` analyses to Length / Time^2, `meter + second` and
   `meter ^ second` do not analyse (and are rejected, by the theorem) *)
Definition exd_env : env :=
  [("meter", IdNormal (Quantified 0 (TDim [(FBase "Length", Qc1)]) []));
   ("second", IdNormal (Quantified 0 (TDim [(FBase "Time", Qc1)]) []))].
Definition exd_g (x : string) : option dtype :=
  if String.eqb x "meter" then Some [(FBase "Length", Qc1)]
  else if String.eqb x "second" then Some [(FBase "Time", Qc1)] else None.
Example C02_decides_nonvacuous :
  env_exact exd_env exd_g
  /\ (match danalyse exd_g (EBin ODiv (EUnit "meter") (EBin OPow (EUnit "second") (EScalar (qc 2)))) with
      | Some d => dtype_eqb d [(FBase "Length", Qc1); (FBase "Time", qc (-2))] | None => false end) = true
  /\ danalyse exd_g (EBin OAdd (EUnit "meter") (EUnit "second")) = None
  /\ danalyse exd_g (EBin OPow (EUnit "meter") (EUnit "second")) = None
  /\ arith (EBin OAdd (EUnit "meter") (EUnit "second")).
Proof.
  split.
  - intro x. unfold exd_env, exd_g. simpl.
    destruct (String.eqb x "meter"); [repeat split; reflexivity|].
    destruct (String.eqb x "second"); [repeat split; reflexivity|reflexivity].
  - split; [vm_compute; reflexivity|]. split; [vm_compute; reflexivity|]. split; [vm_compute; reflexivity|].
    apply ABin; [auto 10|apply AUnit|apply AUnit].
Qed.
