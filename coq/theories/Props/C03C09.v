(* C03 x C09 — cross-area composition (addendum to Props/C03.v and Props/C09.v; the vm
   area's files are not edited; definitions and proof in VM/QtyInstance.v).

   Props/C09.v, C09_compile_correct: for EVERY instance [ops] of the primitive operations
   the model machine running the model-compiled program computes what the reference
   semantics of the language says.  Props/C03.v: the exact quantity arithmetic of
   Qty/Model.v (+ - * / ^n ->, with convert_to's common-factor cancellation, the zero
   short-cuts and the smaller-unit rule of +) agrees with dimensional analysis.

   Composition: [qops tbl keys] instantiates [ops] with that quantity arithmetic (values
   are Quantities: magnitude, unit factor list, can_simplify flag, conversion target).  For
   every program of the shared fragment — `let x = e` and expression statements; e from
   quantity literals (the unit constants of a finite initial environment are lets of
   literals), names with latest-binding lookup, unary minus, + - * /, ^n with a literal
   integer exponent, -> — if the reference semantics yields a result then the MODEL
   MACHINE running the MODEL-COMPILED program yields the same result, it is a quantity,
   and its size in base units is the value of exact dimensional arithmetic ([psem]: plain
   rational arithmetic on sizes, names bound to the sizes of their lets).  Hypotheses:
   [good_table] (as everywhere at the exact level), integer unit exponents in the literals
   and no use of the reserved names ans / _ ([iok]), the compiler's u16 bounds
   ([compile_ok]).  Not in the fragment: functions, conditionals, comparisons, strings. *)
From Coq Require Import String List ZArith QArith Qcanon.
From NV Require Qty.Model Qty.Exec Qty.Proofs Qty.Good Qty.Demo.
From NV Require Import VM.Value VM.Ast VM.Bytecode VM.Compile VM.Machine VM.RefSem VM.Proofs VM.QtyInstance.
Import ListNotations.

Theorem C03_C09_composition :
  forall (tbl : QM.table Qc), NV.Qty.Good.good_table tbl ->
  forall (keys : list QM.skey) (p : list qitem) (n : nat) out v,
    forallb iok p = true ->
    compile_ok (compile (procs (qops tbl keys)) (map Titem p)) = true ->
    run_ref (qops tbl keys) n (map Titem p) = Ok (out, v) ->
    exists m, Machine.run (qops tbl keys) (compile (procs (qops tbl keys)) (map Titem p)) m = Ok (out, v)
              /\ out = []
              /\ result_den tbl v (snd (psem tbl p [] None)).
Proof.
  intros tbl G keys p n out v. exact (machine_exact tbl keys G n p out v).
Qed.
Print Assumptions C03_C09_composition.

(* the per-expression statement: whatever the reference evaluation of a translated
   expression yields in a world whose globals hold quantities of known sizes is a quantity
   of the size exact arithmetic gives *)
Theorem C03_C09_expression :
  forall (tbl : QM.table Qc), NV.Qty.Good.good_table tbl ->
  forall keys lits n W r (e : qexpr) v,
    Wok tbl W r -> eok e = true ->
    eval (qops tbl keys) lits n W (length (w_globals W)) 0 0 [] (T e) = Ok v ->
    vden tbl v (sem tbl r e).
Proof.
  intros tbl G keys lits n W r e v. exact (eval_sem tbl keys G lits n W r e v).
Qed.
Print Assumptions C03_C09_expression.

(* ---- non-vacuity (demo table of Qty/Demo.v): km and h as unit constants of the initial
   environment, a re-bound name, the common-factor path of ->, the smaller-unit rule of +:
     let km = 1 km ; let h = 1 h ; let v = 3 km / h ; let d = v * (2 h) ; let d = d + 10 ft ;
     d -> in
   the hypotheses hold, the reference semantics yields a value (fuel 8), and exact
   dimensional arithmetic gives 6000 m + 120 * (size of the inch). *)
Module D := NV.Qty.Demo.
Definition ex_lit (z : Z) (u : QM.unit) : qexpr := QLit (QM.qnew (QM.Qc_of_Z z) u).
Definition ex_p : list qitem :=
  [ ILet "km" (ex_lit 1 [D.up 0 3 1]);
    ILet "h" (ex_lit 1 (D.u1 6));
    ILet "v" (QBin ADiv (QBin AMul (ex_lit 3 []) (QVar "km")) (QVar "h"));
    ILet "d" (QBin AMul (QVar "v") (QBin AMul (ex_lit 2 []) (QVar "h")));
    ILet "d" (QBin AAdd (QVar "d") (ex_lit 10 (D.u1 4)));
    IExpr (QBin AConv (QVar "d") (ex_lit 1 (D.u1 3))) ]%string.

Example C03_C09_nonvacuous :
  NV.Qty.Good.good_table D.demo_tbl
  /\ forallb iok ex_p = true
  /\ compile_ok (compile (procs (qops D.demo_tbl D.D_keys)) (map Titem ex_p)) = true
  /\ (exists q, run_ref (qops D.demo_tbl D.D_keys) 8 (map Titem ex_p) = Ok ([], Some (VQ q))
               /\ QM.q_unit q = D.u1 3)
  /\ (exists d, snd (psem D.demo_tbl ex_p [] None) = Some d
                /\ d = (QM.Qc_of_Z 6000 + QM.Qc_of_Z 120 * NV.Qty.Proofs.scale D.D_res 3)%Qc).
Proof.
  split. { repeat split; vm_compute; reflexivity. }
  split. { vm_compute. reflexivity. }
  split. { vm_compute. reflexivity. }
  split. { eexists. split; [vm_compute; reflexivity | vm_compute; reflexivity]. }
  eexists. split; [vm_compute; reflexivity | apply Qc_is_canon; vm_compute; reflexivity].
Qed.
