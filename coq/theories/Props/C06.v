(* C06 — A failing input leaves the session unchanged.
   Property theorems only; proofs are in Session/ContextProofs.v and
   Session/ResolverProofs.v.  The theorems hold for ARBITRARY stage functions
   (name resolution, type checking, compilation+execution) with the frame
   conditions of Rust's borrows, an arbitrary module importer and parser, and
   any history; the resolver is the concrete model of resolver.rs. *)
From Coq Require Import List String NArith.
Local Open Scope N_scope.
From NV Require Import Session.Resolver Session.ResolverProofs Session.Context
     Session.ContextProofs Session.Toy Gen.CtxSkeleton.
Import ListNotations.

(* Table lemma: the restores found in lib.rs by the translator are all the
   restores the theorems need (regenerated from the source on every run). *)
Theorem C06_skeleton_complete : sk_complete current_skeleton = true.
Proof. vm_compute. reflexivity. Qed.

Section C06.
  Variables (M : Type) (M_eqb : M -> M -> bool) (Code S : Type)
            (importer : M -> option Code) (parse : Code -> option (list (stmt M S)))
            (A B C T1 T2 EA EB EC V P : Type)
            (transform : A -> list S -> A * (T1 + EA))
            (check : B -> T1 -> B * (T2 + EB))
            (run : C -> A -> B -> T2 -> C * (V + EC) * list P).
  Let interp := interpret M M_eqb Code S importer parse A B C T1 T2 EA EB EC V P transform check run current_skeleton.
  Let sess := session M M_eqb Code S importer parse A B C T1 T2 EA EB EC V P transform check run current_skeleton.
  Let eqv := ctx_eqv M Code A B C.

  (* A failing input (unknown module, parse error — also inside a nested import —,
     name clash, type error, run-time error, or import nesting beyond the model's
     fuel) returns the name-resolution, type-checker and interpreter state AND the
     record of imported modules exactly as they were. *)
  Theorem C06_ABC :
    forall fuel c code cs c' f pr,
      interp fuel c code cs = (c', Fail M EA EB EC V P f pr) -> eqv c c'.
  Proof.
    intros; eapply interpret_fail_restores; [exact C06_skeleton_complete | eassumption].
  Qed.

  (* What a failing (or any) input may change in the resolver besides
     imported_modules is only the list of source files used to label diagnostics,
     and that list only grows. *)
  Theorem C06_resolver :
    forall fuel c code cs,
      files_grow M Code (cR M Code A B C c) (cR M Code A B C (fst (interp fuel c code cs))).
  Proof. intros; apply interpret_files_grow. Qed.

  (* After a failing input EVERY later sequence of inputs yields the same outcomes
     (results, printed output, error kinds) and ends in an equivalent state. *)
  Theorem C06_obs :
    forall fuel c code cs c' f pr,
      interp fuel c code cs = (c', Fail M EA EB EC V P f pr) ->
      forall later,
        snd (sess c' later) = snd (sess c later) /\ eqv (fst (sess c' later)) (fst (sess c later)).
  Proof.
    intros; eapply failing_input_unobservable; [exact C06_skeleton_complete | eassumption].
  Qed.

  (* History form: deleting all failing inputs from any session changes neither
     the outcomes of the remaining inputs nor the final state. *)
  Theorem C06_history :
    forall inputs c,
      snd (sess c (drop_failing M M_eqb Code S importer parse A B C T1 T2 EA EB EC V P
                                transform check run current_skeleton c inputs))
      = successes M EA EB EC V P (snd (sess c inputs))
      /\ eqv (fst (sess c (drop_failing M M_eqb Code S importer parse A B C T1 T2 EA EB EC V P
                                        transform check run current_skeleton c inputs)))
             (fst (sess c inputs)).
  Proof.
    intros; apply session_without_failing_inputs;
      [exact C06_skeleton_complete | apply ctx_eqv_refl].
  Qed.
End C06.

Print Assumptions C06_skeleton_complete.
Print Assumptions C06_ABC.
Print Assumptions C06_resolver.
Print Assumptions C06_obs.
Print Assumptions C06_history.

(* The restore of imported_modules is NECESSARY: with the control flow of the
   pinned tree before the repair (sk_before_fix: imported_modules never put
   back) the property is false.  Module m = "let a = 1"; the failing input
   "use m / use nosuch" leaves m marked as imported, so the later "use m" is a
   silent no-op and "a" is unknown, whereas without the failing input "a" is 1.
   (Finding C06-import-not-rolled-back, fixed in the numbat worktree; the same
   history is corpus/c06.json entry 0 and now answers 1 on the implementation.) *)
Definition C06_witness_table : table :=
  [("m", Some [SOther (TLet "a" (EAtom (ANum 1)))])].
Definition C06_witness_bad : code := Some [SUse "m"; SUse "nosuch"].
Definition C06_witness_later : list sop :=
  [OpI (Some [SUse "m"]); OpI (Some [SOther (TExpr (EAtom (AId "a")))])].

Theorem C06_before_fix_refuted :
  run_ops sk_before_fix C06_witness_table fresh (OpI C06_witness_bad :: C06_witness_later)
    = ["err|resolver:UnknownModule(nosuch)|"; "ok|-|-|"; "err|type:UnknownIdentifier|"]
  /\ run_ops sk_before_fix C06_witness_table fresh C06_witness_later = ["ok|-|-|"; "ok|1|-|"].
Proof. vm_compute. split; reflexivity. Qed.
Print Assumptions C06_before_fix_refuted.

(* Non-vacuity: the same history under the skeleton extracted from the current
   source really fails at the first input, really imports m afterwards, and the
   later inputs answer as if the failing input had never been submitted; a
   second witness fails at run time AFTER defining x and importing m (dirty
   transformer, type checker, VM and resolver all have to be rolled back). *)
Example C06_nonvacuous_resolver_error :
  run_ops current_skeleton C06_witness_table fresh (OpI C06_witness_bad :: C06_witness_later)
    = ["err|resolver:UnknownModule(nosuch)|"; "ok|-|-|"; "ok|1|-|"].
Proof. vm_compute. reflexivity. Qed.

Example C06_nonvacuous_runtime_error :
  run_ops current_skeleton C06_witness_table fresh
    [OpI (Some [SUse "m"; SOther (TLet "x" (EAtom (ANum 2))); SOther (TPrint (EAtom (AId "a")));
                SOther (TExpr (EDivZero (AId "x")))]);
     OpDigest;
     OpI (Some [SOther (TExpr (EAtom (AId "x")))]);
     OpI (Some [SUse "m"; SOther (TExpr (EAdd (AId "a") (ANum 1)))])]
    = ["err|runtime:DivisionByZero|1";
       "imp=[];vars=[];fns=[];units=[];dims=[];ureps=[];vals=[];ans=[-]";
       "err|type:UnknownIdentifier|";
       "ok|2|-|"].
Proof. vm_compute. reflexivity. Qed.
