(* C13 — Standard-library unit names and prefixes resolve correctly and uniquely.
   Property theorems only; proofs are in Prefix/Proofs.v.  The tables
   (Gen/PrefixTables.v, Gen/PrefixPrelude.v) are regenerated from the running
   implementation on every run. *)
From Coq Require Import QArith.
From NV Require Import Prefix.Model Prefix.Proofs Prefix.Exec Prefix.Standard Gen.PrefixTables Gen.PrefixPrelude.

(* ---------------- general theorems: any well-formed prefix table, any state
   reached by successful registrations, EVERY string ---------------- *)

Theorem C13_unique :
  forall table, table_wf table = true ->
  forall ops st, run table empty ops = Some st ->
  forall s p1 n1 p2 n2,
    reading table st s p1 n1 -> reading table st s p2 n2 -> p1 = p2 /\ n1 = n2.
Proof. intros table Hwf ops st Hr. exact (inv_unique table st (reachable_inv table Hwf ops st Hr)). Qed.
Print Assumptions C13_unique.

Theorem C13_not_both :
  forall table, table_wf table = true ->
  forall ops st, run table empty ops = Some st ->
  forall s p n, In s (others st) -> ~ reading table st s p n.
Proof. intros table Hwf ops st Hr. exact (inv_others table st (reachable_inv table Hwf ops st Hr)). Qed.
Print Assumptions C13_not_both.

(* parse returns a unit exactly for the (unique) reading — in particular a
   combination the unit does not accept is not read as that unit *)
Theorem C13_parse_exact :
  forall table, table_wf table = true ->
  forall ops st, run table empty ops = Some st ->
  forall s p n f,
    parse table st s = RUnit p n f <->
    reading table st s p n /\ exists i, assoc n (units st) = Some i /\ full i = f.
Proof. intros table Hwf ops st Hr s p n f. apply parse_exact; auto. eapply reachable_inv; eauto. Qed.
Print Assumptions C13_parse_exact.

Theorem C13_parse_ident :
  forall table, table_wf table = true ->
  forall ops st, run table empty ops = Some st ->
  forall s, parse table st s = RIdent <->
            In s (others st) \/ forall p n, ~ reading table st s p n.
Proof. intros table Hwf ops st Hr s. apply parse_ident; auto. eapply reachable_inv; eauto. Qed.
Print Assumptions C13_parse_ident.

(* the output form (Display for UnitFactor) of a prefixed unit reads back *)
Theorem C13_readback_prefixed :
  forall table, table_wf table = true ->
  forall rs rl, render_wf table rs rl = true ->
  forall ops st, run table empty ops = Some st ->
  forall c i e (cs : bool),
    assoc c (units st) = Some i -> In e table -> kind_ok i (ppre e) = true ->
    (if cs then acc_short i else acc_long i) = true ->
    parse table st (render rs rl (ppre e) cs c) = RUnit (ppre e) c (full i).
Proof.
  intros table Hwf rs rl Hrw ops st Hr c i e cs. apply readback_prefixed; auto.
  eapply reachable_inv; eauto.
Qed.
Print Assumptions C13_readback_prefixed.

Theorem C13_readback_plain :
  forall table, table_wf table = true ->
  forall rs rl, render_wf table rs rl = true ->
  forall ops st, run table empty ops = Some st ->
  forall c i (cs : bool),
    assoc c (units st) = Some i ->
    parse table st (render rs rl pnone cs c) = RUnit pnone c (full i).
Proof.
  intros table Hwf rs rl Hrw ops st Hr c i cs. apply readback_plain; auto.
  eapply reachable_inv; eauto.
Qed.
Print Assumptions C13_readback_plain.

(* ---------------- instance: the tables of the running implementation -------- *)

Theorem C13_table_wf : table_wf gen_table = true.
Proof. vm_compute. reflexivity. Qed.
Print Assumptions C13_table_wf.

(* every accepted prefix name / symbol denotes the power of ten (SI) or of two
   (IEC 80000-13) that the standards give it *)
Theorem C13_table_standard : table_standard gen_table = true.
Proof. vm_compute. reflexivity. Qed.
Print Assumptions C13_table_standard.

Theorem C13_render_wf :
  render_wf gen_table (fun p => lookup_render p gen_render_short_tbl)
                      (fun p => lookup_render p gen_render_long_tbl) = true.
Proof. vm_compute. reflexivity. Qed.
Print Assumptions C13_render_wf.

(* every prefix denotes 10^n (metric) / 2^n (binary) *)
Theorem C13_factor : forallb factor_ok gen_factor_bits = true
                     /\ map fst gen_factor_bits = map ppre gen_table.
Proof. split; vm_compute; reflexivity. Qed.
Print Assumptions C13_factor.

(* the prelude's registrations succeed in the model and yield the dumped state *)
Theorem C13_prelude_reachable : run gen_table empty gen_ops = Some gen_state.
Proof. vm_compute. reflexivity. Qed.
Print Assumptions C13_prelude_reachable.

(* every unit's canonical (output) name is a registered alias of that unit which
   accepts the prefixes in the form the output uses *)
Theorem C13_prelude_printable : forallb (printable gen_state) gen_registry = true.
Proof. vm_compute. reflexivity. Qed.
Print Assumptions C13_prelude_printable.

Theorem C13_prelude_unique :
  forall s p1 n1 p2 n2,
    reading gen_table gen_state s p1 n1 -> reading gen_table gen_state s p2 n2 -> p1 = p2 /\ n1 = n2.
Proof. exact (C13_unique gen_table C13_table_wf gen_ops gen_state C13_prelude_reachable). Qed.
Print Assumptions C13_prelude_unique.

Theorem C13_prelude_parse_exact :
  forall s p n f,
    parse gen_table gen_state s = RUnit p n f <->
    reading gen_table gen_state s p n /\ exists i, assoc n (units gen_state) = Some i /\ full i = f.
Proof. exact (C13_parse_exact gen_table C13_table_wf gen_ops gen_state C13_prelude_reachable). Qed.
Print Assumptions C13_prelude_parse_exact.

(* non-vacuity: a small registration history with short/long, metric/binary
   acceptance; readings exist and the hypotheses of the theorems are met *)
Example C13_nonvacuous :
  let ops := [AddUnit (B "meter") false true true false (B "meter");
              AddUnit (B "m") true false true false (B "meter");
              AddUnit (B "byte") false true true true (B "byte");
              AddOther (B "x")] in
  exists st, run gen_table empty ops = Some st
  /\ parse gen_table st (B "km") = RUnit (mkP Metric 3) (B "m") (B "meter")
  /\ parse gen_table st (B "kilometer") = RUnit (mkP Metric 3) (B "meter") (B "meter")
  /\ parse gen_table st (B "kibibyte") = RUnit (mkP Binary 10) (B "byte") (B "byte")
  /\ parse gen_table st (B "kmeter") = RIdent
  /\ parse gen_table st (B "kilom") = RIdent
  /\ step gen_table st (AddOther (B "mm")) = None.
Proof. eexists. vm_compute. repeat split; reflexivity. Qed.
