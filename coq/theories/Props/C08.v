(* C08 — No input crashes or hangs the interpreter.
   No theorem can exhibit a Rust panic, a stack overflow or a hang of the real
   interpreter: the claim for arbitrary text rests on the exploration
   (tools/props/c08.py).  What is proved here concerns only the modelled
   arithmetic cores (Overflow/Model.v): proof (partial). *)
From Coq Require Import ZArith List PrimFloat.
From NV Require Import Overflow.Model Overflow.Proofs.
Set Warnings "-inexact-float".
Import ListNotations.
Local Open Scope Z_scope.

(* Totality of the checked paths: DType::try_power (Ratio::checked_mul) and
   DType::try_multiply / try_canonicalize (Ratio::checked_add) never panic,
   whatever the factors and exponents. *)
Theorem C08_checked_paths_total : forall fs gs n,
  dtry_power fs n <> Panic /\ dtry_multiply fs gs <> Panic.
Proof. exact checked_paths_never_panic. Qed.
Print Assumptions C08_checked_paths_total.

(* The unchecked DType::power panics exactly where try_power reports an overflow,
   and otherwise returns the same exponents; DType::multiply is try_multiply + expect. *)
Theorem C08_unchecked_is_checked_plus_panic : forall fs gs n,
  dpower fs n = expect (dtry_power fs n) /\ dmultiply fs gs = expect (dtry_multiply fs gs).
Proof. intros. split; [apply dpower_expect|apply dmultiply_expect]. Qed.
Print Assumptions C08_unchecked_is_checked_plus_panic.

(* After the repairs of phase 4 the run-time paths are guarded by the checked operations
   (Quantity::checked_power tries checked_mul first; the VM tries try_canonicalized on every
   product/quotient) and the parser rejects more than 65535 `!`: NO path of the modelled
   exponent arithmetic panics any more — the unchecked operations only run on operands for
   which the checked ones succeeded. *)
Theorem C08_guarded_paths_total : forall fs gs e,
  upower_guarded fs e <> Panic /\
  (all_wf fs -> all_wf gs -> pmultiply_guarded fs gs <> Panic).
Proof. intros. split; [apply upower_guarded_no_panic|apply pmultiply_guarded_no_panic]. Qed.
Print Assumptions C08_guarded_paths_total.

Theorem C08_factorial_order_exact : forall bangs n,
  parse_factorial_order bangs = Some n -> order_u16 n = n /\ 1 <= n.
Proof. exact parse_factorial_order_exact. Qed.
Print Assumptions C08_factorial_order_exact.

(* The same for single exponents: `*` vs checked_mul (always), `+` vs checked_add
   (operands in range with positive denominators). *)
Theorem C08_ratio_ops : forall x y,
  rmul x y = expect (rmul_checked x y) /\
  (wf_ratio x -> wf_ratio y -> radd x y = expect (radd_checked x y)).
Proof. intros. split; [apply rmul_expect|apply radd_expect]. Qed.
Print Assumptions C08_ratio_ops.

Theorem C08_checked_mul_in_range : forall x y n d,
  rmul_checked x y = Val (n, d) -> fits n = true /\ fits d = true.
Proof. exact rmul_checked_fits. Qed.
Print Assumptions C08_checked_mul_in_range.

(* the factorial loop ends for every order >= 1 (at most x iterations) *)
Theorem C08_factorial_terminates : forall x order, 1 <= order -> 0 <= x ->
  exists v, factorial_dbg (Z.to_nat x) x order = Val (Some v).
Proof. exact factorial_order_ge1. Qed.
Print Assumptions C08_factorial_terminates.

(* Kernel-computed witnesses of the UNCHECKED operations (the findings they belonged to are fixed
   since phase 4: the code no longer reaches them with these operands; kept as documentation of
   why the guards are needed):
   ((m/cm)^1e30)^1e30                       UnitFactor::power, 1e30 * 1e30
   fn f(x) = x^(2^126) * x^(2^126)          DType::power in a substitution, 2 * 2^126
   dimension Z = Length^(2^126) * Length^(2^126)   merge of equal factors, 2^126 + 2^126
   m^(1/2^100) + m^(1/3^70)                 lcm of the denominators (while rendering the error)
   and in each case the checked operation reports an overflow instead. *)
Theorem C08_power_overflow_refuted :
  (upower [(0%nat, (10 ^ 30, 1)); (1%nat, (- 10 ^ 30, 1))] (10 ^ 30, 1) = Panic
   /\ rmul_checked (10 ^ 30, 1) (10 ^ 30, 1) = Overflow) /\
  (dpower [(0%nat, (2 ^ 126, 1))] (2, 1) = Panic /\ dtry_power [(0%nat, (2 ^ 126, 1))] (2, 1) = Overflow) /\
  (pmultiply [(0%nat, (2 ^ 126, 1))] [(0%nat, (2 ^ 126, 1))] = Panic
   /\ dtry_multiply [(0%nat, (2 ^ 126, 1))] [(0%nat, (2 ^ 126, 1))] = Overflow
   /\ dmultiply [(0%nat, (2 ^ 126, 1))] [(0%nat, (2 ^ 126, 1))] = Panic).
Proof. split; [exact upower_refuted|split; [exact dpower_refuted|exact pmultiply_refuted]]. Qed.
Print Assumptions C08_power_overflow_refuted.

Theorem C08_lcm_overflow_refuted :
  radd (1, 2 ^ 100) (-1, 3 ^ 70) = Panic /\ radd_checked (1, 2 ^ 100) (-1, 3 ^ 70) = Overflow
  /\ wf_ratio (1, 2 ^ 100) /\ wf_ratio (-1, 3 ^ 70).
Proof. exact radd_lcm_refuted. Qed.
Print Assumptions C08_lcm_overflow_refuted.

(* 65536 `!`: `order as u16` is 0 — assertion failure in checked builds, and the
   loop does not terminate for x = 1 otherwise *)
Theorem C08_factorial_truncation_refuted :
  order_u16 65536 = 0 /\
  (forall fuel x, factorial_dbg fuel x (order_u16 65536) = Panic) /\
  (forall fuel result, fact_loop fuel 1 (order_u16 65536) result = None).
Proof. exact factorial_truncation_refuted. Qed.
Print Assumptions C08_factorial_truncation_refuted.

(* 1 Rm^12/m < 1 Qm^11: both conversion factors (1e30^11, 1e27^12) are +inf in f64,
   their quotient is NaN and partial_cmp has no answer: the `expect` fires.
   (binary64 arithmetic of the kernel's primitive floats) *)
Theorem C08_comparison_nan_refuted :
  cmp_after_conversion 1 1 (fpow 1e30 11) (fpow 1e27 12 / 1)%float = Panic
  /\ PrimFloat.is_nan (fpow 1e30 11 / (fpow 1e27 12 / 1))%float = true
  /\ cmp_after_conversion 1 1 (fpow 1e30 2) (fpow 1e27 2)%float = Val FLt.
Proof. exact cmp_nan_refuted. Qed.
Print Assumptions C08_comparison_nan_refuted.

(* Non-vacuity *)
Example C08_ex : rmul_checked (2, 3) (9, 4) = Val (3, 2)
  /\ radd (1, 2) (1, 3) = Val (5, 6) /\ radd_checked (1, 2) (1, 3) = Val (5, 6)
  /\ dtry_power [(0%nat, (1, 2)); (1%nat, (-3, 1))] (2, 1) = Val [(0%nat, (1, 1)); (1%nat, (-6, 1))]
  /\ dtry_multiply [(0%nat, (1, 2)); (2%nat, (1, 1))] [(0%nat, (1, 2)); (1%nat, (3, 1))]
     = Val [(0%nat, (2, 2)); (1%nat, (3, 1)); (2%nat, (1, 1))]
  /\ factorial_dbg 5 5 2 = Val (Some 15) /\ order_u16 3 = 3
  /\ upower_guarded [(0%nat, (10 ^ 30, 1))] (10 ^ 30, 1) = Overflow
  /\ pmultiply_guarded [(0%nat, (2 ^ 126, 1))] [(0%nat, (2 ^ 126, 1))] = Overflow
  /\ pmultiply_guarded [(0%nat, (1, 2))] [(0%nat, (1, 3))] = Val [(0%nat, (5, 6))]
  /\ parse_factorial_order 65536 = None /\ parse_factorial_order 3 = Some 3.
Proof. vm_compute. repeat split; reflexivity. Qed.
