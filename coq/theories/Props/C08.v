(* C08 — No input crashes or hangs the interpreter.
   No theorem can exhibit a Rust panic, a stack overflow or a hang of the real
   interpreter: the claim for arbitrary text rests on the exploration
   (tools/props/c08.py).  What is proved here concerns only the modelled
   arithmetic cores (Overflow/Model.v): proof (partial). *)
From Coq Require Import ZArith List.
From NV Require Import Overflow.Model Overflow.Proofs.
Import ListNotations.
Local Open Scope Z_scope.

(* On the checked path (DType::try_power with Ratio::checked_mul) an exponent
   overflow is a `None` (reported as an error), exactly where the unchecked path
   (DType::power with `*`) panics; otherwise both return the same exponents. *)
Theorem C08_checked_paths_total : forall fs n,
  (dpower fs n = Panic <-> dtry_power fs n = None) /\
  (forall r, dpower fs n = Val r <-> dtry_power fs n = Some r).
Proof. exact dtry_power_iff. Qed.
Print Assumptions C08_checked_paths_total.

Theorem C08_checked_mul_in_range : forall x y n d,
  rmul_checked x y = Some (n, d) -> fits n = true /\ fits d = true.
Proof. exact rmul_checked_fits. Qed.
Print Assumptions C08_checked_mul_in_range.

(* the factorial loop ends for every order >= 1 (at most x iterations) *)
Theorem C08_factorial_terminates : forall x order, 1 <= order -> 0 <= x ->
  exists v, factorial_dbg (Z.to_nat x) x order = Val (Some v).
Proof. exact factorial_order_ge1. Qed.
Print Assumptions C08_factorial_terminates.

(* the unchecked paths do panic: exponent product 1e30 * 1e30 (input
   `((m/cm)^1e30)^1e30`), exponent sum 2^126 + 2^126 (input
   `fn f(x) = x^(2^126) * x^(2^126)`) *)
Theorem C08_power_overflow_refuted :
  (exists x y, fits (fst x) = true /\ fits (fst y) = true /\ rmul x y = Panic) /\
  (exists x y, fits (fst x) = true /\ fits (fst y) = true /\ radd_same x y = Panic).
Proof. split; [exact rmul_refuted|exact radd_refuted]. Qed.
Print Assumptions C08_power_overflow_refuted.

(* 65536 `!`: `order as u16` is 0 — assertion failure in checked builds, and the
   loop does not terminate for x = 1 otherwise *)
Theorem C08_factorial_truncation_refuted :
  order_u16 65536 = 0 /\
  (forall fuel x, factorial_dbg fuel x (order_u16 65536) = Panic) /\
  (forall fuel result, fact_loop fuel 1 (order_u16 65536) result = None).
Proof. exact factorial_truncation_refuted. Qed.
Print Assumptions C08_factorial_truncation_refuted.

(* Non-vacuity *)
Example C08_ex : rmul_checked (2, 3) (9, 4) = Some (3, 2)
  /\ dtry_power [(0%nat, (1, 2)); (1%nat, (-3, 1))] (2, 1) = Some [(0%nat, (1, 1)); (1%nat, (-6, 1))]
  /\ factorial_dbg 5 5 2 = Val (Some 15) /\ order_u16 3 = 3.
Proof. vm_compute. repeat split; reflexivity. Qed.
