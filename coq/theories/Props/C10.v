(* C10 — Parsing follows the documented grammar and precedence table.
   Property theorems only; proofs are in Syntax/ParserProofs.v, Syntax/GrammarProofs.v,
   Syntax/OpTableCheck.v.

   Objects (Syntax/Grammar.v): `sx` = derivation trees of the documented expression
   grammar (header comment of parser.rs) with spelling choices and explicit parentheses;
   `lvl` = the precedence table of book/src/basics/operations.md; `wf t` = every operand
   sits at the level the table requires + the two side conditions of juxtaposition;
   `pr` = the token sequence; `desugar` = the tree the documentation prescribes;
   `parse` (Syntax/Parser.v) = the model of numbat's parser on a token list. *)
From Coq Require Import List NArith ZArith Bool.
From NV Require Import Syntax.Token Syntax.Ast Syntax.StmtAst Syntax.Parser Syntax.Grammar
     Syntax.ParserProofs Syntax.GrammarProofs Syntax.OpTableCheck Syntax.LexTable Syntax.FuelProofs
     Syntax.SoundProofs Syntax.SoundSeq Syntax.TypeGrammar Syntax.TypeProofs Syntax.TypeSound Syntax.StmtGrammar Syntax.StmtProofs Syntax.StmtSound Syntax.SoundFull Syntax.StmtFlat Syntax.Lexer Syntax.LexNumber Syntax.LexIdent Gen.OpTable.
Import ListNotations.

(* Every well-formed derivation tree, of any size and nesting depth, is read back as exactly
   the documented tree: implicit multiplication above unary minus above `per` above `* /`
   above `+ -` above comparisons above `!x` above `&&` above `||` above conversions above
   if-then-else above `|>`; `^` right-associative and above juxtaposition; factorials and
   unicode exponents above `^`; all binary levels left-associative; no out-of-fuel, no error. *)
Theorem C10_roundtrip : forall t : sx, wf t = true -> parse (pr t) = Ok [StExpr (desugar t)] [].
Proof. exact roundtrip. Qed.
Print Assumptions C10_roundtrip.

(* Every abstract operator tree (any combination and depth of the documented operators,
   calls, field access, conditionals, interpolated strings in the shape the parser builds;
   literals without underscores; factorial orders >= 1),
   printed with parentheses exactly where the precedence table demands them, parses to itself. *)
Theorem C10_precedence : forall e : expr, printable e = true -> parse (pr (min_paren e)) = Ok [StExpr e] [].
Proof. exact precedence_roundtrip. Qed.
Print Assumptions C10_precedence.

(* Statements of the model: an expression, `let name = e` (no type annotation, no decorator) and the
   procedure calls print / assert / assert_eq / type with any number of arguments. *)
Theorem C10_roundtrip_stmt : forall s : sst, wf_stmt s = true -> parse (pr_stmt s) = Ok [desugar_stmt s] [].
Proof. exact roundtrip_stmt. Qed.
Print Assumptions C10_roundtrip_stmt.

(* Type annotations and dimension expressions (Syntax/TypeGrammar.v): `sty` = derivation trees of the
   documented grammar (dimension identifiers with optional type arguments, `1`, parentheses, `^` with
   a signed / parenthesised / rational exponent, unicode exponents, `*` and `/` left-associative,
   Bool, String, DateTime, Fn[(…) -> …], List<…>), `wf_ty` = operands at the level the grammar requires
   and exponents that evaluate without overflow or division by zero.  Every well-formed tree, of any
   size and nesting depth, followed by anything that cannot continue a dimension expression, is read back
   by Parser::type_annotation as the type it denotes; dimension expressions likewise. *)
Theorem C10_roundtrip_type : forall (t : sty) (rest : list token),
  wf_ty t = true -> tfollow rest = true -> type_annotation (pr_ty t ++ rest) = Ok (ty_ann t) rest.
Proof. exact type_annotation_ok. Qed.
Print Assumptions C10_roundtrip_type.

Theorem C10_roundtrip_dexpr : forall (t : sty) (rest : list token),
  wf_ty t = true -> 1 <= ylvl t -> tfollow rest = true ->
  dimension_expression (pr_ty t ++ rest) = Ok (ty_exp t) rest.
Proof. exact dimension_expression_ok. Qed.
Print Assumptions C10_roundtrip_dexpr.

(* Definitions (Syntax/StmtGrammar.v): `let` with optional annotation and decorators; `fn` with type
   parameters (with or without the Dim bound), typed and untyped parameters, optional return
   annotation, optional body with where / and clauses, decorators; `dimension` with any number of
   `= dexpr` alternatives; `unit` base or derived with optional dimension annotation and decorators;
   `use a::b::c`; `struct` with type parameters and fields.  Every decorator of the documentation
   (metric_prefixes, binary_prefixes, abbreviation, aliases with the four accepts annotations, url,
   name, description, example with one or two strings) on its own line.  wf_def = the documented side
   conditions (no example on let / unit, no prefixed alias on let, no alias on fn, no reserved name).
   Every well-formed definition parses to the statement it denotes. *)
Theorem C10_roundtrip_def : forall s : sdef, wf_def s = true -> parse (pr_def s) = Ok [desugar_def s] [].
Proof. exact roundtrip_def. Qed.
Print Assumptions C10_roundtrip_def.

(* Programs: any number of statements and definitions, separated by `;` or a line break and any
   number of blank lines, with blank lines before and after, parse to the list of their meanings. *)
Theorem C10_roundtrip_program : forall lead i more trail,
  wf_item i = true -> wf_more more = true ->
  parse (pr_prog lead i more trail) = Ok (desugar_item i :: map (fun p => desugar_item (snd p)) more) [].
Proof. exact roundtrip_program. Qed.
Print Assumptions C10_roundtrip_program.

(* The lexer on decimal number literals, beyond the finite tables (Syntax/LexNumber.v): `numlit` =
   the documented number notation (digits with `_` separators that start and end with a digit, an
   optional fraction `.digits` — also the forms `.234` and `2.` —, an optional exponent e/E with
   optional sign), `num_stop rest` = the literal ends there (no digit, `_`, `.` or exponent follows).
   For literals of any length and ANY Unicode identifier classes in which a digit does not start an
   identifier: every literal of the grammar is exactly one Number token with that lexeme, and
   conversely every Number token the tokenizer produces is a literal of the grammar and nothing else
   was consumed. *)
Theorem C10_lex_number : forall (xid_start xid_continue : N -> bool),
  (forall c, is_ascii_digit c = true -> xid_start c = false) ->
  forall (n : numlit) (rest : str) (d : list bool) (last : option token),
  wf_num n = true -> num_stop rest = true -> based_prefix (pr_num n ++ rest) = false ->
  scan_single_token xid_start xid_continue d last (pr_num n ++ rest) = LOk (Some (TNumber (pr_num n)), rest, d).
Proof. exact lex_number_complete. Qed.
Print Assumptions C10_lex_number.

Theorem C10_lex_number_sound : forall (xid_start xid_continue : N -> bool) (d : list bool) (last : option token)
    (cs l r : str) (d' : list bool),
  scan_single_token xid_start xid_continue d last cs = LOk (Some (TNumber l), r, d') ->
  exists n, wf_num n = true /\ l = pr_num n /\ cs = l ++ r /\ d' = d.
Proof. exact lex_number_sound. Qed.
Print Assumptions C10_lex_number_sound.

(* Identifiers, for ANY Unicode classes XID_Start / XID_Continue (Syntax/LexIdent.v): a start character
   that is not one of the punctuation characters tested earlier, followed by any number of continue
   characters, up to a character that does not continue an identifier (and not a `.` that is not a
   field access), is one token: the keyword it spells, else an Identifier with that lexeme.
   Conversely every Identifier token is such a word, it is not a keyword, it ends where no continue
   character follows, and nothing else was consumed. *)
Theorem C10_lex_ident : forall (xid_start xid_continue : N -> bool) (c : N) (body rest : str)
    (d : list bool) (last : option token),
  early c = false -> is_identifier_start xid_start c = true ->
  forallb (is_identifier_continue xid_continue) body = true ->
  ident_stop xid_start xid_continue rest = true ->
  scan_single_token xid_start xid_continue d last (c :: body ++ rest) = LOk (Some (word_token (c :: body)), rest, d).
Proof. exact lex_ident_complete. Qed.
Print Assumptions C10_lex_ident.

Theorem C10_lex_ident_sound : forall (xid_start xid_continue : N -> bool) (d : list bool) (last : option token)
    (cs l r : str) (d' : list bool),
  scan_single_token xid_start xid_continue d last cs = LOk (Some (TIdent l), r, d') ->
  exists c body, l = c :: body /\ is_identifier_start xid_start c = true
                 /\ forallb (is_identifier_continue xid_continue) body = true
                 /\ keyword_of l = None /\ cs = l ++ r
                 /\ peek_is (is_identifier_continue xid_continue) r = false /\ d' = d.
Proof. exact lex_ident_sound. Qed.
Print Assumptions C10_lex_ident_sound.

(* Two well-formed renderings of the same tree (redundant parentheses, `per` vs `/`,
   `to` vs `->`, unary plus, `^-x` vs `^(-x)`) parse identically. *)
Theorem C10_parens : forall t t' : sx,
  wf t = true -> wf t' = true -> desugar t = desugar t' -> parse (pr t) = parse (pr t').
Proof. exact parens_irrelevant. Qed.
Print Assumptions C10_parens.

(* The chain of precedence levels, the operator token sets, the tokens that may start a
   juxtaposed factor, the keyword map and the subscript range re-extracted from
   parser.rs / tokenizer.rs on this run are those of the model. *)
Theorem C10_optable :
  binop_levels = model_binop_levels /\ fallthrough = model_fallthrough
  /\ power_start_tokens = model_power_start /\ keywords_ok = true /\ subscript_block_ok = true.
Proof. exact optable_matches. Qed.
Print Assumptions C10_optable.

(* Lexer model, finite tables: every documented operator / keyword spelling (ASCII and Unicode) is one
   token of the documented kind — alone, between identifiers, and (symbolic ones) without any space,
   e.g. `x→y` is three tokens; every unicode exponent ¹…⁹, ⁻¹…⁻⁹ has its value; the documented number
   forms (underscores, fraction, exponent, leading/trailing dot, hex/octal/binary) are one literal token
   and the malformed ones (`1_`, `1._5`, `1e+`, `1..`, `0x`, `0b2` …) are lexical errors. *)
Theorem C10_lex_tables :
  forallb spelling_ok spellings = true /\ forallb tight_ok spellings = true
  /\ forallb exponent_ok exponents = true
  /\ forallb (fun s => lexes_to s [TNumber s]) numbers_accepted = true
  /\ forallb lex_fails numbers_rejected = true
  /\ forallb (fun p => lexes_to (fst p) [TIntBase (snd p) (fst p)]) based_accepted = true.
Proof. exact lex_tables. Qed.
Print Assumptions C10_lex_tables.

(* The parser model never runs out of fuel, on ANY token list (fuel = S (length tokens) at every
   loop and for the nesting depth): OutOfFuel is an unreachable result. *)
Theorem C10_fuel : forall ts : list token, parse ts <> OutOfFuel.
Proof. exact parse_never_out_of_fuel. Qed.
Print Assumptions C10_fuel.

(* Soundness on the expression core (token lists without newline, trailing comma and `;`; list and
   struct literals included):
   whatever the parser accepts is the print of a well-formed derivation tree of the documented
   grammar and the result is the documented tree of it — nothing outside the grammar is accepted or
   reinterpreted. *)
Theorem C10_sound_core : forall ts ss,
  core ts = true -> no_separator ts = true -> simple_start ts = true -> parse ts = Ok ss [] ->
  ts = [] /\ ss = [] \/ exists s, wf_stmt s = true /\ pr_stmt s = ts /\ ss = [desugar_stmt s].
Proof. exact parse_sound. Qed.
Print Assumptions C10_sound_core.

(* Together with C10_roundtrip_stmt: acceptance on the core is characterised exactly
   (`simple_start`: the statement is an expression, `let name = e` or a procedure call; the
   definition forms fn / unit / dimension / struct / use / annotated let are parsed by the model
   and tied by correspondence, their inversion is not proved). *)
Theorem C10_characterised : forall ts st,
  core ts = true -> no_separator ts = true -> simple_start ts = true ->
  (parse ts = Ok [st] [] <-> exists s, wf_stmt s = true /\ pr_stmt s = ts /\ desugar_stmt s = st).
Proof. exact parse_characterised. Qed.
Print Assumptions C10_characterised.

(* Several statements: on token lists without line breaks and trailing commas whose statements
   (separated by `;`) all start like a statement of the fragment, whatever the parser accepts is the
   `;`-separated print of well-formed statements (a trailing `;` allowed) and the result is the list
   of their meanings. *)
Theorem C10_sound_seq : forall ts ss,
  core ts = true -> simple_start ts = true -> after_semis ts = true -> parse ts = Ok ss [] ->
  ts = [] /\ ss = [] \/
  exists stmts trailing, stmts <> [] /\ Forall (fun s => wf_stmt s = true) stmts
    /\ ts = pr_semi stmts trailing /\ ss = map desugar_stmt stmts.
Proof. exact parse_sound_seq. Qed.
Print Assumptions C10_sound_seq.

(* Soundness of the type parser: whatever Parser::type_annotation / dimension_expression accept is
   the print of a well-formed type tree and denotes it (with C10_roundtrip_type / _dexpr: acceptance
   of type annotations is characterised exactly, on all token lists). *)
Theorem C10_sound_type : forall ts a rest, type_annotation ts = Ok a rest ->
  exists t, wf_ty t = true /\ ty_ann t = a /\ ts = pr_ty t ++ rest.
Proof. exact type_annotation_sound. Qed.
Print Assumptions C10_sound_type.

Theorem C10_sound_dexpr : forall ts e rest, dimension_expression ts = Ok e rest ->
  exists t, wf_ty t = true /\ 1 <= ylvl t /\ ty_exp t = e /\ ts = pr_ty t ++ rest.
Proof. exact dimension_expression_sound. Qed.
Print Assumptions C10_sound_dexpr.

(* Soundness for every statement form, and the theorem that stands for `C10_full`: on token lists
   without line-break tokens and trailing commas (`core`), and without the two degenerate
   type-parameter spellings `fn f<>(…)` / `struct S<> {…}` and `<A,>` (`tp_plain`; the parser accepts
   them, the grammar of StmtGrammar.v has no spelling for them), whatever `parse` accepts is the
   `;`-separated one-line print of well-formed statements and definitions (expressions incl.
   interpolated strings, let, procedure calls, fn, dimension, unit, use, struct, decorators) and the
   result is the list of their meanings: nothing outside the documented grammar is accepted or
   reinterpreted.  REMAINING GAP of the full statement (all token lists): line-break tokens (inside
   brackets, after `=`, before where / and, after decorators, blank lines), trailing commas, and the
   two spellings above; for those only the completeness direction (C10_roundtrip_program for line
   breaks between statements and after decorators) and the correspondence check apply. *)
Theorem C10_sound_statement : forall ts st rest, core ts = true -> tp_plain ts = true ->
  statement ts = Ok st rest ->
  exists it, wf_item it = true /\ desugar_item it = st /\ ts = pr_item_flat it ++ rest.
Proof. exact statement_sound_full. Qed.
Print Assumptions C10_sound_statement.

Theorem C10_full_partial : forall ts ss,
  core ts = true -> tp_plain ts = true -> parse ts = Ok ss [] ->
  ts = [] /\ ss = [] \/
  exists items trailing, items <> [] /\ Forall (fun i => wf_item i = true) items
    /\ ts = pr_program_semi items trailing /\ ss = map desugar_item items.
Proof. exact parse_sound_full. Qed.
Print Assumptions C10_full_partial.

(* ... and conversely every such one-line program is accepted with that meaning: on token lists without
   line-break tokens and trailing commas (and tp_plain) acceptance by `parse` is characterised exactly,
   for every statement form. *)
Theorem C10_characterised_full : forall ts ss,
  core ts = true -> tp_plain ts = true ->
  (parse ts = Ok ss [] <->
   (ts = [] /\ ss = []) \/
   exists items trailing, items <> [] /\ Forall (fun i => wf_item i = true) items
     /\ ts = pr_program_semi items trailing /\ ss = map desugar_item items).
Proof. exact parse_characterised_full. Qed.
Print Assumptions C10_characterised_full.

(* ---- non-vacuity *)
Definition id_ (c : N) : sx := SIdent [c].
Definition num_ (c : N) : sx := SNum [c].

(* `50 cm / 2 m` (operations.md): implicit multiplication binds tighter than division *)
Example C10_ex_implicit_mul_div :
  let t := SBin TDivide (SIMul (SNum [53; 48]%N) (SIdent [99; 109]%N)) (SIMul (num_ 50) (id_ 109)) in
  wf t = true
  /\ parse (pr t) = Ok [StExpr (EBin Div (EBin Mul (EScalar [53; 48]%N) (EIdent [99; 109]%N))
                               (EBin Mul (EScalar [50]%N) (EIdent [109]%N)))] [].
Proof. vm_compute. split; reflexivity. Qed.

(* `1 / meter per second`: per binds tighter than `/`; `-2^2!`: unary minus below power below factorial *)
Example C10_ex_per_and_minus :
  let t1 := SBin TDivide (num_ 49) (SBin TPer (id_ 109) (id_ 115)) in
  let t2 := SNeg (SPow (num_ 50) false (SFact (num_ 50) 0)) in
  wf t1 = true /\ wf t2 = true
  /\ pr t1 = [TNumber [49]; TDivide; TIdent [109]; TPer; TIdent [115]]%N
  /\ parse (pr t1) = Ok [StExpr (EBin Div (EScalar [49]%N) (EBin Div (EIdent [109]%N) (EIdent [115]%N)))] []
  /\ parse (pr t2) = Ok [StExpr (EUn Negate (EBin Power (EScalar [50]%N) (EUn (Factorial 1) (EScalar [50]%N))))] [].
Proof. vm_compute. repeat split; reflexivity. Qed.

(* a tree that is NOT well-formed (`a (b)` is a call, not a product) is excluded by wf, and the
   parser indeed reads its print differently *)
Example C10_ex_wf_excludes :
  let t := SIMul (id_ 97) (SParen (id_ 98)) in
  wf t = false /\ parse (pr t) = Ok [StExpr (ECall (EIdent [97]%N) [EIdent [98]%N])] [].
Proof. vm_compute. split; reflexivity. Qed.

(* min_paren puts parentheses only where needed: (a+b)*c keeps them, a+(b*c) drops them *)
Example C10_ex_min_paren :
  let a := EIdent [97]%N in let b := EIdent [98]%N in let c := EIdent [99]%N in
  pr (min_paren (EBin Mul (EBin Add a b) c))
    = [TLParen; TIdent [97]; TPlus; TIdent [98]; TRParen; TMultiply; TIdent [99]]%N
  /\ pr (min_paren (EBin Add a (EBin Mul b c)))
    = [TIdent [97]; TPlus; TIdent [98]; TMultiply; TIdent [99]]%N
  /\ pr (min_paren (EBin Power (EBin Power a b) c))
    = [TLParen; TIdent [97]; TPower; TIdent [98]; TRParen; TPower; TIdent [99]]%N
  /\ pr (min_paren (EBin Power a (EBin Power b c)))
    = [TIdent [97]; TPower; TIdent [98]; TPower; TIdent [99]]%N.
Proof. vm_compute. repeat split; reflexivity. Qed.

(* list and struct literals are part of the grammar of the theorems *)
Example C10_ex_list_struct :
  let t := SField (SStruct [83]%N [([97]%N, SList [num_ 49; SBin TPlus (num_ 50) (id_ 120)]); ([98]%N, SList [])]) [97]%N in
  wf t = true
  /\ pr t = [TIdent [83]; TLCurly; TIdent [97]; TColon; TLBracket; TNumber [49]; TComma; TNumber [50]; TPlus;
            TIdent [120]; TRBracket; TComma; TIdent [98]; TColon; TLBracket; TRBracket; TRCurly; TPeriod; TIdent [97]]%N
  /\ parse (pr t) = Ok [StExpr (desugar t)] [].
Proof. vm_compute. repeat split; reflexivity. Qed.

(* inputs outside the grammar are rejected by the model (not reinterpreted) *)
Example C10_ex_rejects :
  parse [TNumber [50]; TTrue]%N = Err TrailingCharacters
  /\ parse [TIdent [97]; TPower; TPlus; TIdent [98]]%N = Err ExpectedPrimary
  /\ parse [TLParen; TNumber [49]]%N = Err MissingClosingParen.
Proof. vm_compute. repeat split; reflexivity. Qed.

(* statements: `let x = 2 m` and `assert_eq(a, b + 1)` *)
Example C10_ex_statements :
  let s1 := SSLet [120]%N (SIMul (num_ 50) (id_ 109)) in
  let s2 := SSProc KAssertEq [id_ 97; SBin TPlus (id_ 98) (num_ 49)] in
  wf_stmt s1 = true /\ wf_stmt s2 = true
  /\ pr_stmt s1 = [TKw KLet; TIdent [120]; TEqual; TNumber [50]; TIdent [109]]%N
  /\ parse (pr_stmt s1) = Ok [StLet (mk_defvar [120]%N None [] (EBin Mul (EScalar [50]%N) (EIdent [109]%N)))] []
  /\ parse (pr_stmt s2) = Ok [StProc KAssertEq [EIdent [97]%N; EBin Add (EIdent [98]%N) (EScalar [49]%N)]] [].
Proof. vm_compute. repeat split; reflexivity. Qed.

(* definitions:
     @name("N")
     @aliases(g: short, h)
     fn f<D: Dim, E>(x: D, y) -> D^2 = x * z where z = 2 and w: List<E> = v
   and `unit u: L / T^(-1/2) = 3 m`, `dimension A = B * C = D`, `struct S<T> { a: T, b: Fn[(T) -> Bool] }`,
   `use a::b` *)
Example C10_ex_definitions :
  let D := YIdent [68]%N None in
  let f := SFFn [SDName [34; 78; 34]%N; SDUrl [34; 34]%N]
                [102]%N [([68]%N, true); ([69]%N, false)]
                [([120]%N, Some D); ([121]%N, None)]
                (Some (YPow D (XNum [50]%N)))
                (Some (SBin TMultiply (id_ 120) (id_ 122),
                       [mk_svar [122]%N None (num_ 50);
                        mk_svar [119]%N (Some (YList (YIdent [69]%N None))) (id_ 118)])) in
  let u := SFUnit [SDMetric; SDAliases [([103]%N, Some AcShort); ([104]%N, None)]] [117]%N
                  (Some (YDiv (YIdent [76]%N None) (YPow (YIdent [84]%N None) (XParDiv (XMinus (XNum [49]%N)) (XNum [50]%N)))))
                  (Some (SIMul (num_ 51) (id_ 109))) in
  let d := SFDimension [65]%N [YMul (YIdent [66]%N None) (YIdent [67]%N None); D] in
  let s := SFStruct [83]%N [([84]%N, false)]
                    [([97]%N, YIdent [84]%N None); ([98]%N, YFn [YIdent [84]%N None] YBool)] in
  let m := SFUse [97]%N [[98]%N] in
  wf_def f = true /\ wf_def u = true /\ wf_def d = true /\ wf_def s = true /\ wf_def m = true
  /\ parse (pr_def f) = Ok [desugar_def f] []
  /\ desugar_def u = StUnit [117]%N
       (Some (TAExp (TEDiv (TEIdent [76]%N []) (TEPow (TEIdent [84]%N []) ((-1)%Z, 2%positive)))))
       (Some (EBin Mul (EScalar [51]%N) (EIdent [109]%N)))
       [DMetricPrefixes; DAliases [([103]%N, Some AcShort); ([104]%N, None)]]
  /\ parse (pr_def u) = Ok [desugar_def u] []
  /\ pr_def d = [TKw KDimension; TIdent [65]; TEqual; TIdent [66]; TMultiply; TIdent [67]; TEqual; TIdent [68]]%N
  /\ parse (pr_def s) = Ok [desugar_def s] []
  /\ parse (pr_prog 1 (IDef f) [((false, 1), IDef u); ((true, 0), IStmt (SSExpr (id_ 120))); ((false, 0), IDef m)] 2)
     = Ok [desugar_def f; desugar_def u; StExpr (EIdent [120]%N); StUse [[97]%N; [98]%N]] [].
Proof. vm_compute. repeat split; reflexivity. Qed.

(* side conditions: an alias on a function, an example on a unit and a where clause that would be
   swallowed are outside wf_def / srest, and the model indeed rejects or reads them differently *)
Example C10_ex_definitions_rejected :
  let f := SFFn [SDAliases [([103]%N, None)]] [102]%N [] [] None None in
  let u := SFUnit [SDExample [34; 34]%N None] [117]%N None None in
  wf_def f = false /\ parse (pr_def f) = Err AliasUsedOnFunction
  /\ wf_def u = false /\ parse (pr_def u) = Err ExampleUsedOnUnsuitableKind
  /\ srest [TNewline; TKw KWhere]%N = false
  /\ wf_ty (YPow (YMul (YIdent [65]%N None) (YIdent [66]%N None)) (XNum [50]%N)) = false.
Proof. vm_compute. repeat split; reflexivity. Qed.

(* number notation: the documented forms 12_345, .234, 1.234e+15, 1e-9 are literals of the grammar;
   `1_`, `1._2`, `1e` are not *)
Example C10_ex_numbers :
  let n1 := mk_num [49; 50; 95; 51; 52; 53]%N None None in
  let n2 := mk_num [] (Some [50; 51; 52]%N) None in
  let n3 := mk_num [49]%N (Some [50; 51; 52]%N) (Some (101, Some 43, [49; 53]))%N in
  let n4 := mk_num [49]%N None (Some (101, Some 45, [57]))%N in
  wf_num n1 = true /\ wf_num n2 = true /\ wf_num n3 = true /\ wf_num n4 = true
  /\ pr_num n3 = [49; 46; 50; 51; 52; 101; 43; 49; 53]%N
  /\ wf_num (mk_num [49; 95]%N None None) = false
  /\ wf_num (mk_num [49]%N (Some [95; 50]%N) None) = false
  /\ wf_num (mk_num [49]%N None (Some (101, None, []))%N) = false
  /\ num_stop [32; 109]%N = true /\ num_stop [101; 53]%N = false /\ num_stop [46]%N = false.
Proof. vm_compute. repeat split; reflexivity. Qed.

(* identifiers: with ASCII letters as start and letters / digits as continue characters, `xy1` followed by
   a blank is an Identifier, `let` is the keyword, a digit or `(` cannot start a word, and `x.` followed by
   a non-identifier is not a legal stop *)
Example C10_ex_identifiers :
  let st := fun c : N => in_range 97 122 c in
  let co := fun c : N => in_range 97 122 c || in_range 48 57 c in
  early 120 = false /\ early 49 = true /\ early 40 = true
  /\ is_identifier_start st 120 = true
  /\ ident_stop st co [32]%N = true /\ ident_stop st co [46; 49]%N = false /\ ident_stop st co [46; 97]%N = true
  /\ word_token [120; 121; 49]%N = TIdent [120; 121; 49]%N
  /\ word_token [108; 101; 116]%N = TKw KLet
  /\ scan_single_token st co [] None [120; 121; 49; 32; 43]%N = LOk (Some (TIdent [120; 121; 49]%N), [32; 43]%N, []).
Proof. vm_compute. repeat split; reflexivity. Qed.

(* interpolated strings: the text  "a{x+1:.2f}b{y}"  is lexed into the opening part, the tokens of the
   first expression, its format specifiers, the middle part, the second expression and the closing
   part (scope stack and last-token state of the tokenizer); the parser reads the token list as the
   documented parts; an empty interpolation and a struct brace inside one are errors *)
Example C10_ex_interpolation :
  let st := fun c : N => in_range 97 122 c in
  let co := fun c : N => in_range 97 122 c || in_range 48 57 c in
  let text := [34; 97; 123; 120; 43; 49; 58; 46; 50; 102; 125; 98; 123; 121; 125; 34]%N in
  let t := SInterp [34; 97; 123]%N
             [(SBin TPlus (id_ 120) (num_ 49), Some [58; 46; 50; 102]%N, [125; 98; 123]%N);
              (id_ 121, None, [125; 34]%N)] in
  tokenize st co text = LOk (pr t)
  /\ wf t = true
  /\ parse (pr t) = Ok [StExpr (EInterp [PFixed [97]%N; PExpr (EBin Add (EIdent [120]%N) (EScalar [49]%N)) (Some [58; 46; 50; 102]%N);
                                          PFixed [98]%N; PExpr (EIdent [121]%N) None])] []
  /\ parse [TInterpStart [34; 123]; TInterpEnd [125; 34]]%N = Err EmptyStringInterpolation
  /\ parse [TInterpStart [34; 123]; TIdent [120]]%N = Err UnterminatedStringParse
  /\ tokenize st co [34; 123; 120; 123; 125; 125; 34]%N = LErr UnexpectedCurlyInInterpolation
  /\ tokenize st co [34; 123; 120; 32; 34; 98; 34; 125; 34]%N = LErr UnterminatedStringInterpolation.
Proof. vm_compute. repeat split; reflexivity. Qed.

(* soundness hypotheses are satisfiable and exclude what they should: a one-line program with a
   decorated fn and a struct is core / tp_plain, parses, and is the print of its items *)
Example C10_ex_sound_full :
  let f := SFFn [SDName [34; 78; 34]%N] [102]%N [([68]%N, true)] [([120]%N, Some (YIdent [68]%N None))]
                None (Some (id_ 120, [])) in
  let s := SFStruct [83]%N [] [([97]%N, YList YBool)] in
  let ts := pr_program_semi [IDef f; IDef s; IStmt (SSExpr (id_ 120))] true in
  core ts = true /\ tp_plain ts = true
  /\ parse ts = Ok [desugar_def f; desugar_def s; StExpr (EIdent [120]%N)] []
  /\ tp_plain [TKw KFn; TIdent [102]; TLessThan; TGreaterThan; TLParen; TRParen]%N = false
  /\ tp_plain [TKw KFn; TIdent [102]; TLessThan; TIdent [65]; TComma; TGreaterThan]%N = false
  /\ core [TIdent [102]; TLParen; TNewline; TRParen]%N = false.
Proof. vm_compute. repeat split; reflexivity. Qed.

(* an abstract interpolated string is rendered with canonical part lexemes and read back as itself *)
Example C10_ex_precedence_interp :
  let e := EBin Add (EInterp [PFixed [97]%N; PExpr (EBin Mul (EIdent [120]%N) (EScalar [50]%N)) (Some [58; 120]%N);
                              PExpr (EInterp [PExpr EHole None; PFixed [123]%N]) None]) (EScalar [49]%N) in
  printable e = true
  /\ pr (min_paren e) = [TInterpStart [34; 97; 123]; TIdent [120]; TMultiply; TNumber [50]; TInterpSpec [58; 120];
                          TInterpMiddle [125; 123]; TInterpStart [34; 123]; TQuestionMark; TInterpEnd [125; 123; 123; 34];
                          TInterpEnd [125; 34]; TPlus; TNumber [49]]%N
  /\ parse (pr (min_paren e)) = Ok [StExpr e] []
  /\ printable (EInterp [PFixed []%N; PExpr EHole None]) = false
  /\ printable (EInterp [PFixed [97]%N]) = false.
Proof. vm_compute. repeat split; reflexivity. Qed.
