(* C11 — Comparisons do not depend on operand order.
   Property theorems only; proofs in Qty/Struct.v (any number type) and
   Qty/Proofs.v (exact level).  Model: Quantity::symmetric_partial_cmp (both
   operands are converted into the unit of the other one) as introduced by the
   fix of findings C11-eq-one-sided / C11-ord-one-sided; before the fix the
   statement was false (`12 inch == 1 foot` false, `1 foot == 12 inch` true).

   The only fact about the number type used by the order-independence theorems
   is [cmp_antisym_law]: partial_cmp y x is the reverse of partial_cmp x y
   (true of IEEE doubles; proved for the exact instance, QcN_cmp_antisym). *)
From Coq Require Import List ZArith QArith Qcanon String Bool.
From NV Require Import Qty.Model Qty.Exec Qty.Proofs Qty.Struct Qty.CmpProofs Qty.TableSem Qty.Good
                       Qty.Demo Qty.RoundZ.
Import ListNotations.
Local Open Scope Qc_scope.

(* a == b equals b == a — any number type, any table, any operands (including
   different dimensions, zero, NaN) *)
Theorem C11_eq_sym :
  forall (T : Type) (N : numops T) tbl res keys a b,
    cmp_antisym_law N -> qeq N tbl res keys a b = qeq N tbl res keys b a.
Proof. intros T N tbl res keys a b. exact (qeq_sym N tbl res keys a b). Qed.
Print Assumptions C11_eq_sym.

(* a < b equals b > a, a <= b equals b >= a (as results: errors and panics included) *)
Theorem C11_ord_sym :
  forall (T : Type) (N : numops T) tbl res keys op a b,
    cmp_antisym_law N ->
    vm_cmp N tbl res keys (flip op) b a = vm_cmp N tbl res keys op a b.
Proof. intros T N tbl res keys op a b. exact (vm_cmp_flip N tbl res keys op a b). Qed.
Print Assumptions C11_ord_sym.

(* != is the negation of == *)
Theorem C11_ne :
  forall (T : Type) (N : numops T) tbl res keys a b,
    qne N tbl res keys a b = negb (qeq N tbl res keys a b).
Proof. intros. apply ne_is_not_eq. Qed.
Print Assumptions C11_ne.

(* every ordering comparison with a NaN operand is false *)
Theorem C11_nan_false :
  forall (T : Type) (N : numops T) tbl res keys op a b,
    n_is_nan N (q_val a) = true \/ n_is_nan N (q_val b) = true ->
    vm_cmp N tbl res keys op a b = Ok false.
Proof. intros T N tbl res keys op a b. exact (nan_cmp_false N tbl res keys op a b). Qed.
Print Assumptions C11_nan_false.

(* ... also when the NaN only appears in a conversion of non-NaN operands
   (`1 Rm^12/m < 1 Qm^11`: inf/inf): all orderings false, == false *)
Theorem C11_nan_conv_false :
  forall (T : Type) (N : numops T) tbl res keys op a b,
    sym_cmp N tbl res keys a b = Ok None ->
    vm_cmp N tbl res keys op a b = Ok false /\ qeq N tbl res keys a b = false.
Proof. intros T N tbl res keys op a b. exact (nan_conv_false N tbl res keys op a b). Qed.
Print Assumptions C11_nan_conv_false.

(* when the ordering of a against b is defined (non-NaN operands, same
   dimension, converted operands not NaN) exactly one of a < b, a == b, a > b
   holds, and <=, >= are their unions *)
Theorem C11_trichotomy_f :
  forall (T : Type) (N : numops T) tbl res keys a b c,
    pcmp N tbl res keys a b = OOk c ->
    vm_cmp N tbl res keys CLt a b = Ok (is_lt c)
    /\ qeq N tbl res keys a b = is_eq c
    /\ vm_cmp N tbl res keys CGt a b = Ok (is_gt c)
    /\ vm_cmp N tbl res keys CLe a b = Ok (negb (is_gt c))
    /\ vm_cmp N tbl res keys CGe a b = Ok (negb (is_lt c)).
Proof. intros T N tbl res keys a b c. exact (trichotomy_struct N tbl res keys a b c). Qed.
Print Assumptions C11_trichotomy_f.

(* exact arithmetic: the ordering is the ordering of the physical quantities *)
Theorem C11_ord_exact :
  forall tbl, good_table tbl -> forall keys a b c,
    unit_int (q_unit a) = true -> unit_int (q_unit b) = true ->
    pcmp QcN tbl (resolve QcN tbl) keys a b = OOk c ->
    c = Qc_cmp (DenQ (resolve QcN tbl) a) (DenQ (resolve QcN tbl) b).
Proof.
  intros tbl G keys a b c Ha Hb. exact (pcmp_exact tbl _ keys (good_scale_pos tbl G) a b Ha Hb c).
Qed.
Print Assumptions C11_ord_exact.

(* exact arithmetic: == is equality of the physical quantities *)
Theorem C11_eq_exact :
  forall tbl, good_table tbl -> forall keys a b b',
    unit_int (q_unit a) = true -> unit_int (q_unit b) = true ->
    convert_to QcN tbl (resolve QcN tbl) keys b (q_unit a) = Ok b' ->
    qeq QcN tbl (resolve QcN tbl) keys a b
    = match Qc_cmp (DenQ (resolve QcN tbl) a) (DenQ (resolve QcN tbl) b) with Eq => true | _ => false end.
Proof.
  intros tbl G keys a b b'. exact (qeq_exact tbl _ keys (good_scale_pos tbl G) a b b').
Qed.
Print Assumptions C11_eq_exact.

(* ---- non-vacuity.
   (1) the law holds for the exact instance and for the rounding arithmetic ZN;
   (2) in ZN (truncating division) the former witness of the asymmetry
       4 b vs 1 a' (a' = 3 b) now compares equal in both orders;
   (3) exact level, demo table. *)
Example C11_law_exact : cmp_antisym_law QcN.
Proof. exact QcN_cmp_antisym. Qed.

Example C11_law_rounding : cmp_antisym_law ZN.
Proof. intros x y. simpl. unfold opp_o. simpl. f_equal. apply Z.compare_antisym. Qed.

Example C11_former_witness :
  let a := qnew 4%Z [mkF 0 (Metric 0) (Qc_of_Z 1)] in
  let b := qnew 1%Z [mkF 1 (Metric 0) (Qc_of_Z 1)] in
  qeq ZN rz_tbl rz_res rz_keys a b = true /\ qeq ZN rz_tbl rz_res rz_keys b a = true
  /\ pcmp ZN rz_tbl rz_res rz_keys a b = OOk Eq.
Proof. repeat split; vm_compute; reflexivity. Qed.

Example C11_nonvacuous :
  vm_cmp QcN demo_tbl D_res D_keys CLt (qz 1 (u1 4)) (qz 13 (u1 3)) = Ok true
  /\ vm_cmp QcN demo_tbl D_res D_keys CGt (qz 13 (u1 3)) (qz 1 (u1 4)) = Ok true
  /\ qeq QcN demo_tbl D_res D_keys (qz 12 (u1 3)) (qz 1 (u1 4)) = true
  /\ qeq QcN demo_tbl D_res D_keys (qz 1 (u1 4)) (qz 12 (u1 3)) = true
  /\ pcmp QcN demo_tbl D_res D_keys (qz 1 (u1 4)) (qz 1 (u1 1)) = OIncompatible.
Proof. repeat split; vm_compute; reflexivity. Qed.
