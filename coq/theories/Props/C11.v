(* C11 — Comparisons do not depend on operand order.
   Property theorems only; proofs in Qty/CmpProofs.v (exact level) and
   Qty/Struct.v (any number type).  The full property is FALSE of the code
   under rounding arithmetic: C11_symmetry_refuted (known finding
   C11-eq-one-sided; the f64 witness `40.5 firkin == (40.5 firkin ->
   long_hundredweight)` is replayed on the implementation by the check). *)
From Coq Require Import List ZArith QArith Qcanon String Bool.
From NV Require Import Qty.Model Qty.Exec Qty.Proofs Qty.Struct Qty.CmpProofs Qty.TableSem Qty.Good
                       Qty.Demo Qty.RoundZ.
Import ListNotations.
Local Open Scope Qc_scope.

(* the full statement, at the level of the model for an arbitrary number type *)
Definition C11_symmetry_full : Prop :=
  forall (T : Type) (N : numops T) tbl res keys a b,
    qeq N tbl res keys a b = qeq N tbl res keys b a.

(* exact arithmetic: a == b equals b == a whenever each operand converts into
   the other's unit (same dimension) *)
Theorem C11_eq_sym_exact :
  forall tbl, good_table tbl -> forall keys a b a' b',
    unit_int (q_unit a) = true -> unit_int (q_unit b) = true ->
    convert_to QcN tbl (resolve QcN tbl) keys b (q_unit a) = Ok b' ->
    convert_to QcN tbl (resolve QcN tbl) keys a (q_unit b) = Ok a' ->
    qeq QcN tbl (resolve QcN tbl) keys a b = qeq QcN tbl (resolve QcN tbl) keys b a.
Proof.
  intros tbl G keys a b a' b'. exact (qeq_sym tbl _ keys (good_scale_pos tbl G) a b a' b').
Qed.
Print Assumptions C11_eq_sym_exact.

(* exact arithmetic: a < b equals b > a, a <= b equals b >= a (and vice versa) *)
Theorem C11_ord_sym_exact :
  forall tbl, good_table tbl -> forall keys op a b x y,
    unit_int (q_unit a) = true -> unit_int (q_unit b) = true ->
    vm_cmp QcN tbl (resolve QcN tbl) keys op a b = Ok x ->
    vm_cmp QcN tbl (resolve QcN tbl) keys (flip op) b a = Ok y -> x = y.
Proof.
  intros tbl G keys op a b x y. exact (vm_cmp_flip tbl _ keys (good_scale_pos tbl G) op a b x y).
Qed.
Print Assumptions C11_ord_sym_exact.

(* exact arithmetic: the ordering is the ordering of the physical quantities *)
Theorem C11_ord_exact :
  forall tbl, good_table tbl -> forall keys a b c,
    unit_int (q_unit a) = true -> unit_int (q_unit b) = true ->
    pcmp QcN tbl (resolve QcN tbl) keys a b = OOk c ->
    c = Qc_cmp (DenQ (resolve QcN tbl) a) (DenQ (resolve QcN tbl) b).
Proof.
  intros tbl G keys a b c Ha Hb. exact (pcmp_exact tbl _ keys (good_scale_pos tbl G) a b Ha Hb c).
Qed.
Print Assumptions C11_ord_exact.

(* any number type: != is the negation of == *)
Theorem C11_ne :
  forall (T : Type) (N : numops T) tbl res keys a b,
    qne N tbl res keys a b = negb (qeq N tbl res keys a b).
Proof. intros. apply ne_is_not_eq. Qed.
Print Assumptions C11_ne.

(* any number type: every ordering comparison with a NaN operand is false *)
Theorem C11_nan_false :
  forall (T : Type) (N : numops T) tbl res keys op a b,
    n_is_nan N (q_val a) = true \/ n_is_nan N (q_val b) = true ->
    vm_cmp N tbl res keys op a b = Ok false.
Proof. intros T N tbl res keys op a b. exact (nan_cmp_false N tbl res keys op a b). Qed.
Print Assumptions C11_nan_false.

(* any number type whose == agrees with partial_cmp (IEEE): when the ordering of
   a against b is defined (non-NaN operands, same dimension, converted operand
   not NaN) exactly one of a < b, a == b, a > b holds, and <=, >= are their unions *)
Theorem C11_trichotomy_f :
  forall (T : Type) (N : numops T) tbl res keys a b c,
    (forall x y, n_eqb N x y = match n_cmp N x y with Some Eq => true | _ => false end) ->
    pcmp N tbl res keys a b = OOk c ->
    vm_cmp N tbl res keys CLt a b = Ok (is_lt c)
    /\ qeq N tbl res keys a b = is_eq c
    /\ vm_cmp N tbl res keys CGt a b = Ok (is_gt c)
    /\ vm_cmp N tbl res keys CLe a b = Ok (negb (is_gt c))
    /\ vm_cmp N tbl res keys CGe a b = Ok (negb (is_lt c)).
Proof. intros T N tbl res keys a b c. exact (trichotomy_struct N tbl res keys a b c). Qed.
Print Assumptions C11_trichotomy_f.

(* REFUTED: with a rounding division (integers, truncation) the one-sided
   conversion of the right operand makes == asymmetric:  a = 4 b,  b = 1 a'
   where a' = 3 b:   4 b == 1 a'  converts 1 a' to 3 b  -> false,
                      1 a' == 4 b  converts 4 b to 4/3 = 1 a' -> true.
   Same shape as the f64 witness 40.5 firkin == (40.5 firkin -> long_hundredweight). *)
Theorem C11_symmetry_refuted :
  exists (T : Type) (N : numops T) tbl res keys a b,
    (forall x y, n_add N x y = n_add N y x)
    /\ qeq N tbl res keys a b = false /\ qeq N tbl res keys b a = true.
Proof.
  exists Z, ZN, rz_tbl, rz_res, rz_keys,
         (qnew 4%Z [mkF 0 (Metric 0) (Qc_of_Z 1)]), (qnew 1%Z [mkF 1 (Metric 0) (Qc_of_Z 1)]).
  split; [exact Z.add_comm | split; vm_compute; reflexivity].
Qed.
Print Assumptions C11_symmetry_refuted.

Theorem C11_symmetry_full_refuted : ~ C11_symmetry_full.
Proof.
  intros H. destruct C11_symmetry_refuted as (T & N & tbl & res & keys & a & b & _ & E1 & E2).
  rewrite (H T N tbl res keys a b) in E1. congruence.
Qed.
Print Assumptions C11_symmetry_full_refuted.

(* ---- non-vacuity (exact level, demo table): 1 ft < 13 in, 13 in > 1 ft, 12 in == 1 ft both ways *)
Example C11_nonvacuous :
  vm_cmp QcN demo_tbl D_res D_keys CLt (qz 1 (u1 4)) (qz 13 (u1 3)) = Ok true
  /\ vm_cmp QcN demo_tbl D_res D_keys CGt (qz 13 (u1 3)) (qz 1 (u1 4)) = Ok true
  /\ qeq QcN demo_tbl D_res D_keys (qz 12 (u1 3)) (qz 1 (u1 4)) = true
  /\ qeq QcN demo_tbl D_res D_keys (qz 1 (u1 4)) (qz 12 (u1 3)) = true
  /\ pcmp QcN demo_tbl D_res D_keys (qz 1 (u1 4)) (qz 1 (u1 1)) = OIncompatible.
Proof. repeat split; vm_compute; reflexivity. Qed.
