(* C03 — Quantity arithmetic agrees with dimensional analysis of unit definitions.
   Property theorems only; proofs are in Qty/Proofs.v and Qty/TableSem.v.

   Scope of the exact level: magnitudes are rationals (the f64 conversion
   factors of the implementation taken as exact rationals), powers are integer
   powers; [good_table]: definitions refer to earlier rows, have integer
   exponents and positive factors (proved for the prelude's exact scope by
   vm_compute in Qty/Prelude.v; the five Planck units have half-integer
   exponents and are outside it).  Floating-point rounding is outside the model. *)
From Coq Require Import List ZArith QArith Qcanon String Bool Permutation.
From NV Require Import Qty.Model Qty.Exec Qty.Proofs Qty.TableSem Qty.Complete Qty.Good Qty.Demo.
Import ListNotations.
Local Open Scope Qc_scope.

(* The meaning of a unit table IS dimensional analysis of the definitions:
   a base unit has scale 1 and is its own dimension ... *)
Theorem C03_table_base :
  forall tbl, good_table tbl ->
  forall k r, nth_error tbl k = Some r -> u_kind r = Base ->
    scale (resolve QcN tbl) k = 1
    /\ forall x, dim (resolve QcN tbl) k x = (if Nat.eqb k x then 1 else 0).
Proof. intros tbl (Hwf & _ & _) k r H B. exact (scale_base tbl k r H B). Qed.
Print Assumptions C03_table_base.

(* ... and a unit defined as  factor * D  has scale  factor * Den D  and the
   dimension vector of D (transitively, through every defining unit and prefix). *)
Theorem C03_table_derived :
  forall tbl, good_table tbl ->
  forall k r f def, nth_error tbl k = Some r -> u_kind r = Derived f def ->
    scale (resolve QcN tbl) k = f * Den (resolve QcN tbl) def
    /\ forall x, dim (resolve QcN tbl) k x = dimv (resolve QcN tbl) def x.
Proof. intros tbl (Hwf & _ & _) k r f def H D. exact (scale_derived tbl Hwf k r f def H D). Qed.
Print Assumptions C03_table_derived.

(* canonicalize never changes the size or the dimension of a unit, whatever
   order its sort puts the factors in (any permutation-returning sort). *)
Theorem C03_canon :
  forall tbl, good_table tbl ->
  forall (sort : list ufactor -> list ufactor), (forall l, Permutation (sort l) l) ->
  forall u, unit_int u = true ->
    Den (resolve QcN tbl) (canon_sorted_by sort u) = Den (resolve QcN tbl) u.
Proof.
  intros tbl G sort P u H.
  exact (proj2 (Den_canon_sorted_by _ (good_scale_pos tbl G) sort u P H)).
Qed.
Print Assumptions C03_canon.

(* convert_to (with its common-factor cancellation): the result is in the
   target unit, denotes the same quantity, and (for a non-zero value) is only
   produced when the base-unit exponent vectors agree. *)
Theorem C03_convert :
  forall tbl, good_table tbl -> forall keys q target q',
    unit_int (q_unit q) = true -> unit_int target = true ->
    convert_to QcN tbl (resolve QcN tbl) keys q target = Ok q' ->
    q_unit q' = target
    /\ q_val q' * Den (resolve QcN tbl) target = q_val q * Den (resolve QcN tbl) (q_unit q)
    /\ (q_val q <> 0 -> forall x, dimv (resolve QcN tbl) (q_unit q) x = dimv (resolve QcN tbl) target x).
Proof.
  intros tbl G keys q target q' Hu Ht H.
  destruct (convert_to_sound tbl _ keys (good_scale_pos tbl G) q target q' Hu Ht H) as (A & _ & _ & B & C).
  auto.
Qed.
Print Assumptions C03_convert.

(* Main theorem: for EVERY expression tree over numbers with units, + - * /
   integer powers, unary minus and conversions (any depth), if the
   implementation model evaluates it to q then q, expressed in base units,
   is the value of exact dimensional arithmetic (sem_val), and for a
   dimensionally well-formed tree q's unit has the expected dimension vector. *)
Theorem C03_expr :
  forall tbl, good_table tbl -> forall keys e q,
    expr_int e = true ->
    eval QcN tbl (resolve QcN tbl) keys e = Ok q ->
    DenQ (resolve QcN tbl) q = sem_val (resolve QcN tbl) e
    /\ (well_dim (resolve QcN tbl) e ->
        forall x, dimv (resolve QcN tbl) (q_unit q) x = sem_dim (resolve QcN tbl) e x).
Proof.
  intros tbl G keys e q Hi H.
  destruct (eval_sound tbl _ keys (good_scale_pos tbl G) e Hi q H) as (A & _ & B). auto.
Qed.
Print Assumptions C03_expr.

(* completeness of convert_to, with the sort keys the code computes: whenever the
   two units have the same base-unit exponent vector the conversion succeeds
   (the final equality test on canonicalized base representations cannot fail:
   canonical forms of base-unit lists are unique under the name order).  No
   integrality or positivity hypothesis: this holds for rational exponents too. *)
Theorem C03_convert_complete :
  forall tbl, wf_table tbl = true -> distinct_names (map u_name tbl) = true ->
  forall q target,
    (forall x, dimv (resolve QcN tbl) (q_unit q) x = dimv (resolve QcN tbl) target x) ->
    exists q', convert_to QcN tbl (resolve QcN tbl) (all_keys QcN tbl (resolve QcN tbl)) q target = Ok q'.
Proof. intros tbl Hwf Hn q target. exact (convert_complete tbl Hwf Hn q target). Qed.
Print Assumptions C03_convert_complete.

(* ---- non-vacuity: the demo table satisfies the hypotheses, and a concrete
   tree  (3 km/h * 2 h + 10 ft) -> inch  evaluates (through the common-factor
   path of convert_to and the smaller-unit rule of +) to the expected value *)
Example C03_demo_good : good_table demo_tbl /\ distinct_names (map u_name demo_tbl) = true.
Proof. repeat split; vm_compute; reflexivity. Qed.

Example C03_nonvacuous :
  let e := EConv (EAdd (EMul (ELit (Qc_of_Z 3) [up 0 3 1; up 6 0 (-1)]) (ELit (Qc_of_Z 2) (u1 6)))
                       (ELit (Qc_of_Z 10) (u1 4)))
                 (u1 3) in
  expr_int e = true
  /\ (exists q, eval QcN demo_tbl D_res D_keys e = Ok q /\ q_unit q = u1 3
               /\ DenQ D_res q = Qc_of_Z 6000 + Qc_of_Z 120 * scale D_res 3).
Proof.
  split; [vm_compute; reflexivity|]. eexists. split; [vm_compute; reflexivity|].
  split; [vm_compute; reflexivity | apply Qc_is_canon; vm_compute; reflexivity].
Qed.
