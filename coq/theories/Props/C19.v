(* C19 — Date and time arithmetic is consistent.
   Property theorems only; proofs in Time/Proofs.v over Time/Model.v.

   Partial: instants are integers (ns), durations the rational denoted by the f64
   seconds; jiff's calendar, zone database and strptime/strftime are outside the
   model (the parse∘format clause and "conversion to a zone keeps the instant" for
   real IANA zones rest on the correspondence/oracle only). *)
From Coq Require Import QArith Qabs ZArith String.
From NV Require Import Gen.TimeLimits Time.Model Time.Proofs.

(* (t + d) - d is t again; (t + d) - t is d rounded to whole nanoseconds, i.e.
   within half a nanosecond of d. *)
Theorem C19_add_sub : forall t q t', in_range t = true -> add_dt t q = Ok t' ->
  exists sn, duration_split q = Ok sn /\ t' = (t + span_ns sn)%Z /\
             sub_dt t' q = Ok t /\
             diff_dt t' t == inject_Z (span_ns sn) / inject_Z ns_per_s /\
             Qabs (diff_dt t' t - q) <= half_ns.
Proof. exact add_sub. Qed.
Print Assumptions C19_add_sub.

(* results are always inside the supported range ... *)
Theorem C19_range_ok : forall t q t',
  (add_dt t q = Ok t' -> in_range t' = true) /\ (sub_dt t q = Ok t' -> in_range t' = true).
Proof. exact range_ok. Qed.
Print Assumptions C19_range_ok.

(* ... and an out-of-range operation is an error, never a wrapped instant *)
Theorem C19_range_err : forall t q sn, duration_split q = Ok sn ->
  (in_range (t + span_ns sn) = false -> add_dt t q = Err DateTimeOutOfRange) /\
  (in_range (t - span_ns sn) = false -> sub_dt t q = Err DateTimeOutOfRange).
Proof. exact range_err. Qed.
Print Assumptions C19_range_err.

Theorem C19_duration_err : forall t q,
  (Z.abs (qtrunc q) > span_sec_max)%Z ->
  add_dt t q = Err DurationOutOfRange /\ sub_dt t q = Err DurationOutOfRange.
Proof. exact duration_err. Qed.
Print Assumptions C19_duration_err.

Theorem C19_tz : forall (d : zoned) z1 z2,
  fst (tz_convert d z1) = fst d /\ snd (tz_convert d z1) = z1 /\
  tz_convert (tz_convert d z1) z2 = tz_convert d z2.
Proof. exact tz_keeps_instant. Qed.
Print Assumptions C19_tz.

(* The time-zone clause on zoned values (instant, zone): date-time ± duration keeps the
   zone of the date-time, converting to another zone before or after the arithmetic gives
   the same result, and a difference of two date-times does not depend on their zones. *)
Theorem C19_tz_arith : forall (d : zoned) (q : Q) (z z2 : string),
  (forall d', zadd d q = Ok d' -> snd d' = snd d) /\
  (forall d', zsub d q = Ok d' -> snd d' = snd d) /\
  zadd (tz_convert d z) q = res_map (fun d' => tz_convert d' z) (zadd d q) /\
  zsub (tz_convert d z) q = res_map (fun d' => tz_convert d' z) (zsub d q) /\
  (forall b : zoned, zdiff (tz_convert d z) (tz_convert b z2) = zdiff d b).
Proof. exact zoned_arith. Qed.
Print Assumptions C19_tz_arith.

(* the round trip on zoned values: the zone survives as well *)
Theorem C19_zoned_add_sub : forall (d d' : zoned) q, in_range (fst d) = true ->
  zadd d q = Ok d' -> zsub d' q = Ok d /\ Qabs (zdiff d' d - q) <= half_ns.
Proof. exact zoned_add_sub. Qed.
Print Assumptions C19_zoned_add_sub.

(* The range constants come from the running implementation (Gen/TimeLimits.v, regenerated on every
   run); this table lemma is what the development needs of them. *)
Theorem C19_limits_sane :
  (ts_min < 0 < ts_max)%Z /\ (0 <= Gen.TimeLimits.gen_ts_max_subsec_ns < ns_per_s)%Z /\ (0 < span_sec_max < i64_max)%Z
  /\ in_range 0 = true /\ in_range (ts_max + 1) = false /\ in_range (ts_min - 1) = false.
Proof. exact limits_sane. Qed.
Print Assumptions C19_limits_sane.

(* Non-vacuity: 2000-01-01T00:00:00Z + 1.5000000004 s, and the two range errors *)
Example C19_ex :
  in_range 946684800000000000 = true
  /\ add_dt 946684800000000000 (15000000004 # 10000000000) = Ok 946684801500000000%Z
  /\ add_dt 946684800000000000 (-(25 # 10)) = Ok 946684797500000000%Z
  /\ add_dt ts_max (1 # 1) = Err DateTimeOutOfRange
  /\ add_dt 0 (inject_Z (span_sec_max + 1)) = Err DurationOutOfRange
  /\ zadd (tz_convert (946684800000000000%Z, "UTC"%string) "Asia/Kolkata"%string) (3 # 2)
     = Ok (946684801500000000%Z, "Asia/Kolkata"%string).
Proof. vm_compute. repeat split; reflexivity. Qed.
