(* C11F — kernel-computed float-exact witnesses for C11 (IEEE binary64 of the Coq kernel,
   vm_compute).  Kept apart from Props/C11.v so that the property theorems do not load
   the primitive-float library (its primitives and FloatAxioms would show up in coqchk). *)
From Coq Require Import List ZArith QArith Qcanon String Bool.
From NV Require Import Qty.Model Qty.Exec Qty.Struct Qty.FloatExact Qty.DemoF.
Import ListNotations.

(* ---- float-exact level (the kernel's IEEE binary64, vm_compute): the witness of the
   former asymmetry.  In f64, converting 1 foot to inches gives a value different
   from 12 (one-sided comparison: 12 inch > 1 foot), while converting 12 inch to
   feet gives exactly 1 (the other one-sided comparison: equal).  The symmetric
   comparison of the fixed code answers Equal in both orders, == is true in both
   orders, and no ordering holds strictly. *)
Example C11_float_inch_foot :
  let a := qf 12 (uf 3) in let b := qf 1 (uf 4) in
  (exists b', convert_to FN demo_tblF DF_res DF_keys b (uf 3) = Ok b' /\ f_cmp (q_val a) (q_val b') = Some Gt)
  /\ (exists a', convert_to FN demo_tblF DF_res DF_keys a (uf 4) = Ok a' /\ f_cmp (q_val a') (q_val b) = Some Eq)
  /\ qeq FN demo_tblF DF_res DF_keys a b = true /\ qeq FN demo_tblF DF_res DF_keys b a = true
  /\ pcmp FN demo_tblF DF_res DF_keys a b = OOk Eq /\ pcmp FN demo_tblF DF_res DF_keys b a = OOk Eq
  /\ vm_cmp FN demo_tblF DF_res DF_keys CGt a b = Ok false
  /\ vm_cmp FN demo_tblF DF_res DF_keys CLt b a = Ok false.
Proof.
  simpl. split; [eexists; split; vm_compute; reflexivity|].
  split; [eexists; split; vm_compute; reflexivity|].
  repeat split; vm_compute; reflexivity.
Qed.

(* signed zeros in different units compare Equal, and a NaN arising in a conversion
   (inf / inf) makes every ordering false *)
Example C11_float_specials :
  qeq FN demo_tblF DF_res DF_keys (qnew (fb 0 0 true) (uf 0)) (qnew (fb 0 0 false) (uf 3)) = true
  /\ pcmp FN demo_tblF DF_res DF_keys (qnew (fb 0 0 true) (uf 0)) (qnew (fb 0 0 false) (uf 3)) = OOk Eq
  /\ pcmp FN demo_tblF DF_res DF_keys (QFinf false (uf 3)) (QFinf false (uf 4)) = OOk Eq
  /\ vm_cmp FN demo_tblF DF_res DF_keys CLt (QFnan (uf 3)) (qf 1 (uf 4)) = Ok false.
Proof. repeat split; vm_compute; reflexivity. Qed.
