(* C04 — Conversion yields exactly the requested unit and the same quantity.
   Property theorems only; proofs in Qty/Proofs.v, Qty/ConvProofs.v.
   Exact level (rational magnitudes, integer exponents, [good_table]);
   "within floating-point tolerance" is measured by the correspondence check. *)
From Coq Require Import List ZArith QArith Qcanon String Bool.
From NV Require Import Qty.Model Qty.Exec Qty.Proofs Qty.ConvProofs Qty.TableSem Qty.Good Qty.Demo
                       Qty.Display Qty.DisplayProofs.
Import ListNotations.
Local Open Scope Qc_scope.

(* `a -> b` (vm.rs Op::ConvertTo): the result carries exactly b's factor list
   (order and prefixes included), is marked not-simplifiable, denotes a, and is
   displayed as  value unit  when b's magnitude is 1, otherwise as
   coefficient x (b)  with  coefficient * b  denoting a. *)
Theorem C04_unit :
  forall tbl, good_table tbl -> forall keys a b q,
    unit_int (q_unit a) = true -> unit_int (q_unit b) = true ->
    vm_convert QcN tbl (resolve QcN tbl) keys a b = Ok q ->
    q_unit q = q_unit b /\ q_simp q = false
    /\ DenQ (resolve QcN tbl) q = DenQ (resolve QcN tbl) a
    /\ (q_val b = 1 -> displayed QcN q = (q_val q, None, q_unit b))
    /\ (q_val b <> 1 ->
        displayed QcN q = (q_val q / q_val b, Some (q_val b, q_unit b), q_unit b)
        /\ (q_val b <> 0 -> (q_val q / q_val b) * DenQ (resolve QcN tbl) b = DenQ (resolve QcN tbl) a)).
Proof.
  intros tbl G keys a b q. exact (vm_convert_display tbl _ keys (good_scale_pos tbl G) a b q).
Qed.
Print Assumptions C04_unit.

(* converting the result back to q's unit restores q's magnitude (and unit) *)
Theorem C04_back :
  forall tbl, good_table tbl -> forall keys a U q1 q2,
    unit_int (q_unit a) = true -> unit_int U = true ->
    convert_to QcN tbl (resolve QcN tbl) keys a U = Ok q1 ->
    convert_to QcN tbl (resolve QcN tbl) keys q1 (q_unit a) = Ok q2 ->
    q_val q2 = q_val a /\ q_unit q2 = q_unit a.
Proof.
  intros tbl G keys a U q1 q2. exact (convert_back tbl _ keys (good_scale_pos tbl G) a U q1 q2).
Qed.
Print Assumptions C04_back.

(* converting through an intermediate unit agrees with converting directly *)
Theorem C04_via :
  forall tbl, good_table tbl -> forall keys a V U q1 q2 q3,
    unit_int (q_unit a) = true -> unit_int V = true -> unit_int U = true ->
    convert_to QcN tbl (resolve QcN tbl) keys a V = Ok q1 ->
    convert_to QcN tbl (resolve QcN tbl) keys q1 U = Ok q2 ->
    convert_to QcN tbl (resolve QcN tbl) keys a U = Ok q3 ->
    q_val q2 = q_val q3 /\ q_unit q2 = q_unit q3.
Proof.
  intros tbl G keys a V U q1 q2 q3.
  exact (convert_via tbl _ keys (good_scale_pos tbl G) a V U q1 q2 q3).
Qed.
Print Assumptions C04_via.

(* the TEXT the user sees after `a -> b` (any number type; Qty/Display.v is the port of
   the Display impls of unit.rs / product.rs and of pretty_print_internal without the
   numbers): b's unit written exactly as b's factor list renders (order, prefixes,
   exponents), preceded by the `×` marker iff b's magnitude is not 1.  It depends on b
   only, so in a chain `a -> b -> c` nothing of b's marker survives. *)
Theorem C04_text :
  forall (T : Type) (N : numops T) tbl res keys names a b q,
    vm_convert N tbl res keys a b = Ok q ->
    display_shape names q
    = (if n_eqb N (q_val b) (n_one N) then display_unit names (q_unit b)
       else "× " ++ display_unit names (q_unit b))%string.
Proof. intros T N tbl res keys names a b q. exact (convert_text N tbl res keys names a b q). Qed.
Print Assumptions C04_text.

(* ---- non-vacuity on the demo table: 6 hours -> 45 min is displayed as 8 x (45 min),
   through the conversion path (different units, non-zero value) *)
Example C04_nonvacuous :
  exists q, vm_convert QcN demo_tbl D_res D_keys (qz 6 (u1 6)) (qz 45 (u1 5)) = Ok q
            /\ q_unit q = u1 5 /\ q_simp q = false
            /\ fst (fst (displayed QcN q)) = Qc_of_Z 8.
Proof.
  eexists. split; [vm_compute; reflexivity|].
  split; [reflexivity|]. split; [reflexivity|]. apply Qc_is_canon. vm_compute. reflexivity.
Qed.

(* km/h -> ft/h goes through the common-factor cancellation (1/h is shared) and back *)
Example C04_nonvacuous_back :
  exists q1 q2,
    convert_to QcN demo_tbl D_res D_keys (qz 3 [up 0 3 1; up 6 0 (-1)]) [up 4 0 1; up 6 0 (-1)] = Ok q1
    /\ convert_to QcN demo_tbl D_res D_keys q1 [up 0 3 1; up 6 0 (-1)] = Ok q2
    /\ q_val q1 <> Qc_of_Z 3 /\ q_val q2 = Qc_of_Z 3.
Proof.
  eexists. eexists. split; [vm_compute; reflexivity|]. split; [vm_compute; reflexivity|].
  split; [intros H; apply (f_equal (fun q : Qc => Qnum q)) in H; vm_compute in H; discriminate
         | apply Qc_is_canon; vm_compute; reflexivity].
Qed.

(* the rendered text on the demo table: km/h, and the `×` form; a second conversion drops the marker *)
Example C04_text_nonvacuous :
  let names := [("m", true); ("s", true); ("g", true); ("in", false); ("ft", false); ("min", false); ("h", false)] in
  display_unit names [up 0 3 1; up 6 0 (-1)] = "km/h"%string
  /\ display_unit names [up 0 0 1; up 1 0 (-2); up 2 3 (-1)] = "m/(s²·kg)"%string
  /\ (exists q r, vm_convert QcN demo_tbl D_res D_keys (qz 6 (u1 6)) (qz 45 (u1 5)) = Ok q
                  /\ display_shape names q = "× min"%string
                  /\ vm_convert QcN demo_tbl D_res D_keys q (qz 1 (u1 5)) = Ok r
                  /\ display_shape names r = "min"%string /\ q_val r = Qc_of_Z 360).
Proof.
  simpl. split; [vm_compute; reflexivity|]. split; [vm_compute; reflexivity|].
  eexists. eexists. split; [vm_compute; reflexivity|]. split; [vm_compute; reflexivity|].
  split; [vm_compute; reflexivity|]. split; [vm_compute; reflexivity | apply Qc_is_canon; vm_compute; reflexivity].
Qed.
