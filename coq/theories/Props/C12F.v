(* C12F — kernel-computed float-exact witnesses for C12 (IEEE binary64 of the Coq kernel,
   vm_compute).  Kept apart from Props/C12.v so that the property theorems do not load
   the primitive-float library (its primitives and FloatAxioms would show up in coqchk). *)
From Coq Require Import List ZArith QArith Qcanon String Bool.
From NV Require Import Qty.Model Qty.Exec Qty.Struct Qty.FloatExact Qty.DemoF.
Import ListNotations.

(* ---- float-exact level (kernel binary64): the hypotheses of C12_bitwise hold for
   3 ft and 10 in, and both orders give the same unit and the same bits *)
Example C12_float_nonvacuous :
  let a := qf 3 (uf 4) in let b := qf 10 (uf 3) in
  q_is_zero FN a = false /\ q_is_zero FN b = false
  /\ unit_eq DF_keys (q_unit a) (q_unit b) = false
  /\ sizes_differ FN DF_res (q_unit a) (q_unit b)
  /\ (exists r r', qadd FN demo_tblF DF_res DF_keys a b = Ok r /\ qadd FN demo_tblF DF_res DF_keys b a = Ok r'
                   /\ q_unit r = uf 3 /\ q_unit r' = uf 3 /\ f_same (q_val r) (q_val r') = true).
Proof.
  simpl. split; [vm_compute; reflexivity|]. split; [vm_compute; reflexivity|].
  split; [vm_compute; reflexivity|]. split; [vm_compute; discriminate|].
  eexists. eexists. split; [vm_compute; reflexivity|]. split; [vm_compute; reflexivity|].
  repeat split; vm_compute; reflexivity.
Qed.
