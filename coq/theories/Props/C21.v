(* C21 — Assertions decide exactly their documented predicate.
   Property theorems only; proofs in Qty/AssertProofs.v.  Model: Qty/Assert.v
   (ffi/procedures.rs assert / assert_eq; a ControlFlow::Break ends the input). *)
From Coq Require Import List ZArith QArith Qcanon String Bool.
From NV Require Import Qty.Model Qty.Exec Qty.Proofs Qty.Assert Qty.AssertProofs Qty.TableSem Qty.Good Qty.Demo.
Import ListNotations.
Local Open Scope Qc_scope.

(* assert(c) succeeds iff c is true (any number type) *)
Theorem C21_assert :
  forall (T : Type) (c : bool), p_assert (T := T) (VB c) = Continue <-> c = true.
Proof. intros T c. exact (assert_iff c). Qed.
Print Assumptions C21_assert.

(* assert_eq(a, b) on quantities (any number type): succeeds iff a converts to
   b's unit and the converted value equals b *)
Theorem C21_eq2 :
  forall (T : Type) (N : numops T) tbl res keys a b,
    p_assert_eq2 N tbl res keys (VQ a) (VQ b) = Continue
    <-> exists a', convert_to N tbl res keys a (q_unit b) = Ok a' /\ qeq N tbl res keys a' b = true.
Proof. intros T N tbl res keys a b. exact (assert_eq2_qty N tbl res keys a b). Qed.
Print Assumptions C21_eq2.

(* assert_eq on non-quantities: succeeds iff the values are equal *)
Theorem C21_eq2_other :
  forall (T : Type) (N : numops T) tbl res keys l r,
    (forall q, l <> VQ q) ->
    (p_assert_eq2 N tbl res keys l r = Continue <-> value_eqb N tbl res keys l r = true).
Proof. intros T N tbl res keys l r. exact (assert_eq2_other N tbl res keys l r). Qed.
Print Assumptions C21_eq2_other.

(* lists are equal only if they have the same length: a comparison that stops at the
   shorter list (prefix = equal) is excluded *)
Theorem C21_eq2_list_length :
  forall (T : Type) (N : numops T) tbl res keys x y,
    p_assert_eq2 N tbl res keys (VL x) (VL y) = Continue -> List.length x = List.length y.
Proof.
  intros T N tbl res keys x y H. apply (value_eqb_list_length N tbl res keys x y).
  apply (assert_eq2_other N tbl res keys (VL x) (VL y)); [intros q; discriminate | exact H].
Qed.
Print Assumptions C21_eq2_list_length.

(* exact level: assert_eq(a, b) succeeds iff a and b denote the same quantity *)
Theorem C21_eq2_exact :
  forall tbl, good_table tbl -> forall keys a b a',
    unit_int (q_unit a) = true -> unit_int (q_unit b) = true ->
    convert_to QcN tbl (resolve QcN tbl) keys a (q_unit b) = Ok a' ->
    (p_assert_eq2 QcN tbl (resolve QcN tbl) keys (VQ a) (VQ b) = Continue
     <-> DenQ (resolve QcN tbl) a = DenQ (resolve QcN tbl) b).
Proof.
  intros tbl G keys a b a'. exact (assert_eq2_exact tbl _ keys (good_scale_pos tbl G) a b a').
Qed.
Print Assumptions C21_eq2_exact.

(* exact level: assert_eq(a, b, eps) succeeds iff |a - b| <= eps as physical
   quantities (all three expressed in eps's unit by the code) *)
Theorem C21_eq3_exact :
  forall tbl, good_table tbl -> forall keys l r eps lc rc,
    unit_int (q_unit l) = true -> unit_int (q_unit r) = true -> unit_int (q_unit eps) = true ->
    convert_to QcN tbl (resolve QcN tbl) keys l (q_unit eps) = Ok lc ->
    convert_to QcN tbl (resolve QcN tbl) keys r (q_unit eps) = Ok rc ->
    (p_assert_eq3 QcN tbl (resolve QcN tbl) keys l r eps = Continue
     <-> Qc_cmp (Qc_abs (DenQ (resolve QcN tbl) l - DenQ (resolve QcN tbl) r))
                (DenQ (resolve QcN tbl) eps) <> Gt).
Proof.
  intros tbl G keys l r eps lc rc.
  exact (assert_eq3_exact tbl _ keys (good_scale_pos tbl G) l r eps lc rc).
Qed.
Print Assumptions C21_eq3_exact.

(* any number type: the three-argument form only succeeds through the
   documented computation, and the final comparison |a - b| <= eps must answer
   Less or Equal — with a NaN anywhere (partial_cmp = None) it fails *)
Theorem C21_eq3_struct :
  forall (T : Type) (N : numops T) tbl res keys l r eps,
    p_assert_eq3 N tbl res keys l r eps = Continue ->
    exists lc rc d,
      convert_to N tbl res keys l (q_unit eps) = Ok lc
      /\ convert_to N tbl res keys r (q_unit eps) = Ok rc
      /\ qsub N tbl res keys lc rc = Ok d
      /\ (q_partial_cmp N tbl res keys (qabs N d) eps = Some Lt
          \/ q_partial_cmp N tbl res keys (qabs N d) eps = Some Eq).
Proof. intros T N tbl res keys l r eps. exact (assert_eq3_struct N tbl res keys l r eps). Qed.
Print Assumptions C21_eq3_struct.

(* a failing assertion aborts its input: whatever follows it (p2) does not run —
   the prints are exactly those before it and the outcome is its failure *)
Theorem C21_abort :
  forall (T : Type) (N : numops T) tbl res keys p1 s p2 k,
    Forall (fun x => snd (exec N tbl res keys x) = Continue) p1 ->
    snd (exec N tbl res keys s) = Break k ->
    run_prog N tbl res keys (p1 ++ s :: p2)
    = ((flat_map (fun x => fst (exec N tbl res keys x)) p1 ++ fst (exec N tbl res keys s))%list, Some k).
Proof. intros T N tbl res keys p1 s p2 k. exact (run_abort N tbl res keys p1 s p2 k). Qed.
Print Assumptions C21_abort.

(* ---- non-vacuity (demo table): 12 in vs 1 ft; 1 ft vs 13 in within 2 in but not within 1/2 in
   (eps in another unit); a failing assertion between two markers *)
Example C21_nonvacuous :
  p_assert_eq2 QcN demo_tbl D_res D_keys (VQ (qz 12 (u1 3))) (VQ (qz 1 (u1 4))) = Continue
  /\ p_assert_eq3 QcN demo_tbl D_res D_keys (qz 1 (u1 4)) (qz 13 (u1 3)) (qz 2 (u1 3)) = Continue
  /\ p_assert_eq3 QcN demo_tbl D_res D_keys (qz 1 (u1 4)) (qz 13 (u1 3)) (qz 1 [up 0 (-2) 1]) = Break AssertEq3Failed
  /\ run_prog QcN demo_tbl D_res D_keys
       [SPrint 1; SAssertEq2 (VQ (qz 1 (u1 4))) (VQ (qz 13 (u1 3))); SPrint 2] = ([1%nat], Some AssertEq2Failed)
  /\ p_assert_eq2 QcN demo_tbl D_res D_keys (VQ (qz 1 (u1 4))) (VQ (qz 1 (u1 1))) = Break AssertEq2Failed.
Proof. repeat split; vm_compute; reflexivity. Qed.
