(* C07 — Incremental, batched and replayed sessions agree.
   Property theorems only; proofs in Session/BatchProofs.v, SaveProofs.v,
   ContextProofs.v, ToyFold.v, ParseConcat.v.
   PARTIAL: C07_fold_partial has as premises (a) that the three stages process a
   statement list as a fold and (b) that the parser reads `a newline b` as the
   concatenation of the statement lists of a and b.
   (a) is DISCHARGED for every instance whose stages are defined as folds — shown
   for the executable instance Session/Toy.v (C07_fold_toy has no premises); for
   numbat's real stages it remains an assumption about the Rust code (validated by
   joined/split sessions on the implementation).
   (b) is PROVED on the statement-level skeleton of Parser::parse
   (C07_parse_concat_skeleton) from four locality conditions on the single
   statement parser, and outright for the miniature grammar at the level of the
   source text (C07_parse_concat_toy); that numbat's statement parser satisfies
   the locality conditions is validated on the real parser for all ordered pairs
   of a statement alphabet (tools/props/c07.py), not proved.  The model has no shared mutable state between a Context and its clone,
   so C07_clone is a determinism statement; the absence of sharing in the real
   implementation (Arc payloads) is checked on real cloned Contexts. *)
From Coq Require Import List String NArith.
From NV Require Syntax.Token Syntax.Parser Syntax.Grammar Syntax.StmtGrammar Syntax.StmtProofs Syntax.SoundProofs VM.Value VM.Ast VM.Compile VM.Machine VM.RefSem.
From NV Require Import Session.Resolver Session.ResolverProofs Session.Context Session.ContextProofs
     Session.BatchProofs Session.SaveProofs Session.Toy Session.ToyFold Session.ParseConcat Session.FoldStages
     Session.SyntaxConcat Session.VmFold
     Gen.CtxSkeleton Gen.ParserLoop.
Import ListNotations.
Local Open Scope list_scope.

Section C07.
  Variables (M : Type) (M_eqb : M -> M -> bool) (Code S : Type)
            (importer : M -> option Code) (parse : Code -> option (list (stmt M S)))
            (A B C X1 X2 EA EB EC V P : Type)
            (transform : A -> list S -> A * (list X1 + EA))
            (check : B -> list X1 -> B * (list X2 + EB))
            (run : C -> A -> B -> list X2 -> C * (V + EC) * list P)
            (cat : Code -> Code -> Code) (vmerge : V -> V -> V).
  Let interp := interpret M M_eqb Code S importer parse A B C (list X1) (list X2) EA EB EC V P
                          transform check run.
  Let eqv := ctx_eqv M Code A B C.

  (* two successful inputs submitted one after the other, or joined into one
     multi-line input: same printed output, same (last) result, equivalent state *)
  Theorem C07_fold_partial :
    (forall a b pa pb, parse a = Some pa -> parse b = Some pb -> parse (cat a b) = Some (pa ++ pb)) ->
    (forall a s1 s2 a1 t1 a2 t2,
        transform a s1 = (a1, inl t1) -> transform a1 s2 = (a2, inl t2) ->
        transform a (s1 ++ s2) = (a2, inl (t1 ++ t2))) ->
    (forall b s1 s2 b1 t1 b2 t2,
        check b s1 = (b1, inl t1) -> check b1 s2 = (b2, inl t2) ->
        check b (s1 ++ s2) = (b2, inl (t1 ++ t2))) ->
    (forall c a1 b1 a2 b2 t1 t2 c1 v1 p1 c2 v2 p2,
        run c a1 b1 t1 = (c1, inl v1, p1) -> run c1 a2 b2 t2 = (c2, inl v2, p2) ->
        run c a2 b2 (t1 ++ t2) = (c2, inl (vmerge v1 v2), p1 ++ p2)) ->
    forall k fuel c a b cs c1 v1 p1 c2 v2 p2,
      interp k fuel c a cs = (c1, Done M EA EB EC V P v1 p1) ->
      interp k fuel c1 b cs = (c2, Done M EA EB EC V P v2 p2) ->
      exists c2',
        interp k fuel c (cat a b) cs = (c2', Done M EA EB EC V P (vmerge v1 v2) (p1 ++ p2))
        /\ eqv c2' c2.
  Proof.
    exact (batched_equals_incremental M M_eqb Code S importer parse A B C X1 X2 EA EB EC V P
             transform check run cat vmerge).
  Qed.
End C07.

Section C07save.
  Variables (M : Type) (M_eqb : M -> M -> bool) (Code S : Type)
            (importer : M -> option Code) (parse : Code -> option (list (stmt M S)))
            (A B C T1 T2 EA EB EC V P : Type)
            (transform : A -> list S -> A * (T1 + EA))
            (check : B -> T1 -> B * (T2 + EB))
            (run : C -> A -> B -> T2 -> C * (V + EC) * list P)
            (fuel : nat) (trim : Code -> Code).
  Let sess := session M M_eqb Code S importer parse A B C T1 T2 EA EB EC V P transform check run current_skeleton.
  Let saved := saved M M_eqb Code S importer parse A B C T1 T2 EA EB EC V P transform check run
                     current_skeleton fuel trim.
  Let inp := as_input M Code fuel.

  (* `save` writes exactly the (trimmed) successful inputs, in order ... *)
  Theorem C07_save_lines :
    forall lines c,
      saved c lines
      = map (fun it => trim (fst it))
            (filter (fun it => snd it)
                    (snd (repl M M_eqb Code S importer parse A B C T1 T2 EA EB EC V P transform check run
                               current_skeleton fuel c lines))).
  Proof.
    exact (saved_lines_are_the_successful_inputs M M_eqb Code S importer parse A B C T1 T2 EA EB EC V P
             transform check run current_skeleton fuel trim).
  Qed.

  (* ... and replaying them in a fresh (equivalent) session reproduces the
     outcomes of the successful inputs and an equivalent final state *)
  Theorem C07_save_replay :
    (forall l, parse (trim l) = parse l) ->
    forall lines c c0,
      ctx_eqv M Code A B C c c0 ->
      snd (sess c0 (map inp (saved c lines))) = successes M EA EB EC V P (snd (sess c (map inp lines)))
      /\ ctx_eqv M Code A B C (fst (sess c0 (map inp (saved c lines)))) (fst (sess c (map inp lines))).
  Proof.
    intro Ht.
    exact (replay_of_saved_session M M_eqb Code S importer parse A B C T1 T2 EA EB EC V P
             transform check run current_skeleton fuel trim Ht
             (eq_refl : sk_complete current_skeleton = true)).
  Qed.

  (* a copied session: feeding inputs to the copy is the same function of the
     copied state, whatever is fed to the original afterwards; and a session is
     the composition of its parts *)
  Theorem C07_clone :
    forall c clone xs ys,
      ctx_eqv M Code A B C c clone ->
      snd (sess clone ys) = snd (sess c ys)
      /\ sess c (xs ++ ys) = (fst (sess (fst (sess c xs)) ys), snd (sess c xs) ++ snd (sess (fst (sess c xs)) ys)).
  Proof.
    intros c clone xs ys E. split.
    - apply (session_eqv M M_eqb Code S importer parse A B C T1 T2 EA EB EC V P transform check run).
      now apply ctx_eqv_sym.
    - apply (session_app M M_eqb Code S importer parse A B C T1 T2 EA EB EC V P transform check run).
  Qed.
End C07save.

(* ---- premise (a) discharged for EVERY instance whose stages are folds over the
        statement list (per-statement step functions arbitrary; each fold stops at
        the first failing statement and keeps the state reached; the run step yields
        the value of an expression statement and the prints and does not consult the
        name tables).  Only the parser premise (b) remains. ---- *)
Theorem C07_fold_any_folds :
  forall (M : Type) (M_eqb : M -> M -> bool) (Code S : Type)
         (importer : M -> option Code) (parse : Code -> option (list (stmt M S)))
         (A B C X1 X2 EA EB EC V0 P : Type)
         (tstep : A -> S -> A * (X1 + EA)) (cstep : B -> X1 -> B * (X2 + EB))
         (rstep : C -> X2 -> C * (option V0 + EC) * list P) (cat : Code -> Code -> Code),
    (forall a b pa pb, parse a = Some pa -> parse b = Some pb -> parse (cat a b) = Some (pa ++ pb)) ->
    forall k fuel c a b cs c1 v1 p1 c2 v2 p2,
      interpret M M_eqb Code S importer parse A B C (list X1) (list X2) EA EB EC (option V0) P
                (f_transform S A X1 EA tstep) (f_check B X1 X2 EB cstep) (f_run A B C X2 EC V0 P rstep)
                k fuel c a cs = (c1, Done M EA EB EC (option V0) P v1 p1) ->
      interpret M M_eqb Code S importer parse A B C (list X1) (list X2) EA EB EC (option V0) P
                (f_transform S A X1 EA tstep) (f_check B X1 X2 EB cstep) (f_run A B C X2 EC V0 P rstep)
                k fuel c1 b cs = (c2, Done M EA EB EC (option V0) P v2 p2) ->
      exists c2',
        interpret M M_eqb Code S importer parse A B C (list X1) (list X2) EA EB EC (option V0) P
                  (f_transform S A X1 EA tstep) (f_check B X1 X2 EB cstep) (f_run A B C X2 EC V0 P rstep)
                  k fuel c (cat a b) cs
        = (c2', Done M EA EB EC (option V0) P (keep V0 v1 v2) (p1 ++ p2))
        /\ ctx_eqv M Code A B C c2' c2.
Proof. exact folded_batched_equals_incremental. Qed.
Print Assumptions C07_fold_any_folds.

(* ---- premise (a) discharged for the executable instance ---- *)
Theorem C07_fold_toy :
  forall k tbl fuel (c : tctx) a b cs c1 v1 p1 c2 v2 p2,
    interpret string String.eqb code tstmt (timporter tbl) tparse tA tB tC (list tstmt) typed eA eB eC
              result string transform check run k fuel c a cs = (c1, Done string eA eB eC result string v1 p1) ->
    interpret string String.eqb code tstmt (timporter tbl) tparse tA tB tC (list tstmt) typed eA eB eC
              result string transform check run k fuel c1 b cs = (c2, Done string eA eB eC result string v2 p2) ->
    exists c2',
      interpret string String.eqb code tstmt (timporter tbl) tparse tA tB tC (list tstmt) typed eA eB eC
                result string transform check run k fuel c (cat_code a b) cs
      = (c2', Done string eA eB eC result string (vmerge v1 v2) (p1 ++ p2))
      /\ ctx_eqv string code tA tB tC c2' c2.
Proof. exact toy_batched_equals_incremental. Qed.

(* ---- premise (b) ---- *)
(* the miniature grammar, at the level of the source text *)
Theorem C07_parse_concat_toy :
  forall a b : string,
    parse_code (a ++ String nl b)%string = cat_code (parse_code a) (parse_code b).
Proof. exact toy_parse_concat. Qed.

(* the statement loop of Parser::parse over ANY statement parser that is local
   (see Session/ParseConcat.v for the four conditions) *)
Theorem C07_parse_concat_skeleton :
  forall (tok : Type) (is_nl is_semi cont : tok -> bool) (NL : tok),
    is_nl NL = true ->
    forall (Stmt Err : Type) (stmt : list tok -> sres tok Stmt Err) (trailing : Err),
      (forall ts s rest, stmt ts = SOk tok Stmt Err s rest -> List.length rest < List.length ts) ->
      (forall ts s rest t, stmt ts = SOk tok Stmt Err s rest ->
                           first_sig tok is_nl is_semi rest = Some t ->
                           forall X, stmt (ts ++ X) = SOk tok Stmt Err s (rest ++ X)) ->
      (forall ts s rest X, stmt ts = SOk tok Stmt Err s rest ->
                           first_sig tok is_nl is_semi rest = None ->
                           (forall t, first_sig tok is_nl is_semi X = Some t -> cont t = false) ->
                           stmt (ts ++ NL :: X) = SOk tok Stmt Err s (rest ++ NL :: X)) ->
      (forall t r s rest, stmt (t :: r) = SOk tok Stmt Err s rest ->
                          cont t = false /\ sep tok is_nl is_semi t = false) ->
      forall ta tb la lb,
        parse tok is_nl is_semi parser_semi_skips Stmt Err stmt trailing ta = POk Stmt Err la ->
        parse tok is_nl is_semi parser_semi_skips Stmt Err stmt trailing tb = POk Stmt Err lb ->
        parse tok is_nl is_semi parser_semi_skips Stmt Err stmt trailing (ta ++ NL :: tb)
        = POk Stmt Err (la ++ lb).
Proof.
  intros tok is_nl is_semi cont NL HNL Stmt Err stmt trailing Hp Hl Hs Hst.
  exact (parse_concat tok is_nl is_semi cont parser_semi_skips NL HNL Stmt Err stmt trailing
                      Hp Hl Hs Hst (eq_refl : parser_semi_skips = true)).
Qed.

(* ---- phase 4: premise (b) on the syntax area's parser model (Syntax/Parser.v: the statement-level
        parser for expressions, `let`, procedure calls and all definition forms; parse_loop).
        Programs that are sequences of canonically printed well-formed items separated by `;` or
        newlines (with any blank lines) round-trip (the syntax area's roundtrip_program); joining two
        of them with a newline concatenates the statement lists; and — by the syntax area's soundness
        theorem — every single-line simple input that parses is such a print, so the property holds for
        ALL of those inputs.  Locality of the statement parser: C07_statement_locality_printed is the
        `local` + `stable` condition of the skeleton for items in printed form (srest excludes a
        following where/and continuation); for arbitrary token lists it remains unproved. ---- *)
Theorem C07_statement_locality_printed :
  forall i rest,
    StmtProofs.wf_item i = true -> StmtGrammar.srest rest = true ->
    Parser.statement (StmtProofs.pr_item i ++ rest) = Parser.Ok (StmtProofs.desugar_item i) rest.
Proof. exact statement_ext. Qed.

Theorem C07_parse_concat_syntax_canonical :
  forall lead1 i1 more1 trail1 lead2 i2 more2 trail2,
    StmtProofs.wf_item i1 = true -> StmtProofs.wf_more more1 = true ->
    StmtProofs.wf_item i2 = true -> StmtProofs.wf_more more2 = true ->
    Parser.parse (StmtProofs.pr_prog lead1 i1 more1 trail1) = Parser.Ok (trees i1 more1) []
    /\ Parser.parse (StmtProofs.pr_prog lead2 i2 more2 trail2) = Parser.Ok (trees i2 more2) []
    /\ Parser.parse (StmtProofs.pr_prog lead1 i1 more1 trail1 ++ Token.TNewline :: StmtProofs.pr_prog lead2 i2 more2 trail2)
       = Parser.Ok (trees i1 more1 ++ trees i2 more2) [].
Proof. exact parse_concat_canonical. Qed.

Theorem C07_parse_concat_syntax_single_line :
  forall ta tb la lb,
    SoundProofs.core ta = true -> SoundProofs.no_separator ta = true -> SoundProofs.simple_start ta = true ->
    SoundProofs.core tb = true -> SoundProofs.no_separator tb = true -> SoundProofs.simple_start tb = true ->
    Parser.parse ta = Parser.Ok la [] -> Parser.parse tb = Parser.Ok lb [] ->
    Parser.parse (ta ++ Token.TNewline :: tb) = Parser.Ok (la ++ lb) [].
Proof. exact parse_concat_single_line. Qed.

(* ---- phase 4: premise (a) for the compile-and-run stage on the vm area's models: the compiler is a
        fold over statements, the reference semantics is a fold over statements, and (with
        C09_compile_correct) the stack machine running the code compiled from a JOINED program halts
        with what that fold computes (prints of the first part followed by the second, last result).
        Resuming a machine at its old instruction pointer after more code was appended is not
        expressible in VM/Machine.v; the incremental session is represented by the reference
        semantics' state. ---- *)
Theorem C07_vm_compile_is_fold :
  forall (Q : Type) (p1 p2 : Ast.program Q) st, Compile.cstmts (p1 ++ p2) st = Compile.cstmts p2 (Compile.cstmts p1 st).
Proof. intros Q. exact cstmts_app. Qed.

Theorem C07_vm_joined_is_fold :
  forall (Q : Type) (O : Value.ops Q) (p1 p2 : Ast.program Q) n st1 st2,
    Compile.compile_ok (Compile.compile (Value.procs O) (p1 ++ p2)) = true ->
    RefSem.exec_stmts O (true, true) n p1 (RefSem.rinit) = Value.Ok st1 ->
    RefSem.exec_stmts O (true, true) n p2 st1 = Value.Ok st2 ->
    exists m, Machine.run O (Compile.compile (Value.procs O) (p1 ++ p2)) m
              = Value.Ok (RefSem.r_out st2, RefSem.r_res st2).
Proof. intros Q O. exact (vm_joined_is_fold O). Qed.

Print Assumptions C07_parse_concat_syntax_canonical.
Print Assumptions C07_parse_concat_syntax_single_line.
Print Assumptions C07_statement_locality_printed.
Print Assumptions C07_vm_compile_is_fold.
Print Assumptions C07_vm_joined_is_fold.

(* With the statement loop of the pinned tree (the Semicolon arm only advances)
   the concatenation property is FALSE: statements are single tokens, 0 = newline,
   1 = semicolon; `5;` and `6` parse, `5;` newline `6` does not.  This was finding
   C07-semicolon-before-newline (`1;` and `2` succeed, `1;\n2` was a parse
   error), repaired in the numbat worktree; Gen/ParserLoop.v re-derives the flag
   from parser.rs on every run. *)
Definition old_parse := parse nat (Nat.eqb 0) (Nat.eqb 1) false nat unit one_tok tt.
Definition new_parse := parse nat (Nat.eqb 0) (Nat.eqb 1) parser_semi_skips nat unit one_tok tt.

Theorem C07_semicolon_before_fix_refuted :
  old_parse [5; 1] = POk nat unit [5] /\ old_parse [6] = POk nat unit [6]
  /\ old_parse ([5; 1] ++ 0 :: [6]) = PErr nat unit tt
  /\ new_parse ([5; 1] ++ 0 :: [6]) = POk nat unit [5; 6].
Proof. vm_compute. repeat split; reflexivity. Qed.

(* non-vacuity of the four locality conditions: they hold for the one-token
   statement parser, so concatenation holds for it outright (with the loop as it
   is in parser.rs now) *)
Theorem C07_parse_concat_one_tok :
  forall ta tb la lb,
    new_parse ta = POk nat unit la -> new_parse tb = POk nat unit lb ->
    new_parse (ta ++ 0 :: tb) = POk nat unit (la ++ lb).
Proof. exact (one_tok_parse_concat parser_semi_skips (eq_refl : parser_semi_skips = true)). Qed.

Print Assumptions C07_parse_concat_one_tok.
Print Assumptions C07_fold_toy.
Print Assumptions C07_parse_concat_toy.
Print Assumptions C07_parse_concat_skeleton.
Print Assumptions C07_semicolon_before_fix_refuted.

Print Assumptions C07_fold_partial.
Print Assumptions C07_save_lines.
Print Assumptions C07_save_replay.
Print Assumptions C07_clone.

(* Non-vacuity of the premises of C07_fold_partial: on the miniature instance
   (Session/Toy.v) two inputs and their concatenation really agree, including
   the prints and the "last value" result. *)
Example C07_nonvacuous :
  run_ops current_skeleton [] fresh
    [OpI (parse_code "unit ua
let x = ua + ua
print(x)
x"); OpI (parse_code "let y = x + ua
print(y)"); OpDigest]
  = ["ok|2 ua|Ua|2 ua"; "ok|-|-|3 ua";
     "imp=[];vars=[x,y];fns=[];units=[ua];dims=[];ureps=[ua=ua[Ua]];vals=[x=2 ua:= Ua,y=3 ua:= Ua];ans=[2 ua:Ua]"]%string
  /\ run_ops current_skeleton [] fresh
    [OpI (parse_code "unit ua
let x = ua + ua
print(x)
x
let y = x + ua
print(y)"); OpDigest]
  = ["ok|2 ua|-|2 ua" ++ rs ++ "3 ua";
     "imp=[];vars=[x,y];fns=[];units=[ua];dims=[];ureps=[ua=ua[Ua]];vals=[x=2 ua:= Ua,y=3 ua:= Ua];ans=[2 ua:Ua]"]%string.
Proof. vm_compute. split; reflexivity. Qed.
