(* C07 — Incremental, batched and replayed sessions agree.
   Property theorems only; proofs in Session/BatchProofs.v, SaveProofs.v,
   ContextProofs.v.
   PARTIAL: C07_fold_partial assumes (as Section hypotheses, i.e. premises of the
   theorem) that the three stages process a statement list as a fold and that
   the parser reads `a newline b` as the concatenation of the statement lists of
   a and b (DESIGN.md: C07_parse_concat is a later obligation).  These premises
   are validated against the implementation by the correspondence check
   (sessions split and joined at arbitrary points), not proved from the Rust
   code.  The model has no shared mutable state between a Context and its clone,
   so C07_clone is a determinism statement; the absence of sharing in the real
   implementation (Arc payloads) is checked on real cloned Contexts. *)
From Coq Require Import List String NArith.
From NV Require Import Session.Resolver Session.ResolverProofs Session.Context Session.ContextProofs
     Session.BatchProofs Session.SaveProofs Session.Toy Gen.CtxSkeleton.
Import ListNotations.
Local Open Scope list_scope.

Section C07.
  Variables (M : Type) (M_eqb : M -> M -> bool) (Code S : Type)
            (importer : M -> option Code) (parse : Code -> option (list (stmt M S)))
            (A B C X1 X2 EA EB EC V P : Type)
            (transform : A -> list S -> A * (list X1 + EA))
            (check : B -> list X1 -> B * (list X2 + EB))
            (run : C -> A -> B -> list X2 -> C * (V + EC) * list P)
            (cat : Code -> Code -> Code) (vmerge : V -> V -> V).
  Let interp := interpret M M_eqb Code S importer parse A B C (list X1) (list X2) EA EB EC V P
                          transform check run.
  Let eqv := ctx_eqv M Code A B C.

  (* two successful inputs submitted one after the other, or joined into one
     multi-line input: same printed output, same (last) result, equivalent state *)
  Theorem C07_fold_partial :
    (forall a b pa pb, parse a = Some pa -> parse b = Some pb -> parse (cat a b) = Some (pa ++ pb)) ->
    (forall a s1 s2 a1 t1 a2 t2,
        transform a s1 = (a1, inl t1) -> transform a1 s2 = (a2, inl t2) ->
        transform a (s1 ++ s2) = (a2, inl (t1 ++ t2))) ->
    (forall b s1 s2 b1 t1 b2 t2,
        check b s1 = (b1, inl t1) -> check b1 s2 = (b2, inl t2) ->
        check b (s1 ++ s2) = (b2, inl (t1 ++ t2))) ->
    (forall c a1 b1 a2 b2 t1 t2 c1 v1 p1 c2 v2 p2,
        run c a1 b1 t1 = (c1, inl v1, p1) -> run c1 a2 b2 t2 = (c2, inl v2, p2) ->
        run c a2 b2 (t1 ++ t2) = (c2, inl (vmerge v1 v2), p1 ++ p2)) ->
    forall k fuel c a b cs c1 v1 p1 c2 v2 p2,
      interp k fuel c a cs = (c1, Done M EA EB EC V P v1 p1) ->
      interp k fuel c1 b cs = (c2, Done M EA EB EC V P v2 p2) ->
      exists c2',
        interp k fuel c (cat a b) cs = (c2', Done M EA EB EC V P (vmerge v1 v2) (p1 ++ p2))
        /\ eqv c2' c2.
  Proof.
    exact (batched_equals_incremental M M_eqb Code S importer parse A B C X1 X2 EA EB EC V P
             transform check run cat vmerge).
  Qed.
End C07.

Section C07save.
  Variables (M : Type) (M_eqb : M -> M -> bool) (Code S : Type)
            (importer : M -> option Code) (parse : Code -> option (list (stmt M S)))
            (A B C T1 T2 EA EB EC V P : Type)
            (transform : A -> list S -> A * (T1 + EA))
            (check : B -> T1 -> B * (T2 + EB))
            (run : C -> A -> B -> T2 -> C * (V + EC) * list P)
            (fuel : nat) (trim : Code -> Code).
  Let sess := session M M_eqb Code S importer parse A B C T1 T2 EA EB EC V P transform check run current_skeleton.
  Let saved := saved M M_eqb Code S importer parse A B C T1 T2 EA EB EC V P transform check run
                     current_skeleton fuel trim.
  Let inp := as_input M Code fuel.

  (* `save` writes exactly the (trimmed) successful inputs, in order ... *)
  Theorem C07_save_lines :
    forall lines c,
      saved c lines
      = map (fun it => trim (fst it))
            (filter (fun it => snd it)
                    (snd (repl M M_eqb Code S importer parse A B C T1 T2 EA EB EC V P transform check run
                               current_skeleton fuel c lines))).
  Proof.
    exact (saved_lines_are_the_successful_inputs M M_eqb Code S importer parse A B C T1 T2 EA EB EC V P
             transform check run current_skeleton fuel trim).
  Qed.

  (* ... and replaying them in a fresh (equivalent) session reproduces the
     outcomes of the successful inputs and an equivalent final state *)
  Theorem C07_save_replay :
    (forall l, parse (trim l) = parse l) ->
    forall lines c c0,
      ctx_eqv M Code A B C c c0 ->
      snd (sess c0 (map inp (saved c lines))) = successes M EA EB EC V P (snd (sess c (map inp lines)))
      /\ ctx_eqv M Code A B C (fst (sess c0 (map inp (saved c lines)))) (fst (sess c (map inp lines))).
  Proof.
    intro Ht.
    exact (replay_of_saved_session M M_eqb Code S importer parse A B C T1 T2 EA EB EC V P
             transform check run current_skeleton fuel trim Ht
             (eq_refl : sk_complete current_skeleton = true)).
  Qed.

  (* a copied session: feeding inputs to the copy is the same function of the
     copied state, whatever is fed to the original afterwards; and a session is
     the composition of its parts *)
  Theorem C07_clone :
    forall c clone xs ys,
      ctx_eqv M Code A B C c clone ->
      snd (sess clone ys) = snd (sess c ys)
      /\ sess c (xs ++ ys) = (fst (sess (fst (sess c xs)) ys), snd (sess c xs) ++ snd (sess (fst (sess c xs)) ys)).
  Proof.
    intros c clone xs ys E. split.
    - apply (session_eqv M M_eqb Code S importer parse A B C T1 T2 EA EB EC V P transform check run).
      now apply ctx_eqv_sym.
    - apply (session_app M M_eqb Code S importer parse A B C T1 T2 EA EB EC V P transform check run).
  Qed.
End C07save.

Print Assumptions C07_fold_partial.
Print Assumptions C07_save_lines.
Print Assumptions C07_save_replay.
Print Assumptions C07_clone.

(* Non-vacuity of the premises of C07_fold_partial: on the miniature instance
   (Session/Toy.v) two inputs and their concatenation really agree, including
   the prints and the "last value" result. *)
Example C07_nonvacuous :
  run_ops current_skeleton [] fresh
    [OpI (parse_code "unit ua
let x = ua + ua
print(x)
x"); OpI (parse_code "let y = x + ua
print(y)"); OpDigest]
  = ["ok|2 ua|Ua|2 ua"; "ok|-|-|3 ua";
     "imp=[];vars=[x,y];fns=[];units=[ua];dims=[];ureps=[ua=ua[Ua]];vals=[x=2 ua:= Ua,y=3 ua:= Ua]"]%string
  /\ run_ops current_skeleton [] fresh
    [OpI (parse_code "unit ua
let x = ua + ua
print(x)
x
let y = x + ua
print(y)"); OpDigest]
  = ["ok|2 ua|-|2 ua" ++ rs ++ "3 ua";
     "imp=[];vars=[x,y];fns=[];units=[ua];dims=[];ureps=[ua=ua[Ua]];vals=[x=2 ua:= Ua,y=3 ua:= Ua]"]%string.
Proof. vm_compute. split; reflexivity. Qed.
