(* C16 — Inferred function signatures are valid, principal annotations.
   Proved here: the exponent normalisation (LCM) applied to inferred signatures before they are
   generalised and printed keeps the set of ground instances (C16_lcm_iso, both inclusions), and
   the factor is a non-zero integer.  The clauses "the printed signature re-checks" and "calls
   agree between the inferred and the annotated version" are decided on the implementation by
   the oracle of tools/props/c16.py and by the model correspondence (see design/dim.md): they are
   stated below as C16_calls_agree_full : Prop and NOT proved. *)
From Coq Require Import String List ZArith QArith Qcanon Bool.
From NV Require Import Dim.Model Dim.Infer Dim.Sem Dim.Proofs Dim.LcmProofs Dim.Dexpr Dim.DexprProofs.
Import ListNotations.
Open Scope string_scope.

(* Substituting T := T^k in a type (what check_statement does with k = lcm of the denominators of
   T's exponents) maps the instance at T = k.x of the original type to the instance at T = x of
   the normalised type ... *)
Theorem C16_lcm_iso :
  forall (tv : var) (k : Qc) (t t' : ty) (th' : valuation) (x : Dim) (a : sty),
    tapply (lcm_subst tv k) t = Ok t' ->
    th' tv = SDim x ->
    tden (upd th' tv (SDim (dscale k x))) t = Some a ->
    ts th' t' a.
Proof. exact lcm_instance. Qed.
Print Assumptions C16_lcm_iso.

(* ... and for k <> 0 every instance of the original type is an instance of the normalised one:
   the two types have the same ground instances. *)
Theorem C16_lcm_iso_back :
  forall (tv : var) (k : Qc) (t t' : ty) (th : valuation) (y : Dim) (a : sty),
    k <> Qc0 ->
    tapply (lcm_subst tv k) t = Ok t' ->
    th tv = SDim y ->
    tden th t = Some a ->
    exists th', th' tv = SDim (dscale (/ k)%Qc y) /\ (forall v, v <> tv -> th' v = th v) /\ ts th' t' a.
Proof. exact lcm_instance_back. Qed.
Print Assumptions C16_lcm_iso_back.

(* the factor check_statement uses is a non-zero integer, and its pass applies exactly lcm_subst *)
Theorem C16_lcm_factor :
  forall es : list Qc, qc (lcm_denoms es) <> Qc0.
Proof. intro es. apply qc_nonzero, lcm_denoms_nonzero. Qed.
Print Assumptions C16_lcm_factor.

(* Dimension-expression print / parse round trip: printing a closed dimension type (any list of
   registered base dimensions with any rational exponents) the way signatures are printed
   (positive factors, `/`, inverted non-positive factors, exponent 1 omitted) and reading the
   resulting dimension expression back through the registry gives a factor list with the same
   exponent vector, for every valuation.  (Model at the level of the dimension-expression tree;
   the character-level printer/tokenizer is the subject of C15 — cf. finding
   C16-superscript-exponent, which lives exactly in that gap.) *)
Theorem C16_dexpr_roundtrip :
  forall (r : registry), reg_tparams r = [] ->
  forall (l : blist), Forall (registered r) l ->
    exists d, base_repr r (print_dexpr l) = Ok d /\
      forall th x, dd th (to_dtype l) x -> dd th d x.
Proof. exact print_parse_roundtrip. Qed.
Print Assumptions C16_dexpr_roundtrip.

(* ... and read back as a parameter / return-type ANNOTATION (type_from_annotation, what the checker
   does with the printed signature) it yields a dimension type with the meaning of the inferred one.
   With C02_accept_sound (Props/C02.v: the body and every call site are typed at the meaning of
   the types involved) this is the semantic half of "the printed signature is a valid annotation"
   for monomorphic signatures; generic signatures need the registry's type parameters, which the
   round trip excludes (reg_tparams r = []). *)
Theorem C16_annotation_roundtrip_partial :
  forall (r : registry), reg_tparams r = [] ->
  forall (l : blist), Forall (registered r) l ->
    exists d, type_from_annotation r (ADim (print_dexpr l)) = Ok (TDim d) /\
      forall th x, dd th (to_dtype l) x -> dd th d x.
Proof. exact annotation_roundtrip. Qed.
Print Assumptions C16_annotation_roundtrip_partial.

(* full statement of the remaining clause (not proved; decided per run by the oracle).  It does NOT
   follow from solver soundness + C16_lcm_iso + the round trip: those are statements about the
   MEANING (ground instances) of types, while this clause is about the checker's OUTPUT at call
   sites.  It needs (a) principality — re-checking with the annotations yields the same scheme,
   not just one with the same instances — and (b) invariance of check_statement under the renaming
   of fresh variables (the annotated definition consumes a different number of fresh names, so
   tc_next differs afterwards).  Neither is proved for the model.
   re-checking a function with the signature inferred for it yields the same scheme, up to the
   names of the bound variables — here: the checker accepts it and every call site gets the same
   verdict and result type. *)
Definition C16_calls_agree_full : Prop :=
  forall (s : tc) (f : string) (ps : list string) (body : expr) (fs : fscheme) (s1 : tc),
    check_statement (SFn f [] (map (fun p => (p, None)) ps) None [] body) s = Ok (OFn f fs, s1) ->
    forall (call : expr) (s2 : tc) (annotated : stmt),
      (* `annotated` is the same definition with the printed signature of fs as annotations *)
      check_statement annotated s = Ok (OFn f fs, s2) ->
      forall o1 o2 s1' s2',
        check_statement (SExpr call) s1 = Ok (o1, s1') ->
        check_statement (SExpr call) s2 = Ok (o2, s2') -> o1 = o2.

(* ------------------------------------------------------------------ non-vacuity *)
Definition ex16_env : tc := mkTc [] (mkReg ["Length"; "Time"] [] []) 10%N [].
Definition ex16_fn : stmt :=
  SFn "hh" [] [("pa", None); ("pb", None)] None []
      (EBin OMul (EBin OPow (EIdent "pa") (EBin ODiv (EScalar (qc 1)) (EScalar (qc 3))))
                 (EBin OPow (EIdent "pb") (EBin ODiv (EScalar (qc 1)) (EScalar (qc 2))))).
(* hh(pa, pb) = pa^(1/3) * pb^(1/2) is reported with integer exponents: (A^3, B^2) -> A B *)
Example C16_lcm_nonvacuous :
  exists s1, check_statement ex16_fn ex16_env =
    Ok (OFn "hh" (FQuantified 2
          [TDim [(FVar (VQuant 0), qc 3)]; TDim [(FVar (VQuant 1), qc 2)]]
          (TDim [(FVar (VQuant 0), qc 1); (FVar (VQuant 1), qc 1)])
          [TVar (VQuant 0); TVar (VQuant 1)]), s1).
Proof. eexists. vm_compute. reflexivity. Qed.

(* and a concrete instance pair related by C16_lcm_iso: T^(1/3) at T = 3.Length is T at T = Length *)
Example C16_iso_nonvacuous :
  match tapply (lcm_subst (VNamed "T") (qc 3)) (TDim [(FVar (VNamed "T"), qcf 1 3)]) with
  | Ok t => ty_eqb t (TDim [(FVar (VNamed "T"), qc 1)])
  | Err _ => false
  end = true.
Proof. vm_compute. reflexivity. Qed.

(* the round trip is not vacuous: Length^2 x Mass / Time^(3/2) *)
Example C16_roundtrip_nonvacuous :
  let r := mkReg ["Length"; "Time"; "Mass"] [] [] in
  let l := [("Length", qc 2); ("Mass", qc 1); ("Time", qcf (-3) 2)] in
  Forall (registered r) l /\
  print_dexpr l = DDiv (DMul (DPow (DName "Length") (qc 2)) (DName "Mass")) (DPow (DName "Time") (- qcf (-3) 2)%Qc).
Proof. split; [repeat constructor|vm_compute; reflexivity]. Qed.
