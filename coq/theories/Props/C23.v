(* C23 — Standard-library inverse conversions round-trip.
   Property theorems only.  The functions nbt_* are GENERATED from numbat/modules
   (Gen/NbtFunsQ.v, Gen/NbtFunsR.v) by tools/props/c23.py on every run; the proofs
   are in Stdlib/InverseQ.v and Stdlib/InverseR.v.

   Partial: exact arithmetic (Q, R) instead of f64; the FFI pairs (sin/asin, exp/ln,
   sinh/asinh, ...) have no theorem (oracle only);
   DateTime is an instant in rational seconds and the FFI µs functions truncate
   without range limits; _mixed_unit_list is a hand port. *)
From Coq Require Import QArith ZArith List Reals.
From NV Require Import Stdlib.Model Gen.NbtFunsQ Gen.NbtFunsR Stdlib.InverseQ Stdlib.InverseR.
Import ListNotations.

Theorem C23_celsius : forall x : Q,
  nbt_deg_C (nbt_from_celsius x) == x /\ nbt_from_celsius (nbt_deg_C x) == x.
Proof. exact celsius_inv. Qed.
Print Assumptions C23_celsius.

Theorem C23_fahrenheit : forall x : Q,
  nbt_deg_F (nbt_from_fahrenheit x) == x /\ nbt_from_fahrenheit (nbt_deg_F x) == x.
Proof. exact fahrenheit_inv. Qed.
Print Assumptions C23_fahrenheit.

(* the documented aliases celsius / degree_celsius / fahrenheit / degree_fahrenheit *)
Theorem C23_temperature_aliases : forall x : Q,
  nbt_celsius (nbt_from_celsius x) == x /\ nbt_degree_celsius (nbt_from_celsius x) == x /\
  nbt_fahrenheit (nbt_from_fahrenheit x) == x /\ nbt_degree_fahrenheit (nbt_from_fahrenheit x) == x.
Proof. exact temperature_aliases. Qed.
Print Assumptions C23_temperature_aliases.

Theorem C23_julian : forall x : Q,
  nbt_julian_date (nbt_from_julian_date x) == x /\ nbt_from_julian_date (nbt_julian_date x) == x.
Proof. exact julian_inv. Qed.
Print Assumptions C23_julian.

(* every integer count of seconds / milliseconds / microseconds survives the trip
   through a DateTime *)
Theorem C23_unixtime_int : forall n : Z,
  nbt_unixtime_s (nbt_from_unixtime_s (inject_Z n)) == inject_Z n /\
  nbt_unixtime_ms (nbt_from_unixtime_ms (inject_Z n)) == inject_Z n /\
  nbt_unixtime_us (nbt_from_unixtime_us (inject_Z n)) == inject_Z n.
Proof. exact unixtime_int. Qed.
Print Assumptions C23_unixtime_int.

(* unixtime / from_unixtime are mutually inverse on instants (resp. timestamps)
   that are whole microseconds *)
Theorem C23_unixtime_aligned : forall k : Z,
  nbt_from_unixtime (nbt_unixtime (us_instant k)) == us_instant k /\
  nbt_unixtime (nbt_from_unixtime (inject_Z k * nbt_unix_us)) == inject_Z k * nbt_unix_us.
Proof. exact unixtime_aligned. Qed.
Print Assumptions C23_unixtime_aligned.

Theorem C23_coth_acoth : forall x : R, (1 < x \/ x < -1)%R -> nbt_coth (nbt_acoth x) = x.
Proof. exact coth_acoth. Qed.
Print Assumptions C23_coth_acoth.

Theorem C23_acoth_coth : forall x : R, x <> 0%R -> nbt_acoth (nbt_coth x) = x.
Proof. exact acoth_coth. Qed.
Print Assumptions C23_acoth_coth.

Theorem C23_cot_acot : forall x : R, x <> 0%R -> nbt_cot (nbt_acot x) = x.
Proof. exact cot_acot. Qed.
Print Assumptions C23_cot_acot.

Theorem C23_sech_asech : forall x : R, (0 < x <= 1)%R -> nbt_sech (nbt_asech x) = x.
Proof. exact sech_asech. Qed.
Print Assumptions C23_sech_asech.

Theorem C23_csch_acsch : forall x : R, x <> 0%R -> nbt_csch (nbt_acsch x) = x.
Proof. exact csch_acsch. Qed.
Print Assumptions C23_csch_acsch.

Theorem C23_sec_arcsec : forall x : R, (1 <= x \/ x <= -1)%R -> nbt_secant (nbt_arcsecant x) = x.
Proof. exact sec_arcsec. Qed.
Print Assumptions C23_sec_arcsec.

Theorem C23_csc_acsc : forall x : R, (1 <= x \/ x <= -1)%R -> nbt_csc (nbt_acsc x) = x.
Proof. exact csc_acsc. Qed.
Print Assumptions C23_csc_acsc.

(* core::functions sqrt(x) = x^(1/2) and sqr(x) = x^2 on non-negative reals *)
Theorem C23_sqrt_sqr : forall x : R, (0 <= x)%R ->
  nbt_sqrt (nbt_sqr x) = x /\ nbt_sqr (nbt_sqrt x) = x.
Proof. exact sqrt_sqr_inv. Qed.
Print Assumptions C23_sqrt_sqr.

(* core::functions cbrt(x) = if x > 0 then x^(1/3) else -(-x)^(1/3), both signs (x = 0 excluded:
   Rpower 0 y = 1 is an artefact of Coq's real-number library) *)
Theorem C23_cbrt_cube : forall x : R, x <> 0%R -> nbt_cbrt (x ^ 3) = x.
Proof. exact cbrt_cube. Qed.
Print Assumptions C23_cbrt_cube.

(* splitting a quantity into a list of units: the parts add up to the original ... *)
Theorem C23_mixed_sum : forall units val acc l,
  mixed_unit_list val units acc = Some l -> qsum l == qsum acc + val.
Proof. exact mixed_sum. Qed.
Print Assumptions C23_mixed_sum.

(* ... there is one part per unit and all but the last are whole multiples of their unit *)
Theorem C23_mixed_whole : forall units val acc l,
  mixed_unit_list val units acc = Some l ->
  exists parts, l = acc ++ parts /\ length parts = length units /\ whole_but_last units parts.
Proof. exact mixed_whole. Qed.
Print Assumptions C23_mixed_whole.

(* for POSITIVE unit sizes and a non-negative value: every part is non-negative, and each step splits off a
   whole number of units and leaves a non-negative remainder smaller than that unit *)
Theorem C23_mixed_positive :
  (forall u val, 0 < u -> 0 <= val ->
     0 <= val - nbt_trunc_in u val /\ val - nbt_trunc_in u val < u /\ 0 <= nbt_trunc_in u val) /\
  (forall units val acc l, Forall (fun u => 0 < u) units -> 0 <= val -> Forall (fun p => 0 <= p) acc ->
     mixed_unit_list val units acc = Some l -> Forall (fun p => 0 <= p) l).
Proof. split; [exact trunc_in_remainder|exact mixed_nonneg]. Qed.
Print Assumptions C23_mixed_positive.

(* core::lists reverse (hand port): reversing twice is the identity *)
Theorem C23_reverse : forall (A : Type) (xs : list A), nbt_reverse (nbt_reverse xs) = xs.
Proof. exact reverse_involutive. Qed.
Print Assumptions C23_reverse.

(* unit_list(units, value), i.e. _mixed_unit_list on unique |> sort-descending of ANY unit
   list: the parts add up to the value, one part per distinct unit, all but the last whole *)
Theorem C23_unit_list : forall units value l, unit_list units value = Some l ->
  qsum l == value /\ length l = length (clean_units units) /\ whole_but_last (clean_units units) l.
Proof. exact unit_list_spec. Qed.
Print Assumptions C23_unit_list.

(* Non-vacuity *)
Example C23_ex_temperature :
  Qred (nbt_from_celsius (25 # 1)) = (5963 # 20) /\ Qred (nbt_deg_F (nbt_from_celsius (100 # 1))) = (212 # 1).
Proof. vm_compute. split; reflexivity. Qed.

Example C23_ex_julian : Qred (nbt_J2000 / (86400 # 1)) = (2451545 # 1).
Proof. vm_compute. reflexivity. Qed.

Example C23_ex_unix :
  Qred (nbt_unixtime_ms (nbt_from_unixtime_ms (1658346725123 # 1))) = (1658346725123 # 1).
Proof. vm_compute. reflexivity. Qed.

(* 5.5 ft in feet and inches (sizes in metres): [5 ft; 6 in], the parts add up *)
Example C23_ex_mixed :
  mixed_unit_list ((55 # 10) * (3048 # 10000)) [(3048 # 10000); (254 # 10000)] []
  = Some [inject_Z 5 * (3048 # 10000); ((55 # 10) * (3048 # 10000) - inject_Z 5 * (3048 # 10000))]
  /\ mixed_unit_list 1 [] [] = None
  /\ clean_units [(254 # 10000); (3048 # 10000); (254 # 10000); 1] = [1; (3048 # 10000); (254 # 10000)].
Proof. vm_compute. repeat split; reflexivity. Qed.
