(* C15 — The echoed (pretty-printed) form of an input means the same as the input.
   Property theorems only; proofs are in Syntax/StrEscProofs.v and Syntax/TypedPrinterProofs.v.

   Objects: `texpr` (Syntax/TypedPrinter.v) = typed expressions as the echo sees them;
   `pp e` = the tokens of Expression::pretty_print (model of typed_ast.rs as fixed);
   `parse` = the parser model of C10; `erase e` = the untyped tree e was elaborated from. *)
From Coq Require Import List NArith Bool.
From NV Require Import Syntax.Token Syntax.Ast Syntax.StmtAst Syntax.StrEsc Syntax.Parser Syntax.Grammar
     Syntax.StrEscProofs Syntax.TypedPrinter Syntax.TypedPrinterProofs Syntax.FixedPoint
     Syntax.TypeGrammar Syntax.StmtGrammar Syntax.DefEcho Syntax.Lexer Syntax.LexString Syntax.TypedPrinterSep Syntax.FixedPointNeg Syntax.FixedPointNeg2 Syntax.TypedPrinterSugar Syntax.FixedPointSugar.
Import ListNotations.
Local Open Scope N_scope.

(* Every string (any code points, including braces, backslash, double quote, newline, NUL)
   that is echoed as  quote ++ escape_numbat_string s ++ quote  is read back by the parser's
   strip_and_escape as s.  (Used for string literals and, since the fix, decorator strings.) *)
Theorem C15_string_escape : forall s : str,
  strip_and_escape (c_quote :: escape_numbat_string s ++ [c_quote]) = s.
Proof. exact string_escape_roundtrip. Qed.
Print Assumptions C15_string_escape.

(* The echo of every printable expression (any depth; all operators, calls, callables,
   conditionals, field access, list and struct literals, strings, temperature sugar) is accepted by the parser and read
   back as the tree its concrete syntax denotes. *)
Theorem C15_roundtrip_partial : forall e : texpr,
  printable_t e = true -> parse (pp e) = Ok [StExpr (reread e)] [].
Proof. exact echo_roundtrip. Qed.
Print Assumptions C15_roundtrip_partial.

(* ... and for expressions without temperature sugar and digit separators that tree is exactly
   the tree the expression was elaborated from: the echo means the same as the input. *)
Theorem C15_roundtrip_exact : forall e : texpr,
  printable_t e = true -> exact_t e = true -> parse (pp e) = Ok [StExpr (erase e)] [].
Proof. exact echo_roundtrip_exact. Qed.
Print Assumptions C15_roundtrip_exact.

(* Digit separators: the restriction of C15_roundtrip_exact to literals without `_` is not needed for
   the meaning: for every printable expression without temperature sugar the echo is read back as the
   tree it was elaborated from up to the digit separators of its literals (`strip_us`; the value of a
   literal does not depend on them). *)
Theorem C15_roundtrip_sep : forall e : texpr,
  printable_t e = true -> nosugar_t e = true ->
  exists u, parse (pp e) = Ok [StExpr u] [] /\ strip_us u = strip_us (erase e).
Proof. exact echo_roundtrip_sep. Qed.
Print Assumptions C15_roundtrip_sep.

(* The fixed-point clause: reading the echo back and elaborating it again (in a session in which
   the same names are units resp. functions: `lift is_unit is_fn`) gives a tree with the same echo.
   Partial: expressions without temperature sugar, digit separators and negative literals. *)
Theorem C15_fixed_point_partial : forall (is_unit is_fn : str -> bool) (e : texpr),
  printable_t e = true -> exact_t e = true -> consistent is_unit is_fn e = true ->
  exists u, parse (pp e) = Ok [StExpr u] [] /\ pp (lift is_unit is_fn u) = pp e.
Proof. exact echo_fixed_point. Qed.
Print Assumptions C15_fixed_point_partial.

(* From text to token: the text the printer writes for ANY string s, quote + escape_numbat_string s +
   quote, is lexed by the tokenizer model (any Unicode classes, any scope stack; not directly after a
   string / identifier inside an interpolation) as exactly one StringFixed token with that lexeme; the
   parts of an echoed interpolated string are exactly one StringInterpolationStart / End token
   (Middle: Syntax/LexString.v).  With C15_string_escape: text -> token -> the original string. *)
Theorem C15_lex_string_echo : forall (xid_start xid_continue : N -> bool) (d : list bool) (la : option token) (s rest : str),
  inside_interpolation d && last_ends_string la = false ->
  scan_single_token xid_start xid_continue d la (34 :: escape_numbat_string s ++ 34 :: rest)
  = LOk (Some (TString (34 :: escape_numbat_string s ++ [34])), rest, d).
Proof. exact lex_string_echo. Qed.
Print Assumptions C15_lex_string_echo.

Theorem C15_lex_interp_echo : forall (xid_start xid_continue : N -> bool) (d : list bool) (la : option token) (s rest : str),
  (inside_interpolation d && last_ends_string la = false -> peek_is (fun x => x =? 123) rest = false ->
   scan_single_token xid_start xid_continue d la (34 :: escape_numbat_string s ++ 123 :: rest)
   = LOk (Some (TInterpStart (34 :: escape_numbat_string s ++ [123])), rest, true :: d))
  /\ (inside_interpolation d = true ->
      scan_single_token xid_start xid_continue d la (125 :: escape_numbat_string s ++ 34 :: rest)
      = LOk (Some (TInterpEnd (125 :: escape_numbat_string s ++ [34])), rest, tl d)).
Proof.
  intros. split; [apply lex_interp_start_echo|apply lex_interp_end_echo].
Qed.
Print Assumptions C15_lex_interp_echo.

(* Decorators: the echo of every decorator (decorator_markup: name / url / description / example with their strings quoted by
   escape_numbat_string, aliases with their accepts annotations, the prefix decorators), whatever strings and alias lists it carries, is
   read back by Parser::parse_decorator as that decorator. *)
Theorem C15_decorator_echo : forall (d : decorator) (rest : list token),
  parse_decorator (pr_deco_body (echo_deco d) ++ rest) = Ok d rest.
Proof. exact decorator_echo_parses. Qed.
Print Assumptions C15_decorator_echo.

(* Definitions: the echo of a `let`, `unit`, `fn`, `dimension` or `struct` definition (Syntax/DefEcho.v: its decorators one per
   line, the name, the readable types, the echo of the body and of the where-clauses) is accepted by the
   parser and read back as that definition: same name, same types, the SAME decorators, the tree the
   body's echo denotes.  `echoable` = printable expressions, well-formed readable types, decorators the
   parser admits on that kind of definition. *)
Theorem C15_definition_echo_partial : forall e : edef,
  echoable e = true -> parse (pp_def e) = Ok [reread_def e] [].
Proof. exact echo_def_roundtrip. Qed.
Print Assumptions C15_definition_echo_partial.

(* The fixed point without the restriction on negative literals (`consistent_n`: names agree with the
   session; a negative scalar literal, e.g. the exponent of `x⁻¹`, is allowed): the re-elaborated tree
   is `nneg e` (the literal becomes a negation), and the printer gives it the same echo in every mode. *)
Theorem C15_fixed_point_neg : forall (is_unit is_fn : str -> bool) (e : texpr),
  printable_t e = true -> exact_t e = true -> consistent_n is_unit is_fn e = true ->
  exists u, parse (pp e) = Ok [StExpr u] [] /\ pp (lift is_unit is_fn u) = pp e.
Proof. exact echo_fixed_point_neg. Qed.
Print Assumptions C15_fixed_point_neg.

(* Temperature conversion functions in call syntax.  Since the repair of the echo the sugar forms
   (`5 °C`, `x -> °C`) are printed only in plain positions (top level, call arguments, list / struct /
   interpolation items, the left of `->`); as operands the functions are written as calls.
   `okm true e` = no sugar-named one-argument call sits in a plain position (and no digit separators).
   For these expressions the echo is read back as exactly the tree it was elaborated from, and the
   echo is a fixed point (negative literals allowed). *)
Theorem C15_roundtrip_exact_sugar : forall e : texpr,
  printable_t e = true -> okm true e = true -> parse (pp e) = Ok [StExpr (erase e)] [].
Proof. exact echo_roundtrip_exact_sugar. Qed.
Print Assumptions C15_roundtrip_exact_sugar.

Theorem C15_fixed_point_sugar : forall (is_unit is_fn : str -> bool) (e : texpr),
  printable_t e = true -> okm true e = true -> consistent_n is_unit is_fn e = true ->
  exists u, parse (pp e) = Ok [StExpr u] [] /\ pp (lift is_unit is_fn u) = pp e.
Proof. exact echo_fixed_point_sugar. Qed.
Print Assumptions C15_fixed_point_sugar.

(* NOT PROVED (partial): (1) for the temperature sugar forms `reread e` equals `erase e` only up
   to numbat's elaboration of `x °C` / `x -> °C` (not modelled), and the fixed point is not proved
   for them; (2) statements (let/fn/unit/dimension/struct with types and decorators) and
   interpolated strings are not in the printer model; (3) type inference itself (that the
   re-elaborated tree has the same types) is outside the model.  All are checked on the
   implementation by the echo oracle. *)
Definition C15_full : Prop :=
  forall e : texpr, printable_t e = true ->
  exists u, parse (pp e) = Ok [StExpr u] [] /\ forall e', erase e' = u -> pp e' = pp e.

(* The excluded class is real, and since the repair of the re-association findings it is small: the
   printer drops the parentheses of a sum (product) on the right only in a chain of plain literals
   (`2 + (3 + 4)` is echoed `2 + 3 + 4`, pinned by numbat's own test pretty_print_basic), which is read
   back re-associated: same value up to rounding, another tree.  Every other sum / product on the right
   keeps its parentheses and is inside the theorems above. *)
Definition x_ (c : N) : texpr := XIdent [c].
Theorem C15_reassociation_refuted :
  exists e, printable_t e = false
    /\ parse (pp e) = Ok [StExpr (EBin Add (EBin Add (EScalar [49]) (EScalar [50])) (EScalar [51]))]%N []
    /\ erase e = EBin Add (EScalar [49]) (EBin Add (EScalar [50]) (EScalar [51]))%N.
Proof.
  exists (XBin Add (XScalar false [49]%N) (XBin Add (XScalar false [50]%N) (XScalar false [51]%N))).
  vm_compute. repeat split; reflexivity.
Qed.
Print Assumptions C15_reassociation_refuted.

(* the sum and the product of the two (former) findings keep their parentheses and are exact now:
   -(2 s) + (2 s + min)   and   2000 * (pi * 2 m) *)
Example C15_ex_reassociation_repaired :
  let s2 := XBin Mul (XScalar false [50]%N) (XUnit [115]%N) in
  let e1 := XBin Add (XNeg s2) (XBin Add s2 (XUnit [109; 105; 110]%N)) in
  let e2 := XBin Mul (XScalar false [50; 48; 48; 48]%N) (XBin Mul (x_ 112) (XBin Mul (XScalar false [50]%N) (XUnit [109]%N))) in
  printable_t e1 = true /\ exact_t e1 = true /\ parse (pp e1) = Ok [StExpr (erase e1)] []
  /\ pp e1 = [TLParen; TMinus; TLParen; TNumber [50]; TIdent [115]; TRParen; TRParen; TPlus; TLParen; TNumber [50];
              TIdent [115]; TPlus; TIdent [109; 105; 110]; TRParen]%N
  /\ printable_t e2 = true /\ exact_t e2 = true /\ parse (pp e2) = Ok [StExpr (erase e2)] []
  /\ pp e2 = [TNumber [50; 48; 48; 48]; TMultiply; TLParen; TIdent [112]; TMultiply; TNumber [50]; TIdent [109]; TRParen]%N.
Proof. vm_compute. repeat split; reflexivity. Qed.

(* ---- non-vacuity: the shapes that were echoed wrongly before the fixes *)
Definition n_ (c : N) : texpr := XScalar false [c].
Definition if_ := XIf (XBool true) (x_ 112) (x_ 113).

Example C15_ex_conditional_operands :
  let e1 := XBin ConvertTo (n_ 49) if_ in            (* 1 -> (if true then p else q) *)
  let e2 := XField if_ [97]%N in                      (* (if ...).a *)
  let e3 := XCallable if_ [n_ 49] in                  (* (if ...)(1) *)
  let e4 := XBin ConvertTo (n_ 49) (XBin ConvertTo (x_ 112) (x_ 113)) in
  printable_t e1 = true /\ exact_t e1 = true
  /\ pp e1 = [TNumber [49]; TArrow; TLParen; TIf; TTrue; TThen; TIdent [112]; TElse; TIdent [113]; TRParen]%N
  /\ parse (pp e1) = Ok [StExpr (erase e1)] [] /\ parse (pp e2) = Ok [StExpr (erase e2)] []
  /\ parse (pp e3) = Ok [StExpr (erase e3)] [] /\ parse (pp e4) = Ok [StExpr (erase e4)] [].
Proof. vm_compute. repeat split; reflexivity. Qed.

(* -from_celsius(5) is echoed in call syntax, 7^(-1) with parentheses, from_celsius(5) alone as `5 °C` *)
Example C15_ex_sugar_and_negative_exponent :
  let fc := XCall n_from_celsius [n_ 53] in
  pp (XNeg fc) = [TMinus; TIdent n_from_celsius; TLParen; TNumber [53]; TRParen]%N
  /\ pp fc = [TNumber [53]; TIdent deg_c]%N
  /\ printable_t (XNeg fc) = true
  /\ parse (pp (XNeg fc)) = Ok [StExpr (EUn Negate (ECall (EIdent n_from_celsius) [EScalar [53]%N]))] []
  /\ pp (XBin Power (n_ 55) (XScalar true [49]%N))
     = [TNumber [55]; TPower; TLParen; TMinus; TNumber [49]; TRParen]%N.
Proof. vm_compute. repeat split; reflexivity. Qed.

(* struct and list literals: Pt { x: [1, a + b], y: [] }.x *)
Example C15_ex_struct_list :
  let e := XField (XStruct [80; 116] [([120], XList [n_ 49; XBin Add (x_ 97) (x_ 98)]); ([121], XList [])]) [120] in
  printable_t e = true /\ exact_t e = true
  /\ pp e = [TIdent [80; 116]; TLCurly; TIdent [120]; TColon; TLBracket; TNumber [49]; TComma; TIdent [97]; TPlus;
            TIdent [98]; TRBracket; TComma; TIdent [121]; TColon; TLBracket; TRBracket; TRCurly; TPeriod; TIdent [120]]
  /\ parse (pp e) = Ok [StExpr (erase e)] [].
Proof. vm_compute. repeat split; reflexivity. Qed.

(* the hypotheses of the fixed-point theorem are satisfiable: `m` is a unit, `f` a function *)
Example C15_ex_fixed_point :
  let is_unit := fun n => str_eqb n [109] in
  let is_fn := fun n => str_eqb n [102] in
  let e := XBin Div (XCall [102] [XBin Mul (n_ 50) (XUnit [109])]) (XBin Add (x_ 97) (XBin Mul (n_ 51) (x_ 98))) in
  printable_t e = true /\ exact_t e = true /\ consistent is_unit is_fn e = true
  /\ pp e = [TIdent [102]; TLParen; TNumber [50]; TIdent [109]; TRParen; TDivide; TLParen; TIdent [97]; TPlus;
            TNumber [51]; TIdent [98]; TRParen]
  /\ lift is_unit is_fn (erase e) = e.
Proof. vm_compute. repeat split; reflexivity. Qed.

(* a let with a name decorator (whose string contains a double quote) and an aliases decorator:
   echoed, and read back with the decorators *)
Example C15_ex_definition_echo :
  let ds := [DName [113; 34; 113]%N; DAliases [([97]%N, None); ([98]%N, None)]] in
  let e := EDLet ds [118]%N (YIdent [83; 99; 97; 108; 97; 114]%N None) (XBin Add (n_ 49) (n_ 50)) in
  echoable e = true
  /\ pp_def e = [TAt; TIdent w_name; TLParen; TString [34; 113; 92; 34; 113; 34]; TRParen; TNewline;
                 TAt; TIdent w_aliases; TLParen; TIdent [97]; TComma; TIdent [98]; TRParen; TNewline;
                 TKw KLet; TIdent [118]; TColon; TIdent [83; 99; 97; 108; 97; 114]; TEqual;
                 TNumber [49]; TPlus; TNumber [50]]%N
  /\ parse (pp_def e) = Ok [StLet (mk_defvar [118]%N (Some (TAExp (TEIdent [83; 99; 97; 108; 97; 114]%N []))) ds
                                   (EBin Add (EScalar [49]%N) (EScalar [50]%N)))] [].
Proof. vm_compute. repeat split; reflexivity. Qed.

(* an interpolated string with a quote, a brace and a newline in its fixed parts and format
   specifiers: its echo is read back as the same parts, and the echo is a fixed point *)
Example C15_ex_interpolated_string :
  let e := XInterp [113; 34; 123]%N
             [(XBin Add (x_ 97) (n_ 49), Some [58; 46; 50; 102]%N, [10]%N); (XString [125]%N, None, []%N)] in
  printable_t e = true /\ exact_t e = true
  /\ pp e = [TInterpStart [34; 113; 92; 34; 123; 123; 123]; TIdent [97]; TPlus; TNumber [49];
             TInterpSpec [58; 46; 50; 102]; TInterpMiddle [125; 92; 110; 123];
             TString [34; 125; 125; 34]; TInterpEnd [125; 34]]%N
  /\ parse (pp e) = Ok [StExpr (EInterp [PFixed [113; 34; 123]%N;
                                          PExpr (EBin Add (EIdent [97]%N) (EScalar [49]%N)) (Some [58; 46; 50; 102]%N);
                                          PFixed [10]%N; PExpr (EString [125]%N) None])] []
  /\ erase e = EInterp [PFixed [113; 34; 123]%N;
                        PExpr (EBin Add (EIdent [97]%N) (EScalar [49]%N)) (Some [58; 46; 50; 102]%N);
                        PFixed [10]%N; PExpr (EString [125]%N) None].
Proof. vm_compute. repeat split; reflexivity. Qed.

(* x⁻¹: the exponent is the literal -1; the echo x^(-1) is read back as a negation, whose echo is the same *)
Example C15_ex_fixed_point_negative_literal :
  let e := XBin Power (x_ 120) (XScalar true [49]%N) in
  printable_t e = true /\ exact_t e = true /\ consistent_n (fun _ => false) (fun _ => false) e = true
  /\ consistent (fun _ => false) (fun _ => false) e = false
  /\ pp e = [TIdent [120]; TPower; TLParen; TMinus; TNumber [49]; TRParen]%N
  /\ lift (fun _ => false) (fun _ => false) (erase e) = XBin Power (x_ 120) (XNeg (XScalar false [49]%N))
  /\ pp (lift (fun _ => false) (fun _ => false) (erase e)) = pp e.
Proof. vm_compute. repeat split; reflexivity. Qed.

(* -from_celsius(5) + celsius(3 K): the conversion functions are operands, hence echoed as calls; the
   expression is outside exact_t but inside okm, and its echo is exact; from_celsius(5) alone is echoed
   as the sugar form and is outside okm *)
Example C15_ex_sugar_in_call_syntax :
  let fc := XCall n_from_celsius [n_ 53] in
  let e := XBin Add (XNeg fc) (XCall n_celsius [XBin Mul (n_ 51) (XUnit [75]%N)]) in
  exact_t e = false /\ okm true e = true /\ printable_t e = true
  /\ parse (pp e) = Ok [StExpr (erase e)] []
  /\ okm true fc = false /\ okm false fc = true.
Proof. vm_compute. repeat split; reflexivity. Qed.
