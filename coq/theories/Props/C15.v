(* C15 — The echoed (pretty-printed) form of an input means the same as the input.
   Property theorems only; proofs are in Syntax/StrEscProofs.v. *)
From Coq Require Import List NArith.
From NV Require Import Syntax.Token Syntax.StrEsc Syntax.StrEscProofs.
Import ListNotations.

(* Every string (any code points, including braces, backslash, double quote, newline, NUL)
   that is echoed as  quote ++ escape_numbat_string s ++ quote  is read back by the parser's
   strip_and_escape as s. *)
Theorem C15_string_escape : forall s : str,
  strip_and_escape (c_quote :: escape_numbat_string s ++ [c_quote]) = s.
Proof. exact string_escape_roundtrip. Qed.
Print Assumptions C15_string_escape.

Example C15_string_escape_nonvacuous :
  let s := [97; 10; 123; 125; 92; 34; 0; 9; 13; 110; 123; 123]%N in
  escape_numbat_string s
    = [97; 92; 110; 123; 123; 125; 125; 92; 92; 92; 34; 92; 48; 92; 116; 92; 114; 110; 123; 123; 123; 123]%N
  /\ strip_and_escape (c_quote :: escape_numbat_string s ++ [c_quote]) = s.
Proof. vm_compute. split; reflexivity. Qed.
