(* C09 — Compiled programs compute what their source means.
   Property theorems only; models in VM/{Compile,Machine,RefSem}.v, proofs in VM/Proofs.v
   (+ VM/SortLemmas.v), concrete witnesses in VM/Witness.v and VM/NonVac.v. *)
From Coq Require Import String List.
From NV Require Import Base.Show VM.Value VM.Ast VM.Bytecode VM.Compile VM.Machine VM.RefSem VM.Exec
     VM.Proofs VM.ProofsErr VM.RefMono VM.Witness VM.NonVac.

(* MAIN THEOREM — whole programs.  For every instance of the primitive operations,
   every program p of the modelled language (let with shadowing, fn with parameters and
   where-locals, recursion, function values, foreign functions, struct declarations and
   literals, field access, lists, strings with interpolation, conditionals, boolean
   logic, comparisons, print/assert procedures) and every fuel n:
   if the compiler model neither panics nor overflows a u16 on p (compile_ok) and the
   reference semantics of the language (run_ref: static binding throughout) yields print
   output `out` and final value `v`, then the stack machine running the compiled code
   halts with exactly `out` and `v`.  (Since the repair of finding C09-funref-rebound —
   function values carry the index of their chunk — no hypothesis about redefinitions
   is needed any more.) *)
Theorem C09_compile_correct :
  forall (Q : Type) (O : ops Q) (p : program Q) (n : nat) out v,
    compile_ok (compile (procs O) p) = true ->
    run_ref O n p = Ok (out, v) ->
    exists m, Machine.run O (compile (procs O) p) m = Ok (out, v).
Proof. exact @compile_correct. Qed.
Print Assumptions C09_compile_correct.

(* "The value given by the language's evaluation rules" is well defined: the outcome of
   the reference semantics does not depend on the fuel once it is definite (a value, a
   runtime error or Wrong). *)
Theorem C09_reference_deterministic :
  forall (Q : Type) (O : ops Q) lits (n n' : nat) (p : program Q) r r',
    RefSem.run O lits n p = r -> RefSem.run O lits n' p = r' -> r <> Fuel -> r' <> Fuel -> r = r'.
Proof. exact @run_unique. Qed.
Print Assumptions C09_reference_deterministic.

(* PARTIAL no-stuck: on every program whose reference evaluation succeeds the
   machine never panics and never raises an error, whatever fuel it is given.  (Not
   proved: absence of panics for ALL well-typed programs — that needs a model of the
   type checker — and for programs whose reference evaluation ends in a runtime error.) *)
Theorem C09_no_stuck_partial :
  forall (Q : Type) (O : ops Q) (p : program Q) (n : nat) out v,
    compile_ok (compile (procs O) p) = true ->
    run_ref O n p = Ok (out, v) ->
    forall m, Machine.run O (compile (procs O) p) m = Fuel
              \/ Machine.run O (compile (procs O) p) m = Ok (out, v).
Proof. exact @no_panic_after_ok. Qed.
Print Assumptions C09_no_stuck_partial.

(* ... and on every program whose reference evaluation ends in a runtime error (fragment
   of C09_errors_partial) the machine stops with that error or runs out of fuel. *)
Theorem C09_no_stuck_on_error_partial :
  forall (Q : Type) (O : ops Q) (p : program Q) (n : nat) e,
    (forall spec v, exists s, fmt_spec O spec v = Ok s) ->
    compile_ok (compile (procs O) p) = true ->
    run_ref_nostruct O n p = Err e ->
    forall m, Machine.run O (compile (procs O) p) m = Fuel
              \/ Machine.run O (compile (procs O) p) m = Err e.
Proof. exact @no_panic_after_err. Qed.
Print Assumptions C09_no_stuck_on_error_partial.

(* PARTIAL errors: a runtime error of the reference semantics is the machine's error, same
   kind.  Partial because (1) struct LITERALS are excluded (run_ref_nostruct evaluates
   them to Wrong): the implementation evaluates the fields in reverse definition order, so
   with two failing fields — or a failing and a diverging one — it reports a different
   outcome than source order would; (2) format specifiers are assumed total, because
   JoinString formats the parts after ALL of them have been evaluated, last to first. *)
Theorem C09_errors_partial :
  forall (Q : Type) (O : ops Q) (p : program Q) (n : nat) e,
    (forall spec v, exists s, fmt_spec O spec v = Ok s) ->
    compile_ok (compile (procs O) p) = true ->
    run_ref_nostruct O n p = Err e ->
    exists m, Machine.run O (compile (procs O) p) m = Err e.
Proof. exact @compile_errors. Qed.
Print Assumptions C09_errors_partial.

(* The simulation behind the main theorem, for every expression in every context (any
   chunk, ip, fp, frames below, temporaries on the stack): if the reference evaluation
   yields v the machine pushes exactly v.  RelW / cenv_rel: the invariant that
   C09_compile_correct establishes for compiled programs. *)
Theorem C09_expr_simulation :
  forall (Q : Type) (O : ops Q) lits (C : compiled) (W : world),
    RelW O C W ->
    forall n vg vn vf L (e : expr Q) v,
      eval O lits n W vg vn vf L e = Ok v ->
      forall ce fi fp frs, cenv_rel O C W ce vg vn vf ->
        comp_ok O C W ce L fi fp frs (cexpr ce e) [v].
Proof. intros Q O lits C W HW n. exact (expr_correct O lits C W HW n). Qed.
Print Assumptions C09_expr_simulation.

(* ---- the named clauses of the property (instances of the simulation) *)
Theorem C09_list_order :
  forall (Q : Type) (O : ops Q) (C : compiled) (W : world), RelW O C W ->
    forall n vg vn vf L (es : list (expr Q)) vs ce fi fp frs,
      evals (eval O (true, true) n W vg vn vf L) es = Ok vs ->
      cenv_rel O C W ce vg vn vf ->
      comp_ok O C W ce L fi fp frs (cexpr ce (EList es)) [VList vs].
Proof. exact @list_order. Qed.
Print Assumptions C09_list_order.

Theorem C09_arg_order :
  forall (Q : Type) (O : ops Q) (C : compiled) (W : world), RelW O C W ->
    forall n vg vn vf L (args : list (expr Q)) vs ce fi fp frs,
      evals (eval O (true, true) n W vg vn vf L) args = Ok vs ->
      cenv_rel O C W ce vg vn vf ->
      comp_ok O C W ce L fi fp frs (cseq (map (fun a => cexpr ce a) args)) (rev vs).
Proof. exact @arg_order. Qed.
Print Assumptions C09_arg_order.

Theorem C09_string_order :
  forall (Q : Type) (O : ops Q) (C : compiled) (W : world), RelW O C W ->
    forall n vg vn vf L (parts : list (string + (expr Q * option string))) strs ce fi fp frs,
      evals (fun p : string + (expr Q * option string) =>
               match p with
               | inl s => Ok s
               | inr (a, None) => bind (eval O (true, true) n W vg vn vf L a) (fun v => Ok (to_str O v))
               | inr (a, Some spec) => bind (eval O (true, true) n W vg vn vf L a) (fun v => fmt_spec O spec v)
               end) parts = Ok strs ->
      cenv_rel O C W ce vg vn vf ->
      comp_ok O C W ce L fi fp frs (cexpr ce (EString parts)) [VStr (String.concat EmptyString strs)].
Proof. exact @string_order. Qed.
Print Assumptions C09_string_order.

Theorem C09_field_order :
  forall (Q : Type) (O : ops Q) (C : compiled) (W : world), RelW O C W ->
    forall n vg vn vf L sname sfields (fields : list (string * expr Q)) fvs vals ce fi fp frs,
      assoc sname (w_structs W) = Some sfields ->
      nodupb sfields = true -> length fields = length sfields ->
      evals (fun nf : string * expr Q =>
               bind (eval O (true, true) n W vg vn vf L (snd nf)) (fun v => Ok (fst nf, v))) fields = Ok fvs ->
      collect sfields fvs = Some vals ->
      cenv_rel O C W ce vg vn vf ->
      comp_ok O C W ce L fi fp frs (cexpr ce (EStruct sname sfields fields)) [VStruct sname sfields vals].
Proof. exact @field_order. Qed.
Print Assumptions C09_field_order.

Theorem C09_innermost_binding :
  forall (Q : Type) (O : ops Q) (C : compiled) (W : world), RelW O C W ->
    (forall vg vn vf L x i (v : value Q) ce fi fp frs,
        find_last x L = Some (i, v) -> cenv_rel O C W ce vg vn vf ->
        comp_ok O C W ce L fi fp frs (cexpr ce (EIdent x)) [v])
    /\
    (forall vg vn vf L x i (v : value Q) ce fi fp frs,
        find_last x L = None -> find_last x (firstn vg (w_globals W)) = Some (i, v) ->
        cenv_rel O C W ce vg vn vf ->
        comp_ok O C W ce L fi fp frs (cexpr ce (EIdent x)) [v]).
Proof. intros Q O C W HW. split; [exact (innermost_local O C W HW) | exact (innermost_global O C W HW)]. Qed.
Print Assumptions C09_innermost_binding.

(* REGRESSION EXAMPLE for the repaired finding C09-funref-rebound (was C09_funref_refuted:
   static semantics 2, machine 100): a function value taken before a redefinition keeps
   calling the function it was created for — reference and machine agree on 2. *)
Example C09_funref_regression :
  compile_ok (compile (procs zops) funref_witness) = true
  /\ run_ref zops 20 funref_witness = Ok ([], Some (VQ 2%Z))
  /\ Machine.run zops (compile (procs zops) funref_witness) 20 = Ok ([], Some (VQ 2%Z)).
Proof. exact funref_witness_agrees. Qed.

(* REGRESSION EXAMPLE for the repaired finding C09-jump-offset-wrap.  The hypothesis
   compile_ok of C09_compile_correct is necessary, and the compiler now enforces it:
   for a conditional whose then-branch is 65550 bytes long the reference value is 7, the
   model compiler reports CodeTooLarge (kernel-computed), as the repaired implementation
   does — before the repair the offsets were truncated to 16 bits and the machine
   mis-jumped (implementation: panic / no value). *)
Example C09_wrap_regression :
  run_ref zops 10 wrap_witness = Ok ([], Some (VQ 7%Z))
  /\ code_too_large (compile (procs zops) wrap_witness) = true
  /\ compile_ok (compile (procs zops) wrap_witness) = false.
Proof. exact (conj wrap_witness_reference wrap_witness_rejected). Qed.

(* Non-vacuity of the main theorem: its hypotheses hold for a program with shadowing, a
   where-local, recursion through a function value, a struct literal with reordered
   fields, a list, string interpolation and print — and the conclusion is the real run. *)
Example C09_nonvacuous :
  compile_ok (compile (procs zops) demo) = true
  /\ run_ref zops 60 demo = Ok (["v=[10, 12]!"%string], Some (VQ 12%Z))
  /\ Machine.run zops (compile (procs zops) demo) 400 = Ok (["v=[10, 12]!"%string], Some (VQ 12%Z)).
Proof. exact demo_runs. Qed.

(* Non-vacuity of the simulation's invariant: RelW and cenv_rel hold for a concrete
   compiled program with a global and a recursive function with a where-local. *)
Example C09_hypotheses_satisfiable :
  RelW zops nv_C nv_W /\ cenv_rel zops nv_C nv_W nv_ce 1 1 0
  /\ exists m, run_from zops nv_C m
        {| m_frames := [F 0 3 0]; m_stack := [VQ 2%Z]; m_last := None; m_out := []; m_res := None |}
      = Ok ([], Some (VQ 14%Z)).
Proof. exact (conj nv_RelW (conj nv_cenv_rel nv_conclusion)). Qed.
