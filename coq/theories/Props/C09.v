(* C09 — Compiled programs compute what their source means.
   Property theorems only; models in VM/{Compile,Machine,RefSem}.v, proofs in VM/Proofs.v,
   concrete witnesses in VM/Witness.v. *)
From NV Require Import Base.Show VM.Value VM.Ast VM.Bytecode VM.Compile VM.Machine VM.RefSem VM.Exec VM.Witness.

(* REFUTED clause (open finding C09-funref-rebound): CallCallable resolves
   FunctionReference::Normal by NAME at call time, so a function value taken before a
   redefinition calls the new body.  Source semantics: 2; the faithful machine: 100. *)
Theorem C09_funref_refuted :
  exists (p : program Z) (n m : nat) (v v' : value Z),
    compile_ok (compile (procs zops) p) = true
    /\ run_static zops n p = Ok ([], Some v)
    /\ Machine.run zops (compile (procs zops) p) m = Ok ([], Some v')
    /\ v <> v'
    /\ run_checked zops n p = Stale.
Proof.
  exists funref_witness, 20, 20, (VQ 2%Z), (VQ 100%Z).
  destruct funref_witness_refutes as (H1 & H2 & H3 & H4).
  repeat split; try assumption. discriminate.
Qed.
Print Assumptions C09_funref_refuted.

(* Non-vacuity: a program with shadowing, a where-local, recursion through a function
   value, a struct with reordered fields, a list, string interpolation and print
   compiles within all bounds, and reference and machine agree on it. *)
Example C09_nonvacuous :
  compile_ok (compile (procs zops) demo) = true
  /\ run_checked zops 60 demo = Ok (["v=[10, 12]!"%string], Some (VQ 12%Z))
  /\ Machine.run zops (compile (procs zops) demo) 400 = Ok (["v=[10, 12]!"%string], Some (VQ 12%Z)).
Proof. exact demo_runs. Qed.
