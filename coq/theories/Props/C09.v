(* C09 — Compiled programs compute what their source means.
   Property theorems only; models in VM/{Compile,Machine,RefSem}.v, proofs in VM/Proofs.v,
   concrete witnesses in VM/Witness.v and VM/NonVac.v.

   FULL STATEMENT (not proved at this strength, see design/vm.md):                    *)
From Coq Require Import String List.
From NV Require Import Base.Show VM.Value VM.Ast VM.Bytecode VM.Compile VM.Machine VM.RefSem VM.Exec
     VM.Proofs VM.Witness VM.NonVac.

Definition C09_full : Prop :=
  forall (Q : Type) (O : ops Q) (p : program Q) (n : nat) out v,
    compile_ok (compile (procs O) p) = true ->
    run_checked O n p = Ok (out, v) ->
    exists m, Machine.run O (compile (procs O) p) m = Ok (out, v).

(* PARTIAL (1): expression-level forward simulation, for EVERY expression, fuel, scope,
   stack and call-frame context.  [RelW]: every function of the reference world is the
   compilation of its definition under scope tables that match its definition point
   ([cenv_rel]), and no stale function value is called (the checked reference).  Covered:
   scalars, booleans, identifiers (local -> global -> ans -> function value), unary and
   binary operators, comparisons, boolean logic, conditionals with their jump offsets,
   calls with frames / where-locals / recursion, function values and callable calls,
   foreign calls, lists, struct field access.  NOT covered (reference evaluates them to
   Wrong under lits = (false,false)): string literals with parts and struct LITERALS —
   those two are validated by the correspondence only.  Also missing for C09_full: the
   statement-level bookkeeping showing that `compile p` establishes RelW / cenv_rel. *)
Theorem C09_expr_correct_partial :
  forall (Q : Type) (O : ops Q) (stale : string -> nat -> bool) (C : compiled) (W : world),
    RelW O stale C W ->
    forall n vg vn vf L (e : expr Q) v,
      eval O stale (false, false) n W vg vn vf L e = Ok v ->
      forall ce fi fp frs, cenv_rel O C W ce vg vn vf ->
        comp_ok O C W ce L fi fp frs (cexpr ce e) [v].
Proof. intros Q O stale C W HW n. exact (expr_correct O stale (false, false) C W eq_refl HW n). Qed.
Print Assumptions C09_expr_correct_partial.

(* PARTIAL (2): an expression statement at the end of <main>: the machine executes the
   compiled expression and its Return and halts with the reference value. *)
Theorem C09_statement_correct_partial :
  forall (Q : Type) (O : ops Q) (stale : string -> nat -> bool) (C : compiled) (W : world),
    RelW O stale C W ->
    forall n (e : expr Q) v ce nk na pre out res,
      eval O stale (false, false) n W (length (w_globals W)) (length (w_fns W)) (length (w_foreign W)) [] e = Ok v ->
      cenv_rel O C W ce (length (w_globals W)) (length (w_fns W)) (length (w_foreign W)) ->
      c_locals ce = None ->
      nth_error (p_chunks C) 0 = Some ("<main>"%string, pre ++ f_code (cexpr ce e nk na) ++ [IReturn]) ->
      consts_at C nk (f_consts (cexpr ce e nk na)) ->
      nomark (f_code (cexpr ce e nk na)) ->
      exists m,
        run_from O C m {| m_frames := [F 0 (csize pre) 0]; m_stack := rev (map snd (w_globals W));
                          m_last := w_last W; m_out := out; m_res := res |}
        = Ok (out, Some v).
Proof. exact @expr_statement_correct. Qed.
Print Assumptions C09_statement_correct_partial.

(* PARTIAL (3): no panic — whenever the machine reaches Ok with some fuel, every other
   fuel gives Fuel or the same Ok, never Wrong (= Rust panic) and never an error. *)
Theorem C09_no_stuck_partial :
  forall (Q : Type) (O : ops Q) (C : compiled) m s r,
    run_from O C m s = Ok r ->
    forall m', run_from O C m' s = Fuel \/ run_from O C m' s = Ok r.
Proof. exact @run_from_any. Qed.
Print Assumptions C09_no_stuck_partial.

(* REFUTED clause (open finding C09-funref-rebound): CallCallable resolves
   FunctionReference::Normal by NAME at call time, so a function value taken before a
   redefinition calls the new body.  Source semantics: 2; the faithful machine: 100. *)
Theorem C09_funref_refuted :
  exists (p : program Z) (n m : nat) (v v' : value Z),
    compile_ok (compile (procs zops) p) = true
    /\ run_static zops n p = Ok ([], Some v)
    /\ Machine.run zops (compile (procs zops) p) m = Ok ([], Some v')
    /\ v <> v'
    /\ run_checked zops n p = Stale.
Proof.
  exists funref_witness, 20, 20, (VQ 2%Z), (VQ 100%Z).
  destruct funref_witness_refutes as (H1 & H2 & H3 & H4).
  repeat split; try assumption. discriminate.
Qed.
Print Assumptions C09_funref_refuted.

(* Non-vacuity of the hypotheses of the partial theorems: the compiled program
   `let x = 2 ; fn f(n) = if n < 1 then x else f(n-1) + y where y = n*x ; f(3)` and the
   reference world after its two definitions satisfy RelW and cenv_rel, and the
   statement theorem yields f(3) = 14. *)
Example C09_hypotheses_satisfiable :
  RelW zops (stale_in nv_prog) nv_C nv_W /\ cenv_rel zops nv_C nv_W nv_ce 1 1 0
  /\ exists m, run_from zops nv_C m
        {| m_frames := [F 0 3 0]; m_stack := [VQ 2%Z]; m_last := None; m_out := []; m_res := None |}
      = Ok ([], Some (VQ 14%Z)).
Proof. exact (conj nv_RelW (conj nv_cenv_rel nv_conclusion)). Qed.

(* Non-vacuity of the whole pipeline: a program with shadowing, a where-local, recursion
   through a function value, a struct with reordered fields, a list, string interpolation
   and print compiles within all bounds; reference and machine agree on it. *)
Example C09_nonvacuous :
  compile_ok (compile (procs zops) demo) = true
  /\ run_checked zops 60 demo = Ok (["v=[10, 12]!"%string], Some (VQ 12%Z))
  /\ Machine.run zops (compile (procs zops) demo) 400 = Ok (["v=[10, 12]!"%string], Some (VQ 12%Z)).
Proof. exact demo_runs. Qed.
