(* C01 x C09 — cross-area composition (addendum to Props/C01.v and Props/C09.v; the dim area's
   files are not edited; definitions and proof in VM/DimInstance.v).

   Props/C01.v, C01_program_sound_partial: for accepted programs of the arithmetic fragment the
   run-time evaluation of unit DIMENSIONS ([rt_prog], a direct reading of vm.rs on dimensions)
   never hits an incompatibility and yields the inferred types — with "a name resolves to its
   latest binding" as an assumption about the compiler built into rt_prog.
   Props/C09.v: the model machine running model-compiled code computes what the reference
   semantics says, for every instance [ops] of the primitive operations.

   Composition: instantiate [ops] with the dimension-level arithmetic of Dim/Run.v ([dops]:
   a quantity = dimension of its unit + exact value where constant), translate the shared
   fragment ([Titem]; the initial environment of units/constants becomes pre-bound globals,
   [prelude]) and discharge the assumption: the MODEL MACHINE running the MODEL-COMPILED
   program reaches the end of <main> without a run-time error, and every global's stack slot
   holds a quantity of exactly the dimension the type-checker model reports for it.

   Shared fragment: finite initial environment of monomorphic names with closed dimension
   types; `let x = e` without annotation and expression statements; e from non-zero numeric
   literals, names (units, constants, earlier lets, ans/_), unary minus, + - -> * / and ^
   (constant exponent unless the base is dimensionless).  Names bound by let / the initial
   environment are not `ans` or `_` (reserved identifiers).  PARTIAL with respect to C01:
   no functions, generics, conditionals, structs, strings, lists; ExpAgree is satisfied by
   construction here (the VM exponent is the exact constant, [rexp0]) — the open finding
   C01-exponent-f64 lives in the f64 evaluation that this instance abstracts. *)
From Coq Require Import String List.
From NV Require Dim.Model Dim.Infer Dim.RunProgProofs.
From NV Require Import VM.Value VM.Ast VM.Bytecode VM.Compile VM.Machine VM.RefSem VM.Proofs VM.DimInstance.
Import ListNotations.

Theorem C01_C09_composition_partial :
  forall (G0 : list (string * DM.dtype)) (p : list DP.item) (s s' : DI.tc) (outs : list DI.sout),
    Forall DP.item_arith p -> names_ok p -> G0_ok G0 ->
    DP.env_agree2 (DI.tc_env s) (g_of G0) -> DP.allq (DI.tc_env s) ->
    DI.check (map DP.stmt_of p) s = DM.Ok (outs, s') ->
    compile_ok (compile (procs dops) (prelude G0 ++ map Titem p)) = true ->
    exists (ds : list DM.dtype) (k : nat) (ms : @mstate dq),
      outs = map (fun id => DP.out_of (fst id) (snd id)) (combine p ds) /\
      length ds = length p /\
      steps dops (compile (procs dops) (prelude G0 ++ map Titem p)) k (minit (Q := dq)) = Some ms /\
      map dim_of_val (rev (m_stack ms))
      = map (fun xd => Some (snd xd)) G0 ++ map (fun xd => Some (snd xd)) (lets p ds) /\
      m_frames ms = [F 0 (csize (snd (hd (EmptyString, []) (p_chunks (compile (procs dops) (prelude G0 ++ map Titem p)))))) 0].
Proof. exact dim_composition. Qed.
Print Assumptions C01_C09_composition_partial.

(* No-stuck with a STATIC hypothesis, for the shared fragment: acceptance by the type-checker
   model is a typing judgment that excludes Wrong, so the machine running the compiled
   program never panics and never raises a run-time error, for every fuel.  (For the full
   language this needs the whole C02 type system and a treatment of divergence, see
   design/vm.md; here every accepted program terminates.) *)
Theorem C09_no_stuck_typed_fragment :
  forall (G0 : list (string * DM.dtype)) (p : list DP.item) (s s' : DI.tc) (outs : list DI.sout),
    Forall DP.item_arith p -> names_ok p -> G0_ok G0 ->
    DP.env_agree2 (DI.tc_env s) (g_of G0) -> DP.allq (DI.tc_env s) ->
    DI.check (map DP.stmt_of p) s = DM.Ok (outs, s') ->
    compile_ok (compile (procs dops) (prelude G0 ++ map Titem p)) = true ->
    exists out v, forall m,
      Machine.run dops (compile (procs dops) (prelude G0 ++ map Titem p)) m = Fuel \/
      Machine.run dops (compile (procs dops) (prelude G0 ++ map Titem p)) m = Ok (out, v).
Proof. exact typed_fragment_no_stuck. Qed.
Print Assumptions C09_no_stuck_typed_fragment.

(* Non-vacuity: meter : Length, second : Time;
   let va = 2 meter ; let vb = va / second ; let va = vb * vb ; va + va
   satisfies every hypothesis (the checker accepts it, the compiled program is within all
   bounds), with a name that is re-used and re-bound. *)
Example C01_C09_hypotheses_satisfiable :
  Forall DP.item_arith ex_p /\ names_ok ex_p /\ G0_ok ex_G0 /\
  DP.env_agree2 (DI.tc_env ex_s) (g_of ex_G0) /\ DP.allq (DI.tc_env ex_s) /\
  (exists outs s', DI.check (map DP.stmt_of ex_p) ex_s = DM.Ok (outs, s')) /\
  compile_ok (compile (procs dops) (prelude ex_G0 ++ map Titem ex_p)) = true.
Proof. exact ex_hypotheses. Qed.
