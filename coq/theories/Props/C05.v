(* C05 — Automatic unit simplification never changes the quantity.
   Property theorems only; proofs in Qty/SimplProofs.v.  Model: Qty/Model.v
   full_simplify (heuristics 1-3, is_multiple_of, chunk_by sort key, the
   .unwrap() of heuristic 3 as an explicit Panic outcome) and
   full_simplify_with_registry, where the registry lookup is abstract: the
   theorems hold for ANY list of candidate units and ANY tolerance predicates.

   Partial: the hypothesis [h3_ints] (the target units heuristic 3 constructs
   have integer exponents) keeps the statement inside exact rational
   arithmetic.  Which unit the registry picks, and that the call sites apply
   this function, are validated by the correspondence check only. *)
From Coq Require Import List ZArith QArith Qcanon String Bool.
From NV Require Import Qty.Model Qty.Exec Qty.Proofs Qty.SimplProofs Qty.TableSem Qty.Good Qty.Demo
                       Qty.Display Qty.DisplayProofs.
Import ListNotations.
Local Open Scope Qc_scope.

(* full_simplify never panics (any number type): since the fix of finding
   C05-h3-unwrap-panic a unit group that cannot be converted to the guessed target
   makes the function return its argument *)
Theorem C05_no_panic :
  forall (T : Type) (N : numops T) tbl res keys q,
    exists q', full_simplify N tbl res keys q = Ok q'.
Proof. intros T N tbl res keys q. exact (full_simplify_total N tbl res keys q). Qed.
Print Assumptions C05_no_panic.

(* heuristic simplification preserves the physical magnitude and, for a non-zero
   value, the dimension vector *)
Theorem C05_preserves_partial :
  forall tbl, good_table tbl -> forall keys q q',
    unit_int (q_unit q) = true ->
    h3_ints tbl (resolve QcN tbl) keys (chunk_by_key keys (canon keys (q_unit q))) ->
    full_simplify QcN tbl (resolve QcN tbl) keys q = Ok q' ->
    DenQ (resolve QcN tbl) q' = DenQ (resolve QcN tbl) q
    /\ (q_val q <> 0 ->
        forall x, dimv (resolve QcN tbl) (q_unit q') x = dimv (resolve QcN tbl) (q_unit q) x).
Proof.
  intros tbl G keys q q' Hq Hi H.
  destruct (full_simplify_sound tbl _ keys (good_scale_pos tbl G) q q' Hq Hi H) as (A & _ & B). auto.
Qed.
Print Assumptions C05_preserves_partial.

(* ... and so does the registry-based rewriting to derived units, whichever
   candidate units the registry proposes and whatever the 1e-9 tests answer *)
Theorem C05_preserves_registry_partial :
  forall tbl, good_table tbl -> forall keys near_one near cands q q',
    unit_int (q_unit q) = true ->
    h3_ints tbl (resolve QcN tbl) keys (chunk_by_key keys (canon keys (q_unit q))) ->
    (forall s, full_simplify QcN tbl (resolve QcN tbl) keys q = Ok s ->
       (forall t, In t (cands (q_unit s)) -> unit_int t = true)
       /\ unit_int (fst (to_base QcN tbl (resolve QcN tbl) (q_unit s))) = true) ->
    full_simplify_with_registry QcN tbl (resolve QcN tbl) keys near_one near cands q = Ok q' ->
    DenQ (resolve QcN tbl) q' = DenQ (resolve QcN tbl) q.
Proof.
  intros tbl G keys near_one near cands q q' Hq Hi Hc H.
  exact (proj1 (full_simplify_with_registry_sound tbl _ keys (good_scale_pos tbl G)
                  near_one near cands q q' Hq Hi Hc H)).
Qed.
Print Assumptions C05_preserves_registry_partial.

(* a value produced by an explicit conversion is never simplified (any number type) *)
Theorem C05_respects_conversion :
  forall (T : Type) (N : numops T) tbl res keys near_one near cands a b q,
    vm_convert N tbl res keys a b = Ok q ->
    full_simplify N tbl res keys q = Ok q
    /\ full_simplify_with_registry N tbl res keys near_one near cands q = Ok q.
Proof.
  intros T N tbl res keys near_one near cands a b q H.
  exact (no_simplify_id N tbl res keys near_one near cands q (vm_convert_not_simplifiable N tbl res keys a b q H)).
Qed.
Print Assumptions C05_respects_conversion.

(* ... so the text displayed for a converted value is the same before and after
   simplification (result display, print, string interpolation) *)
Theorem C05_text_respects_conversion :
  forall (T : Type) (N : numops T) tbl res keys names near_one near cands a b q s,
    vm_convert N tbl res keys a b = Ok q ->
    full_simplify_with_registry N tbl res keys near_one near cands q = Ok s ->
    display_shape names s = display_shape names q.
Proof.
  intros T N tbl res keys names near_one near cands a b q s.
  exact (convert_text_simplified N tbl res keys names near_one near cands a b q s).
Qed.
Print Assumptions C05_text_respects_conversion.

(* converting a simplified result back to the unit of the unsimplified
   computation gives the unsimplified magnitude *)
Theorem C05_back :
  forall tbl, good_table tbl -> forall keys q q' q2,
    unit_int (q_unit q) = true -> unit_int (q_unit q') = true ->
    DenQ (resolve QcN tbl) q' = DenQ (resolve QcN tbl) q ->
    convert_to QcN tbl (resolve QcN tbl) keys q' (q_unit q) = Ok q2 -> q_val q2 = q_val q.
Proof.
  intros tbl G keys q q' q2. exact (simplify_back tbl _ keys (good_scale_pos tbl G) q q' q2).
Qed.
Print Assumptions C05_back.

(* full statement (not proved): without [h3_ints], i.e. for group targets with
   non-integer exponents, whose sizes are not rational *)
Definition C05_full : Prop :=
  forall tbl, good_table tbl -> forall q q',
    unit_int (q_unit q) = true ->
    full_simplify QcN tbl (resolve QcN tbl) (all_keys QcN tbl (resolve QcN tbl)) q = Ok q' ->
    DenQ (resolve QcN tbl) q' = DenQ (resolve QcN tbl) q.

(* ---- non-vacuity (demo table): 2 km/h * 3 h is simplified by heuristic 3 to 6 km;
   5 ft * inch  to 60 in^2 by heuristic 2; 3 percent * gram to 0.03 g (scalar group);
   and a converted value is left alone *)
Example C05_nonvacuous :
  (exists q', full_simplify QcN demo_tbl D_res D_keys (qz 6 [up 0 3 1; up 6 0 (-1); up 6 0 1]) = Ok q'
              /\ q_unit q' = [up 0 3 1] /\ q_val q' = Qc_of_Z 6)
  /\ (exists q', full_simplify QcN demo_tbl D_res D_keys (qz 5 [up 4 0 1; up 3 0 1]) = Ok q'
                 /\ List.length (q_unit q') = 1%nat)
  /\ h3_ints demo_tbl D_res D_keys (chunk_by_key D_keys (canon D_keys [up 0 3 1; up 6 0 (-1); up 6 0 1])).
Proof.
  split; [eexists; split; [vm_compute; reflexivity | split; [reflexivity | apply Qc_is_canon; vm_compute; reflexivity]]|].
  split; [eexists; split; [vm_compute; reflexivity | reflexivity]|].
  apply h3_ints_of_b. vm_compute. reflexivity.
Qed.
