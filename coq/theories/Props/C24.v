(* C24 — every documentation example of the standard library type-checks and evaluates.  PARTIAL.
   For the examples inside the fragment of the composed pipeline model (Pipeline/Glue.v: Syntax
   lexer + parser -> Dim type checker -> VM compiler + machine) — the list is generated on every
   run from numbat's own example metadata together with the verbatim source of the library
   definitions each example needs (Gen/ExamplesFragment.v) — the model lexes, parses,
   type-checks, compiles and runs the library definitions and the example, and every example
   yields a value.  A finite list, decided by vm_compute: a proof about the models.  The examples
   outside the fragment (units, inexact floats, structs, function values, dates, …: the majority) are
   executed on the implementation only (tools/props/c24.py). *)
From Coq Require Import String List NArith Bool.
From NV Require Import Pipeline.Glue Gen.ExamplesFragment.
Import ListNotations.

Theorem C24_in_fragment_partial : forallb example_runs_ok gen_examples_in_fragment = true.
Proof. vm_compute. reflexivity. Qed.
Print Assumptions C24_in_fragment_partial.

(* non-vacuity: a library definition and an example go through all three models *)
Open Scope string_scope.
Definition c24_ex_lib : list N :=
  map (fun c => N.of_nat (Ascii.nat_of_ascii c))
      (list_ascii_of_string "fn tri(n: Scalar) -> Scalar = if n == 0 then 0 else n + tri(n - 1)").
Definition c24_ex_src : list N := map (fun c => N.of_nat (Ascii.nat_of_ascii c)) (list_ascii_of_string "tri(4) * 2").
Example C24_pipeline_nonvacuous :
  show_poutcome (interpret_model_strict [c24_ex_lib] c24_ex_src) = "ok:20".
Proof. vm_compute. reflexivity. Qed.

(* the fragment has exact decimals, interpolated strings and `->` calls; an inexact result (an
   irrational root) is classified as outside the fragment, not as a value *)
Definition c24_src (s : string) : list N := map (fun c => N.of_nat (Ascii.nat_of_ascii c)) (list_ascii_of_string s).
Example C24_pipeline_decimals_and_interpolation :
  show_poutcome (interpret_model_strict [c24_src "fn half(x: Scalar) -> String = ""{x / 2}!"""] (c24_src "5.5 -> half")) = "ok:""2.75!"""
  /\ show_poutcome (interpret_model_strict [] (c24_src "2^(1/2)")) = "out-of-fragment"
  /\ show_poutcome (interpret_model_strict [] (c24_src "(9/4)^(1/2)")) = "ok:1.5".
Proof. vm_compute. repeat split; reflexivity. Qed.
