(* C20 — HTML rendering never emits user-controlled markup.
   Property theorems only; proofs are in Format/HtmlProofs.v. *)
From NV Require Import Format.Html Format.HtmlProofs.
Local Open Scope char_scope.

(* Escaped text contains no < or >, and the reader decodes it back to the
   original bytes (so every & in it starts one of &amp; &lt; &gt;). *)
Theorem C20_escape_clean :
  forall s : bytes, ~ In "<" (escape s) /\ ~ In ">" (escape s).
Proof. exact escape_clean. Qed.
Print Assumptions C20_escape_clean.

Theorem C20_unescape :
  forall s : bytes, read_html (escape s) = Some (map Txt s).
Proof. exact read_escape. Qed.
Print Assumptions C20_unescape.

(* Whatever the reader accepts contains only tags from the fixed allow-list:
   <span class="numbat-K"> with K one of the renderer's classes, and </span>. *)
Theorem C20_reader_only_own_tags :
  forall (s : bytes) (res : list item),
    read_html s = Some res -> forall k, In (Open k) res -> In k allowed_classes.
Proof. exact read_html_only_allowed. Qed.
Print Assumptions C20_reader_only_own_tags.

(* HtmlFormatter: for EVERY markup (any parts, any text in them) the output is
   accepted by the reader, reads back as exactly the renderer's own spans around
   the original text, the spans are properly nested, and the text between the
   tags decodes to the input text. *)
Theorem C20_markup :
  forall m : list (ftype * bytes),
    read_html (render m) = Some (items_of m)
    /\ well_nested false (items_of m) = true
    /\ text_of (items_of m) = flat_map snd m.
Proof.
  intros m. split; [apply read_render|]. split; [apply well_nested_items|apply text_of_items].
Qed.
Print Assumptions C20_markup.

(* The same for Formatter::format with either indentation setting (indent = true
   is what the `info` / help output of the HTML front end uses): the output is
   the rendering of the markup with the indentation parts inserted, so it too
   consists of the renderer's own spans around escaped text only. *)
Theorem C20_format :
  forall (m : list (ftype * bytes)) (indent : bool),
    format m indent = render (expand m indent)
    /\ read_html (format m indent) = Some (items_of (expand m indent))
    /\ well_nested false (items_of (expand m indent)) = true
    /\ text_of (items_of (expand m indent)) = flat_map snd (expand m indent)
    /\ flat_map snd (expand m false) = flat_map snd m.
Proof.
  intros m indent. split; [apply format_expand|]. rewrite format_expand.
  split; [apply read_render|]. split; [apply well_nested_items|].
  split; [apply text_of_items|apply text_of_expand_false].
Qed.
Print Assumptions C20_format.

(* HtmlWriter (the sink codespan-reporting writes diagnostics into): for EVERY
   sequence of set_color / reset / write calls with arbitrary bytes, the buffer
   is accepted by the reader, contains only the writer's own spans, properly
   nested, and the text decodes to exactly the bytes written. *)
Theorem C20_writer :
  forall ops : list wop,
    read_html (buffer (wrun ops)) = Some (witems None ops)
    /\ well_nested false (witems None ops) = true
    /\ text_of (witems None ops) = written ops.
Proof.
  intros ops. split; [apply read_writer|]. split; [apply well_nested_witems|apply text_of_witems].
Qed.
Print Assumptions C20_writer.

(* Why the repair of HtmlWriter::write was needed: a writer that copies the
   bytes verbatim (the code before the `fix:` commit) lets a foreign tag
   through — the reader rejects the buffer. *)
Theorem C20_verbatim_writer_refuted :
  exists buf : bytes,
    read_html (buffer (wwrite_verbatim winit buf)) = None.
Proof. exists (B "<img src=x onerror=alert(1)>"). vm_compute. reflexivity. Qed.
Print Assumptions C20_verbatim_writer_refuted.

(* Non-vacuity: adversarial text in a styled part and in a coloured write. *)
Example C20_nonvacuous_markup :
  render [(FString, B "<b>&"); (FText, B "x>y")]
  = B "<span class=""numbat-string"">&lt;b&gt;&amp;</span>x&gt;y".
Proof. vm_compute. reflexivity. Qed.

Example C20_nonvacuous_writer :
  buffer (wrun [WSetColor (mkSpec (Some Red) false); WWrite (B "<i>"); WReset; WWrite (B "a&b")])
  = B "<span class=""numbat-diagnostic-red"">&lt;i&gt;</span>a&amp;b".
Proof. vm_compute. reflexivity. Qed.
