(* C14 — Displayed numbers read back as the value they show.
   Property theorems only; proofs are in NumFmt/Proofs.v and NumFmt/ProofsF.v.

   The model (NumFmt/Model.v) takes the classification of the f64 as input:
   CInt z (integer value; numbat uses this branch for |z| < 2^53), CFloat neg ds e
   (any other finite value, given by its shortest round-trip digits ds and decimal
   exponent e: |x| = 0.ds * 10^e), CNaN, CInf.  The step f64 -> shortest digits
   (ryu) and the f64 parser are outside the model (validated by the correspondence
   check, not proved): hence "proof (partial)". *)
From Coq Require Import List ZArith NArith String Ascii QArith.
From NV Require Import NumFmt.Model NumFmt.Proofs NumFmt.ProofsF NumFmt.LexTie.
From NV Require Import Syntax.Token Syntax.Lexer.
Import ListNotations.

(* Integers, any separator whose first character is neither a digit nor '-', any
   grouping threshold (and any z, not only |z| < 2^53): formatting does not fail,
   and removing the separator leaves sign + exactly the decimal expansion of |z|
   (digits below 10 whose positional value is |z|: all digits are displayed). *)
Theorem C14_int_digits : forall o z, sep_ok (o_sep o) ->
  exists s, display o (CInt z) = Out s /\
            remove_sep (o_sep o) s = sign_str z (show_digits (dec_digits (Z.abs_N z))) /\
            wfd (dec_digits (Z.abs_N z)) /\ val (dec_digits (Z.abs_N z)) = Z.abs_N z.
Proof. exact int_correct. Qed.
Print Assumptions C14_int_digits.

(* dec_digits is THE decimal numeral: any digit list without leading zero that has the
   value n is dec_digits n (so "all digits are displayed" leaves no freedom) *)
Theorem C14_int_canonical : forall n ds, n <> 0%N -> wfd ds -> ds <> [] -> hd 0%N ds <> 0%N ->
  val ds = n -> ds = dec_digits n.
Proof. exact dec_digits_unique. Qed.
Print Assumptions C14_int_canonical.

(* ... and that text is a literal of numbat's number syntax with value z * 10^0. *)
Theorem C14_int : forall o z, sep_ok (o_sep o) ->
  exists s, display o (CInt z) = Out s /\
            read_number (remove_sep (o_sep o) s) = Some (z, 0%Z).
Proof. exact int_read_back. Qed.
Print Assumptions C14_int.

(* Float branch, every digit string / exponent / significant-digit setting (the
   limit is clamp(sig,1,255)): formatting does not fail; removing a separator whose
   first character is not one of 0-9 . e + - leaves the text unchanged; the text is a
   literal of numbat's number syntax (the reader returns its mantissa and exponent);
   its rational value is the shortest decimal rounded half-up to min(limit, #digits)
   significant digits. *)
Theorem C14_float : forall o neg ds e, wfd ds -> ds <> [] ->
  let limit := sig_limit (o_sig o) in
  exists l,
    display o (CFloat neg ds e) = Out (show_lit true l) /\
    (sep_lit_ok (o_sep o) -> remove_sep (o_sep o) (show_lit true l) = show_lit true l) /\
    read_number (show_lit true l) = Some (lit_dec l) /\
    dQ (lit_dec l)
    == dQ (signed neg (rounded ds limit),
           (e - Z.of_nat (Nat.min (List.length ds) limit))%Z).
Proof. exact float_correct_sep. Qed.
Print Assumptions C14_float.

(* "Is a valid numeric literal", against the lexer model of the syntax area (Syntax/Lexer.v, the
   model that C10 ties to the real tokenizer; any Unicode identifier classes in which digits are
   not identifier starts): the displayed text of a literal is an optional '-' followed by a text
   that scan_single_token reads — in any lexer state (interpolation scope stack, previous token) —
   as exactly ONE Number token with that very lexeme and nothing left over; the same for the digits of an integer. *)
Theorem C14_literal_is_number_token : forall (xid_start xid_continue : N -> bool),
  (forall c, is_ascii_digit c = true -> xid_start c = false) ->
  forall l (d : list bool) (la : option token), wf_lit l ->
    show_lit true l
    = ((if l_neg l then String "-"%char EmptyString else EmptyString) ++ show_lit true (unsigned l))%string /\
    scan_single_token xid_start xid_continue d la (codes (show_lit true (unsigned l)))
    = LOk (Some (TNumber (codes (show_lit true (unsigned l)))), [], d).
Proof.
  intros xs xc H l d la W. split; [apply show_lit_sign|apply (literal_is_one_number_token xs xc H); assumption].
Qed.
Print Assumptions C14_literal_is_number_token.

Theorem C14_integer_is_number_token : forall (xid_start xid_continue : N -> bool),
  (forall c, is_ascii_digit c = true -> xid_start c = false) ->
  forall (n : N) (d : list bool) (la : option token),
    scan_single_token xid_start xid_continue d la (codes (show_digits (dec_digits n)))
    = LOk (Some (TNumber (codes (show_digits (dec_digits n)))), [], d).
Proof. intros xs xc H. exact (integer_is_one_number_token xs xc H). Qed.
Print Assumptions C14_integer_is_number_token.

(* `rounded` is a correct rounding: W * 10^m is the multiple of 10^m nearest to the
   digit value (ties upward), m = number of dropped digits. *)
Theorem C14_round_sig_correct : forall ds limit, (limit < List.length ds)%nat ->
  let T := (10 ^ N.of_nat (List.length ds - limit))%N in
  let W := rounded ds limit in
  (2 * T * W <= 2 * val ds + T /\ 2 * val ds + T < 2 * T * W + 2 * T)%N.
Proof. exact rounded_nearest. Qed.
Print Assumptions C14_round_sig_correct.

(* numbat's post-processing of the pretty_dtoa text (trim trailing zeros, keep one
   digit after the point; e -> e+) keeps well-formedness, sign and value. *)
Theorem C14_post : forall l, wf_lit l ->
  wf_lit (post l) /\ l_neg (post l) = l_neg l /\ dQ (lit_dec (post l)) == dQ (lit_dec l).
Proof. exact post_spec. Qed.
Print Assumptions C14_post.

Theorem C14_special : forall o,
  display o CNaN = Out "NaN"%string /\
  display o (CInf false) = Out "inf"%string /\
  display o (CInf true) = Out "-inf"%string.
Proof. exact special_correct. Qed.
Print Assumptions C14_special.

(* Non-vacuity: concrete runs through every branch. *)
Example C14_ex_int :
  display (mkOpt "_" 6 6) (CInt (-1234567890)) = Out "-1_234_567_890"%string
  /\ remove_sep "_" "-1_234_567_890" = "-1234567890"%string
  /\ read_number "-1234567890" = Some ((-1234567890)%Z, 0%Z)
  /\ sep_ok "_".
Proof. vm_compute. repeat split; try reflexivity; discriminate. Qed.

Example C14_ex_round_carry : (* 999999.7 -> 1.0e+6 ; 1.23456789 -> 1.23457 ; 100.00001 -> 100.0 *)
  display (mkOpt "_" 6 6) (CFloat false [9;9;9;9;9;9;7]%N 6) = Out "1.0e+6"%string
  /\ display (mkOpt "_" 6 6) (CFloat false [1;2;3;4;5;6;7;8;9]%N 1) = Out "1.23457"%string
  /\ display (mkOpt "_" 6 6) (CFloat false [1;0;0;0;0;0;0;1]%N 3) = Out "100.0"%string
  /\ read_number "1.0e+6" = Some (10%Z, 5%Z)
  /\ rounded [9;9;9;9;9;9;7]%N 6 = 1000000%N.
Proof. vm_compute. repeat split; reflexivity. Qed.

Example C14_ex_wfd : wfd [9;9;9;9;9;9;7]%N /\ [9;9;9;9;9;9;7]%N <> [].
Proof. split; [repeat constructor|discriminate]. Qed.
