(* C18 — proofs about ListM.Model: the shared-storage implementation refines
   plain immutable sequences, for every operation history. *)
From NV Require Import ListM.Model.

Section ListProofs.
  Variable T : Type.
  Variable teqb : T -> T -> bool.
  Hypothesis teqb_refl : forall x, teqb x x = true.

  Notation store := (store T).
  Notation op := (op T).
  Notation out := (out T).
  Notation step := (step T teqb).
  Notation pstep := (pstep T teqb).
  Notation run := (run T teqb).
  Notation prun := (prun T teqb).
  Notation abs := (abs T).
  Notation abs_h := (abs_h T).
  Notation alloc_of := (alloc_of T).
  Notation get_slot := (get_slot T).

  (* ---------- generic list lemmas ---------- *)
  Lemma length_set_nth {A} n (x : A) l : length (set_nth n x l) = length l.
  Proof. revert n; induction l as [|a l IH]; intros [|n]; simpl; auto. Qed.

  Lemma nth_set_nth_eq {A} n (x d : A) l :
    n < length l -> nth n (set_nth n x l) d = x.
  Proof.
    revert n; induction l as [|a l IH]; intros [|n] H; simpl in *; try lia; auto.
    apply IH; lia.
  Qed.

  Lemma nth_set_nth_neq {A} n m (x d : A) l :
    n <> m -> nth m (set_nth n x l) d = nth m l d.
  Proof.
    revert n m; induction l as [|a l IH]; intros [|n] [|m] H; simpl; auto; try lia.
  Qed.

  Lemma set_nth_oob {A} n (x : A) l : length l <= n -> set_nth n x l = l.
  Proof.
    revert n; induction l as [|a l IH]; intros [|n] H; simpl in *; auto; try lia.
    f_equal; apply IH; lia.
  Qed.

  Lemma skipn_set_nth {A} n (x : A) l :
    n < length l -> skipn n (set_nth n x l) = x :: skipn (S n) l.
  Proof.
    revert n; induction l as [|a l IH]; intros [|n] H; simpl in *; try lia; auto.
    apply IH; lia.
  Qed.

  Lemma skipn_S_tl {A} s (l : list A) y t :
    skipn s l = y :: t -> skipn (s + 1) l = t.
  Proof.
    revert l; induction s as [|s IH]; intros [|a l] H; simpl in *; try discriminate.
    - now inversion H.
    - now apply IH.
  Qed.

  Lemma filter_two {A} (p : A -> bool) l i j d :
    i <> j -> i < length l -> j < length l ->
    p (nth i l d) = true -> p (nth j l d) = true ->
    2 <= length (filter p l).
  Proof.
    revert i j; induction l as [|a l IH]; intros i j Hij Hi Hj Pi Pj; simpl in *; try lia.
    destruct i as [|i], j as [|j]; try lia.
    - rewrite Pi; simpl.
      assert (1 <= length (filter p l)); [|lia].
      clear - Hj Pj. revert j Hj Pj; induction l as [|b l IH]; intros j Hj Pj; simpl in *; try lia.
      destruct j as [|j]; [rewrite Pj; simpl; lia|].
      destruct (p b); simpl; [lia|]. apply (IH j); [lia|exact Pj].
    - rewrite Pj; simpl.
      assert (1 <= length (filter p l)); [|lia].
      clear - Hi Pi. revert i Hi Pi; induction l as [|b l IH]; intros i Hi Pi; simpl in *; try lia.
      destruct i as [|i]; [rewrite Pi; simpl; lia|].
      destruct (p b); simpl; [lia|]. apply (IH i); [lia|exact Pi].
    - assert (2 <= length (filter p l)) by (apply (IH i j); auto; lia).
      destruct (p a); simpl; lia.
  Qed.

  Lemma nth_Some_lt {A} i (l : list (option A)) x :
    nth i l None = Some x -> i < length l.
  Proof.
    intros H. destruct (Nat.lt_ge_cases i (length l)) as [|Hge]; auto.
    rewrite nth_overflow in H by lia. discriminate.
  Qed.

  (* ---------- the invariant ---------- *)
  Definition view_ok (hp : list (list T)) (h : handle) : Prop :=
    hid h < length hp /\
    match hview h with
    | Some (s, e) => s <= e /\ e = length (alloc_of hp (hid h))
    | None => True
    end.

  Definition Inv (st : store) : Prop :=
    forall i h, get_slot st i = Some h -> view_ok (heap st) h.

  Lemma abs_h_inv hp h :
    view_ok hp h ->
    abs_h hp h = match hview h with
                 | Some (s, _) => skipn s (alloc_of hp (hid h))
                 | None => alloc_of hp (hid h)
                 end.
  Proof.
    intros [_ Hv]. unfold abs_h, window. destruct (hview h) as [[s e]|]; auto.
    destruct Hv as [Hse He]. apply firstn_all2. rewrite skipn_length. lia.
  Qed.

  Lemma h_len_inv hp h :
    view_ok hp h -> h_len T hp h = Some (length (abs_h hp h)).
  Proof.
    intros Hv. rewrite (abs_h_inv _ _ Hv). destruct Hv as [_ Hv].
    unfold h_len. destruct (hview h) as [[s e]|]; auto.
    destruct Hv as [Hse He]. rewrite (proj2 (Nat.leb_le s e) Hse).
    rewrite skipn_length. f_equal. lia.
  Qed.

  Lemma h_iter_inv hp h :
    view_ok hp h -> h_iter T hp h = Some (abs_h hp h).
  Proof.
    intros Hv. destruct Hv as [_ Hv].
    unfold h_iter, abs_h, window. destruct (hview h) as [[s e]|]; auto.
    destruct Hv as [Hse He]. rewrite (proj2 (Nat.leb_le s e) Hse). reflexivity.
  Qed.

  Lemma abs_nth st i :
    nth i (abs st) None = option_map (abs_h (heap st)) (get_slot st i).
  Proof.
    unfold abs, get_slot.
    change (@None (list T)) with (option_map (abs_h (heap st)) None) at 1.
    apply map_nth.
  Qed.

  Lemma abs_length st : length (abs st) = length (slots st).
  Proof. unfold abs. apply map_length. Qed.

  (* replacing slot i (possibly with a new heap that leaves the other handles'
     denotation alone) *)
  Lemma abs_update st hp' i o' :
    (forall j h', j <> i -> get_slot st j = Some h' -> abs_h hp' h' = abs_h (heap st) h') ->
    abs (mkS hp' (set_nth i o' (slots st)))
    = set_nth i (option_map (abs_h hp') o') (abs st).
  Proof.
    intros Hoth.
    apply nth_ext with (d := None) (d' := None).
    - rewrite length_set_nth, !abs_length. simpl. now rewrite length_set_nth.
    - intros n Hn. rewrite abs_length in Hn. simpl in Hn. rewrite length_set_nth in Hn.
      rewrite abs_nth. unfold get_slot at 1. simpl.
      destruct (Nat.eq_dec i n) as [->|Hne].
      + rewrite !nth_set_nth_eq; auto. now rewrite abs_length.
      + rewrite !nth_set_nth_neq by congruence. rewrite abs_nth.
        unfold get_slot in *. destruct (nth n (slots st) None) as [h'|] eqn:E; simpl; auto.
        f_equal. apply Hoth with (j := n); auto.
  Qed.

  Lemma alloc_of_app1 hp w id : id < length hp -> alloc_of (hp ++ [w]) id = alloc_of hp id.
  Proof. intros H. unfold alloc_of. now rewrite app_nth1. Qed.

  Lemma alloc_of_app2 hp w : alloc_of (hp ++ [w]) (length hp) = w.
  Proof. unfold alloc_of. rewrite app_nth2 by lia. now rewrite Nat.sub_diag. Qed.

  Lemma view_ok_app hp w h : view_ok hp h -> view_ok (hp ++ [w]) h.
  Proof.
    intros [Hlt Hv]. split; [rewrite app_length; simpl; lia|].
    destruct (hview h) as [[s e]|]; auto. now rewrite alloc_of_app1.
  Qed.

  Lemma abs_h_app hp w h : hid h < length hp -> abs_h (hp ++ [w]) h = abs_h hp h.
  Proof. intros H. unfold abs_h. now rewrite alloc_of_app1. Qed.

  Lemma alloc_of_set_neq hp id id' a : id <> id' -> alloc_of (set_nth id a hp) id' = alloc_of hp id'.
  Proof. intros H. unfold alloc_of. apply nth_set_nth_neq; congruence. Qed.

  Lemma alloc_of_set_eq hp id a : id < length hp -> alloc_of (set_nth id a hp) id = a.
  Proof. intros H. unfold alloc_of. now apply nth_set_nth_eq. Qed.

  (* sole ownership *)
  Definition sole (st : store) (i : nat) (h : handle) : Prop :=
    forall j h', j <> i -> get_slot st j = Some h' -> hid h' <> hid h.

  Lemma strong_one_sole st i h :
    get_slot st i = Some h -> strong (slots st) (hid h) = 1 -> sole st i h.
  Proof.
    intros Hi Hs j h' Hne Hj Heq.
    assert (2 <= strong (slots st) (hid h)); [|lia].
    unfold strong. unfold get_slot in *.
    apply filter_two with (i := i) (j := j) (d := None); auto.
    - eapply nth_Some_lt; eauto.
    - eapply nth_Some_lt; eauto.
    - rewrite Hi. simpl. apply Nat.eqb_refl.
    - rewrite Hj. simpl. now apply Nat.eqb_eq.
  Qed.

  Lemma make_mut_spec st i h :
    Inv st -> get_slot st i = Some h ->
    exists st1 h1,
      make_mut T st i h = Some (st1, h1) /\
      Inv st1 /\ abs st1 = abs st /\ get_slot st1 i = Some h1 /\
      length (slots st1) = length (slots st) /\
      sole st1 i h1 /\ abs_h (heap st1) h1 = abs_h (heap st) h /\
      (forall j, j <> i -> get_slot st1 j = get_slot st j).
  Proof.
    intros HI Hi. unfold make_mut.
    destruct (Nat.eqb (strong (slots st) (hid h)) 1) eqn:Es.
    - apply Nat.eqb_eq in Es. exists st, h.
      split; [reflexivity|]. split; [exact HI|]. split; [reflexivity|].
      split; [exact Hi|]. split; [reflexivity|].
      split; [now apply strong_one_sole|]. split; [reflexivity|]. auto.
    - pose proof (HI _ _ Hi) as Hv. rewrite (h_iter_inv _ _ Hv).
      pose proof (nth_Some_lt _ _ _ Hi) as Hlt.
      eexists _, _. split; [reflexivity|].
      assert (Hget : forall j, j <> i ->
                get_slot (mkS (heap st ++ [abs_h (heap st) h])
                         (set_nth i (Some (mkH (length (heap st)) None)) (slots st))) j
                = get_slot st j).
      { intros j Hj. unfold get_slot. simpl. apply nth_set_nth_neq; congruence. }
      split; [|split; [|split; [|split; [|split; [|split; [|exact Hget]]]]]].
      + (* Inv *)
        intros j h' Hj. destruct (Nat.eq_dec j i) as [->|Hne].
        * unfold get_slot in Hj. simpl in Hj. rewrite nth_set_nth_eq in Hj by auto.
          inversion Hj; subst. split; simpl; [rewrite app_length; simpl; lia|exact I].
        * rewrite Hget in Hj by auto. simpl. apply view_ok_app. eapply HI; eauto.
      + (* abs equal *)
        rewrite abs_update.
        * simpl. unfold abs_h at 1. simpl. rewrite alloc_of_app2.
          apply nth_ext with (d := None) (d' := None).
          { now rewrite length_set_nth. }
          intros n Hn. rewrite length_set_nth in Hn.
          destruct (Nat.eq_dec i n) as [->|Hne].
          { rewrite nth_set_nth_eq by auto. rewrite abs_nth, Hi. reflexivity. }
          { now rewrite nth_set_nth_neq. }
        * intros j h' Hne Hj. apply abs_h_app. eapply HI; eauto.
      + unfold get_slot. simpl. now apply nth_set_nth_eq.
      + simpl. apply length_set_nth.
      + intros j h' Hne Hj. rewrite Hget in Hj by auto. simpl.
        pose proof (HI _ _ Hj) as [Hl _]. lia.
      + simpl. unfold abs_h at 1. simpl. now rewrite alloc_of_app2.
  Qed.

  (* in-place update of a solely owned allocation *)
  Lemma put_spec st i h h2 a l2 :
    Inv st -> get_slot st i = Some h -> sole st i h ->
    hid h2 = hid h ->
    match hview h2 with
    | Some (s, e) => s <= e /\ e = length a
    | None => True
    end ->
    window T a (hview h2) = l2 ->
    Inv (put T st i h2 a) /\
    abs (put T st i h2 a) = set_nth i (Some l2) (abs st).
  Proof.
    intros HI Hi Hsole Hid Hv Hw.
    pose proof (HI _ _ Hi) as [Hlt _].
    pose proof (nth_Some_lt _ _ _ Hi) as Hilt.
    split.
    - intros j h' Hj. unfold put, get_slot in Hj. simpl in Hj.
      destruct (Nat.eq_dec j i) as [->|Hne].
      + rewrite nth_set_nth_eq in Hj by auto. inversion Hj; subst h'.
        split; simpl; [rewrite length_set_nth, Hid; auto|].
        destruct (hview h2) as [[s e]|]; auto.
        rewrite alloc_of_set_eq by (rewrite Hid; auto). auto.
      + rewrite nth_set_nth_neq in Hj by congruence.
        pose proof (HI _ _ Hj) as [Hl' Hv'].
        pose proof (Hsole _ _ Hne Hj) as Hd.
        split; simpl; [now rewrite length_set_nth|].
        destruct (hview h') as [[s e]|]; auto.
        rewrite alloc_of_set_neq by (rewrite Hid; auto). auto.
    - unfold put. rewrite abs_update.
      + simpl. unfold abs_h. rewrite alloc_of_set_eq by (rewrite Hid; auto). now rewrite Hw.
      + intros j h' Hne Hj. unfold abs_h.
        rewrite alloc_of_set_neq; auto. rewrite Hid. intro E. eapply Hsole; eauto.
  Qed.

  Lemma list_eqb_refl l : list_eqb T teqb l l = true.
  Proof. induction l as [|x l IH]; simpl; auto. now rewrite teqb_refl. Qed.

  Lemma list_eqb_len a b : length a <> length b -> list_eqb T teqb a b = false.
  Proof.
    revert b; induction a as [|x a IH]; intros [|y b] H; simpl in *; auto; try lia.
    rewrite IH by lia. apply andb_false_r.
  Qed.

  Lemma zip_all_len a b : length a = length b -> zip_all T teqb a b = list_eqb T teqb a b.
  Proof.
    revert b; induction a as [|x a IH]; intros [|y b] H; simpl in *; auto; try lia.
    now rewrite IH by lia.
  Qed.

  (* ---------- one step ---------- *)
  Lemma step_refines st o :
    Inv st ->
    Inv (fst (step st o)) /\
    pstep (abs st) o = (abs (fst (step st o)), snd (step st o)).
  Proof.
    intros HI. destruct o as [i|i j|i|i|i|i|i|i x|i x|i j]; simpl.
    - (* New *)
      rewrite abs_length.
      destruct (Nat.ltb i (length (slots st))) eqn:El; simpl; [|auto].
      apply Nat.ltb_lt in El. split.
      + intros j h Hj. unfold get_slot in Hj. simpl in Hj.
        destruct (Nat.eq_dec j i) as [->|Hne].
        * rewrite nth_set_nth_eq in Hj by auto. inversion Hj; subst; simpl.
          split; simpl; auto. rewrite app_length; simpl; lia.
        * rewrite nth_set_nth_neq in Hj by congruence. apply view_ok_app. eapply HI; eauto.
      + rewrite abs_update.
        * simpl. unfold abs_h at 1. simpl. now rewrite alloc_of_app2.
        * intros j h' _ Hj. apply abs_h_app. eapply HI; eauto.
    - (* Clone *)
      rewrite abs_nth, abs_length.
      destruct (get_slot st i) as [h|] eqn:Hi; simpl; [|auto].
      destruct (Nat.ltb j (length (slots st))) eqn:El; simpl; [|auto].
      apply Nat.ltb_lt in El. split.
      + intros k h' Hk. unfold get_slot in Hk. simpl in Hk.
        destruct (Nat.eq_dec k j) as [->|Hne].
        * rewrite nth_set_nth_eq in Hk by auto. inversion Hk; subst. eapply HI; eauto.
        * rewrite nth_set_nth_neq in Hk by congruence. eapply HI; eauto.
      + now rewrite abs_update by auto.
    - (* Drop *)
      rewrite abs_nth.
      destruct (get_slot st i) as [h|] eqn:Hi; simpl; [|auto].
      split.
      + intros k h' Hk. unfold get_slot in Hk. simpl in Hk.
        destruct (Nat.eq_dec k i) as [->|Hne].
        * rewrite nth_set_nth_eq in Hk by (eapply nth_Some_lt; eauto). discriminate.
        * rewrite nth_set_nth_neq in Hk by congruence. eapply HI; eauto.
      + now rewrite abs_update by auto.
    - (* Len *)
      rewrite abs_nth.
      destruct (get_slot st i) as [h|] eqn:Hi; simpl; [|auto].
      rewrite (h_len_inv _ _ (HI _ _ Hi)). simpl. auto.
    - (* Iter *)
      rewrite abs_nth.
      destruct (get_slot st i) as [h|] eqn:Hi; simpl; [|auto].
      rewrite (h_iter_inv _ _ (HI _ _ Hi)). simpl. auto.
    - (* Tail *)
      rewrite abs_nth.
      destruct (get_slot st i) as [h|] eqn:Hi; simpl; [|auto].
      pose proof (HI _ _ Hi) as Hv.
      rewrite (h_len_inv _ _ Hv).
      pose proof (abs_h_inv _ _ Hv) as Ha.
      destruct (abs_h (heap st) h) as [|y t] eqn:Eabs; simpl; [auto|].
      pose proof (nth_Some_lt _ _ _ Hi) as Hilt.
      destruct Hv as [Hlt Hv].
      assert (Hnew : view_ok (heap st)
                (mkH (hid h) match hview h with
                             | Some (s, e) => Some (s + 1, e)
                             | None => Some (1, S (length t)) end) /\
              abs_h (heap st) (mkH (hid h) match hview h with
                             | Some (s, e) => Some (s + 1, e)
                             | None => Some (1, S (length t)) end) = t).
      { destruct (hview h) as [[s e]|] eqn:Ev.
        - destruct Hv as [Hse He].
          assert (Hlen : length (skipn s (alloc_of (heap st) (hid h))) = S (length t))
            by (rewrite <- Ha; reflexivity).
          rewrite skipn_length in Hlen.
          assert (Hok : view_ok (heap st) (mkH (hid h) (Some (s + 1, e)))).
          { split; simpl; auto. split; lia. }
          split; auto. rewrite (abs_h_inv _ _ Hok). simpl.
          apply skipn_S_tl with (y := y). now rewrite <- Ha.
        - assert (Hok : view_ok (heap st) (mkH (hid h) (Some (1, S (length t))))).
          { split; simpl; auto. rewrite <- Ha. simpl. split; lia. }
          split; auto. rewrite (abs_h_inv _ _ Hok). simpl. rewrite <- Ha. reflexivity. }
      destruct Hnew as [Hok Habs]. split.
      + intros k h' Hk. unfold get_slot in Hk. simpl in Hk.
        destruct (Nat.eq_dec k i) as [->|Hne].
        * rewrite nth_set_nth_eq in Hk by auto. inversion Hk; subst. exact Hok.
        * rewrite nth_set_nth_neq in Hk by congruence. eapply HI; eauto.
      + rewrite abs_update by auto. simpl. now rewrite Habs.
    - (* Head *)
      rewrite abs_nth.
      destruct (get_slot st i) as [h|] eqn:Hi; simpl; [|auto].
      pose proof (HI _ _ Hi) as Hv. split.
      + intros k h' Hk. unfold get_slot in Hk. simpl in Hk.
        destruct (Nat.eq_dec k i) as [->|Hne].
        * rewrite nth_set_nth_eq in Hk by (eapply nth_Some_lt; eauto). discriminate.
        * rewrite nth_set_nth_neq in Hk by congruence. eapply HI; eauto.
      + rewrite abs_update by auto. simpl. f_equal. f_equal.
        rewrite (abs_h_inv _ _ Hv).
        destruct (hview h) as [[s e]|].
        * generalize (alloc_of (heap st) (hid h)). intros l. revert s.
          induction l as [|a l IH]; intros [|s]; simpl; auto.
        * destruct (alloc_of (heap st) (hid h)); reflexivity.
    - (* PushFront *)
      rewrite abs_nth.
      destruct (get_slot st i) as [h|] eqn:Hi; simpl; [|auto].
      destruct (make_mut_spec st i h HI Hi)
        as (st1 & h1 & Hmm & HI1 & Habs1 & Hi1 & Hlen1 & Hsole1 & Hh1 & _).
      unfold push_front. rewrite Hmm.
      pose proof (HI1 _ _ Hi1) as Hv1.
      pose proof (abs_h_inv _ _ Hv1) as Ha1.
      destruct Hv1 as [Hlt1 Hv1].
      destruct (hview h1) as [[s e]|] eqn:Ev.
      + destruct Hv1 as [Hse He].
        destruct (Nat.eqb s 0) eqn:Es.
        * apply Nat.eqb_eq in Es; subst s.
          destruct (put_spec st1 i h1 (mkH (hid h1) (Some (0, e + 1)))
                      (x :: alloc_of (heap st1) (hid h1))
                      (x :: abs_h (heap st) h) HI1 Hi1 Hsole1 eq_refl) as [P1 P2].
          { simpl. split; lia. }
          { simpl. rewrite <- Hh1, Ha1. simpl.
            replace (e + 1 - 0) with (S e) by lia. simpl. f_equal.
            apply firstn_all2. lia. }
          simpl. split; auto. now rewrite P2, Habs1.
        * apply Nat.eqb_neq in Es.
          assert (Hb : Nat.ltb (s - 1) (length (alloc_of (heap st1) (hid h1))) = true)
            by (apply Nat.ltb_lt; lia).
          rewrite Hb.
          destruct (put_spec st1 i h1 (mkH (hid h1) (Some (s - 1, e)))
                      (set_nth (s - 1) x (alloc_of (heap st1) (hid h1)))
                      (x :: abs_h (heap st) h) HI1 Hi1 Hsole1 eq_refl) as [P1 P2].
          { simpl. rewrite length_set_nth. split; lia. }
          { simpl. rewrite <- Hh1, Ha1.
            rewrite firstn_all2 by (rewrite skipn_length, length_set_nth; lia).
            rewrite skipn_set_nth by lia. f_equal. f_equal. lia. }
          simpl. split; auto. now rewrite P2, Habs1.
      + destruct (put_spec st1 i h1 h1 (x :: alloc_of (heap st1) (hid h1))
                    (x :: abs_h (heap st) h) HI1 Hi1 Hsole1 eq_refl) as [P1 P2].
        { rewrite Ev. exact I. }
        { rewrite Ev. simpl. now rewrite <- Hh1, Ha1. }
        simpl. split; auto. now rewrite P2, Habs1.
    - (* PushBack *)
      rewrite abs_nth.
      destruct (get_slot st i) as [h|] eqn:Hi; simpl; [|auto].
      destruct (make_mut_spec st i h HI Hi)
        as (st1 & h1 & Hmm & HI1 & Habs1 & Hi1 & Hlen1 & Hsole1 & Hh1 & _).
      unfold push_back. rewrite Hmm.
      pose proof (HI1 _ _ Hi1) as Hv1.
      pose proof (abs_h_inv _ _ Hv1) as Ha1.
      destruct Hv1 as [Hlt1 Hv1].
      destruct (hview h1) as [[s e]|] eqn:Ev.
      + destruct Hv1 as [Hse He].
        rewrite (proj2 (Nat.eqb_eq e _) He).
        destruct (put_spec st1 i h1 (mkH (hid h1) (Some (s, e + 1)))
                    (alloc_of (heap st1) (hid h1) ++ [x])
                    (abs_h (heap st) h ++ [x]) HI1 Hi1 Hsole1 eq_refl) as [P1 P2].
        { simpl. rewrite app_length. simpl. split; lia. }
        { simpl. rewrite <- Hh1, Ha1.
          rewrite skipn_app.
          replace (s - length (alloc_of (heap st1) (hid h1))) with 0 by lia. simpl.
          apply firstn_all2. rewrite app_length, skipn_length. simpl. lia. }
        simpl. split; auto. now rewrite P2, Habs1.
      + destruct (put_spec st1 i h1 h1 (alloc_of (heap st1) (hid h1) ++ [x])
                    (abs_h (heap st) h ++ [x]) HI1 Hi1 Hsole1 eq_refl) as [P1 P2].
        { rewrite Ev. exact I. }
        { rewrite Ev. simpl. now rewrite <- Hh1, Ha1. }
        simpl. split; auto. now rewrite P2, Habs1.
    - (* Eqq *)
      rewrite !abs_nth.
      destruct (get_slot st i) as [a|] eqn:Hi; simpl; [|auto].
      destruct (get_slot st j) as [b|] eqn:Hj; simpl; [|auto].
      pose proof (HI _ _ Hi) as Hva. pose proof (HI _ _ Hj) as Hvb.
      rewrite (h_len_inv _ _ Hva), (h_len_inv _ _ Hvb),
              (h_iter_inv _ _ Hva), (h_iter_inv _ _ Hvb).
      destruct (Nat.eqb (length (abs_h (heap st) a)) (length (abs_h (heap st) b))) eqn:El; simpl.
      + apply Nat.eqb_eq in El.
        destruct (Nat.eqb (hid a) (hid b) && view_eqb (hview a) (hview b)) eqn:Esame; simpl.
        * split; auto. f_equal. f_equal.
          apply andb_true_iff in Esame as [E1 E2]. apply Nat.eqb_eq in E1.
          assert (abs_h (heap st) a = abs_h (heap st) b) as ->.
          { unfold abs_h. rewrite E1. f_equal.
            destruct (hview a) as [[s e]|], (hview b) as [[s' e']|]; simpl in E2; try discriminate; auto.
            apply andb_true_iff in E2 as [E3 E4].
            apply Nat.eqb_eq in E3, E4. now subst. }
          apply list_eqb_refl.
        * split; auto. now rewrite zip_all_len.
      + apply Nat.eqb_neq in El. split; auto. now rewrite list_eqb_len.
  Qed.

  Lemma Inv_init k : Inv (init T k).
  Proof.
    intros i h H. unfold get_slot, init in H. simpl in H.
    exfalso. revert i H. induction k as [|k IH]; intros [|i] H; simpl in H; try discriminate.
    eapply IH; eauto.
  Qed.

  Lemma abs_init k : abs (init T k) = pinit T k.
  Proof. unfold abs, init, pinit. simpl. induction k; simpl; auto. now f_equal. Qed.

  (* every history, from any state satisfying the invariant *)
  Theorem run_refines ops : forall st,
    Inv st ->
    Inv (fst (run st ops)) /\
    prun (abs st) ops = (abs (fst (run st ops)), snd (run st ops)).
  Proof.
    induction ops as [|o ops IH]; intros st HI; simpl; auto.
    destruct (step_refines st o HI) as [HI1 Hs].
    destruct (step st o) as [st1 x] eqn:Es. simpl in *.
    destruct (IH st1 HI1) as [HI2 Hr].
    destruct (run st1 ops) as [st2 xs] eqn:Er. simpl in *.
    rewrite Hs, Hr. auto.
  Qed.

  Theorem history_refines k ops :
    prun (pinit T k) ops = (abs (fst (run (init T k) ops)), snd (run (init T k) ops)).
  Proof.
    rewrite <- abs_init. apply run_refines. apply Inv_init.
  Qed.

  (* the specification never panics, hence neither does the implementation *)
  Lemma pstep_no_panic ps o : snd (pstep ps o) <> OPanic.
  Proof.
    destruct o; simpl;
      repeat match goal with
             | |- context [match ?x with _ => _ end] => destruct x
             end; simpl; discriminate.
  Qed.

  Lemma prun_no_panic ops : forall ps, ~ In OPanic (snd (prun ps ops)).
  Proof.
    induction ops as [|o ops IH]; intros ps; simpl; auto.
    pose proof (pstep_no_panic ps o) as Hp.
    destruct (pstep ps o) as [p1 x]. simpl in Hp.
    specialize (IH p1). destruct (prun p1 ops) as [p2 xs]. simpl in *.
    intros [H|H]; auto.
  Qed.

  Theorem history_no_panic k ops : ~ In OPanic (snd (run (init T k) ops)).
  Proof.
    pose proof (history_refines k ops) as H.
    pose proof (prun_no_panic ops (pinit T k)) as Hp.
    rewrite H in Hp. exact Hp.
  Qed.

  (* An operation on one handle never changes another: stated on a single
     step from any reachable state. [acts_on o] are the slots [o] may write. *)
  Definition acts_on (o : op) (j : nat) : Prop :=
    match o with
    | New i | Drop i | Tail i | Head i | PushFront i _ | PushBack i _ => j = i
    | Clone _ i => j = i
    | Len _ | Iter _ | Eqq _ _ => False
    end.

  Lemma pstep_frame ps o j :
    ~ acts_on o j -> nth j (fst (pstep ps o)) None = nth j ps None.
  Proof.
    intros H. destruct o; simpl in *;
      repeat match goal with
             | |- context [match ?x with _ => _ end] => destruct x
             end; simpl; auto; apply nth_set_nth_neq; auto.
  Qed.

  Theorem step_frame st o j :
    Inv st -> ~ acts_on o j ->
    nth j (abs (fst (step st o))) None = nth j (abs st) None.
  Proof.
    intros HI H. destruct (step_refines st o HI) as [_ Hs].
    rewrite <- (pstep_frame (abs st) o j H). now rewrite Hs.
  Qed.

End ListProofs.
