(* C18 — executable instance (elements are N) and the observation printer used
   by the correspondence check. *)
From NV Require Import Base.Show ListM.Model.

Definition repr_t : Type := option (nat * option (nat * nat) * nat * nat).

Fixpoint first_pointing (id : nat) (sl : list (option handle)) (i : nat) : nat :=
  match sl with
  | [] => i
  | o :: r => if points_to id o then i else first_pointing id r (S i)
  end.

Definition repr {T} (st : store T) : list repr_t :=
  map (fun o : option handle =>
         match o with
         | None => None
         | Some h => Some (first_pointing (hid h) (slots st) 0, hview h,
                           strong (slots st) (hid h),
                           length (alloc_of T (heap st) (hid h)))
         end) (slots st).

Definition show_repr1 (r : repr_t) : string :=
  match r with
  | None => "-"
  | Some (c, v, s, a) =>
      (show_nat c ++ "/" ++
      match v with None => "N" | Some (x, y) => show_nat x ++ "-" ++ show_nat y end
      ++ "/" ++ show_nat s ++ "/" ++ show_nat a)%string
  end.

Definition show_out (o : out N) : string :=
  match o with
  | OUnit => "u" | ODead => "x"
  | ONat n => ("n:" ++ show_nat n)%string
  | OList l => ("l:" ++ join "." (map show_N l))%string
  | OOpt None => "o:-"
  | OOpt (Some v) => ("o:" ++ show_N v)%string
  | OBool b => ("b:" ++ show_bool b)%string
  | OErrEmpty => "E" | OPanic => "P"
  end.

Definition show_contents (hp : list (list N)) (o : option handle) : string :=
  match o with
  | None => "-"
  | Some h => match h_iter N hp h with
              | Some l => ("[" ++ join "." (map show_N l) ++ "]")%string
              | None => "P"
              end
  end.

Definition is_panic (o : out N) : bool := match o with OPanic => true | _ => false end.

(* run, recording after each step the output and the representation of every
   slot; stops after a panic like the harness does *)
Fixpoint run_obs (st : store N) (ops : list (op N)) : list string :=
  match ops with
  | [] => []
  | o :: r =>
      let (st1, x) := step N N.eqb st o in
      (show_out x ++ "|" ++ join " " (map show_repr1 (repr st1)) ++ "|"
         ++ join " " (map (show_contents (heap st1)) (slots st1)))%string
        :: (if is_panic x then [] else run_obs st1 r)
  end.

Definition show_case (k : nat) (ops : list (op N)) : string :=
  join ";" (run_obs (init N k) ops).

(* the pure specification, printed the same way (outputs only) *)
Fixpoint prun_obs (ps : pstore N) (ops : list (op N)) : list string :=
  match ops with
  | [] => []
  | o :: r => let (p1, x) := pstep N N.eqb ps o in show_out x :: prun_obs p1 r
  end.
