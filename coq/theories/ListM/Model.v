(* C18 — model of numbat/src/list.rs (NumbatList<T>): an Arc<VecDeque<T>> shared
   between handles plus an optional (start,end) view per handle.

   heap   : allocations, indexed by allocation id (append-only in the model; an
            allocation nobody points to any more is unobservable)
   slots  : the live handles (None = dropped / moved-out slot)
   strong : Arc::strong_count = number of live handles pointing to the id
            (there are no Weak references in list.rs).

   Every function below is a literal port of the Rust function of the same
   name; out-of-bounds VecDeque indexing and usize underflow are explicit
   [OPanic] outcomes.  Nothing here is proved: proofs live in Proofs.v. *)
From Coq Require Export List Arith Bool Lia.
Export ListNotations.

Section ListModel.
  Variable T : Type.
  Variable teqb : T -> T -> bool.

  Record handle := mkH { hid : nat; hview : option (nat * nat) }.

  Record store := mkS { heap : list (list T); slots : list (option handle) }.

  Inductive op :=
  | New (i : nat)                 (* NumbatList::new() stored in slot i *)
  | Clone (i j : nat)             (* slot j := slot i .clone() *)
  | Drop (i : nat)                (* drop(slot i) *)
  | Len (i : nat)
  | Iter (i : nat)                (* iter().cloned().collect() *)
  | Tail (i : nat)                (* slot i .tail() in place *)
  | Head (i : nat)                (* slot i .head() — consumes the handle *)
  | PushFront (i : nat) (x : T)
  | PushBack (i : nat) (x : T)
  | Eqq (i j : nat).              (* slot i == slot j *)

  Inductive out :=
  | OUnit | ODead | ONat (n : nat) | OList (l : list T) | OOpt (o : option T)
  | OBool (b : bool) | OErrEmpty | OPanic.

  Definition init (k : nat) : store := mkS [] (repeat None k).

  (* -------- helpers -------- *)
  Fixpoint set_nth {A} (n : nat) (x : A) (l : list A) : list A :=
    match l, n with
    | [], _ => []
    | _ :: t, 0 => x :: t
    | h :: t, S m => h :: set_nth m x t
    end.

  Definition get_slot (st : store) (i : nat) : option handle :=
    nth i (slots st) None.

  Definition alloc_of (hp : list (list T)) (id : nat) : list T := nth id hp [].

  Definition points_to (id : nat) (o : option handle) : bool :=
    match o with Some h => Nat.eqb (hid h) id | None => false end.

  (* Arc::strong_count *)
  Definition strong (sl : list (option handle)) (id : nat) : nat :=
    length (filter (points_to id) sl).

  (* NumbatList::len — usize subtraction: underflow panics (debug) *)
  Definition h_len (hp : list (list T)) (h : handle) : option nat :=
    match hview h with
    | Some (s, e) => if Nat.leb s e then Some (e - s) else None
    | None => Some (length (alloc_of hp (hid h)))
    end.

  (* NumbatList::iter: skip(start).take(end-start) *)
  Definition h_iter (hp : list (list T)) (h : handle) : option (list T) :=
    let a := alloc_of hp (hid h) in
    match hview h with
    | Some (s, e) => if Nat.leb s e then Some (firstn (e - s) (skipn s a)) else None
    | None => Some a
    end.

  Fixpoint list_eqb (a b : list T) : bool :=
    match a, b with
    | [], [] => true
    | x :: a', y :: b' => teqb x y && list_eqb a' b'
    | _, _ => false
    end.

  (* iter().zip(other.iter()).all(==) : zip stops at the shorter one *)
  Fixpoint zip_all (a b : list T) : bool :=
    match a, b with
    | x :: a', y :: b' => teqb x y && zip_all a' b'
    | _, _ => true
    end.

  Definition view_eqb (v w : option (nat * nat)) : bool :=
    match v, w with
    | None, None => true
    | Some (a, b), Some (c, d) => Nat.eqb a c && Nat.eqb b d
    | _, _ => false
    end.

  (* make_mut: clone the viewed window into a fresh allocation iff shared *)
  Definition make_mut (st : store) (i : nat) (h : handle)
    : option (store * handle) :=
    if Nat.eqb (strong (slots st) (hid h)) 1 then Some (st, h)
    else
      match h_iter (heap st) h with
      | None => None
      | Some w =>
          let h' := mkH (length (heap st)) None in
          Some (mkS (heap st ++ [w]) (set_nth i (Some h') (slots st)), h')
      end.

  Definition put (st : store) (i : nat) (h : handle) (a : list T) : store :=
    mkS (set_nth (hid h) a (heap st)) (set_nth i (Some h) (slots st)).

  Definition push_front (st : store) (i : nat) (h0 : handle) (x : T)
    : option store :=
    match make_mut st i h0 with
    | None => None
    | Some (st1, h) =>
        let inner := alloc_of (heap st1) (hid h) in
        match hview h with
        | Some (s, e) =>
            if Nat.eqb s 0 then
              Some (put st1 i (mkH (hid h) (Some (0, e + 1))) (x :: inner))
            else
              (* *start -= 1; inner[*start] = element *)
              if Nat.ltb (s - 1) (length inner) then
                Some (put st1 i (mkH (hid h) (Some (s - 1, e)))
                          (set_nth (s - 1) x inner))
              else None
        | None => Some (put st1 i h (x :: inner))
        end
    end.

  Definition push_back (st : store) (i : nat) (h0 : handle) (x : T)
    : option store :=
    match make_mut st i h0 with
    | None => None
    | Some (st1, h) =>
        let inner := alloc_of (heap st1) (hid h) in
        match hview h with
        | Some (s, e) =>
            if Nat.eqb e (length inner) then
              Some (put st1 i (mkH (hid h) (Some (s, e + 1))) (inner ++ [x]))
            else
              (* *end += 1; inner[*end] = element   (kept as written) *)
              if Nat.ltb (e + 1) (length inner) then
                Some (put st1 i (mkH (hid h) (Some (s, e + 1)))
                          (set_nth (e + 1) x inner))
              else None
        | None => Some (put st1 i h (inner ++ [x]))
        end
    end.

  Definition step (st : store) (o : op) : store * out :=
    match o with
    | New i =>
        if Nat.ltb i (length (slots st)) then
          (mkS (heap st ++ [[]])
               (set_nth i (Some (mkH (length (heap st)) None)) (slots st)), OUnit)
        else (st, ODead)
    | Clone i j =>
        match get_slot st i with
        | Some h =>
            if Nat.ltb j (length (slots st)) then
              (mkS (heap st) (set_nth j (Some h) (slots st)), OUnit)
            else (st, ODead)
        | None => (st, ODead)
        end
    | Drop i =>
        match get_slot st i with
        | Some _ => (mkS (heap st) (set_nth i None (slots st)), OUnit)
        | None => (st, ODead)
        end
    | Len i =>
        match get_slot st i with
        | Some h => match h_len (heap st) h with
                    | Some n => (st, ONat n) | None => (st, OPanic) end
        | None => (st, ODead)
        end
    | Iter i =>
        match get_slot st i with
        | Some h => match h_iter (heap st) h with
                    | Some l => (st, OList l) | None => (st, OPanic) end
        | None => (st, ODead)
        end
    | Tail i =>
        match get_slot st i with
        | Some h =>
            match h_len (heap st) h with
            | None => (st, OPanic)
            | Some 0 => (st, OErrEmpty)
            | Some n =>
                let v := match hview h with
                         | Some (s, e) => Some (s + 1, e)
                         | None => Some (1, n)
                         end in
                (mkS (heap st) (set_nth i (Some (mkH (hid h) v)) (slots st)), OUnit)
            end
        | None => (st, ODead)
        end
    | Head i =>
        match get_slot st i with
        | Some h =>
            let front := match hview h with Some (s, _) => s | None => 0 end in
            (* try_unwrap → swap_remove_front(front) / shared.get(front).cloned():
               both return the element at index [front] of the allocation *)
            (mkS (heap st) (set_nth i None (slots st)),
             OOpt (nth_error (alloc_of (heap st) (hid h)) front))
        | None => (st, ODead)
        end
    | PushFront i x =>
        match get_slot st i with
        | Some h => match push_front st i h x with
                    | Some st' => (st', OUnit) | None => (st, OPanic) end
        | None => (st, ODead)
        end
    | PushBack i x =>
        match get_slot st i with
        | Some h => match push_back st i h x with
                    | Some st' => (st', OUnit) | None => (st, OPanic) end
        | None => (st, ODead)
        end
    | Eqq i j =>
        match get_slot st i, get_slot st j with
        | Some a, Some b =>
            match h_len (heap st) a, h_len (heap st) b,
                  h_iter (heap st) a, h_iter (heap st) b with
            | Some la, Some lb, Some ia, Some ib =>
                if negb (Nat.eqb la lb) then (st, OBool false)
                else if Nat.eqb (hid a) (hid b) && view_eqb (hview a) (hview b)
                     then (st, OBool true)
                     else (st, OBool (zip_all ia ib))
            | _, _, _, _ => (st, OPanic)
            end
        | _, _ => (st, ODead)
        end
    end.

  Fixpoint run (st : store) (ops : list op) : store * list out :=
    match ops with
    | [] => (st, [])
    | o :: r => let (st1, x) := step st o in
                let (st2, xs) := run st1 r in (st2, x :: xs)
    end.

  (* -------- the specification: plain immutable sequences -------- *)
  Definition pstore := list (option (list T)).

  Definition pinit (k : nat) : pstore := repeat None k.

  Definition pstep (ps : pstore) (o : op) : pstore * out :=
    let get i := nth i ps None in
    match o with
    | New i => if Nat.ltb i (length ps) then (set_nth i (Some []) ps, OUnit)
               else (ps, ODead)
    | Clone i j =>
        match get i with
        | Some l => if Nat.ltb j (length ps) then (set_nth j (Some l) ps, OUnit)
                    else (ps, ODead)
        | None => (ps, ODead)
        end
    | Drop i => match get i with
                | Some _ => (set_nth i None ps, OUnit) | None => (ps, ODead) end
    | Len i => match get i with
               | Some l => (ps, ONat (length l)) | None => (ps, ODead) end
    | Iter i => match get i with
                | Some l => (ps, OList l) | None => (ps, ODead) end
    | Tail i => match get i with
                | Some [] => (ps, OErrEmpty)
                | Some (_ :: t) => (set_nth i (Some t) ps, OUnit)
                | None => (ps, ODead) end
    | Head i => match get i with
                | Some l => (set_nth i None ps, OOpt (hd_error l))
                | None => (ps, ODead) end
    | PushFront i x => match get i with
                       | Some l => (set_nth i (Some (x :: l)) ps, OUnit)
                       | None => (ps, ODead) end
    | PushBack i x => match get i with
                      | Some l => (set_nth i (Some (l ++ [x])) ps, OUnit)
                      | None => (ps, ODead) end
    | Eqq i j => match get i, get j with
                 | Some a, Some b => (ps, OBool (list_eqb a b))
                 | _, _ => (ps, ODead) end
    end.

  Fixpoint prun (ps : pstore) (ops : list op) : pstore * list out :=
    match ops with
    | [] => (ps, [])
    | o :: r => let (p1, x) := pstep ps o in
                let (p2, xs) := prun p1 r in (p2, x :: xs)
    end.

  (* abstraction: each live handle denotes the window of its allocation *)
  Definition window (a : list T) (v : option (nat * nat)) : list T :=
    match v with
    | None => a
    | Some (s, e) => firstn (e - s) (skipn s a)
    end.

  Definition abs_h (hp : list (list T)) (h : handle) : list T :=
    window (alloc_of hp (hid h)) (hview h).

  Definition abs (st : store) : pstore :=
    map (option_map (abs_h (heap st))) (slots st).

End ListModel.

Arguments New {T}. Arguments Clone {T}. Arguments Drop {T}. Arguments Len {T}.
Arguments Iter {T}. Arguments Tail {T}. Arguments Head {T}.
Arguments PushFront {T}. Arguments PushBack {T}. Arguments Eqq {T}.
Arguments OUnit {T}. Arguments ODead {T}. Arguments ONat {T}. Arguments OList {T}.
Arguments OOpt {T}. Arguments OBool {T}. Arguments OErrEmpty {T}. Arguments OPanic {T}.
Arguments mkS {T}. Arguments heap {T}. Arguments slots {T}.
