(* C15 — temperature conversion functions in call syntax.  Since the repair of the echo, from_celsius /
   celsius … are written in their sugar form (`5 °C`, `x -> °C`) only where the printer prints in plain
   mode (top level, call arguments, list / struct / interpolation items, the left of `->`); as operands
   they are written as calls.  `okm true e`: no sugar-named one-argument call sits in such a position.
   For these expressions the echo is read back as exactly the tree the expression was elaborated from:
   the restriction "no temperature sugar" of C15_roundtrip_exact shrinks to the positions where the
   sugar form is really printed. *)
From Coq Require Import List NArith ZArith Bool Arith Lia.
From NV Require Import Syntax.Token Syntax.Ast Syntax.StmtAst Syntax.StrEsc Syntax.StrEscProofs Syntax.Parser
  Syntax.Grammar Syntax.ParserProofs Syntax.GrammarProofs Syntax.TypedPrinter Syntax.TypedPrinterProofs.
Import ListNotations.
Local Open Scope nat_scope.
Local Arguments Nat.leb : simpl never.
Local Arguments Nat.ltb : simpl never.

Definition plainb (m : pmode) : bool := match m with Plain => true | _ => false end.
Definition one_arg {A} (l : list A) : bool := match l with [_] => true | _ => false end.

(* plain = the expression is printed in plain mode *)
Fixpoint okm (plain : bool) (e : texpr) : bool :=
  match e with
  | XScalar _ d => no_underscore d
  | XIdent _ | XUnit _ | XBool _ | XString _ | XHole => true
  | XNeg a | XFact _ a | XNot a | XField a _ => okm false a
  | XBin ConvertTo a b => okm true a && okm (negb (is_if b || is_conv b || is_sugar b)) b
  | XBin _ a b => okm false a && okm false b
  | XCall name args =>
      (negb (plain && one_arg args) || none_sugar (call_sugar name)) && forallb (okm true) args
  | XCallable callee args =>
      okm false callee && forallb (okm true) args
      && match callee with
         | XIdent name => negb (plain && one_arg args) || none_sugar (conversion_sugar name)
         | _ => true
         end
  | XInterp _ items => forallb (fun it => okm true (fst (fst it))) items
  | XIf c t f => okm false c && okm false t && okm false f
  | XList es => forallb (okm true) es
  | XStruct _ fields => forallb (fun fe => okm true (snd fe)) fields
  end.

Definition isbin (e : texpr) : bool := match e with XBin _ _ _ => true | _ => false end.

Lemma okm_bin : forall e b1 b2, isbin e = true -> okm b1 e = okm b2 e.
Proof. intros e b1 b2 H. destruct e; try discriminate. reflexivity. Qed.

Lemma okm_weaken : forall e, okm true e = true -> okm false e = true.
Proof.
  intros e H. destruct e; try exact H.
  - cbn [okm] in *. apply andb_prop in H. destruct H as [_ H]. cbn [andb negb orb]. exact H.
  - cbn [okm] in *. apply andb_prop in H. destruct H as [H H3]. rewrite H. destruct e; try reflexivity.
Qed.

Lemma power_bin : forall e, is_power e = true -> isbin e = true.
Proof. destruct e; try discriminate; reflexivity. Qed.
Lemma mul_bin : forall e, is_mul e = true -> isbin e = true.
Proof. destruct e; try discriminate; reflexivity. Qed.
Lemma add_bin : forall e, is_add e = true -> isbin e = true.
Proof. destruct e; try discriminate; reflexivity. Qed.

(* a child printed plain only if it is an operator node, else liberal *)
Lemma desugar_pl : forall (c : bool) x r,
  (forall m, okm (plainb m) x = true -> desugar (echo_tree m x) = r) ->
  okm false x = true -> (c = true -> isbin x = true) ->
  desugar (if c then echo_tree Plain x else echo_tree Liberal x) = r.
Proof.
  intros c x r H Hx Hc. destruct c.
  - apply H. cbn [plainb]. rewrite (okm_bin x true false (Hc eq_refl)). exact Hx.
  - apply H. exact Hx.
Qed.

Lemma map_desugar_echo_ok : forall (args : list texpr),
  (forall a, In a args -> desugar (echo_tree Plain a) = erase a) ->
  map desugar (map (echo_tree Plain) args) = map erase args.
Proof. intros args H. rewrite map_map. apply map_ext_in. exact H. Qed.

Theorem desugar_echo_sugar : forall n e, tsize e < n ->
  forall m, okm (plainb m) e = true -> desugar (echo_tree m e) = erase e.
Proof.
  induction n; intros e Hs m Hx; [lia|].
  destruct e; simpl in Hs.
  - cbn [okm] in Hx. destruct m; cbn [echo_tree]; try (destruct negative; cbn [desugar]); apply desugar_num_tree; exact Hx.
  - reflexivity.
  - reflexivity.
  - cbn [okm] in Hx. pose proof (IHn e ltac:(lia) Parens Hx) as D. destruct m; cbn [echo_tree wrapm desugar erase]; rewrite D; reflexivity.
  - cbn [okm] in Hx. pose proof (IHn e ltac:(lia) Parens Hx) as D. destruct m; cbn [echo_tree wrapm desugar erase]; rewrite D; reflexivity.
  - cbn [okm] in Hx. pose proof (IHn e ltac:(lia) Parens Hx) as D. destruct m; cbn [echo_tree wrapm desugar erase]; rewrite D; reflexivity.
  - (* XBin *)
    rewrite desugar_bin_modes.
    assert (Ia : forall m', okm (plainb m') e1 = true -> desugar (echo_tree m' e1) = erase e1)
      by (intros; apply IHn; [lia|assumption]).
    assert (Ib : forall m', okm (plainb m') e2 = true -> desugar (echo_tree m' e2) = erase e2)
      by (intros; apply IHn; [lia|assumption]).
    destruct op; cbn [okm] in Hx; apply andb_prop in Hx; destruct Hx as [H1 H2].
    + (* Add *)
      cbn [echo_tree erase desugar binop_of].
      rewrite (desugar_pl _ e1 _ Ia H1), (desugar_pl _ e2 _ Ib H2); [reflexivity| |].
      * intros C. apply orb_prop in C. destruct C as [C|C]; [apply orb_prop in C; destruct C as [C|C]|].
        -- apply power_bin; exact C.
        -- apply mul_bin; exact C.
        -- unfold bare_add in C. apply andb_prop in C. destruct C as [C _]. apply andb_prop in C. destruct C as [C _].
           apply add_bin; exact C.
      * intros C. apply orb_prop in C. destruct C as [C|C]; [apply orb_prop in C; destruct C as [C|C]|].
        -- apply power_bin; exact C.
        -- apply mul_bin; exact C.
        -- apply add_bin; exact C.
    + (* Sub *)
      cbn [echo_tree erase desugar binop_of].
      rewrite (desugar_pl _ e1 _ Ia H1), (desugar_pl _ e2 _ Ib H2); [reflexivity| |];
        intros C; apply orb_prop in C; destruct C as [C|C]; [apply power_bin|apply mul_bin|apply power_bin|apply mul_bin]; exact C.
    + (* Mul *)
      assert (Generic :
        desugar (SBin TMultiply (if is_power e1 || is_mul e1 then echo_tree Plain e1 else echo_tree Liberal e1)
                                (if is_power e2 || bare_mul e1 e2 then echo_tree Plain e2 else echo_tree Liberal e2))
        = EBin Mul (erase e1) (erase e2)).
      { cbn [desugar binop_of]. rewrite (desugar_pl _ e1 _ Ia H1), (desugar_pl _ e2 _ Ib H2); [reflexivity| |].
        - intros C. apply orb_prop in C. destruct C as [C|C]; [apply power_bin; exact C|].
          unfold bare_mul in C. apply andb_prop in C. destruct C as [C _]. apply mul_bin; exact C.
        - intros C. apply orb_prop in C. destruct C as [C|C]; [apply power_bin|apply mul_bin]; exact C. }
      cbn [echo_tree erase].
      destruct e1; try exact Generic. destruct e2; try exact Generic;
        cbn [desugar]; cbn [okm] in H1; rewrite desugar_num_tree by exact H1; reflexivity.
    + (* Div *)
      cbn [echo_tree erase desugar binop_of].
      rewrite (desugar_pl _ e1 _ Ia H1), (desugar_pl _ e2 _ Ib H2); [reflexivity| |].
      * intros C. apply power_bin; exact C.
      * intros C. apply orb_prop in C. destruct C as [C|C]; [apply power_bin|apply mul_bin]; exact C.
    + (* Power *)
      cbn [echo_tree erase].
      destruct (is_two e2); [|destruct (is_three e2)]; cbn [desugar]; rewrite ?(Ia Parens H1), ?(Ib Parens H2); reflexivity.
    + (* ConvertTo *)
      cbn [echo_tree erase desugar binop_of].
      assert (A : desugar (if is_if e1 then echo_tree Parens e1 else echo_tree Plain e1) = erase e1).
      { destruct (is_if e1); [apply Ia; apply okm_weaken; exact H1|apply Ia; exact H1]. }
      assert (B : desugar (if is_if e2 || is_conv e2 || is_sugar e2 then echo_tree Parens e2 else echo_tree Plain e2) = erase e2).
      { destruct (is_if e2 || is_conv e2 || is_sugar e2); apply Ib; exact H2. }
      rewrite A, B. reflexivity.
    + cbn [echo_tree erase desugar binop_of token_of_binop]. rewrite (Ia Parens H1), (Ib Parens H2). reflexivity.
    + cbn [echo_tree erase desugar binop_of token_of_binop]. rewrite (Ia Parens H1), (Ib Parens H2). reflexivity.
    + cbn [echo_tree erase desugar binop_of token_of_binop]. rewrite (Ia Parens H1), (Ib Parens H2). reflexivity.
    + cbn [echo_tree erase desugar binop_of token_of_binop]. rewrite (Ia Parens H1), (Ib Parens H2). reflexivity.
    + cbn [echo_tree erase desugar binop_of token_of_binop]. rewrite (Ia Parens H1), (Ib Parens H2). reflexivity.
    + cbn [echo_tree erase desugar binop_of token_of_binop]. rewrite (Ia Parens H1), (Ib Parens H2). reflexivity.
    + cbn [echo_tree erase desugar binop_of token_of_binop]. rewrite (Ia Parens H1), (Ib Parens H2). reflexivity.
    + cbn [echo_tree erase desugar binop_of token_of_binop]. rewrite (Ia Parens H1), (Ib Parens H2). reflexivity.
  - (* XCall *)
    cbn [okm] in Hx. apply andb_prop in Hx. destruct Hx as [Hn Hargs].
    assert (HA : forall a, In a args -> desugar (echo_tree Plain a) = erase a).
    { intros a Ha. apply IHn. pose proof (tsize_in a args Ha). lia. eapply forallb_forall in Hargs; eauto. }
    assert (Generic : desugar (SCall (SIdent name) (map (echo_tree Plain) args)) = erase (XCall name args)).
    { cbn [desugar erase]. rewrite map_desugar_echo_ok by exact HA. reflexivity. }
    cbn [echo_tree].
    destruct (call_sugar name) as [s|] eqn:Cs; [|destruct args as [|a0 [|a1 r]]; destruct m; exact Generic].
    destruct args as [|a0 [|a1 r]]; try (destruct m; exact Generic).
    destruct m; try exact Generic. cbn [plainb one_arg andb negb orb none_sugar] in Hn. discriminate.
  - (* XCallable *)
    cbn [okm] in Hx. apply andb_prop in Hx. destruct Hx as [Hx Hsug]. apply andb_prop in Hx. destruct Hx as [Hc Hargs].
    assert (HA : forall a, In a args -> desugar (echo_tree Plain a) = erase a).
    { intros a Ha. apply IHn. pose proof (tsize_in a args Ha). lia. eapply forallb_forall in Hargs; eauto. }
    assert (Generic : desugar (SCall (echo_tree Parens e) (map (echo_tree Plain) args)) = erase (XCallable e args)).
    { cbn [desugar erase]. rewrite (IHn e ltac:(lia) Parens Hc), map_desugar_echo_ok by exact HA. reflexivity. }
    cbn [echo_tree].
    destruct e; try exact Generic.
    destruct args as [|a0 [|a1 r]]; try exact Generic. destruct m; try exact Generic.
    destruct (conversion_sugar name) as [s|]; [|exact Generic].
    cbn [plainb one_arg andb negb orb none_sugar] in Hsug. discriminate.
  - destruct m; reflexivity.
  - destruct m; cbn [echo_tree desugar erase]; rewrite string_escape_roundtrip; reflexivity.
  - (* XInterp *)
    rewrite echo_interp. cbn [desugar erase]. rewrite string_escape_roundtrip_delim. cbn [okm] in Hx.
    f_equal. f_equal. f_equal.
    assert (HA : forall a f s, In (a, f, s) items -> desugar (echo_tree Plain a) = erase a).
    { intros a f s Ha. apply IHn; [pose proof (tsize_in_items a f s _ Ha); lia|].
      eapply forallb_forall in Hx; [|exact Ha]. exact Hx. }
    clear - HA. induction items as [|[[a f] s] r IH]; [reflexivity|].
    cbn [echo_items flat_map fst snd]. rewrite string_escape_roundtrip_delim.
    rewrite (HA a f s (or_introl eq_refl)). rewrite IH; [reflexivity|].
    intros b g t Hb. apply (HA b g t). right. exact Hb.
  - (* XIf *)
    cbn [okm] in Hx. apply andb_prop in Hx. destruct Hx as [Hx H3]. apply andb_prop in Hx. destruct Hx as [H1 H2].
    pose proof (IHn e1 ltac:(lia) Parens H1) as D1. pose proof (IHn e2 ltac:(lia) Parens H2) as D2.
    pose proof (IHn e3 ltac:(lia) Parens H3) as D3.
    destruct m; cbn [echo_tree wrapm desugar erase]; rewrite D1, D2, D3; reflexivity.
  - cbn [okm] in Hx. pose proof (IHn e ltac:(lia) Parens Hx) as D. destruct m; cbn [echo_tree desugar erase]; rewrite D; reflexivity.
  - destruct m; reflexivity.
  - (* XList *)
    cbn [okm] in Hx.
    assert (HA : forall a, In a es -> desugar (echo_tree Plain a) = erase a).
    { intros a Ha. apply IHn. pose proof (tsize_in a es Ha). lia. eapply forallb_forall in Hx; eauto. }
    destruct m; cbn [echo_tree desugar erase]; rewrite map_desugar_echo_ok by exact HA; reflexivity.
  - (* XStruct *)
    cbn [okm] in Hx.
    assert (G : map (fun fe : str * sx => (fst fe, desugar (snd fe)))
                  (map (fun fe : str * texpr => (fst fe, echo_tree Plain (snd fe))) fields)
                = map (fun fe : str * texpr => (fst fe, erase (snd fe))) fields).
    { rewrite map_map. apply map_ext_in. intros [f a] Ha. simpl. f_equal.
      apply IHn; [pose proof (tsize_in_fields f a fields Ha); lia|].
      eapply forallb_forall in Hx; [|exact Ha]. exact Hx. }
    destruct m; cbn [echo_tree desugar erase]; rewrite G; reflexivity.
Qed.

(* the echo of a printable expression whose temperature conversion functions are all printed in call
   syntax is read back as exactly the tree it was elaborated from *)
Theorem echo_roundtrip_exact_sugar : forall e, printable_t e = true -> okm true e = true ->
  parse (pp e) = Ok [StExpr (erase e)] [].
Proof.
  intros e Hp Hx. rewrite (echo_roundtrip e Hp). unfold reread.
  rewrite (desugar_echo_sugar (S (tsize e)) e ltac:(lia) Plain Hx). reflexivity.
Qed.
