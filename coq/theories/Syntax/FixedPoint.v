(* C15 — the fixed-point clause for expressions: re-elaborating the tree that is read back from
   the echo gives the same typed tree, hence the same echo.  Elaboration is modelled by what
   decides the shape of the typed tree: which names are units and which are functions in the
   session (`lift`).  *)
From Coq Require Import List NArith ZArith Bool Arith Lia.
From NV Require Import Syntax.Token Syntax.Ast Syntax.StmtAst Syntax.StrEsc Syntax.Parser Syntax.Grammar
     Syntax.ParserProofs Syntax.TypedPrinter Syntax.TypedPrinterProofs.
Import ListNotations.
Local Open Scope nat_scope.

Section Lift.
  Variables is_unit is_fn : str -> bool.

  (* the typed tree an untyped tree elaborates to, as far as the printer can see *)
  Fixpoint lift (e : expr) : texpr :=
    match e with
    | EScalar d => XScalar false d
    | EScalarExp k => XScalar false (if Z.eqb k 2 then [50%N] else if Z.eqb k 3 then [51%N] else [])
    | EIdent n => if is_unit n then XUnit n else XIdent n
    | EHole => XHole
    | EBool b => XBool b
    | EString s => XString s
    | EInterp parts =>
        let si :=
          (fix go (ps : list (ipart expr)) : str * list (texpr * option str * str) :=
             match ps with
             | [] => ([], [])
             | PFixed s :: r => let (s0, it) := go r in (s ++ s0, it)
             | PExpr a f :: r => let (s0, it) := go r in ([], (lift a, f, s0) :: it)
             end) parts in
        XInterp (fst si) (snd si)
    | EUn Negate a => XNeg (lift a)
    | EUn (Factorial n) a => XFact (pred n) (lift a)
    | EUn LogicalNeg a => XNot (lift a)
    | EBin op a b => XBin op (lift a) (lift b)
    | ECall c args =>
        match c with
        | EIdent n => if is_fn n then XCall n (map lift args) else XCallable (lift c) (map lift args)
        | _ => XCallable (lift c) (map lift args)
        end
    | EField a n => XField (lift a) n
    | EIf c t f => XIf (lift c) (lift t) (lift f)
    | EList es => XList (map lift es)
    | EStruct n fields => XStruct n (map (fun fe => (fst fe, lift (snd fe))) fields)
    end.

  (* the typed tree agrees with the session about its names; no negative literal *)
  Fixpoint consistent (e : texpr) : bool :=
    match e with
    | XScalar neg _ => negb neg
    | XIdent n => negb (is_unit n)
    | XUnit n => is_unit n
    | XNeg a | XFact _ a | XNot a | XField a _ => consistent a
    | XBin _ a b => consistent a && consistent b
    | XCall name args => is_fn name && forallb consistent args
    | XCallable callee args =>
        consistent callee && forallb consistent args
        && match callee with XIdent n | XUnit n => negb (is_fn n) | _ => true end
    | XBool _ | XString _ | XHole => true
    | XInterp _ items => forallb (fun it => consistent (fst (fst it))) items
    | XIf c t f => consistent c && consistent t && consistent f
    | XList es => forallb consistent es
    | XStruct _ fields => forallb (fun fe => consistent (snd fe)) fields
    end.

  Lemma is_two_eq : forall b, is_two b = true -> b = XScalar false [50%N].
  Proof.
    intros b H. destruct b; try discriminate. destruct negative; try discriminate.
    destruct digits as [|c [|c2 r]]; try discriminate.
    - simpl in H. destruct c; try discriminate. repeat (destruct p; try discriminate). reflexivity.
    - simpl in H. destruct c; try discriminate. repeat (destruct p; try discriminate).
  Qed.
  Lemma is_three_eq : forall b, is_three b = true -> b = XScalar false [51%N].
  Proof.
    intros b H. destruct b; try discriminate. destruct negative; try discriminate.
    destruct digits as [|c [|c2 r]]; try discriminate.
    - simpl in H. destruct c; try discriminate. repeat (destruct p; try discriminate). reflexivity.
    - simpl in H. destruct c; try discriminate. repeat (destruct p; try discriminate).
  Qed.

  Lemma map_lift_erase : forall (args : list texpr),
    (forall a, In a args -> lift (erase a) = a) -> map lift (map erase args) = args.
  Proof.
    intros args H. rewrite map_map. rewrite <- (map_id args) at 2. apply map_ext_in. exact H.
  Qed.

  (* the shape of the parts list is recovered: fixed texts that were dropped because they are empty
     come back as empty texts *)
  Fixpoint lift_parts (ps : list (ipart expr)) : str * list (texpr * option str * str) :=
    match ps with
    | [] => ([], [])
    | PFixed s :: r => let (s0, it) := lift_parts r in (s ++ s0, it)
    | PExpr a f :: r => let (s0, it) := lift_parts r in ([], (lift a, f, s0) :: it)
    end.
  Lemma lift_interp : forall parts, lift (EInterp parts) = XInterp (fst (lift_parts parts)) (snd (lift_parts parts)).
  Proof. reflexivity. Qed.

  Lemma lift_parts_fixed : forall s l,
    lift_parts (filter nonempty_part (PFixed s :: l))
    = (s ++ fst (lift_parts (filter nonempty_part l)), snd (lift_parts (filter nonempty_part l))).
  Proof.
    intros s l. cbn [filter]. destruct s as [|c s']; cbn [nonempty_part].
    - cbn [app]. destruct (lift_parts (filter nonempty_part l)); reflexivity.
    - cbn [lift_parts]. destruct (lift_parts (filter nonempty_part l)); reflexivity.
  Qed.

  Lemma lift_parts_expr : forall a f l,
    lift_parts (filter nonempty_part (PExpr a f :: l))
    = ([], (lift a, f, fst (lift_parts (filter nonempty_part l))) :: snd (lift_parts (filter nonempty_part l))).
  Proof.
    intros a f l. cbn [filter nonempty_part lift_parts].
    destruct (lift_parts (filter nonempty_part l)); reflexivity.
  Qed.

  Lemma lift_parts_items : forall items,
    (forall a f s, In (a, f, s) items -> lift (erase a) = a) ->
    lift_parts (filter nonempty_part
      (flat_map (fun it : texpr * option str * str =>
                   [PExpr (erase (fst (fst it))) (snd (fst it)); PFixed (snd it)]) items))
    = ([], items).
  Proof.
    induction items as [|[[a f] s] r IH]; intros H; [reflexivity|].
    cbn [flat_map fst snd app].
    rewrite lift_parts_expr, lift_parts_fixed.
    rewrite IH by (intros b g t Hb; apply (H b g t); right; exact Hb).
    cbn [fst snd]. rewrite app_nil_r. rewrite (H a f s (or_introl eq_refl)). reflexivity.
  Qed.

  Theorem lift_erase : forall n e, tsize e < n -> consistent e = true -> lift (erase e) = e.
  Proof.
    induction n; intros e Hs Hc; [lia|].
    destruct e; simpl in Hs, Hc.
    - destruct negative; [discriminate|reflexivity].
    - simpl. apply negb_true_iff in Hc. rewrite Hc. reflexivity.
    - simpl. rewrite Hc. reflexivity.
    - simpl. rewrite (IHn e ltac:(lia) Hc). reflexivity.
    - simpl. rewrite (IHn e ltac:(lia) Hc). reflexivity.
    - simpl. rewrite (IHn e ltac:(lia) Hc). reflexivity.
    - (* XBin *)
      apply andb_prop in Hc. destruct Hc as [H1 H2].
      pose proof (IHn e1 ltac:(lia) H1) as E1. pose proof (IHn e2 ltac:(lia) H2) as E2.
      destruct op; simpl; rewrite ?E1, ?E2; try reflexivity.
      destruct (is_two e2) eqn:T2.
      + simpl. rewrite E1. rewrite (is_two_eq e2 T2). reflexivity.
      + destruct (is_three e2) eqn:T3.
        * simpl. rewrite E1. rewrite (is_three_eq e2 T3). reflexivity.
        * simpl. rewrite E1, E2. reflexivity.
    - (* XCall *)
      apply andb_prop in Hc. destruct Hc as [Hf Ha]. simpl. rewrite Hf.
      rewrite map_lift_erase; [reflexivity|].
      intros a Hin. apply IHn. pose proof (tsize_in a args Hin). lia. eapply forallb_forall in Ha; eauto.
    - (* XCallable *)
      apply andb_prop in Hc. destruct Hc as [Hc Hn']. apply andb_prop in Hc. destruct Hc as [Hcal Ha].
      assert (EA : map lift (map erase args) = args).
      { apply map_lift_erase. intros a Hin. apply IHn. pose proof (tsize_in a args Hin). lia.
        eapply forallb_forall in Ha; eauto. }
      pose proof (IHn e ltac:(lia) Hcal) as Ec.
      cbn [erase lift].
      destruct e; cbn [erase] in *; try (rewrite Ec, EA; reflexivity).
      + destruct negative; [discriminate Hcal|]. cbn [erase lift] in *. rewrite EA. reflexivity.
      + apply negb_true_iff in Hn'. rewrite Hn'. cbn [lift] in *. rewrite Ec, EA. reflexivity.
      + apply negb_true_iff in Hn'. rewrite Hn'. cbn [lift] in *. rewrite Ec, EA. reflexivity.
      + destruct op; cbn [lift] in *; try (rewrite Ec, EA; reflexivity).
        destruct (is_two e2); [|destruct (is_three e2)]; cbn [lift] in *; rewrite Ec, EA; reflexivity.
    - reflexivity.
    - reflexivity.
    - (* XInterp *)
      cbn [erase]. rewrite lift_interp. rewrite lift_parts_fixed.
      rewrite lift_parts_items.
      + cbn [fst snd]. rewrite app_nil_r. reflexivity.
      + intros a f s Ha. apply IHn; [pose proof (tsize_in_items a f s _ Ha); lia|].
        eapply forallb_forall in Hc; [|exact Ha]. exact Hc.
    - (* XIf *)
      apply andb_prop in Hc. destruct Hc as [Hc H3]. apply andb_prop in Hc. destruct Hc as [H1 H2].
      simpl. rewrite (IHn e1 ltac:(lia) H1), (IHn e2 ltac:(lia) H2), (IHn e3 ltac:(lia) H3). reflexivity.
    - simpl. rewrite (IHn e ltac:(lia) Hc). reflexivity.
    - reflexivity.
    - (* XList *)
      simpl. rewrite map_lift_erase; [reflexivity|].
      intros a Hin. apply IHn. pose proof (tsize_in a es Hin). lia. eapply forallb_forall in Hc; eauto.
    - (* XStruct *)
      simpl. f_equal. rewrite map_map. rewrite <- (map_id fields) at 2. apply map_ext_in.
      intros [f a] Hin. simpl. f_equal. apply IHn. pose proof (tsize_in_fields f a fields Hin). lia.
      eapply forallb_forall in Hc; [|exact Hin]. exact Hc.
  Qed.

  (* the echo is a fixed point: read it back, elaborate again, echo again *)
  Theorem echo_fixed_point : forall e,
    printable_t e = true -> exact_t e = true -> consistent e = true ->
    exists u, parse (pp e) = Ok [StExpr u] [] /\ pp (lift u) = pp e.
  Proof.
    intros e Hp Hx Hc. exists (erase e). split; [apply echo_roundtrip_exact; assumption|].
    rewrite (lift_erase (S (tsize e)) e ltac:(lia) Hc). reflexivity.
  Qed.
End Lift.
