(* C10/C15 — tokens of numbat/src/tokenizer.rs (enum TokenKind) with the lexeme
   for the variable-length kinds.  Strings are lists of Unicode scalar values. *)
From Coq Require Import List NArith ZArith Bool.
Import ListNotations.

Definition str := list N.

(* keywords that do not occur inside the expression grammar *)
Inductive kw :=
| KLet | KFn | KWhere | KAnd | KDimension | KUnit | KUse | KStruct
| KLong | KShort | KBoth | KNone
| KBool | KString | KDateTime | KCapitalFn | KList
| KPrint | KAssert | KAssertEq | KType.

Definition kw_eq_dec : forall a b : kw, {a = b} + {a <> b}.
Proof. decide equality. Defined.

Inductive token :=
| TLParen | TRParen | TLBracket | TRBracket | TLCurly | TRCurly
| TPlus | TMinus | TMultiply | TPower | TDivide | TComma | TArrow | TEqual
| TColon | TDoubleColon | TPostfixApply
| TUnicodeExponent (lexeme : str)
| TAt | TEllipsis | TExcl
| TEqualEqual | TNotEqual | TLessThan | TGreaterThan | TLessOrEqual | TGreaterOrEqual
| TLogicalAnd | TLogicalOr | TPeriod | TQuestionMark
| TPer | TTo | TIf | TThen | TElse | TTrue | TFalse | TNaN | TInf
| TKw (k : kw)
| TNumber (lexeme : str)
| TIntBase (base : N) (lexeme : str)
| TIdent (name : str)
| TString (lexeme : str)            (* StringFixed, quotes included *)
| TInterpStart (lexeme : str)
| TInterpMiddle (lexeme : str)
| TInterpSpec (lexeme : str)
| TInterpEnd (lexeme : str)
| TNewline | TSemicolon.
(* Eof is the end of the list. *)
