(* C10 — the documented spellings of operators, keywords-in-expressions, unicode exponents and
   number literals, and what the lexer model makes of them (finite tables, decided by vm_compute). *)
From Coq Require Import List NArith ZArith Bool.
From NV Require Import Syntax.Token Syntax.Lexer Syntax.Parser Syntax.Exec.
Import ListNotations.
Local Open Scope N_scope.

Definition token_eqb (a b : token) : bool :=
  match a, b with
  | TNumber x, TNumber y | TIdent x, TIdent y | TUnicodeExponent x, TUnicodeExponent y | TString x, TString y =>
      if list_eq_dec N.eq_dec x y then true else false
  | TIntBase b1 x, TIntBase b2 y => (b1 =? b2) && (if list_eq_dec N.eq_dec x y then true else false)
  | TNumber _, _ | TIdent _, _ | TUnicodeExponent _, _ | TString _, _ | TIntBase _ _, _ => false
  | _, TNumber _ | _, TIdent _ | _, TUnicodeExponent _ | _, TString _ | _, TIntBase _ _ => false
  | _, _ => String.eqb (show_token a) (show_token b)
  end.

Definition lexes_to (s : str) (ts : list token) : bool :=
  match lex s with
  | LOk r => (Nat.eqb (length r) (length ts)) && forallb (fun p => token_eqb (fst p) (snd p)) (combine r ts)
  | _ => false
  end.
Definition lex_fails (s : str) : bool := match lex s with LErr _ => true | _ => false end.

(* operations.md / grammar comment: every documented spelling is one token of the documented kind,
   also between two identifiers without spaces *)
Definition spellings : list (str * token) := [
  ([43], TPlus);
  ([45], TMinus);
  ([8722], TMinus);
  ([42], TMultiply);
  ([183], TMultiply);
  ([8901], TMultiply);
  ([215], TMultiply);
  ([47], TDivide);
  ([247], TDivide);
  ([94], TPower);
  ([42;42], TPower);
  ([45;62], TArrow);
  ([8594], TArrow);
  ([10142], TArrow);
  ([116;111], TTo);
  ([112;101;114], TPer);
  ([60], TLessThan);
  ([62], TGreaterThan);
  ([60;61], TLessOrEqual);
  ([8804], TLessOrEqual);
  ([62;61], TGreaterOrEqual);
  ([8805], TGreaterOrEqual);
  ([61;61], TEqualEqual);
  ([10869], TEqualEqual);
  ([33;61], TNotEqual);
  ([8800], TNotEqual);
  ([38;38], TLogicalAnd);
  ([124;124], TLogicalOr);
  ([124;62], TPostfixApply);
  ([33], TExcl);
  ([40], TLParen);
  ([41], TRParen);
  ([44], TComma);
  ([63], TQuestionMark);
  ([105;102], TIf);
  ([116;104;101;110], TThen);
  ([101;108;115;101], TElse);
  ([116;114;117;101], TTrue);
  ([102;97;108;115;101], TFalse);
  ([78;97;78], TNaN);
  ([105;110;102], TInf);
  ([91], TLBracket);
  ([93], TRBracket)
].
Definition spelling_ok (p : str * token) : bool :=
  lexes_to (fst p) [snd p]
  && lexes_to ([120; 32] ++ fst p ++ [32; 121]) [TIdent [120]; snd p; TIdent [121]]
  && (* symbolic spellings need no spaces *)
     (match fst p with
      | c :: _ => if xid_start c then true
                  else lexes_to ([40; 120; 41] ++ fst p ++ [40; 121; 41])
                                [TLParen; TIdent [120]; TRParen; snd p; TLParen; TIdent [121]; TRParen]
      | [] => false
      end).

(* symbolic binary operators directly between two identifiers: `x→y` is three tokens *)
Definition tight_ok (p : str * token) : bool :=
  match fst p, snd p with
  | c :: _, (TPlus | TMinus | TMultiply | TDivide | TPower | TArrow | TLessThan | TGreaterThan | TLessOrEqual
            | TGreaterOrEqual | TEqualEqual | TNotEqual | TLogicalAnd | TLogicalOr | TPostfixApply) =>
      if xid_start c then true else lexes_to ([120] ++ fst p ++ [121]) [TIdent [120]; snd p; TIdent [121]]
  | _, _ => true
  end.

Definition exponents : list (str * Z) := [
  ([185], (1)%Z);
  ([178], (2)%Z);
  ([179], (3)%Z);
  ([8308], (4)%Z);
  ([8309], (5)%Z);
  ([8310], (6)%Z);
  ([8311], (7)%Z);
  ([8312], (8)%Z);
  ([8313], (9)%Z);
  ([8315;185], (-1)%Z);
  ([8315;178], (-2)%Z);
  ([8315;179], (-3)%Z);
  ([8315;8308], (-4)%Z);
  ([8315;8309], (-5)%Z);
  ([8315;8310], (-6)%Z);
  ([8315;8311], (-7)%Z);
  ([8315;8312], (-8)%Z);
  ([8315;8313], (-9)%Z)
].
Definition exponent_ok (p : str * Z) : bool :=
  lexes_to ([120] ++ fst p) [TIdent [120]; TUnicodeExponent (fst p)] && Z.eqb (unicode_exponent_to_int (fst p)) (snd p).

Definition numbers_accepted : list str := [
  [48];
  [49];
  [52;50];
  [50;46;53];
  [49;95;48;48;48];
  [49;95;48;46;48;95;49];
  [49;101;51];
  [49;46;53;101;45;51];
  [50;69;43;53];
  [49;101;48;95;49];
  [46;53];
  [46;53;101;50];
  [51;46];
  [49;46;101;50];
  [48;48;55];
  [49;95;95;50]
].
Definition numbers_rejected : list str := [
  [49;95];
  [49;46;95;53];
  [49;101;43];
  [49;101;45;120];
  [49;46;50;46];
  [49;46;46];
  [48;120];
  [48;98;50];
  [48;111;56];
  [48;120;49;95];
  [48;120;49;103];
  [49;101;49;95]
].
Definition based_accepted : list (str * N) := [
  ([48;120;49;70], 16);
  ([48;120;100;101;97;100;95;98;101;101;102], 16);
  ([48;111;49;55], 8);
  ([48;98;49;48;49], 2);
  ([48;98;49;95;48], 2)
].

Theorem lex_tables :
  forallb spelling_ok spellings = true
  /\ forallb tight_ok spellings = true
  /\ forallb exponent_ok exponents = true
  /\ forallb (fun s => lexes_to s [TNumber s]) numbers_accepted = true
  /\ forallb lex_fails numbers_rejected = true
  /\ forallb (fun p => lexes_to (fst p) [TIntBase (snd p) (fst p)]) based_accepted = true.
Proof. vm_compute. repeat split; reflexivity. Qed.
