(* C15 — digit separators: the echo of an expression whose literals carry digit separators is read back
   as the tree it was elaborated from up to those separators (the same numbers): the restriction
   "no digit separators" of C15_roundtrip_exact is removed for the round trip. *)
From Coq Require Import List NArith ZArith Bool Arith Lia.
From NV Require Import Syntax.Token Syntax.Ast Syntax.StmtAst Syntax.StrEsc Syntax.StrEscProofs Syntax.Parser
  Syntax.Grammar Syntax.ParserProofs Syntax.GrammarProofs Syntax.TypedPrinter Syntax.TypedPrinterProofs.
Import ListNotations.
Local Open Scope nat_scope.
Local Arguments Nat.leb : simpl never.
Local Arguments Nat.ltb : simpl never.

(* the same tree with the digit separators of its literals removed (the value of a literal does not
   depend on them: Parser::primary removes them before the number is parsed) *)
Fixpoint strip_us (e : expr) : expr :=
  match e with
  | EScalar d => EScalar (remove_underscores d)
  | EUn o a => EUn o (strip_us a)
  | EBin o a b => EBin o (strip_us a) (strip_us b)
  | ECall f args => ECall (strip_us f) (map strip_us args)
  | EField a n => EField (strip_us a) n
  | EIf c t f => EIf (strip_us c) (strip_us t) (strip_us f)
  | EList es => EList (map strip_us es)
  | EStruct n fields => EStruct n (map (fun fe => (fst fe, strip_us (snd fe))) fields)
  | EInterp parts => EInterp (map (fun p => match p with PFixed s => PFixed s | PExpr a f => PExpr (strip_us a) f end) parts)
  | _ => e
  end.

Definition strip_part (p : ipart expr) : ipart expr :=
  match p with PFixed s => PFixed s | PExpr a f => PExpr (strip_us a) f end.
Lemma strip_interp : forall parts, strip_us (EInterp parts) = EInterp (map strip_part parts).
Proof. reflexivity. Qed.

(* exact_t without the condition on digit separators *)
Fixpoint nosugar_t (e : texpr) : bool :=
  match e with
  | XScalar _ _ | XIdent _ | XUnit _ | XBool _ | XString _ | XHole => true
  | XNeg a | XFact _ a | XNot a | XField a _ => nosugar_t a
  | XBin _ a b => nosugar_t a && nosugar_t b
  | XCall name args => none_sugar (call_sugar name) && forallb nosugar_t args
  | XCallable callee args =>
      nosugar_t callee && forallb nosugar_t args
      && match callee with XIdent name => none_sugar (conversion_sugar name) | _ => true end
  | XInterp _ items => forallb (fun it => nosugar_t (fst (fst it))) items
  | XIf c t f => nosugar_t c && nosugar_t t && nosugar_t f
  | XList es => forallb nosugar_t es
  | XStruct _ fields => forallb (fun fe => nosugar_t (snd fe)) fields
  end.

Lemma remove_us_idem : forall d, remove_underscores (remove_underscores d) = remove_underscores d.
Proof.
  intros d. apply remove_underscores_id. unfold remove_underscores.
  apply forallb_forall. intros x Hx. apply filter_In in Hx. tauto.
Qed.

Lemma sdesugar_choice : forall (c : bool) m1 m2 x r,
  (forall m, strip_us (desugar (echo_tree m x)) = r) ->
  strip_us (desugar (if c then echo_tree m1 x else echo_tree m2 x)) = r.
Proof. intros [] m1 m2 x r H; apply H. Qed.

Lemma sdesugar_num_tree : forall neg d,
  strip_us (desugar (num_tree neg d)) = strip_us (erase (XScalar neg d)).
Proof. intros neg d. destruct neg; simpl; rewrite remove_us_idem; reflexivity. Qed.

Lemma map_sdesugar_echo : forall (args : list texpr),
  (forall a, In a args -> strip_us (desugar (echo_tree Plain a)) = strip_us (erase a)) ->
  map strip_us (map desugar (map (echo_tree Plain) args)) = map strip_us (map erase args).
Proof.
  intros args H. rewrite !map_map. apply map_ext_in. exact H.
Qed.

Theorem sdesugar_echo : forall n e, tsize e < n -> nosugar_t e = true ->
  forall m, strip_us (desugar (echo_tree m e)) = strip_us (erase e).
Proof.
  induction n; intros e Hs Hx m; [lia|].
  destruct e; simpl in Hs.
  - destruct m; cbn [echo_tree]; try (destruct negative; cbn [desugar]); apply sdesugar_num_tree.
  - reflexivity.
  - reflexivity.
  - simpl in Hx. pose proof (IHn e ltac:(lia) Hx Parens) as D. destruct m; cbn [echo_tree wrapm desugar erase strip_us]; rewrite D; reflexivity.
  - simpl in Hx. pose proof (IHn e ltac:(lia) Hx Parens) as D. destruct m; cbn [echo_tree wrapm desugar erase strip_us]; rewrite D; reflexivity.
  - simpl in Hx. pose proof (IHn e ltac:(lia) Hx Parens) as D. destruct m; cbn [echo_tree wrapm desugar erase strip_us]; rewrite D; reflexivity.
  - (* XBin *)
    rewrite desugar_bin_modes. simpl in Hx. apply andb_prop in Hx. destruct Hx as [H1 H2].
    assert (Da : forall m', strip_us (desugar (echo_tree m' e1)) = strip_us (erase e1)) by (intros; apply IHn; [lia|exact H1]).
    assert (Db : forall m', strip_us (desugar (echo_tree m' e2)) = strip_us (erase e2)) by (intros; apply IHn; [lia|exact H2]).
    destruct op; cbn [echo_tree erase];
      try (cbn [desugar binop_of token_of_binop strip_us];
           rewrite ?(sdesugar_choice _ _ _ _ _ Da), ?(sdesugar_choice _ _ _ _ _ Db), ?Da, ?Db; reflexivity).
    + (* Mul *)
      assert (Generic :
        strip_us (desugar (SBin TMultiply (if is_power e1 || is_mul e1 then echo_tree Plain e1 else echo_tree Liberal e1)
                                (if is_power e2 || bare_mul e1 e2 then echo_tree Plain e2 else echo_tree Liberal e2)))
        = strip_us (EBin Mul (erase e1) (erase e2))).
      { cbn [desugar binop_of strip_us]. rewrite (sdesugar_choice _ _ _ _ _ Da), (sdesugar_choice _ _ _ _ _ Db). reflexivity. }
      destruct e1; try exact Generic. destruct e2; try exact Generic;
        cbn [desugar strip_us]; rewrite sdesugar_num_tree; reflexivity.
    + (* Power *)
      destruct (is_two e2); [|destruct (is_three e2)]; cbn [desugar strip_us]; rewrite ?Da, ?Db; reflexivity.
  - (* XCall *)
    simpl in Hx. apply andb_prop in Hx. destruct Hx as [Hn Hargs].
    destruct (call_sugar name) as [s|] eqn:Cs; [discriminate|].
    assert (HA : forall a, In a args -> strip_us (desugar (echo_tree Plain a)) = strip_us (erase a)).
    { intros a Ha. apply IHn. pose proof (tsize_in a args Ha). lia. eapply forallb_forall in Hargs; eauto. }
    cbn [echo_tree]. rewrite Cs. cbn [desugar erase strip_us]. rewrite map_sdesugar_echo by exact HA. reflexivity.
  - (* XCallable *)
    simpl in Hx. apply andb_prop in Hx. destruct Hx as [Hx Hsug]. apply andb_prop in Hx. destruct Hx as [Hc Hargs].
    assert (HA : forall a, In a args -> strip_us (desugar (echo_tree Plain a)) = strip_us (erase a)).
    { intros a Ha. apply IHn. pose proof (tsize_in a args Ha). lia. eapply forallb_forall in Hargs; eauto. }
    assert (Generic : strip_us (desugar (SCall (echo_tree Parens e) (map (echo_tree Plain) args))) = strip_us (erase (XCallable e args))).
    { cbn [desugar erase strip_us]. rewrite (IHn e ltac:(lia) Hc Parens), map_sdesugar_echo by exact HA. reflexivity. }
    cbn [echo_tree].
    destruct e; try exact Generic.
    destruct args as [|a0 [|a1 r]]; try exact Generic. destruct m; try exact Generic.
    destruct (conversion_sugar name) as [s|]; [discriminate|exact Generic].
  - destruct m; reflexivity.
  - destruct m; cbn [echo_tree desugar erase strip_us]; rewrite string_escape_roundtrip; reflexivity.
  - (* XInterp *)
    rewrite echo_interp. cbn [desugar erase]. rewrite !strip_interp. rewrite string_escape_roundtrip_delim. simpl in Hx.
    f_equal.
    assert (HA : forall a f s, In (a, f, s) items -> strip_us (desugar (echo_tree Plain a)) = strip_us (erase a)).
    { intros a f s Ha. apply IHn; [pose proof (tsize_in_items a f s _ Ha); lia|].
      eapply forallb_forall in Hx; [|exact Ha]. exact Hx. }
    assert (FM : forall l : list (ipart expr), map strip_part (filter nonempty_part l) = filter nonempty_part (map strip_part l)).
    { induction l as [|p l IH]; [reflexivity|]. cbn [filter map].
      destruct p as [s|a f]; cbn [strip_part nonempty_part]; [destruct s|]; cbn [map]; rewrite IH; reflexivity. }
    rewrite !FM. f_equal. cbn [map strip_part]. f_equal.
    clear - HA. induction items as [|[[a f] s] r IH]; [reflexivity|].
    cbn [echo_items flat_map fst snd map app strip_part]. rewrite string_escape_roundtrip_delim.
    rewrite (HA a f s (or_introl eq_refl)). rewrite IH; [reflexivity|].
    intros b g t Hb. apply (HA b g t). right. exact Hb.
  - (* XIf *)
    simpl in Hx. apply andb_prop in Hx. destruct Hx as [Hx H3]. apply andb_prop in Hx. destruct Hx as [H1 H2].
    pose proof (IHn e1 ltac:(lia) H1 Parens) as D1. pose proof (IHn e2 ltac:(lia) H2 Parens) as D2.
    pose proof (IHn e3 ltac:(lia) H3 Parens) as D3.
    destruct m; cbn [echo_tree wrapm desugar erase strip_us]; rewrite D1, D2, D3; reflexivity.
  - simpl in Hx. pose proof (IHn e ltac:(lia) Hx Parens) as D. destruct m; cbn [echo_tree desugar erase strip_us]; rewrite D; reflexivity.
  - destruct m; reflexivity.
  - (* XList *)
    simpl in Hx.
    assert (HA : forall a, In a es -> strip_us (desugar (echo_tree Plain a)) = strip_us (erase a)).
    { intros a Ha. apply IHn. pose proof (tsize_in a es Ha). lia. eapply forallb_forall in Hx; eauto. }
    destruct m; cbn [echo_tree desugar erase strip_us]; rewrite map_sdesugar_echo by exact HA; reflexivity.
  - (* XStruct *)
    simpl in Hx.
    assert (G : map (fun fe : str * expr => (fst fe, strip_us (snd fe)))
                  (map (fun fe : str * sx => (fst fe, desugar (snd fe)))
                     (map (fun fe : str * texpr => (fst fe, echo_tree Plain (snd fe))) fields))
                = map (fun fe : str * expr => (fst fe, strip_us (snd fe)))
                    (map (fun fe : str * texpr => (fst fe, erase (snd fe))) fields)).
    { rewrite !map_map. apply map_ext_in. intros [f a] Ha. simpl. f_equal.
      apply IHn; [pose proof (tsize_in_fields f a fields Ha); lia|].
      eapply forallb_forall in Hx; [|exact Ha]. exact Hx. }
    destruct m; cbn [echo_tree desugar erase strip_us]; rewrite G; reflexivity.
Qed.

(* the echo of every printable expression without temperature sugar — digit separators allowed — is
   accepted and read back as the tree it was elaborated from, up to the digit separators of literals *)
Theorem echo_roundtrip_sep : forall e, printable_t e = true -> nosugar_t e = true ->
  exists u, parse (pp e) = Ok [StExpr u] [] /\ strip_us u = strip_us (erase e).
Proof.
  intros e Hp Hx. exists (reread e). split; [apply echo_roundtrip; exact Hp|].
  unfold reread. apply (sdesugar_echo (S (tsize e)) e ltac:(lia) Hx Plain).
Qed.
