(* C10 — soundness for several statements: whatever `parse` accepts on a token list without line
   breaks and trailing commas, whose statements (separated by `;`) all belong to the fragment of
   SoundProofs.v, is the `;`-separated print of well-formed statements (a trailing `;` allowed), and
   the result is the list of their meanings. *)
From Coq Require Import List NArith ZArith Bool Arith Lia.
From NV Require Import Syntax.Token Syntax.Ast Syntax.StmtAst Syntax.Parser Syntax.Grammar
  Syntax.ParserProofs Syntax.SoundProofs.
Import ListNotations.
Local Open Scope nat_scope.

Fixpoint pr_seq (l : list sst) : list token :=
  match l with
  | [] => []
  | s :: r => pr_stmt s ++ match r with [] => [] | _ => TSemicolon :: pr_seq r end
  end.
Definition pr_semi (l : list sst) (trailing : bool) : list token :=
  pr_seq l ++ (if trailing then [TSemicolon] else []).

(* every statement that begins after a `;` is in the fragment *)
Fixpoint after_semis (ts : list token) : bool :=
  match ts with
  | [] => true
  | TSemicolon :: r => simple_start r && after_semis r
  | _ :: r => after_semis r
  end.

Lemma after_semis_app : forall a r, after_semis (a ++ TSemicolon :: r) = true ->
  simple_start r = true /\ after_semis r = true.
Proof.
  induction a as [|t a IH]; intros r H.
  - cbn [app after_semis] in H. apply andb_prop in H. exact H.
  - cbn [app] in H. destruct t; cbn [after_semis] in H; try (apply IH; exact H).
    apply andb_prop in H. destruct H as [_ H]. apply IH. exact H.
Qed.

Lemma parse_loop_sound : forall n acc ts ss,
  core ts = true -> ts <> [] -> simple_start ts = true -> after_semis ts = true ->
  parse_loop n acc ts = Ok ss [] ->
  exists stmts trailing, stmts <> [] /\ Forall (fun s => wf_stmt s = true) stmts
    /\ ts = pr_semi stmts trailing /\ ss = acc ++ map desugar_stmt stmts.
Proof.
  induction n as [|n IH]; intros acc ts ss C NE SS AS H; [discriminate|].
  destruct ts as [|tok r]; [contradiction|]. cbn [parse_loop] in H.
  destruct (statement (tok :: r)) as [st rest| | |] eqn:E; try discriminate.
  destruct (statement_sound _ st rest C SS E) as (s & W & D & Et).
  assert (Crest : core rest = true) by (apply (core_app_r (pr_stmt s)); rewrite <- Et; exact C).
  destruct rest as [|t2 r2].
  - inversion H; subst. exists [s], false. repeat split; auto; [discriminate|].
    unfold pr_semi. cbn [pr_seq]. rewrite !app_nil_r. rewrite Et. rewrite app_nil_r. reflexivity.
  - pose proof (core_head _ _ Crest) as Ht2.
    destruct t2; try discriminate;
      try (match type of H with context [last_is_rparen ?x] => destruct (last_is_rparen x); discriminate end).
    (* `;` *)
    assert (Cr2 : core r2 = true) by (eapply core_tail; exact Crest).
    rewrite (core_skip r2 Cr2) in H.
    rewrite Et in AS. destruct (after_semis_app _ _ AS) as [SS2 AS2].
    destruct r2 as [|t3 r3].
    + destruct n; [discriminate|]. cbn [parse_loop] in H. inversion H; subst.
      exists [s], true. repeat split; auto; [discriminate|].
      unfold pr_semi. cbn [pr_seq]. rewrite app_nil_r. exact Et.
    + destruct (IH (acc ++ [st]) (t3 :: r3) ss Cr2 ltac:(discriminate) SS2 AS2 H)
        as (stmts & trailing & NEs & Ws & Ets & Ess).
      exists (s :: stmts), trailing. repeat split; auto; [discriminate| |].
      * unfold pr_semi in *. cbn [pr_seq]. destruct stmts as [|s2 rs]; [contradiction|].
        rewrite <- app_assoc. cbn [app]. rewrite Et. rewrite Ets. reflexivity.
      * rewrite Ess. rewrite <- app_assoc. cbn [map app]. rewrite D. reflexivity.
Qed.

Theorem parse_sound_seq : forall ts ss,
  core ts = true -> simple_start ts = true -> after_semis ts = true -> parse ts = Ok ss [] ->
  ts = [] /\ ss = [] \/
  exists stmts trailing, stmts <> [] /\ Forall (fun s => wf_stmt s = true) stmts
    /\ ts = pr_semi stmts trailing /\ ss = map desugar_stmt stmts.
Proof.
  intros ts ss C SS AS H. unfold parse in H. rewrite (core_skip ts C) in H.
  destruct ts as [|tok r].
  - left. cbn [parse_loop] in H. inversion H. split; reflexivity.
  - right. exact (parse_loop_sound _ [] _ ss C ltac:(discriminate) SS AS H).
Qed.

(* and conversely such a print is accepted: the two directions together characterise acceptance *)
Lemma semi_follow : forall t r, follow 0 t (TSemicolon :: r) = true.
Proof.
  intros t r. unfold follow, blocks. cbn [contlvl callcont negb andb]. rewrite andb_false_r. reflexivity.
Qed.
