(* C10 — soundness for definitions: on token lists without line breaks and trailing commas, whatever
   the model of Parser::statement accepts is the print of a well-formed statement or definition
   (decorators written on the same line) and denotes it. *)
From Coq Require Import List NArith ZArith Bool Arith Lia.
From NV Require Import Syntax.Token Syntax.Ast Syntax.StmtAst Syntax.StrEsc Syntax.Parser
  Syntax.Grammar Syntax.ParserProofs Syntax.SoundProofs Syntax.TypeGrammar Syntax.TypeProofs Syntax.TypeSound
  Syntax.StmtGrammar Syntax.StmtProofs.
Import ListNotations.
Local Open Scope nat_scope.
Local Arguments Nat.leb : simpl never.

(* the same definitions with the decorators on one line *)
Definition pr_deco_flat (d : sdeco) : list token := TAt :: pr_deco_body d.
Fixpoint pr_decos_flat (ds : list sdeco) : list token :=
  match ds with [] => [] | d :: r => pr_deco_flat d ++ pr_decos_flat r end.
Definition pr_def_flat (s : sdef) : list token :=
  match s with
  | SFLet ds v => pr_decos_flat ds ++ TKw KLet :: pr_var v
  | SFFn ds name tps params ret body =>
      pr_decos_flat ds ++ TKw KFn :: TIdent name :: pr_tparams tps ++ TLParen :: pr_params params
        ++ TRParen :: pr_ret ret ++ pr_body body
  | SFUnit ds name ann e =>
      pr_decos_flat ds ++ TKw KUnit :: TIdent name :: pr_oann ann
        ++ match e with Some x => TEqual :: pr x | None => [] end
  | _ => pr_def s
  end.

Lemma core_app_r2 : forall a b, core (a ++ b) = true -> core b = true.
Proof. exact core_app_r. Qed.

Ltac core_of H :=
  match type of H with
  | core (_ :: ?r) = true => constr:(core_tail _ _ H)
  end.

(* ---- name [: annotation] = expression *)
Lemma oann_sound : forall r oa rest,
  (match r with
   | TColon :: r1 => bind (type_annotation r1) (fun a rest0 => Ok (Some a) rest0)
   | _ => Ok None r
   end) = Ok oa rest ->
  exists sa, wf_oann sa = true /\ oa = option_map ty_ann sa /\ r = pr_oann sa ++ rest
             /\ (sa = None -> match rest with TColon :: _ => False | _ => True end).
Proof.
  intros r oa rest H.
  assert (No : Ok None r = Ok oa rest -> (match r with TColon :: _ => False | _ => True end) ->
    exists sa, wf_oann sa = true /\ oa = option_map ty_ann sa /\ r = pr_oann sa ++ rest
             /\ (sa = None -> match rest with TColon :: _ => False | _ => True end)).
  { intros E NC. inversion E; subst. exists None. repeat split; auto. }
  destruct r as [|t r1]; [apply No; [exact H|exact I]|].
  destruct t; try (apply No; [exact H|exact I]).
  apply bind_ok in H. destruct H as (a & r2 & E & H). inversion H; subst.
  destruct (type_annotation_sound _ _ _ E) as (ta & Wa & Da & Ta).
  exists (Some ta). cbn [wf_oann option_map pr_oann]. rewrite Da, Ta. repeat split; auto. discriminate.
Qed.

Lemma variable_sound : forall flush decos ts v rest, core ts = true ->
  parse_variable flush decos ts = Ok v rest ->
  exists sv, wf_var sv = true /\ v = desugar_var (if flush then decos else []) sv /\ ts = pr_var sv ++ rest
             /\ (flush = true -> contains_aliases_with_prefixes decos = false /\ contains_examples decos = false).
Proof.
  intros flush decos ts v rest C H. unfold parse_variable in H.
  destruct ts as [|t r]; [discriminate|]. destruct t; try discriminate.
  apply bind_ok in H. destruct H as (oa & r1 & E & H).
  destruct (oann_sound _ _ _ E) as (sa & Wsa & Eoa & Tr & _). subst oa.
  destruct r1 as [|t1 r2]; [discriminate|]. destruct t1; try discriminate.
  assert (Cr : core r = true) by (eapply core_tail; eauto).
  assert (Cr1 : core (TEqual :: r2) = true) by (apply (core_app_r (pr_oann sa)); rewrite <- Tr; exact Cr).
  assert (Cr2 : core r2 = true) by (eapply core_tail; eauto).
  rewrite (core_skip r2 Cr2) in H.
  apply bind_ok in H. destruct H as (e & r3 & Ee & H).
  destruct (expression_sound _ _ _ Cr2 Ee) as (t & Wt & Dt & Tt).
  destruct (flush && contains_aliases_with_prefixes decos) eqn:F1; [discriminate|].
  destruct (flush && contains_examples decos) eqn:F2; [discriminate|]. inversion H; subst.
  exists (mk_svar name sa t). unfold wf_var, desugar_var, pr_var. cbn [sv_name sv_ann sv_body].
  rewrite Wsa, Wt. repeat split; auto.
  - napp. reflexivity.
  - destruct flush; [exact F1|discriminate].
  - destruct flush; [exact F2|discriminate].
Qed.

(* ---- decorators *)
Lemma seq_eq : forall a b, seq a b = true -> a = b.
Proof. intros a b H. unfold seq in H. destruct (list_eq_dec N.eq_dec a b); [assumption|discriminate]. Qed.

Lemma accepts_sound : forall ts oa rest, accepts_prefix ts = Ok oa rest ->
  ts = pr_accepts oa ++ rest /\ (oa = None -> match rest with TColon :: _ => False | _ => True end).
Proof.
  intros ts oa rest H. unfold accepts_prefix in H.
  assert (No : Ok None ts = Ok oa rest -> (match ts with TColon :: _ => False | _ => True end) ->
            ts = pr_accepts oa ++ rest /\ (oa = None -> match rest with TColon :: _ => False | _ => True end)).
  { intros E NC. inversion E; subst. split; auto. }
  destruct ts as [|t r]; [apply No; [exact H|exact I]|].
  destruct t; try (apply No; [exact H|exact I]).
  destruct r as [|t2 r2]; [discriminate|]. destruct t2; try discriminate.
  destruct k; try discriminate; inversion H; subst; split; try reflexivity; discriminate.
Qed.

Lemma alias_entry_sound : forall ts a rest, alias_entry ts = Ok a rest -> ts = pr_alias a ++ rest.
Proof.
  intros ts a rest H. unfold alias_entry in H.
  destruct ts as [|t r]; [discriminate|]. destruct t; try discriminate.
  apply bind_ok in H. destruct H as (oa & r1 & E & H). inversion H; subst.
  destruct (accepts_sound _ _ _ E) as [T _]. unfold pr_alias. cbn [fst snd app]. rewrite T. reflexivity.
Qed.

Lemma aliases_loop_sound : forall n acc ts out rest, aliases_loop n acc ts = Ok out rest ->
  exists more, out = acc ++ more /\ ts = pr_alias_tail more ++ TRParen :: rest.
Proof.
  induction n; intros acc ts out rest H; [discriminate|]. cbn [aliases_loop] in H.
  destruct ts as [|t r]; [discriminate|]. destruct t; try discriminate.
  - inversion H; subst. exists []. rewrite app_nil_r. split; reflexivity.
  - apply bind_ok in H. destruct H as (a & r1 & E & H).
    destruct (IHn _ _ _ _ H) as (more & Em & Tm).
    exists (a :: more). split.
    + rewrite Em. rewrite <- app_assoc. reflexivity.
    + cbn [pr_alias_tail app]. rewrite (alias_entry_sound _ _ _ E), Tm. rewrite <- app_assoc. reflexivity.
Qed.

Lemma aliases_sound : forall ts l rest, list_of_aliases ts = Ok l rest -> ts = pr_aliases l ++ TRParen :: rest.
Proof.
  intros ts l rest H. unfold list_of_aliases in H.
  assert (NonEmpty : bind (alias_entry ts) (fun a rest0 => aliases_loop (S (length rest0)) [a] rest0) = Ok l rest ->
            ts = pr_aliases l ++ TRParen :: rest).
  { intros E0. apply bind_ok in E0. destruct E0 as (a & r1 & E & H0).
    destruct (aliases_loop_sound _ _ _ _ _ H0) as (more & Em & Tm). subst l.
    cbn [app pr_aliases]. rewrite (alias_entry_sound _ _ _ E), Tm. rewrite <- app_assoc. reflexivity. }
  destruct ts as [|t r]; [apply NonEmpty; exact H|].
  destruct t; try (apply NonEmpty; exact H).
  inversion H; subst. reflexivity.
Qed.

Lemma decorator_sound : forall ts d rest, parse_decorator ts = Ok d rest ->
  exists sd, desugar_deco sd = d /\ ts = pr_deco_body sd ++ rest.
Proof.
  intros ts d rest H. unfold parse_decorator in H.
  destruct ts as [|t r]; [discriminate|]. destruct t; try discriminate.
  destruct (seq name w_metric_prefixes) eqn:S1.
  { apply seq_eq in S1. subst. inversion H; subst. exists SDMetric. split; reflexivity. }
  destruct (seq name w_binary_prefixes) eqn:S2.
  { apply seq_eq in S2. subst. inversion H; subst. exists SDBinary. split; reflexivity. }
  destruct (seq name w_abbreviation) eqn:S3.
  { apply seq_eq in S3. subst. inversion H; subst. exists SDAbbrev. split; reflexivity. }
  destruct (seq name w_aliases) eqn:S4.
  { apply seq_eq in S4. subst. destruct r as [|t1 r1]; [discriminate|]. destruct t1; try discriminate.
    apply bind_ok in H. destruct H as (l & r2 & E & H). inversion H; subst.
    exists (SDAliases l). split; [reflexivity|]. cbn [pr_deco_body app].
    rewrite (aliases_sound _ _ _ E). rewrite <- app_assoc. reflexivity. }
  destruct (seq name w_url || seq name w_name || seq name w_description) eqn:S5.
  { destruct r as [|t1 r1]; [discriminate|]. destruct t1; try discriminate.
    destruct r1 as [|t2 r2]; [discriminate|]. destruct t2; try discriminate.
    destruct r2 as [|t3 r3]; [discriminate|]. destruct t3; try discriminate.
    inversion H; subst.
    destruct (seq name w_url) eqn:U.
    { apply seq_eq in U. subst. exists (SDUrl lexeme). split; reflexivity. }
    destruct (seq name w_name) eqn:Nm.
    { apply seq_eq in Nm. subst. exists (SDName lexeme). split; reflexivity. }
    cbn [orb] in S5. apply seq_eq in S5. subst. exists (SDDescription lexeme). split; reflexivity. }
  destruct (seq name w_example) eqn:S6; [|discriminate].
  apply seq_eq in S6. subst.
  destruct r as [|t1 r1]; [discriminate|]. destruct t1; try discriminate.
  destruct r1 as [|t2 r2]; [discriminate|]. destruct t2; try discriminate.
  destruct r2 as [|t3 r3]; [discriminate|]. destruct t3; try discriminate.
  - (* ) *)
    inversion H; subst. exists (SDExample lexeme None). split; reflexivity.
  - (* , *)
    destruct r3 as [|t4 r4]; [discriminate|]. destruct t4; try discriminate.
    destruct r4 as [|t5 r5]; [discriminate|]. destruct t5; try discriminate.
    inversion H; subst. exists (SDExample lexeme (Some lexeme0)). split; reflexivity.
Qed.

(* ---- type parameters.  Excluded (hypothesis tp_plain of the theorem): a trailing comma before `>`,
   and empty brackets `<>` after the name of a function or struct, which the parser also accepts *)
Fixpoint no_tc (ts : list token) : bool :=
  match ts with
  | TComma :: ((TGreaterThan :: _) as r) => false
  | _ :: r => no_tc r
  | [] => true
  end.
Lemma no_tc_tail : forall t r, no_tc (t :: r) = true -> no_tc r = true.
Proof. intros t r H. destruct t; try exact H. destruct r as [|t2 r2]; [reflexivity|]. destruct t2; try exact H; discriminate. Qed.
Lemma no_tc_app_r : forall a b, no_tc (a ++ b) = true -> no_tc b = true.
Proof. induction a; intros b H; [exact H|]. apply IHa. eapply no_tc_tail. exact H. Qed.

Lemma tparams_loop_sound : forall n acc ts out rest, no_tc ts = true ->
  type_parameters_loop n acc ts = Ok out rest ->
  exists more, out = acc ++ more /\ ts = pr_tp_items more ++ TGreaterThan :: rest.
Proof.
  induction n; intros acc ts out rest NT H; [discriminate|]. cbn [type_parameters_loop] in H.
  destruct ts as [|t r]; [discriminate|]. destruct t; try discriminate.
  - (* > *) inversion H; subst. exists []. rewrite app_nil_r. split; reflexivity.
  - (* identifier *)
    apply bind_ok in H. destruct H as (b & r1 & Eb & H).
    assert (B : r = (if b then [TColon; TIdent str_Dim] else []) ++ r1
                /\ (b = false -> match r1 with TColon :: _ => False | _ => True end)).
    { destruct r as [|t1 r2]; [inversion Eb; subst; split; [reflexivity|auto]|].
      destruct t1; try (inversion Eb; subst; split; [reflexivity|auto]; fail).
      destruct r2 as [|t2 r3]; [discriminate|]. destruct t2; try discriminate.
      destruct (list_eq_dec N.eq_dec name0 str_Dim) as [->|]; [|discriminate].
      inversion Eb; subst. split; [reflexivity|discriminate]. }
    destruct B as [Tr _].
    assert (NT1 : no_tc r1 = true).
    { apply no_tc_tail in NT. rewrite Tr in NT. eapply no_tc_app_r. exact NT. }
    destruct r1 as [|t1 r2]; [discriminate|]. destruct t1; try discriminate.
    + (* , *)
      destruct (IHn _ _ _ _ (no_tc_tail _ _ NT1) H) as (more & Em & Tm).
      destruct more as [|q more'].
      * cbn [pr_tp_items app] in Tm. subst r2. discriminate NT1.
      * exists ((name, b) :: q :: more'). split; [rewrite Em; rewrite <- app_assoc; reflexivity|].
        change (pr_tp_items ((name, b) :: q :: more')) with (pr_tp (name, b) ++ TComma :: pr_tp_items (q :: more')).
        unfold pr_tp at 1. cbn [fst snd]. rewrite Tr, Tm. napp. reflexivity.
    + (* > *)
      destruct (IHn _ _ _ _ NT1 H) as (more & Em & Tm).
      destruct more as [|q more'].
      * exists [(name, b)]. split; [rewrite Em; rewrite app_nil_r; reflexivity|].
        cbn [pr_tp_items]. unfold pr_tp. cbn [fst snd]. rewrite Tr. cbn [pr_tp_items app] in Tm. inversion Tm; subst.
        napp. reflexivity.
      * exfalso. cbn [pr_tp_items] in Tm. unfold pr_tp in Tm. cbn [app] in Tm. discriminate Tm.
    + (* >= *)
      cbn [type_parameters_loop] in H. destruct n; discriminate.
Qed.

Lemma tparams_sound : forall ts tps rest, no_tc ts = true -> type_parameters ts = Ok tps rest ->
  (ts = pr_tparams tps ++ rest /\ (tps = [] -> match rest with TLessThan :: _ => False | _ => True end))
  \/ (tps = [] /\ ts = TLessThan :: TGreaterThan :: rest).
Proof.
  intros ts tps rest NT H. unfold type_parameters in H.
  assert (No : Ok [] ts = Ok tps rest -> (match ts with TLessThan :: _ => False | _ => True end) ->
    (ts = pr_tparams tps ++ rest /\ (tps = [] -> match rest with TLessThan :: _ => False | _ => True end))
    \/ (tps = [] /\ ts = TLessThan :: TGreaterThan :: rest)).
  { intros E NL. inversion E; subst. left. split; auto. }
  destruct ts as [|t r]; [apply No; [exact H|exact I]|].
  destruct t; try (apply No; [exact H|exact I]).
  destruct (tparams_loop_sound _ _ _ _ _ (no_tc_tail _ _ NT) H) as (more & Em & Tm).
  cbn [app] in Em. subst tps.
  destruct more as [|p more'].
  - right. split; [reflexivity|]. rewrite Tm. reflexivity.
  - left. split; [|discriminate]. cbn [pr_tparams]. rewrite Tm. napp. reflexivity.
Qed.

(* ---- parameters of a function definition *)
Lemma fn_params_sound : forall n acc ts out rest, core ts = true ->
  fn_params_loop n acc ts = Ok out rest ->
  exists more, forallb (fun p => wf_oann (snd p)) more = true
    /\ out = acc ++ map desugar_param more /\ ts = pr_params more ++ TRParen :: rest.
Proof.
  induction n; intros acc ts out rest C H; [discriminate|]. cbn [fn_params_loop] in H.
  destruct ts as [|t r]; [discriminate|]. destruct t; try discriminate.
  - (* ) *) inversion H; subst. exists []. rewrite app_nil_r. repeat split; reflexivity.
  - (* identifier *)
    apply bind_ok in H. destruct H as (oa & r1 & E & H).
    destruct (oann_sound _ _ _ E) as (sa & Wsa & Eoa & Tr & _). subst oa.
    assert (Cr : core r = true) by (eapply core_tail; eauto).
    assert (Cr1 : core r1 = true) by (apply (core_app_r (pr_oann sa)); rewrite <- Tr; exact Cr).
    rewrite (core_skip r1 Cr1) in H.
    destruct r1 as [|t1 r2]; [discriminate|]. destruct t1; try discriminate.
    + (* ) *)
      inversion H; subst. exists [(name, sa)]. cbn [forallb snd map]. rewrite Wsa.
      repeat split; auto. cbn [pr_params]. unfold pr_param. cbn [fst snd]. napp. reflexivity.
    + (* , *)
      assert (Cr2 : core r2 = true) by (eapply core_tail; eauto).
      rewrite (core_skip r2 Cr2) in H.
      assert (Next : fn_params_loop n (acc ++ [(name, option_map ty_ann sa)]) r2 = Ok out rest).
      { destruct r2 as [|t2 r3]; [exact H|]. destruct t2; try exact H.
        exfalso. eapply core_notrail. exact Cr1. }
      destruct (IHn _ _ _ _ Cr2 Next) as (more & Wm & Em & Tm).
      destruct more as [|q more'].
      * exfalso. cbn [pr_params app] in Tm. subst r2. eapply core_notrail. exact Cr1.
      * exists ((name, sa) :: q :: more'). cbn [forallb snd] in *. rewrite Wsa, Wm. repeat split; auto.
        -- rewrite Em. rewrite <- app_assoc. reflexivity.
        -- change (pr_params ((name, sa) :: q :: more')) with (pr_param (name, sa) ++ TComma :: pr_params (q :: more')).
           unfold pr_param at 1. cbn [fst snd]. rewrite Tr, Tm. napp. reflexivity.
Qed.

(* ---- where / and *)
Lemma mkb_some : forall k ts r, core ts = true -> match_kw_beyond_linebreaks k ts = Some r -> ts = TKw k :: r.
Proof.
  intros k ts r C H. unfold match_kw_beyond_linebreaks in H.
  assert (E : (if match drop_separators ts with t :: _ => is_kw k t | [] => false end then skip_empty_lines ts else ts) = ts).
  { destruct (match drop_separators ts with t :: _ => is_kw k t | [] => false end); [apply core_skip; exact C|reflexivity]. }
  rewrite E in H. destruct ts as [|t x]; [discriminate|].
  destruct (is_kw k t) eqn:K; [|discriminate]. inversion H; subst.
  unfold is_kw in K. destruct t; try discriminate. destruct (kw_eq_dec k k0); [subst; reflexivity|discriminate].
Qed.

Lemma local_variable_sound : forall ts v rest, core ts = true -> local_variable ts = Ok v rest ->
  exists sv, wf_var sv = true /\ v = desugar_var [] sv /\ ts = pr_var sv ++ rest.
Proof.
  intros ts v rest C H. unfold local_variable in H. rewrite (core_skip ts C) in H.
  destruct (parse_variable false [] ts) as [v' r'| | |] eqn:E; try discriminate. inversion H; subst.
  destruct (variable_sound _ _ _ _ _ C E) as (sv & W & D & T & _). exists sv. auto.
Qed.

Lemma and_loop_sound : forall n acc ts out rest, core ts = true -> and_loop n acc ts = Ok out rest ->
  exists vs, forallb wf_var vs = true /\ out = acc ++ map (desugar_var []) vs /\ ts = pr_and vs ++ rest.
Proof.
  induction n; intros acc ts out rest C H; [discriminate|]. cbn [and_loop] in H.
  destruct (match_kw_beyond_linebreaks KAnd ts) as [r|] eqn:M.
  - pose proof (mkb_some _ _ _ C M) as ->.
    apply bind_ok in H. destruct H as (v & r1 & E & H).
    assert (Cr : core r = true) by (eapply core_tail; eauto).
    destruct (local_variable_sound _ _ _ Cr E) as (sv & Wv & Dv & Tv).
    assert (Cr1 : core r1 = true) by (apply (core_app_r (pr_var sv)); rewrite <- Tv; exact Cr).
    destruct (IHn _ _ _ _ Cr1 H) as (vs & Wvs & Evs & Tvs).
    exists (sv :: vs). cbn [forallb map pr_and]. rewrite Wv, Wvs. repeat split; auto.
    + rewrite Evs, Dv. rewrite <- app_assoc. reflexivity.
    + rewrite Tv, Tvs. napp. reflexivity.
  - inversion H; subst. exists []. rewrite app_nil_r. repeat split; reflexivity.
Qed.

(* ---- fn *)
Lemma ret_sound : forall r oa rest,
  (match r with
   | TArrow :: r2 => bind (type_annotation r2) (fun a x => Ok (Some a) x)
   | _ => Ok None r
   end) = Ok oa rest ->
  exists sa, wf_oann sa = true /\ oa = option_map ty_ann sa /\ r = pr_ret sa ++ rest.
Proof.
  intros r oa rest H.
  assert (No : Ok None r = Ok oa rest ->
    exists sa, wf_oann sa = true /\ oa = option_map ty_ann sa /\ r = pr_ret sa ++ rest).
  { intros E. inversion E; subst. exists None. repeat split; auto. }
  destruct r as [|t r1]; [apply No; exact H|].
  destruct t; try (apply No; exact H).
  apply bind_ok in H. destruct H as (a & r2 & E & H). inversion H; subst.
  destruct (type_annotation_sound _ _ _ E) as (ta & Wa & Da & Ta).
  exists (Some ta). cbn [wf_oann option_map pr_ret]. rewrite Da, Ta. repeat split; auto.
Qed.

Lemma fn_decl_sound : forall decos ts st rest, core ts = true -> no_tc ts = true ->
  (match ts with TIdent _ :: TLessThan :: TGreaterThan :: _ => False | _ => True end) ->
  parse_function_declaration decos ts = Ok st rest ->
  exists name tps params ret body,
    forallb (fun p => wf_oann (snd p)) params = true /\ wf_oann ret = true
    /\ match body with Some (e, vs) => wf e && forallb wf_var vs | None => true end = true
    /\ contains_aliases decos = false
    /\ st = StFn name tps (map desugar_param params) (option_map ty_ann ret)
                 (fst (fn_body_res body)) (snd (fn_body_res body)) decos
    /\ ts = TIdent name :: pr_tparams tps ++ TLParen :: pr_params params ++ TRParen :: pr_ret ret ++ pr_body body ++ rest.
Proof.
  intros decos ts st rest C NT NE H. unfold parse_function_declaration in H.
  destruct ts as [|t r]; [discriminate|]. destruct t; try discriminate.
  apply bind_ok in H. destruct H as (tps & r1 & Etp & H).
  assert (Cr : core r = true) by (eapply core_tail; eauto).
  destruct (tparams_sound _ _ _ (no_tc_tail _ _ NT) Etp) as [[Ttp _]|[-> Ttp]];
    [|subst r; contradiction].
  assert (Cr1 : core r1 = true) by (apply (core_app_r (pr_tparams tps)); rewrite <- Ttp; exact Cr).
  destruct r1 as [|t1 r2]; [discriminate|]. destruct t1; try discriminate.
  assert (Cr2 : core r2 = true) by (eapply core_tail; eauto).
  assert (E1a : (match r2 with TNewline :: x => x | _ => r2 end) = r2).
  { destruct r2 as [|t2 x]; [reflexivity|]. pose proof (core_head _ _ Cr2). destruct t2; try reflexivity; discriminate. }
  rewrite E1a in H.
  apply bind_ok in H. destruct H as (ps & r3 & Eps & H).
  destruct (fn_params_sound _ _ _ _ _ Cr2 Eps) as (params & Wps & Eq_ps & Tps). cbn [app] in Eq_ps. subst ps.
  assert (Cr3 : core r3 = true).
  { apply core_tail with (t := TRParen). apply (core_app_r (pr_params params)). rewrite <- Tps. exact Cr2. }
  apply bind_ok in H. destruct H as (oret & r4 & Eret & H).
  destruct (ret_sound _ _ _ Eret) as (ret & Wret & -> & Tret).
  assert (Cr4 : core r4 = true) by (apply (core_app_r (pr_ret ret)); rewrite <- Tret; exact Cr3).
  apply bind_ok in H. destruct H as (bl & r5 & Ebody & H).
  destruct (contains_aliases decos) eqn:CA; [discriminate|]. inversion H; subst.
  assert (BODY : exists body,
            match body with Some (e, vs) => wf e && forallb wf_var vs | None => true end = true
            /\ bl = fn_body_res body /\ r4 = pr_body body ++ rest).
  { assert (No : Ok (None, []) r4 = Ok bl rest -> exists body,
            match body with Some (e, vs) => wf e && forallb wf_var vs | None => true end = true
            /\ bl = fn_body_res body /\ r4 = pr_body body ++ rest).
    { intros E. inversion E; subst. exists None. repeat split; auto. }
    destruct r4 as [|t4 r6]; [apply No; exact Ebody|].
    destruct t4; try (apply No; exact Ebody).
    assert (Cr6 : core r6 = true) by (eapply core_tail; eauto).
    rewrite (core_skip r6 Cr6) in Ebody.
    apply bind_ok in Ebody. destruct Ebody as (b & r7 & Eb & Ebody).
    destruct (expression_sound _ _ _ Cr6 Eb) as (tb & Wb & Db & Tb).
    assert (Cr7 : core r7 = true) by (apply (core_app_r (pr tb)); rewrite <- Tb; exact Cr6).
    destruct (match_kw_beyond_linebreaks KWhere r7) as [r8|] eqn:M.
    - pose proof (mkb_some _ _ _ Cr7 M) as ->.
      apply bind_ok in Ebody. destruct Ebody as (v & r9 & Ev & Ebody).
      assert (Cr8 : core r8 = true) by (eapply core_tail; eauto).
      destruct (local_variable_sound _ _ _ Cr8 Ev) as (sv & Wv & Dv & Tv).
      assert (Cr9 : core r9 = true) by (apply (core_app_r (pr_var sv)); rewrite <- Tv; exact Cr8).
      apply bind_ok in Ebody. destruct Ebody as (vs & r10 & Evs & Ebody). inversion Ebody; subst.
      destruct (and_loop_sound _ _ _ _ _ Cr9 Evs) as (svs & Wvs & Eq_vs & Tvs).
      exists (Some (tb, sv :: svs)). cbn [forallb]. rewrite Wb, Wv, Wvs. repeat split; auto.
      + unfold fn_body_res. cbn [map]. rewrite Eq_vs. reflexivity.
      + cbn [pr_body pr_where]. rewrite Tvs. napp. reflexivity.
    - inversion Ebody; subst. exists (Some (tb, [])). cbn [forallb]. rewrite Wb. repeat split; auto.
      cbn [pr_body pr_where]. napp. rewrite ?app_nil_r. reflexivity. }
  destruct BODY as (body & Wbody & -> & Tbody).
  exists name, tps, params, ret, body. repeat split; auto.
  try rewrite Ttp; try rewrite Tps; try rewrite Tret; try rewrite Tbody; napp; reflexivity.
Qed.

(* ---- dimension *)
Lemma dims_loop_sound : forall n acc ts out rest, core ts = true ->
  dimension_eq_loop n acc ts = Ok out rest ->
  exists ds, forallb (fun d => wf_ty d && (1 <=? ylvl d)) ds = true
    /\ out = acc ++ map ty_exp ds /\ ts = pr_dims ds ++ rest.
Proof.
  induction n; intros acc ts out rest C H; [discriminate|]. cbn [dimension_eq_loop] in H.
  assert (Stop : Ok acc ts = Ok out rest -> exists ds, forallb (fun d => wf_ty d && (1 <=? ylvl d)) ds = true
    /\ out = acc ++ map ty_exp ds /\ ts = pr_dims ds ++ rest).
  { intros E. inversion E; subst. exists []. rewrite app_nil_r. repeat split; reflexivity. }
  destruct ts as [|t r]; [apply Stop; exact H|]. destruct t; try (apply Stop; exact H).
  assert (Cr : core r = true) by (eapply core_tail; eauto).
  rewrite (core_skip r Cr) in H.
  apply bind_ok in H. destruct H as (d & r1 & E & H).
  destruct (dimension_expression_sound _ _ _ E) as (td & Wd & Ld & Dd & Td).
  assert (Cr1 : core r1 = true) by (apply (core_app_r (pr_ty td)); rewrite <- Td; exact Cr).
  destruct (IHn _ _ _ _ Cr1 H) as (ds & Wds & Eds & Tds).
  exists (td :: ds). cbn [forallb map pr_dims]. rewrite Wd, Wds, (proj2 (Nat.leb_le _ _) Ld). repeat split; auto.
  - rewrite Eds, Dd. rewrite <- app_assoc. reflexivity.
  - rewrite Td, Tds. napp. reflexivity.
Qed.

(* ---- unit *)
Lemma odim_sound : forall r od rest,
  (match r with
   | TColon :: r1 => bind (dimension_expression r1) (fun d rest0 => Ok (Some d) rest0)
   | _ => Ok None r
   end) = Ok od rest ->
  exists sa, wf_odim sa = true /\ od = option_map ty_exp sa /\ r = pr_oann sa ++ rest.
Proof.
  intros r od rest H.
  assert (No : Ok None r = Ok od rest ->
    exists sa, wf_odim sa = true /\ od = option_map ty_exp sa /\ r = pr_oann sa ++ rest).
  { intros E. inversion E; subst. exists None. repeat split; auto. }
  destruct r as [|t r1]; [apply No; exact H|].
  destruct t; try (apply No; exact H).
  apply bind_ok in H. destruct H as (d & r2 & E & H). inversion H; subst.
  destruct (dimension_expression_sound _ _ _ E) as (td & Wd & Ld & Dd & Td).
  exists (Some td). cbn [wf_odim option_map pr_oann]. rewrite Wd, Dd, Td, (proj2 (Nat.leb_le _ _) Ld).
  repeat split; auto.
Qed.

Lemma unit_decl_sound : forall decos ts st rest, core ts = true ->
  parse_unit_declaration decos ts = Ok st rest ->
  exists name ann e,
    wf_odim ann = true /\ match e with Some x => wf x | None => true end = true
    /\ contains_examples decos = false
    /\ st = StUnit name (option_map (fun a => TAExp (ty_exp a)) ann) (option_map desugar e) decos
    /\ ts = TIdent name :: pr_oann ann ++ match e with Some x => TEqual :: pr x | None => [] end ++ rest.
Proof.
  intros decos ts st rest C H. unfold parse_unit_declaration in H.
  destruct ts as [|t r]; [discriminate|]. destruct t; try discriminate.
  apply bind_ok in H. destruct H as (od & r1 & E & H).
  destruct (odim_sound _ _ _ E) as (ann & Wann & -> & Tr).
  assert (Cr : core r = true) by (eapply core_tail; eauto).
  assert (Cr1 : core r1 = true) by (apply (core_app_r (pr_oann ann)); rewrite <- Tr; exact Cr).
  destruct (contains_examples decos) eqn:CE; [discriminate|].
  assert (NoBody : (match option_map ty_exp ann with
                    | Some _ => Ok (StUnit name (option_map TAExp (option_map ty_exp ann)) None decos) r1
                    | None => if is_end_of_statement r1 then Ok (StUnit name None None decos) r1
                              else Err ExpectedColonOrEqualAfterUnitIdentifier
                    end) = Ok st rest ->
            exists name0 ann0 e,
              wf_odim ann0 = true /\ match e with Some x => wf x | None => true end = true
              /\ false = false
              /\ st = StUnit name0 (option_map (fun a => TAExp (ty_exp a)) ann0) (option_map desugar e) decos
              /\ TIdent name :: r = TIdent name0 :: pr_oann ann0 ++ match e with Some x => TEqual :: pr x | None => [] end ++ rest).
  { intros E0. exists name, ann, None. destruct ann as [a|]; cbn [option_map] in E0.
    - inversion E0; subst. repeat split; auto.
    - destruct (is_end_of_statement r1); [|discriminate]. inversion E0; subst. repeat split; auto. }
  destruct r1 as [|t1 r2]; [apply NoBody; exact H|].
  destruct t1; try (apply NoBody; exact H).
  assert (Cr2 : core r2 = true) by (eapply core_tail; eauto).
  rewrite (core_skip r2 Cr2) in H.
  apply bind_ok in H. destruct H as (e & r3 & Ee & H). inversion H; subst.
  destruct (expression_sound _ _ _ Cr2 Ee) as (te & We & De & Te).
  exists name, ann, (Some te). repeat split; auto.
  - cbn [option_map]. rewrite De. destruct ann; reflexivity.
  - rewrite Te. napp. reflexivity.
Qed.

(* ---- use *)
Lemma use_loop_sound : forall n acc ts out rest, use_loop n acc ts = Ok out rest ->
  exists p, out = acc ++ p /\ ts = pr_path p ++ rest.
Proof.
  induction n; intros acc ts out rest H; [discriminate|]. cbn [use_loop] in H.
  assert (Stop : Ok acc ts = Ok out rest -> exists p, out = acc ++ p /\ ts = pr_path p ++ rest).
  { intros E. inversion E; subst. exists []. rewrite app_nil_r. split; reflexivity. }
  destruct ts as [|t r]; [apply Stop; exact H|]. destruct t; try (apply Stop; exact H).
  destruct r as [|t1 r1]; [discriminate|]. destruct t1; try discriminate.
  destruct (IHn _ _ _ _ H) as (p & Ep & Tp). exists (name :: p). split.
  - rewrite Ep. rewrite <- app_assoc. reflexivity.
  - cbn [pr_path app]. rewrite Tp. reflexivity.
Qed.

(* ---- struct *)
Lemma fields_loop_sound : forall n acc ts out rest, core ts = true ->
  struct_fields_loop n acc ts = Ok out rest ->
  exists fs, forallb (fun f => wf_ty (snd f)) fs = true
    /\ out = acc ++ map desugar_field fs /\ ts = pr_fields fs ++ TRCurly :: rest.
Proof.
  induction n; intros acc ts out rest C H; [discriminate|]. cbn [struct_fields_loop] in H.
  destruct ts as [|t r]; [discriminate|].
  assert (Field : forall name r0, t :: r = TIdent name :: r0 ->
            (match skip_empty_lines r0 with
             | TColon :: r1 =>
                 bind (type_annotation (skip_empty_lines r1)) (fun a rest0 =>
                   match skip_empty_lines rest0 with
                   | TComma :: r2 => struct_fields_loop n (acc ++ [(name, a)]) (skip_empty_lines r2)
                   | TRCurly :: r2 => struct_fields_loop n (acc ++ [(name, a)]) (TRCurly :: r2)
                   | _ => Err ExpectedCommaOrRightCurlyInStructFieldList
                   end)
             | _ => Err ExpectedColonAfterFieldName
             end) = Ok out rest ->
            exists fs, forallb (fun f => wf_ty (snd f)) fs = true
              /\ out = acc ++ map desugar_field fs /\ t :: r = pr_fields fs ++ TRCurly :: rest).
  { intros name r0 Et H0. rewrite Et in *.
    assert (Cr0 : core r0 = true) by (eapply core_tail; eauto).
    rewrite (core_skip r0 Cr0) in H0.
    destruct r0 as [|t1 r1]; [discriminate|]. destruct t1; try discriminate.
    assert (Cr1 : core r1 = true) by (eapply core_tail; eauto).
    rewrite (core_skip r1 Cr1) in H0.
    apply bind_ok in H0. destruct H0 as (a & r2 & E & H0).
    destruct (type_annotation_sound _ _ _ E) as (ta & Wa & Da & Ta).
    assert (Cr2 : core r2 = true) by (apply (core_app_r (pr_ty ta)); rewrite <- Ta; exact Cr1).
    rewrite (core_skip r2 Cr2) in H0.
    destruct r2 as [|t2 r3]; [discriminate|]. destruct t2; try discriminate.
    - (* } *)
      destruct (IHn _ _ _ _ Cr2 H0) as (fs & Wfs & Efs & Tfs).
      destruct fs as [|g fs']; [|exfalso; cbn [pr_fields] in Tfs; unfold pr_field in Tfs; cbn [app] in Tfs; discriminate Tfs].
      cbn [pr_fields app] in Tfs. inversion Tfs; subst.
      exists [(name, ta)]. split; [cbn [forallb snd]; rewrite Wa; reflexivity|]. split.
      + cbn [map]. rewrite app_nil_r. reflexivity.
      + cbn [pr_fields]. unfold pr_field. cbn [fst snd]. napp. reflexivity.
    - (* , *)
      assert (Cr3 : core r3 = true) by (eapply core_tail; eauto).
      rewrite (core_skip r3 Cr3) in H0.
      destruct (IHn _ _ _ _ Cr3 H0) as (fs & Wfs & Efs & Tfs).
      destruct fs as [|g fs'].
      + exfalso. cbn [pr_fields app] in Tfs. subst r3. eapply core_notrail_c. exact Cr2.
      + exists ((name, ta) :: g :: fs'). cbn [forallb snd] in *. rewrite Wa, Wfs. repeat split; auto.
        * rewrite Efs. unfold desugar_field at 2. cbn [map fst snd]. rewrite Da. rewrite <- app_assoc. reflexivity.
        * change (pr_fields ((name, ta) :: g :: fs')) with (pr_field (name, ta) ++ TComma :: pr_fields (g :: fs')).
          unfold pr_field at 1. cbn [fst snd]. rewrite Ta, Tfs. napp. reflexivity. }
  pose proof (core_skip (t :: r) C) as Sk.
  destruct t; try (rewrite Sk in H; discriminate H).
  - (* } *) inversion H; subst. exists []. rewrite app_nil_r. repeat split; reflexivity.
  - (* identifier *) rewrite Sk in H. eapply Field; [reflexivity|exact H].
Qed.

(* ---- statements *)
Fixpoint tp_plain (ts : list token) : bool :=
  match ts with
  | TComma :: ((TGreaterThan :: _) as r) => false
  | TKw KFn :: ((TIdent _ :: TLessThan :: TGreaterThan :: _) as r) => false
  | TKw KStruct :: ((TIdent _ :: TLessThan :: TGreaterThan :: _) as r) => false
  | _ :: r => tp_plain r
  | [] => true
  end.

Lemma tp_plain_tail : forall t r, tp_plain (t :: r) = true -> tp_plain r = true.
Proof.
  intros t r H. destruct t; try exact H.
  - destruct r as [|t2 r2]; [reflexivity|]. destruct t2; try exact H. discriminate.
  - destruct k; try exact H.
    + destruct r as [|t2 r2]; [reflexivity|]. destruct t2; try exact H.
      destruct r2 as [|t3 r3]; [exact H|]. destruct t3; try exact H.
      destruct r3 as [|t4 r4]; [exact H|]. destruct t4; try exact H. discriminate.
    + destruct r as [|t2 r2]; [reflexivity|]. destruct t2; try exact H.
      destruct r2 as [|t3 r3]; [exact H|]. destruct t3; try exact H.
      destruct r3 as [|t4 r4]; [exact H|]. destruct t4; try exact H. discriminate.
Qed.
Lemma tp_plain_app_r : forall a b, tp_plain (a ++ b) = true -> tp_plain b = true.
Proof. induction a; intros b H; [exact H|]. apply IHa. eapply tp_plain_tail. exact H. Qed.
Lemma tp_plain_no_tc : forall ts, tp_plain ts = true -> no_tc ts = true.
Proof.
  induction ts as [|t r IH]; intros H; [reflexivity|].
  pose proof (IH (tp_plain_tail _ _ H)) as N.
  destruct t; try exact N. destruct r as [|t2 r2]; [reflexivity|]. destruct t2; try exact N. discriminate.
Qed.

Definition set_decos (ds : list sdeco) (d : sdef) : sdef :=
  match d with
  | SFLet _ v => SFLet ds v
  | SFFn _ a b c e f => SFFn ds a b c e f
  | SFUnit _ a b c => SFUnit ds a b c
  | _ => d
  end.
Definition decos_of (d : sdef) : list sdeco :=
  match d with SFLet ds _ | SFFn ds _ _ _ _ _ | SFUnit ds _ _ _ => ds | _ => [] end.
Definition item_decos (i : sitem) : list sdeco := match i with IStmt _ => [] | IDef d => decos_of d end.
Definition pr_item_nd (i : sitem) : list token :=
  match i with IStmt s => pr_stmt s | IDef d => pr_def_flat (set_decos [] d) end.
Definition pr_item_flat (i : sitem) : list token :=
  match i with IStmt s => pr_stmt s | IDef d => pr_def_flat d end.

Lemma pr_item_flat_split : forall i, pr_item_flat i = pr_decos_flat (item_decos i) ++ pr_item_nd i.
Proof. intros [s|d]; [reflexivity|]. destruct d; reflexivity. Qed.

Lemma statement_n_sound : forall n sds ts st rest, core ts = true -> tp_plain ts = true ->
  statement_n n (map desugar_deco sds) ts = Ok st rest ->
  exists more it, wf_item it = true /\ desugar_item it = st
    /\ ts = pr_decos_flat more ++ pr_item_nd it ++ rest /\ item_decos it = sds ++ more.
Proof.
  induction n; intros sds ts st rest C TP H; [discriminate|].
  (* statements that are not definitions *)
  assert (Simple : simple_start ts = true -> match ts with TKw KLet :: _ => False | _ => True end ->
            sds = [] -> statement ts = Ok st rest ->
            exists more it, wf_item it = true /\ desugar_item it = st
              /\ ts = pr_decos_flat more ++ pr_item_nd it ++ rest /\ item_decos it = sds ++ more).
  { intros SS NL -> Hs. destruct (statement_sound _ _ _ C SS Hs) as (s & Ws & Ds & Ts).
    exists [], (IStmt s). repeat split; auto. }
  cbn [statement_n] in H.
  set (decos := map desugar_deco sds) in *.
  assert (DecoOk : forall (A : Type) (x y : A), decos <> [] ->
            (match decos, ts with
             | [], _ => x
             | _, (TAt :: _ | TKw KUnit :: _ | TKw KLet :: _ | TKw KFn :: _) => x
             | _, _ => y
             end) = match ts with (TAt :: _ | TKw KUnit :: _ | TKw KLet :: _ | TKw KFn :: _) => x | _ => y end).
  { intros A x y NE. destruct decos; [contradiction|]. reflexivity. }
  destruct ts as [|t r].
  { (* no tokens *)
    destruct sds as [|sd sds']; [|discriminate H].
    apply Simple; auto; try (unfold statement; cbn [statement_n]; exact H). }
  assert (Cr : core r = true) by (eapply core_tail; eauto).
  assert (TPr : tp_plain r = true) by (eapply tp_plain_tail; eauto).
  assert (NonDef : sds = [] \/ exists x, (match decos, t :: r with
             | [], _ => true
             | _, (TAt :: _ | TKw KUnit :: _ | TKw KLet :: _ | TKw KFn :: _) => true
             | _, _ => false
             end) = x) by (right; eexists; reflexivity).
  clear NonDef.
  destruct t; try (
    destruct sds as [|sd sds']; [|discriminate H];
    apply Simple; [reflexivity|exact I|reflexivity|unfold statement; cbn [statement_n]; exact H]).
  - (* @ *)
    assert (H' : bind (parse_decorator r) (fun d rest0 => statement_n n (decos ++ [d]) (skip_empty_lines rest0)) = Ok st rest).
    { destruct decos; exact H. }
    apply bind_ok in H'. destruct H' as (d & r1 & Ed & H').
    destruct (decorator_sound _ _ _ Ed) as (sd & Dsd & Tsd).
    assert (Cr1 : core r1 = true) by (apply (core_app_r (pr_deco_body sd)); rewrite <- Tsd; exact Cr).
    assert (TPr1 : tp_plain r1 = true) by (apply (tp_plain_app_r (pr_deco_body sd)); rewrite <- Tsd; exact TPr).
    rewrite (core_skip r1 Cr1) in H'.
    assert (H'' : statement_n n (map desugar_deco (sds ++ [sd])) r1 = Ok st rest).
    { rewrite map_app. cbn [map]. rewrite Dsd. exact H'. }
    destruct (IHn _ _ _ _ Cr1 TPr1 H'') as (more & it & Wit & Dit & Tit & Eit).
    exists (sd :: more), it. repeat split; auto.
    + cbn [pr_decos_flat]. unfold pr_deco_flat. rewrite Tsd, Tit. napp. reflexivity.
    + rewrite Eit. rewrite <- app_assoc. reflexivity.
  - (* keywords *)
    destruct k; try (
      destruct sds as [|sd sds']; [|discriminate H];
      apply Simple; [reflexivity|exact I|reflexivity|unfold statement; cbn [statement_n]; exact H]).
    + (* let *)
      assert (H' : bind (parse_variable true decos r) (fun v rest0 => Ok (StLet v) rest0) = Ok st rest)
        by (destruct decos; exact H).
      apply bind_ok in H'. destruct H' as (v & r1 & Ev & H'). inversion H'; subst.
      destruct (variable_sound _ _ _ _ _ Cr Ev) as (sv & Wv & Dv & Tv & Chk).
      destruct (Chk eq_refl) as [C1 C2]. unfold decos in C1, C2. rewrite ex_prefixed in C1. rewrite ex_examples in C2.
      exists [], (IDef (SFLet sds sv)). cbn [wf_item wf_def desugar_item desugar_def]. rewrite Wv, C1, C2.
      rewrite app_nil_r. repeat split; auto; [rewrite Dv; reflexivity|].
      cbn [pr_decos_flat pr_item_nd set_decos pr_def_flat app]. try rewrite Tv; napp; reflexivity.
    + (* fn *)
      assert (H' : parse_function_declaration decos r = Ok st rest) by (destruct decos; exact H).
      assert (NE : match r with TIdent _ :: TLessThan :: TGreaterThan :: _ => False | _ => True end).
      { destruct r as [|t1 r1]; [exact I|]. destruct t1; try exact I.
        destruct r1 as [|t2 r2]; [exact I|]. destruct t2; try exact I.
        destruct r2 as [|t3 r3]; [exact I|]. destruct t3; try exact I. discriminate TP. }
      destruct (fn_decl_sound _ _ _ _ Cr (tp_plain_no_tc _ TPr) NE H')
        as (name & tps & params & ret & body & Wp & Wr & Wb & CA & Est & Tr).
      unfold decos in CA. rewrite ex_aliases in CA.
      exists [], (IDef (SFFn sds name tps params ret body)). cbn [wf_item wf_def desugar_item desugar_def].
      rewrite Wp, Wr, Wb, CA. rewrite app_nil_r. repeat split; auto.
      all: try (cbn [pr_decos_flat pr_item_nd set_decos pr_def_flat app]; rewrite Tr; napp; reflexivity).
      all: try (rewrite Est; destruct body as [[e vs]|]; reflexivity).
    + (* dimension *)
      destruct sds as [|sd sds']; [|discriminate H].
      cbn [map] in decos. unfold decos in H. unfold parse_dimension_declaration in H.
      destruct r as [|t1 r1]; [discriminate|]. destruct t1; try discriminate.
      destruct (starts_double_underscore name) eqn:DU; [discriminate|].
      apply bind_ok in H. destruct H as (ds & r2 & Eds & H). inversion H; subst.
      assert (Cr1 : core r1 = true) by (eapply core_tail; eauto).
      destruct (dims_loop_sound _ _ _ _ _ Cr1 Eds) as (tds & Wds & Eq_ds & Tds). cbn [app] in Eq_ds. subst ds.
      exists [], (IDef (SFDimension name tds)). cbn [wf_item wf_def desugar_item desugar_def]. rewrite DU, Wds.
      repeat split; auto. cbn [pr_decos_flat pr_item_nd set_decos pr_def_flat pr_def app]. try rewrite Tds; reflexivity.
    + (* unit *)
      assert (H' : parse_unit_declaration decos r = Ok st rest) by (destruct decos; exact H).
      destruct (unit_decl_sound _ _ _ _ Cr H') as (name & ann & e & Wa & We & CE & Est & Tr).
      unfold decos in CE. rewrite ex_examples in CE.
      exists [], (IDef (SFUnit sds name ann e)). cbn [wf_item wf_def desugar_item desugar_def].
      rewrite Wa, We, CE. rewrite app_nil_r. repeat split; auto.
      cbn [pr_decos_flat pr_item_nd set_decos pr_def_flat app]. try rewrite Tr; napp; reflexivity.
    + (* use *)
      destruct sds as [|sd sds']; [|discriminate H].
      cbn [map] in decos. unfold decos in H. unfold parse_use in H.
      destruct r as [|t1 r1]; [discriminate|]. destruct t1; try discriminate.
      apply bind_ok in H. destruct H as (p & r2 & Ep & H). inversion H; subst.
      destruct (use_loop_sound _ _ _ _ _ Ep) as (path & Eq_p & Tp). cbn [app] in Eq_p. subst p.
      exists [], (IDef (SFUse name path)). repeat split; auto.
      cbn [pr_decos_flat pr_item_nd set_decos pr_def_flat pr_def app]. try rewrite Tp; reflexivity.
    + (* struct *)
      destruct sds as [|sd sds']; [|discriminate H].
      cbn [map] in decos. unfold decos in H. unfold parse_struct in H.
      destruct r as [|t1 r1]; [discriminate|]. destruct t1; try discriminate.
      apply bind_ok in H. destruct H as (tps & r2 & Etp & H).
      assert (Cr1 : core r1 = true) by (eapply core_tail; eauto).
      assert (TPr1 : tp_plain r1 = true) by (eapply tp_plain_tail; eauto).
      destruct (tparams_sound _ _ _ (tp_plain_no_tc _ TPr1) Etp) as [[Ttp _]|[-> Ttp]].
      * assert (Cr2 : core r2 = true) by (apply (core_app_r (pr_tparams tps)); rewrite <- Ttp; exact Cr1).
        destruct r2 as [|t2 r3]; [discriminate|]. destruct t2; try discriminate.
        assert (Cr3 : core r3 = true) by (eapply core_tail; eauto).
        rewrite (core_skip r3 Cr3) in H.
        apply bind_ok in H. destruct H as (fs & r4 & Efs & H). inversion H; subst.
        destruct (fields_loop_sound _ _ _ _ _ Cr3 Efs) as (tfs & Wfs & Eq_fs & Tfs). cbn [app] in Eq_fs. subst fs.
        exists [], (IDef (SFStruct name tps tfs)). cbn [wf_item wf_def desugar_item desugar_def]. rewrite Wfs.
        repeat split; auto. cbn [pr_decos_flat pr_item_nd set_decos pr_def_flat pr_def app].
        try rewrite Ttp; try rewrite Tfs; napp; reflexivity.
      * exfalso. subst r1. discriminate TP.
Qed.

(* whatever `statement` accepts on a token list without line breaks / trailing commas is the
   (one-line) print of a well-formed statement or definition, and denotes it *)
Theorem statement_sound_full : forall ts st rest, core ts = true -> tp_plain ts = true ->
  statement ts = Ok st rest ->
  exists it, wf_item it = true /\ desugar_item it = st /\ ts = pr_item_flat it ++ rest.
Proof.
  intros ts st rest C TP H. unfold statement in H.
  destruct (statement_n_sound _ [] ts st rest C TP H) as (more & it & W & D & T & E).
  exists it. repeat split; auto. rewrite pr_item_flat_split. cbn [app] in E. rewrite E.
  rewrite T. rewrite <- app_assoc. reflexivity.
Qed.
