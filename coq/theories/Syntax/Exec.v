(* C10 — executable instance of the lexer's character classes and the text
   printers used by the correspondence check (same line format as
   numbat::verif::syntax::{dump_tokens, dump_ast}). *)
From NV Require Import Base.Show Syntax.Token Syntax.Ast Syntax.StmtAst Syntax.StrEsc Syntax.Lexer Syntax.Parser.
From Coq Require Import Bool.
Local Open Scope N_scope.

(* XID_Start / XID_Continue restricted to the characters listed in `supported` *)
Definition xid_start (c : N) : bool :=
  in_range 65 90 c || in_range 97 122 c || (c =? 181)
  || in_range 192 214 c || in_range 216 246 c || in_range 248 255 c
  || in_range 913 929 c || in_range 931 937 c || in_range 945 969 c.
Definition xid_continue (c : N) : bool := xid_start c || in_range 48 57 c || (c =? 95) || (c =? 183).

Definition supported (c : N) : bool :=
  (c <? 128) || (c =? 163) || (c =? 165) || (c =? 176) || (c =? 178) || (c =? 179) || (c =? 181)
  || (c =? 183) || (c =? 185) || in_range 188 190 c || in_range 192 255 c
  || in_range 913 929 c || in_range 931 937 c || in_range 945 969 c
  || (c =? 3647) || (c =? 8230) || (c =? 8240) || (c =? 8242) || (c =? 8243)
  || in_range 8308 8313 c || (c =? 8315) || in_range 8320 8329 c || in_range 8352 8399 c
  || in_range 8528 8542 c || (c =? 8594) || (c =? 8722) || (c =? 8800) || (c =? 8804) || (c =? 8805)
  || (c =? 8901) || (c =? 10142) || (c =? 10869).

Definition lex (cs : str) : lres (list token) :=
  if forallb supported cs then tokenize xid_start xid_continue cs else LUnsupported.

(* ---- text *)
Definition hex_digit (d : N) : string :=
  String (ascii_of_N (if d <? 10 then 48 + d else 55 + d)) EmptyString.
Fixpoint hex_pos (fuel : nat) (n : N) : string :=
  match fuel with
  | O => ""
  | S f => if n <? 16 then hex_digit n else (hex_pos f (n / 16) ++ hex_digit (n mod 16))%string
  end.
Definition hex_of_N (n : N) : string := hex_pos 16 n.

Definition esc_char (c : N) : string :=
  if in_range 33 126 c && negb ((c =? 34) || (c =? 92) || (c =? 40) || (c =? 41))
  then String (ascii_of_N c) EmptyString
  else ("\u{" ++ hex_of_N c ++ "}")%string.
Definition esc (s : str) : string := String.concat "" (map esc_char s).

Definition show_kw (k : kw) : string :=
  match k with
  | KLet => "Let" | KFn => "Fn" | KWhere => "Where" | KAnd => "And" | KDimension => "Dimension"
  | KUnit => "Unit" | KUse => "Use" | KStruct => "Struct" | KLong => "Long" | KShort => "Short"
  | KBoth => "Both" | KNone => "None" | KBool => "Bool" | KString => "String" | KDateTime => "DateTime"
  | KCapitalFn => "CapitalFn" | KList => "List" | KPrint => "ProcedurePrint" | KAssert => "ProcedureAssert"
  | KAssertEq => "ProcedureAssertEq" | KType => "ProcedureType"
  end.

Definition show_token (t : token) : string :=
  match t with
  | TLParen => "LeftParen" | TRParen => "RightParen" | TLBracket => "LeftBracket" | TRBracket => "RightBracket"
  | TLCurly => "LeftCurly" | TRCurly => "RightCurly"
  | TPlus => "Plus" | TMinus => "Minus" | TMultiply => "Multiply" | TPower => "Power" | TDivide => "Divide"
  | TComma => "Comma" | TArrow => "Arrow" | TEqual => "Equal" | TColon => "Colon" | TDoubleColon => "DoubleColon"
  | TPostfixApply => "PostfixApply"
  | TUnicodeExponent l => "UnicodeExponent:" ++ esc l
  | TAt => "At" | TEllipsis => "Ellipsis" | TExcl => "ExclamationMark"
  | TEqualEqual => "EqualEqual" | TNotEqual => "NotEqual" | TLessThan => "LessThan" | TGreaterThan => "GreaterThan"
  | TLessOrEqual => "LessOrEqual" | TGreaterOrEqual => "GreaterOrEqual"
  | TLogicalAnd => "LogicalAnd" | TLogicalOr => "LogicalOr" | TPeriod => "Period" | TQuestionMark => "QuestionMark"
  | TPer => "Per" | TTo => "To" | TIf => "If" | TThen => "Then" | TElse => "Else" | TTrue => "True" | TFalse => "False"
  | TNaN => "NaN" | TInf => "Inf"
  | TKw k => show_kw k
  | TNumber l => "Number:" ++ esc l
  | TIntBase b l => "IntegerWithBase(" ++ show_N b ++ "):" ++ esc l
  | TIdent s => "Identifier:" ++ esc s
  | TString l => "StringFixed:" ++ esc l
  | TInterpStart l => "StringInterpolationStart:" ++ esc l
  | TInterpMiddle l => "StringInterpolationMiddle:" ++ esc l
  | TInterpSpec l => "StringInterpolationSpecifiers:" ++ esc l
  | TInterpEnd l => "StringInterpolationEnd:" ++ esc l
  | TNewline => "Newline" | TSemicolon => "Semicolon"
  end.

Definition show_lexerr (e : lexerr) : string :=
  match e with
  | UnexpectedCharacter => "UnexpectedCharacter"
  | UnexpectedCharacterInNegativeExponent => "UnexpectedCharacterInNegativeExponent"
  | UnexpectedCharacterInNumberLiteral => "UnexpectedCharacterInNumberLiteral"
  | UnexpectedCharacterInIdentifier => "UnexpectedCharacterInIdentifier"
  | ExpectedDigit => "ExpectedDigit" | ExpectedDigitInBase => "ExpectedDigitInBase"
  | UnterminatedString => "UnterminatedString" | UnexpectedScopeClosing => "UnexpectedScopeClosing"
  | UnterminatedStringInterpolation => "UnterminatedStringInterpolation"
  | UnexpectedCurlyInInterpolation => "UnexpectedCurlyInInterpolation"
  end.

Definition show_perr (e : perr) : string :=
  match e with
  | ExpectedPrimary => "ExpectedPrimary" | MissingClosingParen => "MissingClosingParen"
  | ExpectedThen => "ExpectedThen" | ExpectedElse => "ExpectedElse" | ExpectedIdentifier => "ExpectedIdentifier"
  | ExpectedIdentifierOrCallAfterPostfixApply => "ExpectedIdentifierOrCallAfterPostfixApply"
  | ExpectedCommaOrRightBracketInList => "ExpectedCommaOrRightBracketInList"
  | InlineProcedureUsage => "InlineProcedureUsage" | ExpectedFieldNameInStruct => "ExpectedFieldNameInStruct"
  | ExpectedColonAfterFieldName => "ExpectedColonAfterFieldName"
  | ExpectedCommaOrRightCurlyInStructFieldList => "ExpectedCommaOrRightCurlyInStructFieldList"
  | OverflowInNumberLiteral => "OverflowInNumberLiteral" | TrailingCharacters => "TrailingCharacters"
  | TrailingEqualSign => "TrailingEqualSign" | TrailingEqualSignFunction => "TrailingEqualSignFunction"
  | ExpectedIdentifierAfterLet => "ExpectedIdentifierAfterLet"
  | ExpectedEqualOrColonAfterLetIdentifier => "ExpectedEqualOrColonAfterLetIdentifier"
  | ExpectedLeftParenAfterProcedureName => "ExpectedLeftParenAfterProcedureName"
  | ExpectedIdentifierAfterFn => "ExpectedIdentifierAfterFn"
  | ExpectedLeftParenInFunctionDefinition => "ExpectedLeftParenInFunctionDefinition"
  | ExpectedCommaEllipsisOrRightParenInFunctionDefinition => "ExpectedCommaEllipsisOrRightParenInFunctionDefinition"
  | ExpectedParameterNameInFunctionDefinition => "ExpectedParameterNameInFunctionDefinition"
  | ExpectedLocalVariableDefinition => "ExpectedLocalVariableDefinition"
  | AliasUsedOnFunction => "AliasUsedOnFunction"
  | ExpectedIdentifierAfterDimension => "ExpectedIdentifierAfterDimension"
  | DoubleUnderscoreTypeNamesReserved => "DoubleUnderscoreTypeNamesReserved"
  | ExpectedDecoratorName => "ExpectedDecoratorName" | UnknownDecorator => "UnknownDecorator"
  | ExpectedLeftParenAfterDecorator => "ExpectedLeftParenAfterDecorator" | ExpectedString => "ExpectedString"
  | ExpectedIdentifierAfterUnit => "ExpectedIdentifierAfterUnit"
  | ExpectedColonOrEqualAfterUnitIdentifier => "ExpectedColonOrEqualAfterUnitIdentifier"
  | ExampleUsedOnUnsuitableKind => "ExampleUsedOnUnsuitableKind"
  | DecoratorsWithPrefixOnLetDefinition => "DecoratorsWithPrefixOnLetDefinition"
  | DecoratorUsedOnUnsuitableKind => "DecoratorUsedOnUnsuitableKind"
  | ExpectedModulePathAfterUse => "ExpectedModulePathAfterUse"
  | ExpectedModuleNameAfterDoubleColon => "ExpectedModuleNameAfterDoubleColon"
  | ExpectedLeftCurlyAfterStructName => "ExpectedLeftCurlyAfterStructName"
  | UnknownBound => "UnknownBound"
  | ExpectedBoundInTypeParameterDefinition => "ExpectedBoundInTypeParameterDefinition"
  | ExpectedCommaOrRightAngleBracket => "ExpectedCommaOrRightAngleBracket"
  | ExpectedTypeParameterName => "ExpectedTypeParameterName"
  | ExpectedTokenInFunctionType => "ExpectedTokenInFunctionType"
  | ExpectedTokenInListType => "ExpectedTokenInListType"
  | ExpectedDimensionPrimary => "ExpectedDimensionPrimary" | ExpectedDimensionExponent => "ExpectedDimensionExponent"
  | NumberInDimensionExponentOutOfRange => "NumberInDimensionExponentOutOfRange"
  | DivisionByZeroInDimensionExponent => "DivisionByZeroInDimensionExponent"
  | OverflowInDimensionExponent => "OverflowInDimensionExponent" | UnknownAliasAnnotation => "UnknownAliasAnnotation"
  | EmptyStringInterpolation => "EmptyStringInterpolation" | UnterminatedStringParse => "UnterminatedString"
  end.

Definition show_binop (o : binop) : string :=
  match o with
  | Add => "add" | Sub => "sub" | Mul => "mul" | Div => "div" | Power => "pow" | ConvertTo => "conv"
  | LessThan => "lt" | GreaterThan => "gt" | LessOrEqual => "le" | GreaterOrEqual => "ge"
  | Equal => "eq" | NotEqual => "ne" | LogicalAnd => "and" | LogicalOr => "or"
  end.

Fixpoint show_expr (e : expr) : string :=
  match e with
  | EScalar l => "(num " ++ esc l ++ ")"
  | EScalarExp k => "(num ^" ++ show_Z k ++ ")"
  | EIdent s => "(id " ++ esc s ++ ")"
  | EHole => "(hole)"
  | EBool b => if b then "(bool true)" else "(bool false)"
  | EString s => "(str """ ++ esc s ++ """)"
  | EInterp parts =>
      "(str" ++ String.concat "" (map (fun p => match p with
                                             | PFixed s => " """ ++ esc s ++ """"
                                             | PExpr a None => " (interp " ++ show_expr a ++ ")"
                                             | PExpr a (Some f) => " (interp " ++ show_expr a ++ " """ ++ esc f ++ """)"
                                             end) parts) ++ ")"
  | EUn Negate a => "(neg " ++ show_expr a ++ ")"
  | EUn LogicalNeg a => "(not " ++ show_expr a ++ ")"
  | EUn (Factorial n) a => "(fact " ++ show_nat n ++ " " ++ show_expr a ++ ")"
  | EBin o a b => "(" ++ show_binop o ++ " " ++ show_expr a ++ " " ++ show_expr b ++ ")"
  | ECall f args => "(call " ++ show_expr f ++ String.concat "" (map (fun a => " " ++ show_expr a) args) ++ ")"
  | EField a f => "(field " ++ show_expr a ++ " " ++ esc f ++ ")"
  | EIf c t f => "(if " ++ show_expr c ++ " " ++ show_expr t ++ " " ++ show_expr f ++ ")"
  | EList es => "(list" ++ String.concat "" (map (fun a => " " ++ show_expr a) es) ++ ")"
  | EStruct n fs =>
      "(struct " ++ esc n ++ String.concat "" (map (fun fe => " (" ++ esc (fst fe) ++ " " ++ show_expr (snd fe) ++ ")") fs) ++ ")"
  end%string.

Fixpoint show_texp (t : texp) : string :=
  match t with
  | TEUnity => "(tunity)"
  | TEIdent n args => "(tid " ++ esc n ++ String.concat "" (map (fun a => " " ++ show_tann a) args) ++ ")"
  | TEMul a b => "(tmul " ++ show_texp a ++ " " ++ show_texp b ++ ")"
  | TEDiv a b => "(tdiv " ++ show_texp a ++ " " ++ show_texp b ++ ")"
  | TEPow a e => "(tpow " ++ show_texp a ++ " " ++ show_Z (fst e) ++ "/" ++ show_N (Npos (snd e)) ++ ")"
  end%string
with show_tann (t : tann) : string :=
  match t with
  | TAExp e => show_texp e
  | TABool => "(tbool)" | TAString => "(tstring)" | TADateTime => "(tdatetime)"
  | TAFn ps r => "(tfn (params" ++ String.concat "" (map (fun a => " " ++ show_tann a) ps) ++ ") " ++ show_tann r ++ ")"
  | TAList a => "(tlist " ++ show_tann a ++ ")"
  end%string.

Definition show_opt_tann (o : option tann) : string := match o with Some t => show_tann t | None => "_" end.

Definition show_decorator (d : decorator) : string :=
  match d with
  | DMetricPrefixes => "(metric_prefixes)" | DBinaryPrefixes => "(binary_prefixes)" | DAbbreviation => "(abbreviation)"
  | DAliases l =>
      "(aliases" ++ String.concat "" (map (fun a : str * option accepts =>
         " (" ++ esc (fst a) ++ " " ++
         match snd a with None => "_" | Some AcBoth => "both" | Some AcShort => "short"
                        | Some AcLong => "long" | Some AcNone => "none" end ++ ")") l) ++ ")"
  | DUrl u => "(url """ ++ esc u ++ """)"
  | DName u => "(name """ ++ esc u ++ """)"
  | DDescription u => "(description """ ++ esc u ++ """)"
  | DExample c d => "(example """ ++ esc c ++ """ " ++ match d with Some x => """" ++ esc x ++ """" | None => "_" end ++ ")"
  end%string.
Definition show_decos (ds : list decorator) : string :=
  ("(decos" ++ String.concat "" (map (fun d => " " ++ show_decorator d) ds) ++ ")")%string.

Definition show_defvar (v : defvar) : string :=
  ("(let " ++ esc (dv_name v) ++ " " ++ show_opt_tann (dv_ann v) ++ " " ++ show_decos (dv_decos v) ++ " "
   ++ show_expr (dv_expr v) ++ ")")%string.

Definition show_tparams (l : list (str * bool)) : string :=
  ("(tparams" ++ String.concat "" (map (fun p : str * bool =>
      " (" ++ esc (fst p) ++ " " ++ (if snd p then "Dim" else "_") ++ ")") l) ++ ")")%string.

Definition show_stmt (s : stmt) : string :=
  match s with
  | StExpr e => show_expr e
  | StLet v => show_defvar v
  | StProc k args =>
      "(" ++ (match k with KPrint => "print" | KAssert => "assert" | KAssertEq => "assert_eq" | _ => "type" end)
          ++ String.concat "" (map (fun a => " " ++ show_expr a) args) ++ ")"
  | StFn n tps ps ret body locals decos =>
      "(fn " ++ esc n ++ " " ++ show_tparams tps ++ " (params"
      ++ String.concat "" (map (fun p : str * option tann => " (" ++ esc (fst p) ++ " " ++ show_opt_tann (snd p) ++ ")") ps)
      ++ ") " ++ show_opt_tann ret ++ " " ++ match body with Some b => show_expr b | None => "_" end
      ++ " (where" ++ String.concat "" (map (fun v => " " ++ show_defvar v) locals) ++ ") " ++ show_decos decos ++ ")"
  | StDimension n ds => "(dimension " ++ esc n ++ String.concat "" (map (fun d => " " ++ show_texp d) ds) ++ ")"
  | StUnit n ann e decos =>
      "(unit " ++ esc n ++ " " ++ show_opt_tann ann ++ " " ++ match e with Some x => show_expr x | None => "_" end
      ++ " " ++ show_decos decos ++ ")"
  | StUse p => "(use" ++ String.concat "" (map (fun m => " " ++ esc m) p) ++ ")"
  | StStruct n tps fs =>
      "(struct-def " ++ esc n ++ " " ++ show_tparams tps ++ " (fields"
      ++ String.concat "" (map (fun f : str * tann => " (" ++ esc (fst f) ++ " " ++ show_tann (snd f) ++ ")") fs) ++ "))"
  end%string.

Definition show_tokens (r : lres (list token)) : string :=
  match r with
  | LOk ts => join " " (map show_token ts ++ ["Eof"])
  | LErr e => "ERR " ++ show_lexerr e
  | LUnsupported => "UNSUPPORTED"
  | LOutOfFuel => "OUTOFFUEL"
  end.

Definition show_parse (r : lres (list token)) : string :=
  match r with
  | LOk ts =>
      match parse ts with
      | Ok es _ => "OK " ++ join " ; " (map show_stmt es)
      | Err e => "ERR " ++ show_perr e
      | OutOfFuel => "OUTOFFUEL"
      | Unsupported => "UNSUPPORTED"
      end
  | LErr e => "ERR Tokenizer:" ++ show_lexerr e
  | LUnsupported => "UNSUPPORTED"
  | LOutOfFuel => "OUTOFFUEL"
  end.

(* one observation line, as printed by `nbverif syntax` *)
Definition show_case (cs : str) : string :=
  let r := lex cs in ("T " ++ show_tokens r ++ " | A " ++ show_parse r)%string.
