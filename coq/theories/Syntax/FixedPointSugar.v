(* C15 — the fixed-point clause for expressions with temperature conversion functions printed in call
   syntax and with negative literals: the exclusions of C15_fixed_point_partial that do not need the
   number formatter are gone. *)
From Coq Require Import List NArith ZArith Bool Arith Lia.
From NV Require Import Syntax.Token Syntax.Ast Syntax.StmtAst Syntax.StrEsc Syntax.Parser Syntax.Grammar
     Syntax.ParserProofs Syntax.TypedPrinter Syntax.TypedPrinterProofs Syntax.FixedPoint Syntax.FixedPointNeg
     Syntax.FixedPointNeg2 Syntax.TypedPrinterSugar.
Import ListNotations.
Local Open Scope nat_scope.

Theorem echo_fixed_point_sugar : forall (is_unit is_fn : str -> bool) e,
  printable_t e = true -> okm true e = true -> consistent_n is_unit is_fn e = true ->
  exists u, parse (pp e) = Ok [StExpr u] [] /\ pp (lift is_unit is_fn u) = pp e.
Proof.
  intros is_unit is_fn e Hp Hx Hc. exists (erase e). split; [apply echo_roundtrip_exact_sugar; assumption|].
  rewrite (lift_erase_nn is_unit is_fn (S (tsize e)) e ltac:(lia) Hc). unfold pp.
  rewrite (nneg_echo (S (tsize e)) e ltac:(lia) Hp Plain). reflexivity.
Qed.
