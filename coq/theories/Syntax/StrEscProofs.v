(* C15/C10 — escape_numbat_string and strip_and_escape are inverse: the parser
   reads the escaped, quoted text back as the original string (all strings). *)
From Coq Require Import List NArith Bool Lia.
From NV Require Import Syntax.Token Syntax.StrEsc.
Import ListNotations.
Local Open Scope N_scope.

Definition settled (last : option N) : Prop :=
  match last with
  | Some l => is_special l = false
  | None => True
  end.

Lemma last_is_settled : forall last c, settled last -> is_special c = true -> last_is last c = false.
Proof.
  intros [l|] c S Hc; simpl in *; [|reflexivity].
  destruct (l =? c) eqn:E; [|reflexivity]. apply N.eqb_eq in E. subst. congruence.
Qed.

Lemma bslash_special : is_special c_bslash = true.
Proof. reflexivity. Qed.

(* one source character: the loop consumes its escape sequence, appends the
   character and ends in a settled state *)
Lemma sae_char : forall c rest last acc, settled last ->
  exists last', settled last' /\
    sae_loop (escape_char c ++ rest) last acc = sae_loop rest last' (acc ++ [c]).
Proof.
  intros c rest last acc S.
  pose proof (last_is_settled last c_bslash S bslash_special) as Hb.
  unfold escape_char.
  destruct (c =? c_nl) eqn:E1.
  { apply N.eqb_eq in E1. subst c. exists (Some c_n). split; [reflexivity|].
    cbn [app sae_loop]. rewrite Hb. reflexivity. }
  destruct (c =? c_cr) eqn:E2.
  { apply N.eqb_eq in E2. subst c. exists (Some c_r). split; [reflexivity|].
    cbn [app sae_loop]. rewrite Hb. reflexivity. }
  destruct (c =? c_tab) eqn:E3.
  { apply N.eqb_eq in E3. subst c. exists (Some c_t). split; [reflexivity|].
    cbn [app sae_loop]. rewrite Hb. reflexivity. }
  destruct (c =? c_quote) eqn:E4.
  { apply N.eqb_eq in E4. subst c. exists (Some c_quote). split; [reflexivity|].
    cbn [app sae_loop]. rewrite Hb. reflexivity. }
  destruct (c =? c_nul) eqn:E5.
  { apply N.eqb_eq in E5. subst c. exists (Some c_0). split; [reflexivity|].
    cbn [app sae_loop]. rewrite Hb. reflexivity. }
  destruct ((c =? c_lcurly) || (c =? c_rcurly) || (c =? c_bslash)) eqn:E6.
  - (* doubled character *)
    exists None. split; [exact I|].
    assert (Sp : is_special c = true) by exact E6.
    assert (N1 : (c =? c_n) = false).
    { destruct (c =? c_n) eqn:X; [|reflexivity]. apply N.eqb_eq in X. subst c. discriminate. }
    assert (N2 : (c =? c_r) = false).
    { destruct (c =? c_r) eqn:X; [|reflexivity]. apply N.eqb_eq in X. subst c. discriminate. }
    assert (N3 : (c =? c_t) = false).
    { destruct (c =? c_t) eqn:X; [|reflexivity]. apply N.eqb_eq in X. subst c. discriminate. }
    assert (N5 : (c =? c_0) = false).
    { destruct (c =? c_0) eqn:X; [|reflexivity]. apply N.eqb_eq in X. subst c. discriminate. }
    cbn [app sae_loop]. rewrite N1, N2, N3, E4, N5, Sp. cbn [andb].
    rewrite (last_is_settled last c S Sp).
    cbn [last_is]. rewrite N.eqb_refl.
    destruct (c =? c_bslash); reflexivity.
  - (* ordinary character *)
    exists (Some c). split; [exact E6|].
    cbn [app sae_loop]. unfold is_special. rewrite E6, E4, Hb.
    rewrite !andb_false_r. reflexivity.
Qed.

Lemma sae_escape : forall s rest last acc, settled last ->
  exists last', settled last' /\
    sae_loop (escape_numbat_string s ++ rest) last acc = sae_loop rest last' (acc ++ s).
Proof.
  induction s as [|c s IH]; intros rest last acc S.
  - exists last. split; [exact S|]. simpl. rewrite app_nil_r. reflexivity.
  - cbn [escape_numbat_string]. rewrite <- app_assoc.
    destruct (sae_char c (escape_numbat_string s ++ rest) last acc S) as (l1 & S1 & E1).
    rewrite E1. destruct (IH rest l1 (acc ++ [c]) S1) as (l2 & S2 & E2).
    exists l2. split; [exact S2|]. rewrite E2. rewrite <- app_assoc. reflexivity.
Qed.

Theorem string_escape_roundtrip : forall s,
  strip_and_escape (c_quote :: escape_numbat_string s ++ [c_quote]) = s.
Proof.
  intros s. unfold strip_and_escape. cbn [tl]. rewrite removelast_last.
  destruct (sae_escape s [] None [] I) as (l & _ & E).
  rewrite app_nil_r in E. rewrite E. reflexivity.
Qed.

(* the same with any delimiters: the parts of an interpolated string begin with a quote or a closing
   brace and end with an opening brace or a quote *)
Theorem string_escape_roundtrip_delim : forall x y s,
  strip_and_escape (x :: escape_numbat_string s ++ [y]) = s.
Proof.
  intros x y s. unfold strip_and_escape. cbn [tl]. rewrite removelast_last.
  destruct (sae_escape s [] None [] I) as (l & _ & E).
  rewrite app_nil_r in E. rewrite E. reflexivity.
Qed.
