(* C10 — soundness of `parse` for every statement form: on token lists without line breaks and
   trailing commas (and without the two degenerate type-parameter spellings excluded by tp_plain),
   whatever `parse` accepts is the `;`-separated one-line print of well-formed statements and
   definitions (a trailing `;` allowed), and the result is the list of their meanings.  With
   C10_roundtrip_program (the converse direction, which also covers line breaks between statements)
   this characterises acceptance on such token lists. *)
From Coq Require Import List NArith ZArith Bool Arith Lia.
From NV Require Import Syntax.Token Syntax.Ast Syntax.StmtAst Syntax.Parser Syntax.Grammar
  Syntax.ParserProofs Syntax.SoundProofs Syntax.TypeGrammar Syntax.StmtGrammar Syntax.StmtProofs Syntax.StmtSound.
Import ListNotations.
Local Open Scope nat_scope.

Fixpoint pr_items_semi (l : list sitem) : list token :=
  match l with
  | [] => []
  | i :: r => pr_item_flat i ++ match r with [] => [] | _ => TSemicolon :: pr_items_semi r end
  end.
Definition pr_program_semi (l : list sitem) (trailing : bool) : list token :=
  pr_items_semi l ++ (if trailing then [TSemicolon] else []).

Lemma parse_loop_sound_full : forall n acc ts ss,
  core ts = true -> tp_plain ts = true -> ts <> [] ->
  parse_loop n acc ts = Ok ss [] ->
  exists items trailing, items <> [] /\ Forall (fun i => wf_item i = true) items
    /\ ts = pr_program_semi items trailing /\ ss = acc ++ map desugar_item items.
Proof.
  induction n as [|n IH]; intros acc ts ss C TP NE H; [discriminate|].
  destruct ts as [|tok r]; [contradiction|]. cbn [parse_loop] in H.
  destruct (statement (tok :: r)) as [st rest| | |] eqn:E; try discriminate.
  destruct (statement_sound_full _ st rest C TP E) as (it & W & D & Et).
  assert (Crest : core rest = true) by (apply (core_app_r (pr_item_flat it)); rewrite <- Et; exact C).
  assert (TPrest : tp_plain rest = true) by (apply (tp_plain_app_r (pr_item_flat it)); rewrite <- Et; exact TP).
  destruct rest as [|t2 r2].
  - inversion H; subst. exists [it], false. repeat split; auto; [discriminate|].
    unfold pr_program_semi. cbn [pr_items_semi]. rewrite !app_nil_r. rewrite Et. rewrite app_nil_r. reflexivity.
  - pose proof (core_head _ _ Crest) as Ht2.
    destruct t2; try discriminate;
      try (match type of H with context [last_is_rparen ?x] => destruct (last_is_rparen x); discriminate end).
    assert (Cr2 : core r2 = true) by (eapply core_tail; exact Crest).
    assert (TPr2 : tp_plain r2 = true) by (eapply tp_plain_tail; exact TPrest).
    rewrite (core_skip r2 Cr2) in H.
    destruct r2 as [|t3 r3].
    + destruct n; [discriminate|]. cbn [parse_loop] in H. inversion H; subst.
      exists [it], true. repeat split; auto; [discriminate|].
      unfold pr_program_semi. cbn [pr_items_semi]. rewrite app_nil_r. exact Et.
    + destruct (IH (acc ++ [st]) (t3 :: r3) ss Cr2 TPr2 ltac:(discriminate) H)
        as (items & trailing & NEs & Ws & Ets & Ess).
      exists (it :: items), trailing. repeat split; auto; [discriminate| |].
      * unfold pr_program_semi in *. cbn [pr_items_semi]. destruct items as [|i2 rs]; [contradiction|].
        rewrite <- app_assoc. cbn [app]. rewrite Et. rewrite Ets. reflexivity.
      * rewrite Ess. rewrite <- app_assoc. cbn [map app]. rewrite D. reflexivity.
Qed.

Theorem parse_sound_full : forall ts ss,
  core ts = true -> tp_plain ts = true -> parse ts = Ok ss [] ->
  ts = [] /\ ss = [] \/
  exists items trailing, items <> [] /\ Forall (fun i => wf_item i = true) items
    /\ ts = pr_program_semi items trailing /\ ss = map desugar_item items.
Proof.
  intros ts ss C TP H. unfold parse in H. rewrite (core_skip ts C) in H.
  destruct ts as [|tok r].
  - left. cbn [parse_loop] in H. inversion H. split; reflexivity.
  - right. exact (parse_loop_sound_full _ [] _ ss C TP ltac:(discriminate) H).
Qed.
