(* C10 — definitions: every well-formed surface definition (let with annotation and decorators,
   fn, dimension, unit, use, struct) is read back by the model of Parser::statement as the statement
   it denotes. *)
From Coq Require Import List NArith ZArith Bool Arith Lia.
From NV Require Import Syntax.Token Syntax.Ast Syntax.StmtAst Syntax.StrEsc Syntax.Parser
  Syntax.Grammar Syntax.ParserProofs Syntax.TypeGrammar Syntax.TypeProofs Syntax.StmtGrammar.
Import ListNotations.
Local Open Scope nat_scope.
Local Arguments Nat.leb : simpl never.

Ltac napp := repeat (rewrite <- app_assoc || (progress (cbn [app]))).
Ltac wfs :=
  repeat match goal with
         | H : _ && _ = true |- _ => apply andb_prop in H; destruct H
         | H : (_ <=? _) = true |- _ => apply Nat.leb_le in H
         | H : negb _ = true |- _ => apply negb_true_iff in H
         end.

(* ---- what may follow an expression / an annotation inside a definition *)
Definition efollow (rest : list token) : bool :=
  match rest with [] => true | TNewline :: _ | TSemicolon :: _ | TKw _ :: _ => true | _ => false end.

Lemma efollow_follow : forall t rest, efollow rest = true -> follow 0 t rest = true.
Proof.
  intros t [|tok r] H; [reflexivity|].
  destruct tok; try discriminate; unfold follow, blocks; cbn [contlvl callcont negb andb];
    rewrite andb_false_r; reflexivity.
Qed.

Lemma srest_efollow : forall rest, srest rest = true -> efollow rest = true.
Proof. intros [|t r] H; [reflexivity|]. destruct t; try discriminate; reflexivity. Qed.
Lemma srest_tfollow : forall rest, srest rest = true -> tfollow rest = true.
Proof. intros [|t r] H; [reflexivity|]. destruct t; try discriminate; reflexivity. Qed.
Lemma efollow_tfollow : forall rest, efollow rest = true -> tfollow rest = true.
Proof. intros [|t r] H; [reflexivity|]. destruct t; try discriminate; reflexivity. Qed.

Lemma expr_ok : forall t rest, wf t = true -> efollow rest = true ->
  expression (skip_empty_lines (pr t ++ rest)) = Ok (desugar t) rest.
Proof.
  intros t rest W F. destruct (pr_first t W) as (tok & r & E & Fi & _).
  rewrite E. cbn [app]. rewrite skip_first by exact Fi. unfold expression.
  change (expression_d (S (length (tok :: r ++ rest)))) with (L (length (tok :: r ++ rest)) 0).
  change (tok :: r ++ rest) with ((tok :: r) ++ rest). rewrite <- E.
  apply expression_ok; [exact W|apply efollow_follow; exact F|rewrite app_length; lia].
Qed.

Lemma skip_afirst : forall tok r, afirst tok = true -> skip_empty_lines (tok :: r) = tok :: r.
Proof. intros tok r H. destruct tok; try discriminate; reflexivity. Qed.

Lemma skip_ty : forall t rest, wf_ty t = true -> skip_empty_lines (pr_ty t ++ rest) = pr_ty t ++ rest.
Proof.
  intros t rest W. destruct (pr_ty_first_any t W) as (tok & r & E & F). rewrite E. cbn [app].
  apply skip_afirst. exact F.
Qed.

(* ---- name [: annotation] = expression *)
Lemma var_ok : forall flush decos v rest, wf_var v = true -> efollow rest = true ->
  parse_variable flush decos (pr_var v ++ rest) =
  if flush && contains_aliases_with_prefixes decos then Err DecoratorsWithPrefixOnLetDefinition
  else if flush && contains_examples decos then Err ExampleUsedOnUnsuitableKind
  else Ok (desugar_var (if flush then decos else []) v) rest.
Proof.
  intros flush decos [name ann body] rest W F. unfold wf_var in W. cbn [sv_ann sv_body] in W. wfs.
  unfold pr_var, desugar_var. cbn [sv_name sv_ann sv_body].
  destruct ann as [a|]; cbn [pr_oann app option_map]; napp; unfold parse_variable.
  - cbn [wf_oann] in H. rewrite (type_annotation_ok a (TEqual :: pr body ++ rest) H eq_refl). cbn [bind].
    rewrite (expr_ok body rest H0 F). cbn [bind]. reflexivity.
  - cbn [bind]. rewrite (expr_ok body rest H0 F). cbn [bind]. reflexivity.
Qed.

(* ---- decorators *)
Definition nocolon (rest : list token) : bool := match rest with TColon :: _ => false | _ => true end.

Lemma alias_entry_ok : forall a rest, nocolon rest = true -> alias_entry (pr_alias a ++ rest) = Ok a rest.
Proof.
  intros [n [[]|]] rest H; try reflexivity.
  unfold pr_alias, alias_entry. cbn [fst snd pr_accepts app].
  destruct rest as [|t r]; [reflexivity|]. destruct t; try discriminate; reflexivity.
Qed.

Lemma aliases_loop_ok : forall l n acc rest, length l < n ->
  aliases_loop n acc (pr_alias_tail l ++ TRParen :: rest) = Ok (acc ++ l) rest.
Proof.
  induction l as [|a r IH]; intros n acc rest Hn; (destruct n; [simpl in Hn; lia|]).
  - cbn [pr_alias_tail app aliases_loop]. rewrite app_nil_r. reflexivity.
  - cbn [pr_alias_tail app aliases_loop]. napp.
    rewrite alias_entry_ok by (destruct r; reflexivity). cbn [bind].
    rewrite IH by (simpl in Hn; lia). rewrite <- app_assoc. reflexivity.
Qed.

Lemma len_alias_tail : forall l, length l <= length (pr_alias_tail l).
Proof. induction l; simpl; [lia|]. rewrite app_length. lia. Qed.

Lemma aliases_ok : forall l rest, list_of_aliases (pr_aliases l ++ TRParen :: rest) = Ok l rest.
Proof.
  intros [|a r] rest; [reflexivity|].
  unfold list_of_aliases. cbn [pr_aliases]. napp.
  assert (E : forall X, pr_alias a ++ X = TIdent (fst a) :: pr_accepts (snd a) ++ X) by reflexivity.
  rewrite E. rewrite <- E.
  rewrite alias_entry_ok by (destruct r; reflexivity). cbn [bind].
  rewrite aliases_loop_ok; [reflexivity|].
  rewrite app_length. pose proof (len_alias_tail r). simpl. lia.
Qed.

Lemma decorator_ok : forall d rest, parse_decorator (pr_deco_body d ++ rest) = Ok (desugar_deco d) rest.
Proof.
  intros d rest. destruct d; try reflexivity.
  - cbn [pr_deco_body]. napp.
    change (parse_decorator (TIdent w_aliases :: TLParen :: pr_aliases l ++ TRParen :: rest))
      with (bind (list_of_aliases (pr_aliases l ++ TRParen :: rest)) (fun l rest => Ok (DAliases l) rest)).
    rewrite aliases_ok. reflexivity.
  - destruct desc; reflexivity.
Qed.

Lemma statement_deco : forall d n acc ts,
  statement_n (S n) acc (pr_deco d ++ ts) = statement_n n (acc ++ [desugar_deco d]) (skip_empty_lines ts).
Proof.
  intros d n acc ts. unfold pr_deco. napp. cbn [statement_n].
  rewrite decorator_ok. cbn [bind skip_empty_lines]. destruct acc; reflexivity.
Qed.

Lemma pr_decos_skip : forall ds ts, skip_empty_lines ts = ts -> skip_empty_lines (pr_decos ds ++ ts) = pr_decos ds ++ ts.
Proof. intros [|d r] ts H; [exact H|reflexivity]. Qed.

Lemma statement_decos : forall ds n acc ts, skip_empty_lines ts = ts ->
  statement_n (length ds + n) acc (pr_decos ds ++ ts) = statement_n n (acc ++ map desugar_deco ds) ts.
Proof.
  induction ds as [|d r IH]; intros n acc ts H.
  - cbn [length pr_decos app map plus]. rewrite app_nil_r. reflexivity.
  - cbn [length pr_decos map plus]. napp. rewrite statement_deco.
    rewrite pr_decos_skip by exact H. rewrite IH by exact H. rewrite <- app_assoc. reflexivity.
Qed.

Lemma len_decos : forall ds, length ds <= length (pr_decos ds).
Proof. induction ds; simpl; [lia|]. rewrite app_length. lia. Qed.

(* statement on decorators followed by a keyword-led definition *)
Lemma statement_with_decos : forall ds k X,
  exists m, statement (pr_decos ds ++ TKw k :: X) = statement_n (S m) (map desugar_deco ds) (TKw k :: X).
Proof.
  intros ds k X. unfold statement.
  pose proof (len_decos ds).
  exists (length (pr_decos ds ++ TKw k :: X) - length ds).
  replace (S (length (pr_decos ds ++ TKw k :: X)))
    with (length ds + S (length (pr_decos ds ++ TKw k :: X) - length ds))
    by (rewrite app_length; lia).
  rewrite statement_decos by reflexivity. reflexivity.
Qed.

(* ---- type parameters *)
Lemma tparams_loop_ok : forall l n acc rest, length l < n ->
  type_parameters_loop n acc (pr_tp_items l ++ TGreaterThan :: rest) = Ok (acc ++ l) rest.
Proof.
  induction l as [|p r IH]; intros n acc rest Hn; (destruct n; [simpl in Hn; lia|]).
  - cbn [pr_tp_items app type_parameters_loop]. rewrite app_nil_r. reflexivity.
  - destruct p as [name b]. cbn [pr_tp_items pr_tp fst snd].
    destruct r as [|q r'].
    + destruct n; [simpl in Hn; lia|].
      destruct b; cbn [app type_parameters_loop bind]; reflexivity.
    + assert (IH' := IH n (acc ++ [(name, b)]) rest ltac:(simpl in Hn |- *; lia)).
      rewrite <- app_assoc in IH'. cbn [app] in IH'. rewrite <- IH'.
      destruct b; napp; cbn [type_parameters_loop bind]; reflexivity.
Qed.

Lemma len_tp_items : forall l, length l <= length (pr_tp_items l).
Proof.
  induction l as [|p r IH]; [simpl; lia|]. cbn [pr_tp_items length]. rewrite app_length.
  unfold pr_tp at 1. cbn [length]. destruct r; [simpl; lia|]. cbn [length] in *. lia.
Qed.

Definition nolt (rest : list token) : bool := match rest with TLessThan :: _ => false | _ => true end.

Lemma tparams_ok : forall l rest, nolt rest = true -> type_parameters (pr_tparams l ++ rest) = Ok l rest.
Proof.
  intros [|p r] rest H.
  - cbn [pr_tparams app]. destruct rest as [|t x]; [reflexivity|]. destruct t; try discriminate; reflexivity.
  - cbn [pr_tparams]. napp. cbn [type_parameters].
    rewrite tparams_loop_ok; [reflexivity|].
    rewrite app_length. pose proof (len_tp_items (p :: r)). simpl in *. lia.
Qed.

(* ---- parameters of a function definition *)
Lemma params_loop_ok : forall l n acc rest, length l < n ->
  forallb (fun p => wf_oann (snd p)) l = true ->
  fn_params_loop n acc (pr_params l ++ TRParen :: rest) = Ok (acc ++ map desugar_param l) rest.
Proof.
  induction l as [|p r IH]; intros n acc rest Hn W; (destruct n; [simpl in Hn; lia|]).
  - cbn [pr_params app fn_params_loop map]. rewrite app_nil_r. reflexivity.
  - destruct p as [name a]. cbn [forallb snd] in W. wfs.
    cbn [pr_params map]. unfold pr_param. unfold desugar_param at 1. cbn [fst snd].
    destruct r as [|q r'].
    + destruct a as [t|]; cbn [pr_oann app option_map]; napp; cbn [fn_params_loop].
      * cbn [wf_oann] in H. rewrite (type_annotation_ok t (TRParen :: rest) H eq_refl). reflexivity.
      * reflexivity.
    + assert (IH' := IH n (acc ++ [(name, option_map ty_ann a)]) rest ltac:(simpl in Hn |- *; lia) H0).
      rewrite <- app_assoc in IH'. cbn [app] in IH'. rewrite <- IH'.
      destruct q as [qn qa].
      destruct a as [t|]; cbn [pr_oann app option_map]; napp; cbn [fn_params_loop].
      * cbn [wf_oann] in H.
        rewrite (type_annotation_ok t (TComma :: pr_params ((qn, qa) :: r') ++ TRParen :: rest) H eq_refl).
        cbn [pr_params]. unfold pr_param. cbn [fst]. napp. reflexivity.
      * cbn [pr_params]. unfold pr_param. cbn [fst]. napp. reflexivity.
Qed.

Lemma len_params : forall l, length l <= length (pr_params l).
Proof.
  induction l as [|p r IH]; [simpl; lia|]. cbn [pr_params length]. rewrite app_length.
  unfold pr_param at 1. cbn [length]. destruct r; [simpl; lia|]. cbn [length] in *. lia.
Qed.

(* ---- where / and *)
Lemma mkb_hit : forall k X, match_kw_beyond_linebreaks k (TKw k :: X) = Some X.
Proof.
  intros k X. unfold match_kw_beyond_linebreaks. cbn [drop_separators]. unfold is_kw.
  destruct (kw_eq_dec k k); [|contradiction]. cbn [skip_empty_lines].
  destruct (kw_eq_dec k k); [reflexivity|contradiction].
Qed.

Lemma mkb_miss : forall k rest, srest rest = true -> (k = KWhere \/ k = KAnd) ->
  match_kw_beyond_linebreaks k rest = None.
Proof.
  intros k rest H Hk. unfold match_kw_beyond_linebreaks.
  destruct rest as [|t r]; [reflexivity|].
  assert (A : (match drop_separators (t :: r) with t0 :: _ => is_kw k t0 | [] => false end) = false).
  { destruct t; try discriminate; cbn [srest] in H;
      (destruct (drop_separators _) as [|t0 r0]; [reflexivity|]);
      destruct t0; try reflexivity; destruct k0; try discriminate;
        destruct Hk; subst k; reflexivity. }
  rewrite A. destruct t; try discriminate; reflexivity.
Qed.

Lemma local_variable_ok : forall v rest, wf_var v = true -> efollow rest = true ->
  local_variable (pr_var v ++ rest) = Ok (desugar_var [] v) rest.
Proof.
  intros v rest W F. unfold local_variable.
  assert (E : skip_empty_lines (pr_var v ++ rest) = pr_var v ++ rest) by reflexivity.
  rewrite E. rewrite (var_ok false [] v rest W F). reflexivity.
Qed.

Lemma pr_and_efollow : forall vs rest, srest rest = true -> efollow (pr_and vs ++ rest) = true.
Proof. intros [|v r] rest H; [apply srest_efollow; exact H|reflexivity]. Qed.

Lemma and_loop_ok : forall vs n acc rest, length vs < n -> forallb wf_var vs = true -> srest rest = true ->
  and_loop n acc (pr_and vs ++ rest) = Ok (acc ++ map (desugar_var []) vs) rest.
Proof.
  induction vs as [|v r IH]; intros n acc rest Hn W F; (destruct n; [simpl in Hn; lia|]).
  - cbn [pr_and app and_loop map]. rewrite (mkb_miss KAnd rest F (or_intror eq_refl)).
    rewrite app_nil_r. reflexivity.
  - cbn [forallb] in W. wfs. cbn [pr_and app and_loop map]. rewrite mkb_hit. napp.
    rewrite (local_variable_ok v _ H (pr_and_efollow r rest F)). cbn [bind].
    rewrite IH by (auto; simpl in Hn; lia). rewrite <- app_assoc. reflexivity.
Qed.

Lemma len_and : forall vs, length vs <= length (pr_and vs).
Proof. induction vs; simpl; [lia|]. rewrite app_length. lia. Qed.

(* ---- fn *)
Definition fn_body_res (body : option (sx * list svar)) : option expr * list defvar :=
  (match body with Some (e, _) => Some (desugar e) | None => None end,
   match body with Some (_, vs) => map (desugar_var []) vs | None => [] end).

Lemma fn_decl_ok : forall decos name tps params ret body rest,
  forallb (fun p => wf_oann (snd p)) params = true -> wf_oann ret = true ->
  match body with Some (e, vs) => wf e && forallb wf_var vs | None => true end = true ->
  srest rest = true ->
  parse_function_declaration decos
    (TIdent name :: pr_tparams tps ++ TLParen :: pr_params params ++ TRParen :: pr_ret ret ++ pr_body body ++ rest) =
  if contains_aliases decos then Err AliasUsedOnFunction
  else Ok (StFn name tps (map desugar_param params) (option_map ty_ann ret)
                (fst (fn_body_res body)) (snd (fn_body_res body)) decos) rest.
Proof.
  intros decos name tps params ret body rest Wp Wr Wb F.
  unfold parse_function_declaration.
  rewrite tparams_ok by reflexivity. cbn [bind].
  assert (E : forall Y, (match pr_params params ++ TRParen :: Y with TNewline :: x => x | _ => pr_params params ++ TRParen :: Y end)
                        = pr_params params ++ TRParen :: Y).
  { intros Y. destruct params as [|[n a] r]; reflexivity. }
  rewrite E. rewrite params_loop_ok; [|rewrite app_length; pose proof (len_params params); lia|exact Wp].
  cbn [bind app].
  (* the tail after the return annotation *)
  assert (B : forall b0 : bool,
    (match pr_body body ++ rest with
     | TEqual :: r3 =>
         bind (expression (skip_empty_lines r3)) (fun b rest4 =>
           match match_kw_beyond_linebreaks KWhere rest4 with
           | Some r4 =>
               bind (local_variable r4) (fun v rest5 =>
                 bind (and_loop (S (length rest5)) [v] rest5) (fun vs rest6 => Ok (Some b, vs) rest6))
           | None => Ok (Some b, []) rest4
           end)
     | _ => Ok (None, []) (pr_body body ++ rest)
     end) = Ok (fn_body_res body) rest).
  { intros _. destruct body as [[e vs]|].
    - wfs. cbn [pr_body app]. napp.
      destruct vs as [|v r].
      + cbn [pr_where app]. rewrite (expr_ok e rest H (srest_efollow _ F)). cbn [bind].
        rewrite (mkb_miss KWhere rest F (or_introl eq_refl)). reflexivity.
      + cbn [forallb] in H0. wfs. cbn [pr_where app]. napp.
        rewrite (expr_ok e (TKw KWhere :: pr_var v ++ pr_and r ++ rest) H eq_refl). cbn [bind]. rewrite mkb_hit.
        rewrite (local_variable_ok v _ H0 (pr_and_efollow r rest F)). cbn [bind].
        rewrite and_loop_ok; [reflexivity| |exact H1|exact F].
        rewrite app_length. pose proof (len_and r). lia.
    - cbn [pr_body app]. destruct rest as [|t x]; [reflexivity|]. destruct t; try discriminate; reflexivity. }
  destruct ret as [t|].
  - cbn [pr_ret app option_map]. napp. cbn [wf_oann] in Wr.
    assert (TF : tfollow (pr_body body ++ rest) = true).
    { destruct body as [[e vs]|]; [reflexivity|apply srest_tfollow; exact F]. }
    rewrite (type_annotation_ok t _ Wr TF). cbn [bind]. rewrite (B true). cbn [bind].
    destruct (contains_aliases decos); reflexivity.
  - cbn [pr_ret app option_map].
    assert (NA : forall (A : Type) (x y : A), (match pr_body body ++ rest with TArrow :: _ => x | _ => y end) = y).
    { intros A x y. destruct body as [[e vs]|]; [reflexivity|].
      cbn [pr_body app]. destruct rest as [|t x0]; [reflexivity|]. destruct t; try discriminate; reflexivity. }
    destruct body as [[e vs]|].
    + cbn [pr_body app] in *. cbn [bind]. rewrite (B true). cbn [bind]. destruct (contains_aliases decos); reflexivity.
    + cbn [pr_body app] in *. destruct rest as [|t x]; [destruct (contains_aliases decos); reflexivity|].
      destruct t; try discriminate; cbn [bind]; destruct (contains_aliases decos); reflexivity.
Qed.

(* ---- dimension *)
Definition noequal (rest : list token) : bool := match rest with TEqual :: _ => false | _ => true end.
Lemma srest_noequal : forall rest, srest rest = true -> noequal rest = true.
Proof. intros [|t r] H; [reflexivity|]. destruct t; try discriminate; reflexivity. Qed.

Lemma dims_loop_ok : forall ds n acc rest, length ds < n ->
  forallb (fun d => wf_ty d && (1 <=? ylvl d)) ds = true -> srest rest = true ->
  dimension_eq_loop n acc (pr_dims ds ++ rest) = Ok (acc ++ map ty_exp ds) rest.
Proof.
  induction ds as [|d r IH]; intros n acc rest Hn W F; (destruct n; [simpl in Hn; lia|]).
  - cbn [pr_dims app dimension_eq_loop map]. rewrite app_nil_r.
    destruct rest as [|t x]; [reflexivity|]. destruct t; try discriminate; reflexivity.
  - cbn [forallb] in W. wfs. cbn [pr_dims app dimension_eq_loop map]. napp.
    rewrite (skip_ty d _ H).
    assert (TF : tfollow (pr_dims r ++ rest) = true).
    { destruct r; [apply srest_tfollow; exact F|reflexivity]. }
    rewrite (dimension_expression_ok d _ H H1 TF). cbn [bind].
    rewrite IH by (auto; simpl in Hn; lia). rewrite <- app_assoc. reflexivity.
Qed.

Lemma len_dims : forall ds, length ds <= length (pr_dims ds).
Proof. induction ds; simpl; [lia|]. rewrite app_length. lia. Qed.

(* ---- unit *)
Lemma unit_decl_ok : forall decos name ann e rest,
  wf_odim ann = true -> match e with Some x => wf x | None => true end = true -> srest rest = true ->
  parse_unit_declaration decos
    (TIdent name :: pr_oann ann ++ match e with Some x => TEqual :: pr x | None => [] end ++ rest) =
  if contains_examples decos then Err ExampleUsedOnUnsuitableKind
  else Ok (StUnit name (option_map (fun a => TAExp (ty_exp a)) ann) (option_map desugar e) decos) rest.
Proof.
  intros decos name ann e rest Wa We F. unfold parse_unit_declaration.
  destruct ann as [a|]; cbn [pr_oann app option_map].
  - cbn [wf_odim] in Wa. wfs. napp.
    assert (TF : tfollow (match e with Some x => TEqual :: pr x | None => [] end ++ rest) = true).
    { destruct e; [reflexivity|apply srest_tfollow; exact F]. }
    rewrite (dimension_expression_ok a _ H H0 TF). cbn [bind].
    destruct (contains_examples decos); [reflexivity|].
    destruct e as [x|]; cbn [app option_map].
    + rewrite (expr_ok x rest We (srest_efollow _ F)). reflexivity.
    + destruct rest as [|t r]; [reflexivity|]. destruct t; try discriminate; reflexivity.
  - destruct e as [x|]; cbn [app option_map bind].
    + destruct (contains_examples decos); [reflexivity|].
      rewrite (expr_ok x rest We (srest_efollow _ F)). reflexivity.
    + destruct rest as [|t r]; [destruct (contains_examples decos); reflexivity|].
      destruct t; try discriminate; cbn [bind]; destruct (contains_examples decos); reflexivity.
Qed.

(* ---- use *)
Lemma use_loop_ok : forall p n acc rest, length p < n -> srest rest = true ->
  use_loop n acc (pr_path p ++ rest) = Ok (acc ++ p) rest.
Proof.
  induction p as [|m r IH]; intros n acc rest Hn F; (destruct n; [simpl in Hn; lia|]).
  - cbn [pr_path app use_loop]. rewrite app_nil_r.
    destruct rest as [|t x]; [reflexivity|]. destruct t; try discriminate; reflexivity.
  - cbn [pr_path app use_loop]. rewrite IH by (auto; simpl in Hn; lia). rewrite <- app_assoc. reflexivity.
Qed.
Lemma len_path : forall p, length p <= length (pr_path p).
Proof. induction p; simpl; lia. Qed.

(* ---- struct *)
Lemma fields_loop_ok : forall l n acc rest, length l < n ->
  forallb (fun f => wf_ty (snd f)) l = true ->
  struct_fields_loop n acc (pr_fields l ++ TRCurly :: rest) = Ok (acc ++ map desugar_field l) rest.
Proof.
  induction l as [|f r IH]; intros n acc rest Hn W; (destruct n; [simpl in Hn; lia|]).
  - cbn [pr_fields app struct_fields_loop map]. rewrite app_nil_r. reflexivity.
  - destruct f as [name t]. cbn [forallb snd] in W. wfs.
    cbn [pr_fields map]. unfold pr_field. unfold desugar_field at 1. cbn [fst snd].
    destruct r as [|q r'].
    + destruct n; [simpl in Hn; lia|].
      napp. cbn [struct_fields_loop skip_empty_lines]. rewrite (skip_ty t _ H).
      rewrite (type_annotation_ok t (TRCurly :: rest) H eq_refl). reflexivity.
    + assert (IH' := IH n (acc ++ [(name, ty_ann t)]) rest ltac:(simpl in Hn |- *; lia) H0).
      rewrite <- app_assoc in IH'. cbn [app] in IH'. rewrite <- IH'.
      destruct q as [qn qt].
      napp. cbn [struct_fields_loop skip_empty_lines]. rewrite (skip_ty t _ H).
      rewrite (type_annotation_ok t (TComma :: pr_fields ((qn, qt) :: r') ++ TRCurly :: rest) H eq_refl).
      cbn [pr_fields]. unfold pr_field. cbn [fst]. napp. reflexivity.
Qed.
Lemma len_fields : forall l, length l <= length (pr_fields l).
Proof.
  induction l as [|p r IH]; [simpl; lia|]. cbn [pr_fields length]. rewrite app_length.
  unfold pr_field at 1. cbn [length]. destruct r; [simpl; lia|]. cbn [length] in *. lia.
Qed.

Lemma struct_ok : forall name tps fs rest, forallb (fun f => wf_ty (snd f)) fs = true ->
  parse_struct (TIdent name :: pr_tparams tps ++ TLCurly :: pr_fields fs ++ TRCurly :: rest) =
  Ok (StStruct name tps (map desugar_field fs)) rest.
Proof.
  intros name tps fs rest W. unfold parse_struct.
  rewrite tparams_ok by reflexivity. cbn [bind].
  assert (E : skip_empty_lines (pr_fields fs ++ TRCurly :: rest) = pr_fields fs ++ TRCurly :: rest).
  { destruct fs as [|[n t] r]; reflexivity. }
  rewrite E. rewrite fields_loop_ok; [reflexivity| |exact W].
  rewrite app_length. pose proof (len_fields fs). lia.
Qed.

(* ---- decorator checks transfer from the surface decorators *)
Lemma ex_examples : forall ds, contains_examples (map desugar_deco ds) = existsb is_example ds.
Proof. induction ds as [|d r IH]; [reflexivity|]. cbn [map]. unfold contains_examples in *. cbn [existsb]. rewrite IH. destruct d; reflexivity. Qed.
Lemma ex_aliases : forall ds, contains_aliases (map desugar_deco ds) = existsb is_aliases ds.
Proof. induction ds as [|d r IH]; [reflexivity|]. cbn [map]. unfold contains_aliases in *. cbn [existsb]. rewrite IH. destruct d; reflexivity. Qed.
Lemma ex_prefixed : forall ds, contains_aliases_with_prefixes (map desugar_deco ds) = existsb is_prefixed_aliases ds.
Proof. induction ds as [|d r IH]; [reflexivity|]. cbn [map]. unfold contains_aliases_with_prefixes in *. cbn [existsb]. rewrite IH. destruct d; reflexivity. Qed.

(* ---- the statement parser on a definition *)
Theorem def_ok : forall s rest, wf_def s = true -> srest rest = true ->
  statement (pr_def s ++ rest) = Ok (desugar_def s) rest.
Proof.
  intros s rest W F. destruct s; cbn [wf_def] in W; cbn [pr_def desugar_def].
  - (* let *)
    apply andb_prop in W. destruct W as [W W3]. apply andb_prop in W. destruct W as [W1 W2].
    apply negb_true_iff in W2. apply negb_true_iff in W3.
    napp. destruct (statement_with_decos decos KLet (pr_var v ++ rest)) as (m & E). rewrite E.
    assert (S1 : statement_n (S m) (map desugar_deco decos) (TKw KLet :: pr_var v ++ rest)
                 = bind (parse_variable true (map desugar_deco decos) (pr_var v ++ rest)) (fun v rest => Ok (StLet v) rest)).
    { cbn [statement_n]. destruct (map desugar_deco decos); reflexivity. }
    rewrite S1. rewrite (var_ok true _ v rest W1 (srest_efollow _ F)).
    rewrite ex_prefixed, ex_examples, W2, W3. reflexivity.
  - (* fn *)
    apply andb_prop in W. destruct W as [W W4]. apply andb_prop in W. destruct W as [W W3].
    apply andb_prop in W. destruct W as [W1 W2]. apply negb_true_iff in W4.
    napp.
    destruct (statement_with_decos decos KFn
      (TIdent name :: pr_tparams tps ++ TLParen :: pr_params params ++ TRParen :: pr_ret ret ++ pr_body body ++ rest))
      as (m & E). rewrite E.
    assert (S1 : forall X, statement_n (S m) (map desugar_deco decos) (TKw KFn :: X)
                 = parse_function_declaration (map desugar_deco decos) X).
    { intros X. cbn [statement_n]. destruct (map desugar_deco decos); reflexivity. }
    rewrite S1. rewrite (fn_decl_ok _ name tps params ret body rest W1 W2 W3 F).
    rewrite ex_aliases, W4. destruct body as [[e vs]|]; reflexivity.
  - (* dimension *)
    apply andb_prop in W. destruct W as [W1 W2]. apply negb_true_iff in W1.
    cbn [app]. unfold statement. cbn [statement_n negb length]. unfold parse_dimension_declaration.
    rewrite W1. rewrite dims_loop_ok; [reflexivity| |exact W2|exact F].
    rewrite app_length. pose proof (len_dims ds). lia.
  - (* unit *)
    apply andb_prop in W. destruct W as [W W3]. apply andb_prop in W. destruct W as [W1 W2].
    apply negb_true_iff in W3.
    napp.
    destruct (statement_with_decos decos KUnit
      (TIdent name :: pr_oann ann ++ match e with Some x => TEqual :: pr x | None => [] end ++ rest))
      as (m & E). rewrite E.
    assert (S1 : forall X, statement_n (S m) (map desugar_deco decos) (TKw KUnit :: X)
                 = parse_unit_declaration (map desugar_deco decos) X).
    { intros X. cbn [statement_n]. destruct (map desugar_deco decos); reflexivity. }
    rewrite S1. rewrite (unit_decl_ok _ name ann e rest W1 W2 F).
    rewrite ex_examples, W3. reflexivity.
  - (* use *)
    cbn [app]. unfold statement. cbn [statement_n negb length]. unfold parse_use.
    rewrite use_loop_ok; [reflexivity| |exact F].
    rewrite app_length. pose proof (len_path path). lia.
  - (* struct *)
    cbn [app]. napp. unfold statement. cbn [statement_n negb length].
    apply struct_ok. exact W.
Qed.

Lemma pr_def_head : forall s, exists tok r, pr_def s = tok :: r /\ tok <> TNewline.
Proof.
  intros s. destruct s; cbn [pr_def]; try (eexists; eexists; split; [reflexivity|discriminate]);
    destruct decos as [|d ds]; cbn [pr_decos app]; unfold pr_deco; cbn [app];
    eexists; eexists; split; try reflexivity; discriminate.
Qed.

(* a definition alone in the input *)
Theorem roundtrip_def : forall s, wf_def s = true -> parse (pr_def s) = Ok [desugar_def s] [].
Proof.
  intros s W. unfold parse.
  pose proof (def_ok s [] W eq_refl) as D. rewrite app_nil_r in D.
  destruct (pr_def_head s) as (tok & r & E & Hn). rewrite E in *.
  assert (Sk : skip_empty_lines (tok :: r) = tok :: r) by (destruct tok; try reflexivity; contradiction).
  rewrite Sk. cbn [parse_loop length]. rewrite D. reflexivity.
Qed.

(* ------------------------------------------------------------------------
   Programs: several statements / definitions separated by newlines or semicolons, with blank
   lines before, between and after them. *)
Lemma expr_ok0 : forall t rest, wf t = true -> efollow rest = true ->
  expression (pr t ++ rest) = Ok (desugar t) rest.
Proof.
  intros t rest W F. pose proof (expr_ok t rest W F) as E.
  destruct (pr_first t W) as (tok & r & Et & Fi & _). rewrite Et in *. cbn [app] in *.
  rewrite skip_first in E by exact Fi. exact E.
Qed.

Lemma len_in_args : forall a args, In a args -> length (pr a) <= length (pr_args args).
Proof.
  intros a args Ha. induction args as [|b r IH]; [contradiction|].
  rewrite pr_args_cons, app_length. destruct Ha as [->|Ha]; [lia|].
  specialize (IH Ha). destruct r as [|c r']; [contradiction|].
  rewrite pr_args_cons in IH. cbn [tailp]. cbn [length]. rewrite !app_length in *. lia.
Qed.

Lemma sst_ok : forall s rest, wf_stmt s = true -> efollow rest = true ->
  statement (pr_stmt s ++ rest) = Ok (desugar_stmt s) rest.
Proof.
  intros [t|n t|k args] rest W F; cbn [wf_stmt] in W; cbn [pr_stmt desugar_stmt].
  - destruct (pr_first t W) as (tok & r & E & Fi & _).
    pose proof (expr_ok0 t rest W F) as X. rewrite E in *. cbn [app] in *.
    rewrite statement_first by exact Fi. rewrite X. reflexivity.
  - cbn [app]. rewrite statement_let_plain. rewrite (expr_ok t rest W F). reflexivity.
  - apply andb_prop in W. destruct W as [Hk Wa]. cbn [app]. napp.
    rewrite statement_procedure by exact Hk. cbn [parse_procedure].
    rewrite arguments_ok; [reflexivity|].
    intros a Ha. assert (Waa : wf a = true) by (eapply forallb_forall in Wa; eauto).
    split; [exact Waa|]. intros rest0 F0.
    apply expression_ok; auto.
    pose proof (len_in_args a args Ha). rewrite app_length. lia.
Qed.

Inductive sitem := IStmt (s : sst) | IDef (d : sdef).
Definition pr_item (i : sitem) : list token := match i with IStmt s => pr_stmt s | IDef d => pr_def d end.
Definition wf_item (i : sitem) : bool := match i with IStmt s => wf_stmt s | IDef d => wf_def d end.
Definition desugar_item (i : sitem) : stmt := match i with IStmt s => desugar_stmt s | IDef d => desugar_def d end.

(* a separator: `;` or a line break, followed by any number of blank lines *)
Definition pr_sep (s : bool * nat) : list token :=
  (if fst s then TSemicolon else TNewline) :: repeat TNewline (snd s).
Fixpoint pr_more (l : list ((bool * nat) * sitem)) : list token :=
  match l with [] => [] | (s, i) :: r => pr_sep s ++ pr_item i ++ pr_more r end.
Definition pr_prog (lead : nat) (i : sitem) (more : list ((bool * nat) * sitem)) (trail : nat) : list token :=
  repeat TNewline lead ++ pr_item i ++ pr_more more ++ repeat TNewline trail.

Definition item_start (t : token) : bool :=
  match t with
  | TNewline | TSemicolon | TKw KWhere | TKw KAnd => false
  | _ => true
  end.
Lemma pr_item_head : forall i, wf_item i = true -> exists tok r, pr_item i = tok :: r /\ item_start tok = true.
Proof.
  intros [s|d] W; cbn [pr_item wf_item] in *.
  - destruct s as [t|n t|k args]; cbn [wf_stmt pr_stmt] in *.
    + destruct (pr_first t W) as (tok & r & E & Fi & _). exists tok, r. split; [exact E|].
      destruct tok; try discriminate; reflexivity.
    + eexists; eexists; split; reflexivity.
    + apply andb_prop in W. destruct W as [Hk _]. eexists; eexists; split; [reflexivity|].
      destruct k; try discriminate; reflexivity.
  - destruct d; cbn [pr_def]; try (eexists; eexists; split; reflexivity);
      destruct decos as [|d ds]; cbn [pr_decos app]; unfold pr_deco; cbn [app];
      eexists; eexists; split; reflexivity.
Qed.

Lemma skip_repeat : forall n ts, skip_empty_lines (repeat TNewline n ++ ts) = skip_empty_lines ts.
Proof. induction n; intros ts; [reflexivity|]. cbn [repeat app skip_empty_lines]. apply IHn. Qed.
Lemma drop_repeat : forall n ts, drop_separators (repeat TNewline n ++ ts) = drop_separators ts.
Proof. induction n; intros ts; [reflexivity|]. cbn [repeat app drop_separators]. apply IHn. Qed.
Lemma skip_start : forall tok r, item_start tok = true -> skip_empty_lines (tok :: r) = tok :: r.
Proof. intros tok r H. destruct tok; try discriminate; reflexivity. Qed.
Lemma drop_start : forall tok r, item_start tok = true -> drop_separators (tok :: r) = tok :: r.
Proof. intros tok r H. destruct tok; try discriminate; reflexivity. Qed.

Definition wf_more (l : list ((bool * nat) * sitem)) : bool := forallb (fun p => wf_item (snd p)) l.

(* what follows an item inside a program is a legal end of statement *)
Lemma srest_more : forall more trail, wf_more more = true ->
  srest (pr_more more ++ repeat TNewline trail) = true.
Proof.
  intros [|[[semi k] i] r] trail W.
  - cbn [pr_more app]. destruct trail; [reflexivity|].
    cbn [repeat srest]. change (TNewline :: repeat TNewline trail) with (repeat TNewline (S trail)).
    rewrite <- (app_nil_r (repeat TNewline (S trail))). rewrite drop_repeat. reflexivity.
  - cbn [wf_more forallb snd] in W. apply andb_prop in W. destruct W as [Wi _].
    destruct (pr_item_head i Wi) as (tok & x & E & Hs).
    cbn [pr_more]. unfold pr_sep. cbn [fst snd]. napp. rewrite E. cbn [app].
    assert (D : drop_separators (repeat TNewline k ++ tok :: x ++ pr_more r ++ repeat TNewline trail)
                = tok :: x ++ pr_more r ++ repeat TNewline trail).
    { rewrite drop_repeat. apply drop_start. exact Hs. }
    destruct semi; cbn [srest drop_separators]; rewrite D; destruct tok; try discriminate; try reflexivity;
      destruct k0; try discriminate; reflexivity.
Qed.

Lemma item_ok : forall i rest, wf_item i = true -> srest rest = true ->
  statement (pr_item i ++ rest) = Ok (desugar_item i) rest.
Proof.
  intros [s|d] rest W F; cbn [pr_item wf_item desugar_item] in *.
  - apply sst_ok; [exact W|apply srest_efollow; exact F].
  - apply def_ok; assumption.
Qed.

Lemma parse_loop_more : forall more n acc i trail, S (length more) < n ->
  wf_item i = true -> wf_more more = true ->
  parse_loop n acc (pr_item i ++ pr_more more ++ repeat TNewline trail)
  = Ok (acc ++ desugar_item i :: map (fun p => desugar_item (snd p)) more) [].
Proof.
  induction more as [|[[semi k] j] r IH]; intros n acc i trail Hn Wi Wm; (destruct n; [simpl in Hn; lia|]).
  - pose proof (item_ok i (pr_more [] ++ repeat TNewline trail) Wi (srest_more [] trail eq_refl)) as S1.
    destruct (pr_item_head i Wi) as (tok & x & E & Hs).
    cbn [pr_more app map] in *. rewrite E in *. cbn [app parse_loop] in *. rewrite S1.
    destruct trail; [reflexivity|].
    cbn [repeat]. change (TNewline :: repeat TNewline trail) with (repeat TNewline (S trail)).
    rewrite <- (app_nil_r (repeat TNewline (S trail))). rewrite skip_repeat. cbn [skip_empty_lines].
    destruct n; [simpl in Hn; lia|]. reflexivity.
  - pose proof (item_ok i (pr_more ((semi, k, j) :: r) ++ repeat TNewline trail) Wi (srest_more _ trail Wm)) as S1.
    cbn [wf_more forallb snd] in Wm. apply andb_prop in Wm. destruct Wm as [Wj Wr].
    destruct (pr_item_head i Wi) as (tok & x & E & Hs).
    destruct (pr_item_head j Wj) as (tokj & xj & Ej & Hsj).
    assert (IH' := IH n (acc ++ [desugar_item i]) j trail ltac:(simpl in Hn |- *; lia) Wj Wr).
    rewrite <- app_assoc in IH'. cbn [app] in IH'. cbn [map snd]. rewrite <- IH'.
    rewrite E in *. cbn [app parse_loop] in *. rewrite S1.
    cbn [pr_more]. unfold pr_sep. cbn [fst snd]. napp.
    assert (Sk : skip_empty_lines (repeat TNewline k ++ pr_item j ++ pr_more r ++ repeat TNewline trail)
                 = pr_item j ++ pr_more r ++ repeat TNewline trail).
    { rewrite skip_repeat. rewrite Ej. cbn [app]. apply skip_start. exact Hsj. }
    destruct semi; cbn [skip_empty_lines]; rewrite Sk; reflexivity.
Qed.

Lemma len_more : forall more, length more <= length (pr_more more).
Proof.
  induction more as [|[s i] r IH]; [simpl; lia|]. cbn [pr_more length]. unfold pr_sep.
  cbn [app length]. rewrite !app_length. lia.
Qed.

Theorem roundtrip_program : forall lead i more trail,
  wf_item i = true -> wf_more more = true ->
  parse (pr_prog lead i more trail) = Ok (desugar_item i :: map (fun p => desugar_item (snd p)) more) [].
Proof.
  intros lead i more trail Wi Wm. unfold parse, pr_prog.
  rewrite skip_repeat.
  destruct (pr_item_head i Wi) as (tok & x & E & Hs).
  assert (Sk : skip_empty_lines (pr_item i ++ pr_more more ++ repeat TNewline trail)
               = pr_item i ++ pr_more more ++ repeat TNewline trail).
  { rewrite E. cbn [app]. apply skip_start. exact Hs. }
  rewrite Sk. rewrite (parse_loop_more more _ [] i trail); [reflexivity| |exact Wi|exact Wm].
  rewrite !app_length. rewrite E. cbn [length]. pose proof (len_more more). lia.
Qed.
