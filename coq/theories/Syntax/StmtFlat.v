(* C10 — completeness for the one-line spelling of programs (decorators on the same line, `;` between
   statements), the converse of SoundFull.v: together they characterise acceptance exactly on token
   lists without line breaks and trailing commas. *)
From Coq Require Import List NArith ZArith Bool Arith Lia.
From NV Require Import Syntax.Token Syntax.Ast Syntax.StmtAst Syntax.StrEsc Syntax.Parser
  Syntax.Grammar Syntax.ParserProofs Syntax.SoundProofs Syntax.TypeGrammar Syntax.TypeProofs
  Syntax.StmtGrammar Syntax.StmtProofs Syntax.StmtSound Syntax.SoundFull.
Import ListNotations.
Local Open Scope nat_scope.
Local Arguments Nat.leb : simpl never.

Lemma statement_deco_flat : forall d n acc ts,
  statement_n (S n) acc (pr_deco_flat d ++ ts) = statement_n n (acc ++ [desugar_deco d]) (skip_empty_lines ts).
Proof.
  intros d n acc ts. unfold pr_deco_flat. napp. cbn [statement_n].
  rewrite decorator_ok. cbn [bind]. destruct acc; reflexivity.
Qed.

Lemma pr_decos_flat_skip : forall ds ts, skip_empty_lines ts = ts ->
  skip_empty_lines (pr_decos_flat ds ++ ts) = pr_decos_flat ds ++ ts.
Proof. intros [|d r] ts H; [exact H|reflexivity]. Qed.

Lemma statement_decos_flat : forall ds n acc ts, skip_empty_lines ts = ts ->
  statement_n (length ds + n) acc (pr_decos_flat ds ++ ts) = statement_n n (acc ++ map desugar_deco ds) ts.
Proof.
  induction ds as [|d r IH]; intros n acc ts H.
  - cbn [length pr_decos_flat app map plus]. rewrite app_nil_r. reflexivity.
  - cbn [length pr_decos_flat map plus]. napp. rewrite statement_deco_flat.
    rewrite pr_decos_flat_skip by exact H. rewrite IH by exact H. rewrite <- app_assoc. reflexivity.
Qed.

Lemma len_decos_flat : forall ds, length ds <= length (pr_decos_flat ds).
Proof. induction ds; simpl; [lia|]. rewrite app_length. lia. Qed.

Lemma statement_with_decos_flat : forall ds k X,
  exists m, statement (pr_decos_flat ds ++ TKw k :: X) = statement_n (S m) (map desugar_deco ds) (TKw k :: X).
Proof.
  intros ds k X. unfold statement.
  pose proof (len_decos_flat ds).
  exists (length (pr_decos_flat ds ++ TKw k :: X) - length ds).
  replace (S (length (pr_decos_flat ds ++ TKw k :: X)))
    with (length ds + S (length (pr_decos_flat ds ++ TKw k :: X) - length ds))
    by (rewrite app_length; lia).
  rewrite statement_decos_flat by reflexivity. reflexivity.
Qed.

Theorem def_ok_flat : forall s rest, wf_def s = true -> srest rest = true ->
  statement (pr_def_flat s ++ rest) = Ok (desugar_def s) rest.
Proof.
  intros s rest W F. destruct s; try (apply (def_ok _ rest W F)); cbn [wf_def] in W; cbn [pr_def_flat desugar_def].
  - (* let *)
    apply andb_prop in W. destruct W as [W W3]. apply andb_prop in W. destruct W as [W1 W2].
    apply negb_true_iff in W2. apply negb_true_iff in W3.
    napp. destruct (statement_with_decos_flat decos KLet (pr_var v ++ rest)) as (m & E). rewrite E.
    assert (S1 : statement_n (S m) (map desugar_deco decos) (TKw KLet :: pr_var v ++ rest)
                 = bind (parse_variable true (map desugar_deco decos) (pr_var v ++ rest)) (fun v rest => Ok (StLet v) rest)).
    { cbn [statement_n]. destruct (map desugar_deco decos); reflexivity. }
    rewrite S1. rewrite (var_ok true _ v rest W1 (srest_efollow _ F)).
    rewrite ex_prefixed, ex_examples, W2, W3. reflexivity.
  - (* fn *)
    apply andb_prop in W. destruct W as [W W4]. apply andb_prop in W. destruct W as [W W3].
    apply andb_prop in W. destruct W as [W1 W2]. apply negb_true_iff in W4.
    napp.
    destruct (statement_with_decos_flat decos KFn
      (TIdent name :: pr_tparams tps ++ TLParen :: pr_params params ++ TRParen :: pr_ret ret ++ pr_body body ++ rest))
      as (m & E). rewrite E.
    assert (S1 : forall X, statement_n (S m) (map desugar_deco decos) (TKw KFn :: X)
                 = parse_function_declaration (map desugar_deco decos) X).
    { intros X. cbn [statement_n]. destruct (map desugar_deco decos); reflexivity. }
    rewrite S1. rewrite (fn_decl_ok _ name tps params ret body rest W1 W2 W3 F).
    rewrite ex_aliases, W4. destruct body as [[e vs]|]; reflexivity.
  - (* unit *)
    apply andb_prop in W. destruct W as [W W3]. apply andb_prop in W. destruct W as [W1 W2].
    apply negb_true_iff in W3.
    napp.
    destruct (statement_with_decos_flat decos KUnit
      (TIdent name :: pr_oann ann ++ match e with Some x => TEqual :: pr x | None => [] end ++ rest))
      as (m & E). rewrite E.
    assert (S1 : forall X, statement_n (S m) (map desugar_deco decos) (TKw KUnit :: X)
                 = parse_unit_declaration (map desugar_deco decos) X).
    { intros X. cbn [statement_n]. destruct (map desugar_deco decos); reflexivity. }
    rewrite S1. rewrite (unit_decl_ok _ name ann e rest W1 W2 F).
    rewrite ex_examples, W3. reflexivity.
Qed.

Lemma item_ok_flat : forall i rest, wf_item i = true -> srest rest = true ->
  statement (pr_item_flat i ++ rest) = Ok (desugar_item i) rest.
Proof.
  intros [s|d] rest W F; cbn [pr_item_flat wf_item desugar_item] in *.
  - apply sst_ok; [exact W|apply srest_efollow; exact F].
  - apply def_ok_flat; assumption.
Qed.

Lemma pr_item_flat_head : forall i, wf_item i = true ->
  exists tok r, pr_item_flat i = tok :: r /\ item_start tok = true.
Proof.
  intros [s|d] W.
  - exact (pr_item_head (IStmt s) W).
  - cbn [pr_item_flat]. destruct d; cbn [pr_def_flat pr_def]; try (eexists; eexists; split; reflexivity);
      destruct decos as [|d ds]; cbn [pr_decos_flat app]; unfold pr_deco_flat; cbn [app];
      eexists; eexists; split; reflexivity.
Qed.

Lemma srest_semi : forall items rest0, Forall (fun i => wf_item i = true) items ->
  (rest0 = [] \/ rest0 = [TSemicolon]) ->
  srest (match items with [] => rest0 | _ => TSemicolon :: pr_items_semi items ++ rest0 end) = true.
Proof.
  intros items rest0 Wf R. destruct items as [|i r].
  - destruct R as [->| ->]; reflexivity.
  - inversion Wf as [|? ? Wi Wr]; subst.
    destruct (pr_item_flat_head i Wi) as (tok & x & E & Hs).
    cbn [pr_items_semi]. rewrite E. cbn [app srest].
    assert (DS : forall l, drop_separators (TSemicolon :: l) = drop_separators l) by reflexivity.
    rewrite DS. rewrite (drop_start tok _ Hs). destruct tok; try discriminate; try reflexivity.
    destruct k; try discriminate; reflexivity.
Qed.

Lemma parse_loop_semi : forall items n acc trailing, length items < n ->
  items <> [] -> Forall (fun i => wf_item i = true) items ->
  parse_loop n acc (pr_program_semi items trailing) = Ok (acc ++ map desugar_item items) [].
Proof.
  induction items as [|i r IH]; intros n acc trailing Hn NE Wf; [contradiction|].
  destruct n; [simpl in Hn; lia|].
  inversion Wf as [|? ? Wi Wr]; subst.
  set (rest0 := if trailing then [TSemicolon] else @nil token).
  assert (R0 : rest0 = [] \/ rest0 = [TSemicolon]) by (unfold rest0; destruct trailing; auto).
  pose proof (srest_semi r rest0 Wr R0) as SR.
  pose proof (item_ok_flat i _ Wi SR) as S1.
  destruct (pr_item_flat_head i Wi) as (tok & x & E & Hs).
  assert (Shape : pr_program_semi (i :: r) trailing
                  = pr_item_flat i ++ match r with [] => rest0 | _ => TSemicolon :: pr_items_semi r ++ rest0 end).
  { unfold pr_program_semi. cbn [pr_items_semi]. fold rest0. destruct r; [rewrite app_nil_r; reflexivity|].
    rewrite <- app_assoc. reflexivity. }
  rewrite Shape. rewrite E in *. cbn [app parse_loop] in *. rewrite S1.
  destruct r as [|j r'].
  - unfold rest0. destruct trailing; cbn [skip_empty_lines].
    + destruct n; [simpl in Hn; lia|]. reflexivity.
    + reflexivity.
  - inversion Wr as [|? ? Wj Wr']; subst.
    destruct (pr_item_flat_head j Wj) as (tokj & xj & Ej & Hsj).
    assert (Sk : skip_empty_lines (pr_items_semi (j :: r') ++ rest0) = pr_items_semi (j :: r') ++ rest0).
    { cbn [pr_items_semi]. rewrite Ej. cbn [app]. apply skip_start. exact Hsj. }
    rewrite Sk.
    assert (IH' := IH n (acc ++ [desugar_item i]) trailing ltac:(simpl in Hn |- *; lia) ltac:(discriminate) Wr).
    unfold pr_program_semi in IH'. fold rest0 in IH'. rewrite IH'. rewrite <- app_assoc. reflexivity.
Qed.

Lemma len_semi_tail : forall r : list sitem,
  length r <= length (match r with [] => [] | _ :: _ => TSemicolon :: pr_items_semi r end).
Proof.
  induction r as [|j r' IH]; [simpl; lia|].
  cbn [length pr_items_semi]. rewrite app_length. lia.
Qed.

Theorem program_semi_ok : forall items trailing, items <> [] -> Forall (fun i => wf_item i = true) items ->
  parse (pr_program_semi items trailing) = Ok (map desugar_item items) [].
Proof.
  intros items trailing NE Wf. unfold parse.
  destruct items as [|i r]; [contradiction|].
  inversion Wf as [|? ? Wi Wr]; subst.
  destruct (pr_item_flat_head i Wi) as (tok & x & E & Hs).
  assert (Sk : skip_empty_lines (pr_program_semi (i :: r) trailing) = pr_program_semi (i :: r) trailing).
  { unfold pr_program_semi. cbn [pr_items_semi]. rewrite E. cbn [app]. apply skip_start. exact Hs. }
  rewrite Sk. rewrite (parse_loop_semi (i :: r) _ [] trailing); [reflexivity| |discriminate|exact Wf].
  unfold pr_program_semi. rewrite app_length. pose proof (len_semi_tail r).
  cbn [pr_items_semi]. rewrite E. cbn [app length]. rewrite app_length. lia.
Qed.

(* acceptance characterised exactly, for every statement form *)
Theorem parse_characterised_full : forall ts ss,
  core ts = true -> tp_plain ts = true ->
  (parse ts = Ok ss [] <->
   (ts = [] /\ ss = []) \/
   exists items trailing, items <> [] /\ Forall (fun i => wf_item i = true) items
     /\ ts = pr_program_semi items trailing /\ ss = map desugar_item items).
Proof.
  intros ts ss C TP. split.
  - apply parse_sound_full; assumption.
  - intros [[-> ->]|(items & trailing & NE & Wf & -> & ->)]; [reflexivity|].
    apply program_semi_ok; assumption.
Qed.
