(* C15/C10 — numbat/src/pretty_print.rs escape_numbat_string and
   numbat/src/parser.rs strip_and_escape, on code points. *)
From Coq Require Import List NArith Bool.
From NV Require Import Syntax.Token.
Import ListNotations.
Local Open Scope N_scope.

Definition c_nl := 10. Definition c_cr := 13. Definition c_tab := 9. Definition c_nul := 0.
Definition c_quote := 34. Definition c_bslash := 92. Definition c_lcurly := 123. Definition c_rcurly := 125.
Definition c_n := 110. Definition c_r := 114. Definition c_t := 116. Definition c_0 := 48.

(* pretty_print.rs escape_numbat_string *)
Definition escape_char (c : N) : str :=
  if c =? c_nl then [c_bslash; c_n]
  else if c =? c_cr then [c_bslash; c_r]
  else if c =? c_tab then [c_bslash; c_t]
  else if c =? c_quote then [c_bslash; c_quote]
  else if c =? c_nul then [c_bslash; c_0]
  else if (c =? c_lcurly) || (c =? c_rcurly) || (c =? c_bslash) then [c; c]
  else [c].

Fixpoint escape_numbat_string (s : str) : str :=
  match s with
  | [] => []
  | c :: r => escape_char c ++ escape_numbat_string r
  end.

Definition is_special (c : N) : bool := (c =? c_lcurly) || (c =? c_rcurly) || (c =? c_bslash).

Definition last_is (last : option N) (c : N) : bool :=
  match last with Some l => l =? c | None => false end.

(* parser.rs strip_and_escape: the loop body; state = (last_char, result) *)
Fixpoint sae_loop (cs : str) (last : option N) (acc : str) : str :=
  match cs with
  | [] => acc
  | c :: r =>
      let bs := last_is last c_bslash in
      if (c =? c_n) && bs then sae_loop r (Some c) (acc ++ [c_nl])
      else if (c =? c_r) && bs then sae_loop r (Some c) (acc ++ [c_cr])
      else if (c =? c_t) && bs then sae_loop r (Some c) (acc ++ [c_tab])
      else if (c =? c_quote) && bs then sae_loop r (Some c) (acc ++ [c_quote])
      else if (c =? c_0) && bs then sae_loop r (Some c) (acc ++ [c_nul])
      else if is_special c then
        if last_is last c then sae_loop r None (acc ++ [c])
        else sae_loop r (Some c) acc
      else if bs then sae_loop r (Some c) (acc ++ [c_bslash; c])
      else sae_loop r (Some c) (acc ++ [c])
  end.

(* `&s[1..s.len()-1]`: both delimiters are one-byte characters *)
Definition strip_and_escape (lexeme : str) : str :=
  sae_loop (removelast (tl lexeme)) None [].
