(* C10 — `min_paren` (parentheses exactly where the documented precedence
   table demands them) produces well-formed derivation trees that denote the
   tree they were made from. *)
From Coq Require Import List NArith ZArith Bool Arith Lia.
From NV Require Import Syntax.Token Syntax.Ast Syntax.StmtAst Syntax.StrEsc Syntax.Parser Syntax.Grammar
     Syntax.StrEscProofs Syntax.ParserProofs.
Import ListNotations.
Local Open Scope nat_scope.
Local Arguments Nat.leb : simpl never.
Local Arguments Nat.ltb : simpl never.

Fixpoint esize (e : expr) : nat :=
  match e with
  | EUn _ a | EField a _ => S (esize a)
  | EBin _ a b => S (esize a + esize b)
  | ECall f args => S (esize f + list_sum (map esize args))
  | EIf c t f => S (esize c + esize t + esize f)
  | EList es => S (list_sum (map esize es))
  | EStruct _ fields => S (list_sum (map (fun fe => esize (snd fe)) fields))
  | _ => 1
  end.

Lemma esize_in : forall (a : expr) args, In a args -> esize a <= list_sum (map esize args).
Proof.
  induction args; simpl; intros H; [tauto|]. destruct H as [->|H]; [lia|]. specialize (IHargs H). lia.
Qed.

Lemma esize_in_fields : forall (f : str) (a : expr) fields, In (f, a) fields ->
  esize a <= list_sum (map (fun fe => esize (snd fe)) fields).
Proof.
  induction fields; simpl; intros H; [tauto|]. destruct H as [->|H]; [simpl; lia|]. specialize (IHfields H). lia.
Qed.

Lemma at_level_lvl : forall k s, k <= 16 -> k <= lvl (at_level k s).
Proof.
  intros k s Hk. unfold at_level, paren_if. destruct (lvl s <? k) eqn:E; simpl; [lia|].
  apply Nat.ltb_ge in E. exact E.
Qed.
Lemma at_level_wf : forall k s, wf (at_level k s) = wf s.
Proof. intros k s. unfold at_level, paren_if. destruct (lvl s <? k); reflexivity. Qed.
Lemma at_level_desugar : forall k s, desugar (at_level k s) = desugar s.
Proof. intros k s. unfold at_level, paren_if. destruct (lvl s <? k); reflexivity. Qed.

Lemma remove_underscores_id : forall l,
  forallb (fun c => negb (c =? 95)%N) l = true -> remove_underscores l = l.
Proof.
  induction l as [|c l IH]; intros H; [reflexivity|]. simpl in *.
  apply andb_prop in H. destruct H as [H1 H2]. rewrite H1. f_equal. apply IH. exact H2.
Qed.

Lemma leb_intro : forall a b, a <= b -> (a <=? b) = true.
Proof. intros. apply Nat.leb_le. assumption. Qed.

Theorem min_paren_ok : forall n e, esize e < n -> printable e = true ->
  wf (min_paren e) = true /\ desugar (min_paren e) = e.
Proof.
  induction n; intros e Hs Hp; [lia|].
  destruct e; simpl in Hs, Hp; try discriminate.
  - (* EScalar *) split; [reflexivity|]. simpl. rewrite remove_underscores_id by exact Hp. reflexivity.
  - split; reflexivity.
  - split; reflexivity.
  - split; reflexivity.
  - (* EString *) split; [reflexivity|]. simpl. rewrite string_escape_roundtrip. reflexivity.
  - (* EUn *)
    destruct op.
    + destruct (IHn e ltac:(lia) Hp) as [W D]. split.
      * simpl. rewrite at_level_wf, W. apply leb_intro. apply at_level_lvl. lia.
      * simpl. rewrite at_level_desugar, D. reflexivity.
    + apply andb_prop in Hp. destruct Hp as [Ho Hp]. apply negb_true_iff in Ho. apply Nat.eqb_neq in Ho.
      destruct (IHn e ltac:(lia) Hp) as [W D]. split.
      * simpl. rewrite at_level_wf, W. apply leb_intro. apply at_level_lvl. lia.
      * simpl. rewrite at_level_desugar, D. destruct order; [congruence|reflexivity].
    + destruct (IHn e ltac:(lia) Hp) as [W D]. split.
      * simpl. rewrite at_level_wf, W. apply leb_intro. apply at_level_lvl. lia.
      * simpl. rewrite at_level_desugar, D. reflexivity.
  - (* EBin *)
    apply andb_prop in Hp. destruct Hp as [Hp1 Hp2].
    destruct (IHn e1 ltac:(lia) Hp1) as [W1 D1]. destruct (IHn e2 ltac:(lia) Hp2) as [W2 D2].
    destruct op; (split;
      [ cbn [min_paren token_of_binop binlevel wf]; rewrite !at_level_wf, W1, W2; cbn [andb];
        rewrite !leb_intro by (apply at_level_lvl; lia); reflexivity
      | cbn [min_paren token_of_binop binlevel desugar binop_of]; rewrite !at_level_desugar, D1, D2; reflexivity ]).
  - (* ECall *)
    apply andb_prop in Hp. destruct Hp as [Hp1 Hp2].
    destruct (IHn e ltac:(lia) Hp1) as [W D].
    assert (HA : forall a, In a args -> wf (min_paren a) = true /\ desugar (min_paren a) = a).
    { intros a Ha. apply IHn. pose proof (esize_in a args Ha). lia.
      eapply forallb_forall in Hp2; eauto. }
    split.
    + simpl. rewrite at_level_wf, W. rewrite leb_intro by (apply at_level_lvl; lia). simpl.
      apply forallb_forall. intros s Hs'. apply in_map_iff in Hs'. destruct Hs' as (a & <- & Ha).
      apply HA. exact Ha.
    + simpl. rewrite at_level_desugar, D. f_equal. rewrite map_map.
      rewrite <- (map_id args) at 2. apply map_ext_in. intros a Ha. apply HA. exact Ha.
  - (* EField *)
    destruct (IHn e ltac:(lia) Hp) as [W D]. split.
    + simpl. rewrite at_level_wf, W. apply leb_intro. apply at_level_lvl. lia.
    + simpl. rewrite at_level_desugar, D. reflexivity.
  - (* EIf *)
    apply andb_prop in Hp. destruct Hp as [Hp Hp3]. apply andb_prop in Hp. destruct Hp as [Hp1 Hp2].
    destruct (IHn e1 ltac:(lia) Hp1) as [W1 D1]. destruct (IHn e2 ltac:(lia) Hp2) as [W2 D2].
    destruct (IHn e3 ltac:(lia) Hp3) as [W3 D3]. split.
    + simpl. rewrite !at_level_wf, W1, W2, W3. simpl.
      rewrite !leb_intro by (apply at_level_lvl; lia). reflexivity.
    + simpl. rewrite !at_level_desugar, D1, D2, D3. reflexivity.
  - (* EList *)
    assert (HA : forall a, In a es -> wf (min_paren a) = true /\ desugar (min_paren a) = a).
    { intros a Ha. apply IHn. pose proof (esize_in a es Ha). lia. eapply forallb_forall in Hp; eauto. }
    split.
    + simpl. apply forallb_forall. intros s Hs'. apply in_map_iff in Hs'. destruct Hs' as (a & <- & Ha).
      apply HA. exact Ha.
    + simpl. f_equal. rewrite map_map. rewrite <- (map_id es) at 2. apply map_ext_in. intros a Ha. apply HA. exact Ha.
  - (* EStruct *)
    assert (HA : forall f a, In (f, a) fields -> wf (min_paren a) = true /\ desugar (min_paren a) = a).
    { intros f a Ha. apply IHn. pose proof (esize_in_fields f a fields Ha). lia.
      eapply forallb_forall in Hp; [|exact Ha]. exact Hp. }
    split.
    + simpl. apply forallb_forall. intros s Hs'. apply in_map_iff in Hs'. destruct Hs' as ([f a] & <- & Ha).
      simpl. eapply HA. exact Ha.
    + simpl. f_equal. rewrite map_map. rewrite <- (map_id fields) at 2. apply map_ext_in.
      intros [f a] Ha. simpl. f_equal. eapply HA. exact Ha.
Qed.

(* every abstract tree, rendered with the minimal parentheses of the table,
   is read back as itself *)
Theorem precedence_roundtrip : forall e, printable e = true -> parse (pr (min_paren e)) = Ok [StExpr e] [].
Proof.
  intros e Hp. destruct (min_paren_ok (S (esize e)) e ltac:(lia) Hp) as [W D].
  rewrite (roundtrip _ W), D. reflexivity.
Qed.
