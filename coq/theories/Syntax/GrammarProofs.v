(* C10 — `min_paren` (parentheses exactly where the documented precedence
   table demands them) produces well-formed derivation trees that denote the
   tree they were made from. *)
From Coq Require Import List NArith ZArith Bool Arith Lia.
From NV Require Import Syntax.Token Syntax.Ast Syntax.StmtAst Syntax.StrEsc Syntax.Parser Syntax.Grammar
     Syntax.StrEscProofs Syntax.ParserProofs.
Import ListNotations.
Local Open Scope nat_scope.
Local Arguments Nat.leb : simpl never.
Local Arguments Nat.ltb : simpl never.

Fixpoint esize (e : expr) : nat :=
  match e with
  | EUn _ a | EField a _ => S (esize a)
  | EBin _ a b => S (esize a + esize b)
  | ECall f args => S (esize f + list_sum (map esize args))
  | EIf c t f => S (esize c + esize t + esize f)
  | EList es => S (list_sum (map esize es))
  | EStruct _ fields => S (list_sum (map (fun fe => esize (snd fe)) fields))
  | EInterp parts => S (list_sum (map (fun p => match p with PExpr a _ => esize a | PFixed _ => 0 end) parts))
  | _ => 1
  end.

Lemma esize_in : forall (a : expr) args, In a args -> esize a <= list_sum (map esize args).
Proof.
  induction args; simpl; intros H; [tauto|]. destruct H as [->|H]; [lia|]. specialize (IHargs H). lia.
Qed.

Lemma esize_in_fields : forall (f : str) (a : expr) fields, In (f, a) fields ->
  esize a <= list_sum (map (fun fe => esize (snd fe)) fields).
Proof.
  induction fields; simpl; intros H; [tauto|]. destruct H as [->|H]; [simpl; lia|]. specialize (IHfields H). lia.
Qed.

Lemma at_level_lvl : forall k s, k <= 16 -> k <= lvl (at_level k s).
Proof.
  intros k s Hk. unfold at_level, paren_if. destruct (lvl s <? k) eqn:E; simpl; [lia|].
  apply Nat.ltb_ge in E. exact E.
Qed.
Lemma at_level_wf : forall k s, wf (at_level k s) = wf s.
Proof. intros k s. unfold at_level, paren_if. destruct (lvl s <? k); reflexivity. Qed.
Lemma at_level_desugar : forall k s, desugar (at_level k s) = desugar s.
Proof. intros k s. unfold at_level, paren_if. destruct (lvl s <? k); reflexivity. Qed.

Lemma remove_underscores_id : forall l,
  forallb (fun c => negb (c =? 95)%N) l = true -> remove_underscores l = l.
Proof.
  induction l as [|c l IH]; intros H; [reflexivity|]. simpl in *.
  apply andb_prop in H. destruct H as [H1 H2]. rewrite H1. f_equal. apply IH. exact H2.
Qed.

Lemma leb_intro : forall a b, a <= b -> (a <=? b) = true.
Proof. intros. apply Nat.leb_le. assumption. Qed.

(* ---- interpolated strings: the parts list in the shape the parser builds *)
Fixpoint mp_parts (mp : expr -> sx) (ps : list (ipart expr)) : str * list (sx * option str * str) :=
  match ps with
  | [] => ([], [])
  | PFixed s :: r => let (s0, it) := mp_parts mp r in (s ++ s0, it)
  | PExpr a f :: r =>
      let (s0, it) := mp_parts mp r in
      ([], (mp a, f, 125%N :: escape_numbat_string s0 ++ [match it with [] => c_quote | _ :: _ => 123%N end]) :: it)
  end.
Fixpoint norm_parts (p : expr -> bool) (prev_fixed : bool) (ps : list (ipart expr)) : bool :=
  match ps with
  | [] => true
  | PFixed s :: r => negb prev_fixed && match s with [] => false | _ => true end && norm_parts p true r
  | PExpr a _ :: r => p a && norm_parts p false r
  end.
Definition has_interp (ps : list (ipart expr)) : bool :=
  existsb (fun p => match p with PExpr _ _ => true | PFixed _ => false end) ps.

Lemma min_paren_interp : forall parts,
  min_paren (EInterp parts)
  = SInterp (c_quote :: escape_numbat_string (fst (mp_parts min_paren parts)) ++ [123%N]) (snd (mp_parts min_paren parts)).
Proof.
  intros parts. cbn [min_paren].
  assert (E : forall ps,
    (fix go (ps : list (ipart expr)) : str * list (sx * option str * str) :=
       match ps with
       | [] => ([], [])
       | PFixed s :: r => let (s0, it) := go r in (s ++ s0, it)
       | PExpr a f :: r =>
           let (s0, it) := go r in
           ([], (min_paren a, f,
                 125%N :: escape_numbat_string s0 ++ [match it with [] => c_quote | _ :: _ => 123%N end]) :: it)
       end) ps = mp_parts min_paren ps).
  { induction ps as [|[s|a f] r IH]; [reflexivity| |]; cbn [mp_parts]; rewrite <- IH; reflexivity. }
  rewrite E. reflexivity.
Qed.

Lemma printable_interp : forall parts,
  printable (EInterp parts) = has_interp parts && norm_parts printable false parts.
Proof.
  intros parts. cbn [printable]. unfold has_interp. f_equal.
  assert (E : forall ps b,
    (fix np (prev_fixed : bool) (ps : list (ipart expr)) : bool :=
       match ps with
       | [] => true
       | PFixed s :: r => negb prev_fixed && match s with [] => false | _ => true end && np true r
       | PExpr a _ :: r => printable a && np false r
       end) b ps = norm_parts printable b ps).
  { induction ps as [|[s|a f] r IH]; intros b; [reflexivity| |]; cbn [norm_parts]; rewrite <- IH; reflexivity. }
  apply E.
Qed.

Lemma esize_in_parts : forall a f parts, In (PExpr a f) parts ->
  esize a <= list_sum (map (fun p : ipart expr => match p with PExpr a _ => esize a | PFixed _ => 0 end) parts).
Proof.
  induction parts as [|p r IH]; simpl; intros H; [tauto|]. destruct H as [->|H]; [lia|]. specialize (IH H). lia.
Qed.

Definition parts_of (it : list (sx * option str * str)) : list (ipart expr) :=
  flat_map (fun it => [PExpr (desugar (fst (fst it))) (snd (fst it)); PFixed (strip_and_escape (snd it))]) it.

Lemma mp_parts_nofixed : forall mp p r, norm_parts p true r = true -> fst (mp_parts mp r) = [].
Proof.
  intros mp p [|[s|a f] r] H; [reflexivity|discriminate|]. cbn [mp_parts]. destruct (mp_parts mp r). reflexivity.
Qed.

Lemma filter_fixed_nil : forall l : list (ipart expr),
  filter nonempty_part (PFixed [] :: l) = filter nonempty_part l.
Proof. reflexivity. Qed.
Lemma filter_fixed_cons : forall c s (l : list (ipart expr)),
  filter nonempty_part (PFixed (c :: s) :: l) = PFixed (c :: s) :: filter nonempty_part l.
Proof. reflexivity. Qed.
Lemma filter_expr : forall a f (l : list (ipart expr)),
  filter nonempty_part (PExpr a f :: l) = PExpr a f :: filter nonempty_part l.
Proof. reflexivity. Qed.

Lemma mp_parts_ok : forall mp p ps prev,
  (forall a f, In (PExpr a f) ps -> p a = true -> desugar (mp a) = a) ->
  norm_parts p prev ps = true ->
  filter nonempty_part (PFixed (fst (mp_parts mp ps)) :: parts_of (snd (mp_parts mp ps))) = ps.
Proof.
  induction ps as [|[s|a f] r IH]; intros prev HD N.
  - reflexivity.
  - cbn [norm_parts] in N. apply andb_prop in N. destruct N as [N N3]. apply andb_prop in N. destruct N as [_ N2].
    pose proof (mp_parts_nofixed mp p r N3) as F0.
    assert (IH' := IH true (fun a f Ha => HD a f (or_intror Ha)) N3).
    cbn [mp_parts]. destruct (mp_parts mp r) as [s0 it]. cbn [fst snd] in *. subst s0. rewrite app_nil_r.
    rewrite filter_fixed_nil in IH'. destruct s as [|c s']; [discriminate|].
    rewrite filter_fixed_cons, IH'. reflexivity.
  - cbn [norm_parts] in N. apply andb_prop in N. destruct N as [Pa N2].
    assert (IH' := IH false (fun a f Ha => HD a f (or_intror Ha)) N2).
    cbn [mp_parts]. destruct (mp_parts mp r) as [s0 it]. cbn [fst snd] in *.
    change (parts_of ((mp a, f, 125%N :: escape_numbat_string s0 ++ [match it with [] => c_quote | _ :: _ => 123%N end]) :: it))
      with (PExpr (desugar (mp a)) f
            :: PFixed (strip_and_escape (125%N :: escape_numbat_string s0 ++ [match it with [] => c_quote | _ :: _ => 123%N end]))
            :: parts_of it).
    rewrite filter_fixed_nil, filter_expr. rewrite string_escape_roundtrip_delim.
    rewrite (HD a f (or_introl eq_refl) Pa). rewrite IH'. reflexivity.
Qed.

Lemma mp_parts_wf : forall mp p ps prev,
  (forall a f, In (PExpr a f) ps -> p a = true -> wf (mp a) = true) ->
  norm_parts p prev ps = true ->
  forallb (fun it : sx * option str * str => wf (fst (fst it))) (snd (mp_parts mp ps)) = true
  /\ (has_interp ps = true -> snd (mp_parts mp ps) <> []).
Proof.
  induction ps as [|[s|a f] r IH]; intros prev HW N.
  - split; [reflexivity|discriminate].
  - cbn [norm_parts] in N. apply andb_prop in N. destruct N as [_ N3].
    destruct (IH true (fun a f Ha => HW a f (or_intror Ha)) N3) as [W NE].
    cbn [mp_parts]. destruct (mp_parts mp r) as [s0 it]. cbn [snd] in *. split; [exact W|exact NE].
  - cbn [norm_parts] in N. apply andb_prop in N. destruct N as [Pa N2].
    destruct (IH false (fun a f Ha => HW a f (or_intror Ha)) N2) as [W _].
    cbn [mp_parts]. destruct (mp_parts mp r) as [s0 it]. cbn [snd forallb fst] in *.
    rewrite (HW a f (or_introl eq_refl) Pa), W. split; [reflexivity|discriminate].
Qed.

Lemma norm_parts_in : forall p ps prev a f, norm_parts p prev ps = true -> In (PExpr a f) ps -> p a = true.
Proof.
  induction ps as [|[s|b g] r IH]; intros prev a f N H; [contradiction| |].
  - cbn [norm_parts] in N. apply andb_prop in N. destruct N as [_ N3]. destruct H as [H|H]; [discriminate|]. eapply IH; eauto.
  - cbn [norm_parts] in N. apply andb_prop in N. destruct N as [Pb N2]. destruct H as [H|H]; [inversion H; subst; exact Pb|].
    eapply IH; eauto.
Qed.

Theorem min_paren_ok : forall n e, esize e < n -> printable e = true ->
  wf (min_paren e) = true /\ desugar (min_paren e) = e.
Proof.
  induction n; intros e Hs Hp; [lia|].
  destruct e; simpl in Hs; try (simpl in Hp; discriminate);
    try (lazymatch goal with |- context [EInterp] => idtac | _ => simpl in Hp end).
  - (* EScalar *) split; [reflexivity|]. simpl. rewrite remove_underscores_id by exact Hp. reflexivity.
  - split; reflexivity.
  - split; reflexivity.
  - split; reflexivity.
  - (* EString *) split; [reflexivity|]. simpl. rewrite string_escape_roundtrip. reflexivity.
  - (* EInterp *)
    rewrite printable_interp in Hp. apply andb_prop in Hp. destruct Hp as [HI HN].
    assert (HA : forall a f, In (PExpr a f) parts -> printable a = true ->
              wf (min_paren a) = true /\ desugar (min_paren a) = a).
    { intros a f Ha Pa. apply IHn; [pose proof (esize_in_parts a f parts Ha); lia|exact Pa]. }
    rewrite min_paren_interp. split.
    + destruct (mp_parts_wf min_paren printable parts false (fun a f Ha Pa => proj1 (HA a f Ha Pa)) HN) as [W NE].
      cbn [wf]. specialize (NE HI). destruct (snd (mp_parts min_paren parts)); [contradiction|exact W].
    + cbn [desugar]. rewrite string_escape_roundtrip_delim.
      pose proof (mp_parts_ok min_paren printable parts false (fun a f Ha Pa => proj2 (HA a f Ha Pa)) HN) as E.
      unfold parts_of in E. rewrite E. reflexivity.
  - (* EUn *)
    destruct op.
    + destruct (IHn e ltac:(lia) Hp) as [W D]. split.
      * simpl. rewrite at_level_wf, W. apply leb_intro. apply at_level_lvl. lia.
      * simpl. rewrite at_level_desugar, D. reflexivity.
    + apply andb_prop in Hp. destruct Hp as [Ho Hp]. apply negb_true_iff in Ho. apply Nat.eqb_neq in Ho.
      destruct (IHn e ltac:(lia) Hp) as [W D]. split.
      * simpl. rewrite at_level_wf, W. apply leb_intro. apply at_level_lvl. lia.
      * simpl. rewrite at_level_desugar, D. destruct order; [congruence|reflexivity].
    + destruct (IHn e ltac:(lia) Hp) as [W D]. split.
      * simpl. rewrite at_level_wf, W. apply leb_intro. apply at_level_lvl. lia.
      * simpl. rewrite at_level_desugar, D. reflexivity.
  - (* EBin *)
    apply andb_prop in Hp. destruct Hp as [Hp1 Hp2].
    destruct (IHn e1 ltac:(lia) Hp1) as [W1 D1]. destruct (IHn e2 ltac:(lia) Hp2) as [W2 D2].
    destruct op; (split;
      [ cbn [min_paren token_of_binop binlevel wf]; rewrite !at_level_wf, W1, W2; cbn [andb];
        rewrite !leb_intro by (apply at_level_lvl; lia); reflexivity
      | cbn [min_paren token_of_binop binlevel desugar binop_of]; rewrite !at_level_desugar, D1, D2; reflexivity ]).
  - (* ECall *)
    apply andb_prop in Hp. destruct Hp as [Hp1 Hp2].
    destruct (IHn e ltac:(lia) Hp1) as [W D].
    assert (HA : forall a, In a args -> wf (min_paren a) = true /\ desugar (min_paren a) = a).
    { intros a Ha. apply IHn. pose proof (esize_in a args Ha). lia.
      eapply forallb_forall in Hp2; eauto. }
    split.
    + simpl. rewrite at_level_wf, W. rewrite leb_intro by (apply at_level_lvl; lia). simpl.
      apply forallb_forall. intros s Hs'. apply in_map_iff in Hs'. destruct Hs' as (a & <- & Ha).
      apply HA. exact Ha.
    + simpl. rewrite at_level_desugar, D. f_equal. rewrite map_map.
      rewrite <- (map_id args) at 2. apply map_ext_in. intros a Ha. apply HA. exact Ha.
  - (* EField *)
    destruct (IHn e ltac:(lia) Hp) as [W D]. split.
    + simpl. rewrite at_level_wf, W. apply leb_intro. apply at_level_lvl. lia.
    + simpl. rewrite at_level_desugar, D. reflexivity.
  - (* EIf *)
    apply andb_prop in Hp. destruct Hp as [Hp Hp3]. apply andb_prop in Hp. destruct Hp as [Hp1 Hp2].
    destruct (IHn e1 ltac:(lia) Hp1) as [W1 D1]. destruct (IHn e2 ltac:(lia) Hp2) as [W2 D2].
    destruct (IHn e3 ltac:(lia) Hp3) as [W3 D3]. split.
    + simpl. rewrite !at_level_wf, W1, W2, W3. simpl.
      rewrite !leb_intro by (apply at_level_lvl; lia). reflexivity.
    + simpl. rewrite !at_level_desugar, D1, D2, D3. reflexivity.
  - (* EList *)
    assert (HA : forall a, In a es -> wf (min_paren a) = true /\ desugar (min_paren a) = a).
    { intros a Ha. apply IHn. pose proof (esize_in a es Ha). lia. eapply forallb_forall in Hp; eauto. }
    split.
    + simpl. apply forallb_forall. intros s Hs'. apply in_map_iff in Hs'. destruct Hs' as (a & <- & Ha).
      apply HA. exact Ha.
    + simpl. f_equal. rewrite map_map. rewrite <- (map_id es) at 2. apply map_ext_in. intros a Ha. apply HA. exact Ha.
  - (* EStruct *)
    assert (HA : forall f a, In (f, a) fields -> wf (min_paren a) = true /\ desugar (min_paren a) = a).
    { intros f a Ha. apply IHn. pose proof (esize_in_fields f a fields Ha). lia.
      eapply forallb_forall in Hp; [|exact Ha]. exact Hp. }
    split.
    + simpl. apply forallb_forall. intros s Hs'. apply in_map_iff in Hs'. destruct Hs' as ([f a] & <- & Ha).
      simpl. eapply HA. exact Ha.
    + simpl. f_equal. rewrite map_map. rewrite <- (map_id fields) at 2. apply map_ext_in.
      intros [f a] Ha. simpl. f_equal. eapply HA. exact Ha.
Qed.

(* every abstract tree, rendered with the minimal parentheses of the table,
   is read back as itself *)
Theorem precedence_roundtrip : forall e, printable e = true -> parse (pr (min_paren e)) = Ok [StExpr e] [].
Proof.
  intros e Hp. destruct (min_paren_ok (S (esize e)) e ltac:(lia) Hp) as [W D].
  rewrite (roundtrip _ W), D. reflexivity.
Qed.
