(* C10 — soundness of the type-annotation / dimension-expression parser: whatever the model of
   Parser::type_annotation (dimension_expression, dimension_exponent) accepts is the print of a
   well-formed tree of the documented grammar and denotes it; nothing else is accepted. *)
From Coq Require Import List NArith ZArith Bool Arith Lia.
From NV Require Import Syntax.Token Syntax.Ast Syntax.StmtAst Syntax.StrEsc Syntax.Parser
  Syntax.Grammar Syntax.ParserProofs Syntax.SoundProofs Syntax.TypeGrammar Syntax.TypeProofs.
Import ListNotations.
Local Open Scope nat_scope.
Local Arguments Nat.leb : simpl never.

Lemma exponent_sound : forall n ts e rest, dimension_exponent_n n ts = Ok e rest ->
  exists x, eval_sxp x = Some e /\ ts = pr_sxp x ++ rest.
Proof.
  induction n; intros ts e rest H; [discriminate|]. cbn [dimension_exponent_n] in H.
  destruct ts as [|t r]; [discriminate|]. destruct t; try discriminate.
  - (* ( *)
    apply bind_ok in H. destruct H as (e1 & r1 & E1 & H).
    destruct (IHn _ _ _ E1) as (x1 & V1 & T1).
    destruct r1 as [|t2 r2]; [discriminate|]. destruct t2; try discriminate.
    + inversion H; subst. exists (XPar x1). split; [exact V1|]. cbn [pr_sxp app]. napp. reflexivity.
    + apply bind_ok in H. destruct H as (e2 & r3 & E2 & H).
      destruct (IHn _ _ _ E2) as (x2 & V2 & T2).
      destruct (exp_is_zero e2) eqn:Z; [discriminate|].
      destruct r3 as [|t3 r4]; [discriminate|]. destruct t3; try discriminate.
      destruct (exp_fits (exp_div e1 e2)) eqn:F; [|discriminate]. inversion H; subst.
      exists (XParDiv x1 x2). split.
      * cbn [eval_sxp]. rewrite V1, V2, Z, F. reflexivity.
      * cbn [pr_sxp app]. napp. reflexivity.
  - (* - *)
    apply bind_ok in H. destruct H as (e1 & r1 & E1 & H). inversion H; subst.
    destruct (IHn _ _ _ E1) as (x1 & V1 & T1). exists (XMinus x1). split.
    + cbn [eval_sxp]. rewrite V1. reflexivity.
    + subst r. reflexivity.
  - (* number *)
    destruct (match remove_underscores lexeme with [] => false | _ => all_digits (remove_underscores lexeme) end) eqn:D;
      cbn [negb] in H; [|discriminate].
    destruct (Z.leb (decimal_value (remove_underscores lexeme)) i128_max) eqn:L; [|discriminate].
    inversion H; subst. exists (XNum lexeme). split; [|reflexivity].
    cbn [eval_sxp]. rewrite D, L. reflexivity.
Qed.

Definition SoundT (tk : list token -> res tann) : Prop :=
  forall ts a rest, tk ts = Ok a rest ->
  exists t, wf_ty t = true /\ ty_ann t = a /\ ts = pr_ty t ++ rest.
Definition SoundD (dk : list token -> res texp) : Prop :=
  forall ts e rest, dk ts = Ok e rest ->
  exists t, wf_ty t = true /\ 1 <= ylvl t /\ ty_exp t = e /\ ts = pr_ty t ++ rest.

Section Levels.
  Variable tk : list token -> res tann.
  Variable dk : list token -> res texp.
  Hypothesis HT : SoundT tk.
  Hypothesis HD : SoundD dk.

  Lemma type_args_loop_sound : forall n targs ts out rest,
    forallb wf_ty targs = true ->
    type_args_loop tk n (map ty_ann targs) ts = Ok out rest ->
    exists more, forallb wf_ty more = true /\ out = map ty_ann (targs ++ more)
                 /\ ts = ytail more ++ TGreaterThan :: rest.
  Proof.
    induction n; intros targs ts out rest W H; [discriminate|]. cbn [type_args_loop] in H.
    destruct ts as [|t r]; [discriminate|]. destruct t; try discriminate.
    - (* , *)
      apply bind_ok in H. destruct H as (a & r1 & E & H).
      destruct (HT _ _ _ E) as (ta & Wa & Da & Ta).
      assert (W' : forallb wf_ty (targs ++ [ta]) = true) by (rewrite forallb_app, W; cbn [forallb]; rewrite Wa; reflexivity).
      assert (H' : type_args_loop tk n (map ty_ann (targs ++ [ta])) r1 = Ok out rest).
      { rewrite map_app. cbn [map]. rewrite Da. exact H. }
      destruct (IHn _ _ _ _ W' H') as (more & Wm & Em & Tm).
      exists (ta :: more). split; [cbn [forallb]; rewrite Wa, Wm; reflexivity|]. split.
      + rewrite Em. napp. reflexivity.
      + cbn [ytail]. rewrite Ta, Tm. napp. reflexivity.
    - (* > *)
      inversion H; subst. exists []. rewrite app_nil_r. repeat split; reflexivity.
  Qed.

  Lemma fn_params_loop_sound : forall n ps ts out rest,
    forallb wf_ty ps = true ->
    fn_type_params_loop tk n (map ty_ann ps) ts = Ok out rest ->
    exists more, forallb wf_ty more = true /\ out = map ty_ann (ps ++ more)
                 /\ ts = ytail more ++ rest /\ (match rest with TComma :: _ => False | _ => True end).
  Proof.
    induction n; intros ps ts out rest W H; [discriminate|]. cbn [fn_type_params_loop] in H.
    assert (Stop : Ok (map ty_ann ps) ts = Ok out rest -> (match ts with TComma :: _ => False | _ => True end) ->
            exists more, forallb wf_ty more = true /\ out = map ty_ann (ps ++ more)
                 /\ ts = ytail more ++ rest /\ (match rest with TComma :: _ => False | _ => True end)).
    { intros E NC. inversion E; subst. exists []. rewrite app_nil_r. repeat split; auto. }
    destruct ts as [|t r]; [apply Stop; [exact H|exact I]|].
    destruct t; try (apply Stop; [exact H|exact I]).
    apply bind_ok in H. destruct H as (a & r1 & E & H).
    destruct (HT _ _ _ E) as (ta & Wa & Da & Ta).
    assert (W' : forallb wf_ty (ps ++ [ta]) = true) by (rewrite forallb_app, W; cbn [forallb]; rewrite Wa; reflexivity).
    assert (H' : fn_type_params_loop tk n (map ty_ann (ps ++ [ta])) r1 = Ok out rest).
    { rewrite map_app. cbn [map]. rewrite Da. exact H. }
    destruct (IHn _ _ _ _ W' H') as (more & Wm & Em & Tm & NC).
    exists (ta :: more). split; [cbn [forallb]; rewrite Wa, Wm; reflexivity|]. split; [|split].
    - rewrite Em. napp. reflexivity.
    - cbn [ytail]. rewrite Ta, Tm. napp. reflexivity.
    - exact NC.
  Qed.

  (* dimension_primary: a level-3 tree; what follows is not `<` when no arguments were read *)
  Lemma primary_sound_ty : forall ts e rest, dimension_primary tk dk ts = Ok e rest ->
    exists t, wf_ty t = true /\ 3 <= ylvl t /\ ty_exp t = e /\ ts = pr_ty t ++ rest.
  Proof.
    intros ts e rest H. unfold dimension_primary in H.
    destruct ts as [|t r]; [discriminate|]. destruct t; try discriminate.
    - (* ( *)
      apply bind_ok in H. destruct H as (d & r1 & E & H).
      destruct (HD _ _ _ E) as (td & Wd & Ld & Dd & Td).
      destruct r1 as [|t2 r2]; [discriminate|]. destruct t2; try discriminate. inversion H; subst.
      exists (YParen td). cbn [wf_ty ylvl ty_exp pr_ty]. rewrite Wd. rewrite (proj2 (Nat.leb_le _ _) Ld).
      repeat split; auto. cbn [app]. napp. reflexivity.
    - (* number *)
      destruct (list_eq_dec N.eq_dec lexeme [49%N]) as [->|]; [|discriminate]. inversion H; subst.
      exists YUnity. repeat split; auto.
    - (* identifier *)
      destruct (starts_double_underscore name) eqn:DU; [discriminate|].
      assert (Plain : Ok (TEIdent name []) r = Ok e rest ->
                exists t, wf_ty t = true /\ 3 <= ylvl t /\ ty_exp t = e /\ TIdent name :: r = pr_ty t ++ rest).
      { intros E. inversion E; subst. exists (YIdent name None). cbn [wf_ty ylvl ty_exp pr_ty]. rewrite DU.
        repeat split; auto. }
      destruct r as [|t2 r2]; [apply Plain; exact H|].
      destruct t2; try (apply Plain; exact H).
      (* < *)
      assert (Args : bind (tk r2) (fun a rest0 =>
                  bind (type_args_loop tk (S (length rest0)) [a] rest0) (fun args rest1 => Ok (TEIdent name args) rest1))
                  = Ok e rest ->
                exists t, wf_ty t = true /\ 3 <= ylvl t /\ ty_exp t = e
                          /\ TIdent name :: TLessThan :: r2 = pr_ty t ++ rest).
      { intros E0. apply bind_ok in E0. destruct E0 as (a & r1 & E & H0).
        destruct (HT _ _ _ E) as (ta & Wa & Da & Ta).
        apply bind_ok in H0. destruct H0 as (args & r4 & E2 & H0). inversion H0; subst.
        assert (W1 : forallb wf_ty [ta] = true) by (cbn [forallb]; rewrite Wa; reflexivity).
        destruct (type_args_loop_sound _ [ta] _ _ _ W1 E2) as (more & Wm & Em & Tm).
        exists (YIdent name (Some (ta :: more))). cbn [wf_ty ylvl ty_exp]. rewrite DU. cbn [forallb app] in *.
        rewrite Wa, Wm. repeat split; auto.
        - rewrite Em. reflexivity.
        - rewrite pr_ident_args, pr_tys_cons. rewrite Tm. napp. reflexivity. }
      destruct r2 as [|t3 r3]; [apply Args; exact H|].
      destruct t3; try (apply Args; exact H); try discriminate.
      inversion H; subst. exists (YIdent name (Some [])). cbn [wf_ty ylvl ty_exp pr_ty forallb map]. rewrite DU.
      repeat split; auto.
  Qed.

  Lemma power_sound_ty : forall ts e rest, dimension_power tk dk ts = Ok e rest ->
    exists t, wf_ty t = true /\ 2 <= ylvl t /\ ty_exp t = e /\ ts = pr_ty t ++ rest.
  Proof.
    intros ts e rest H. unfold dimension_power in H.
    apply bind_ok in H. destruct H as (b & r1 & E & H).
    destruct (primary_sound_ty _ _ _ E) as (tb & Wb & Lb & Db & Tb).
    assert (Plain : Ok b r1 = Ok e rest ->
              exists t, wf_ty t = true /\ 2 <= ylvl t /\ ty_exp t = e /\ ts = pr_ty t ++ rest).
    { intros E0. inversion E0; subst. exists tb. repeat split; auto. lia. }
    destruct r1 as [|t2 r2]; [apply Plain; exact H|].
    destruct t2; try (apply Plain; exact H).
    - (* ^ *)
      apply bind_ok in H. destruct H as (x & r3 & Ex & H). inversion H; subst.
      destruct (exponent_sound _ _ _ _ Ex) as (sx & Vx & Tx).
      exists (YPow tb sx). cbn [wf_ty ylvl ty_exp pr_ty]. rewrite Wb, Vx. rewrite (proj2 (Nat.leb_le _ _) Lb).
      repeat split; auto. rewrite Tx. napp. reflexivity.
    - (* unicode exponent *)
      inversion H; subst. exists (YUPow tb lexeme). cbn [wf_ty ylvl ty_exp pr_ty]. rewrite Wb.
      rewrite (proj2 (Nat.leb_le _ _) Lb). repeat split; auto. napp. reflexivity.
  Qed.

  Lemma factor_loop_sound : forall n tacc ts e rest,
    wf_ty tacc = true -> 1 <= ylvl tacc ->
    dimension_factor_loop tk dk n (ty_exp tacc) ts = Ok e rest ->
    exists t tail, wf_ty t = true /\ 1 <= ylvl t /\ ty_exp t = e /\ pr_ty t = pr_ty tacc ++ tail
                   /\ ts = tail ++ rest.
  Proof.
    induction n; intros tacc ts e rest W L H; [discriminate|]. cbn [dimension_factor_loop] in H.
    assert (Stop : Ok (ty_exp tacc) ts = Ok e rest ->
              exists t tail, wf_ty t = true /\ 1 <= ylvl t /\ ty_exp t = e /\ pr_ty t = pr_ty tacc ++ tail
                   /\ ts = tail ++ rest).
    { intros E. inversion E; subst. exists tacc, []. rewrite app_nil_r. repeat split; auto. }
    destruct ts as [|t r]; [apply Stop; exact H|].
    destruct t; try (apply Stop; exact H).
    - (* * *)
      apply bind_ok in H. destruct H as (rhs & r1 & E & H).
      destruct (power_sound_ty _ _ _ E) as (tr & Wr & Lr & Dr & Tr).
      assert (W' : wf_ty (YMul tacc tr) = true).
      { cbn [wf_ty]. rewrite W, Wr, (proj2 (Nat.leb_le _ _) L), (proj2 (Nat.leb_le _ _) Lr). reflexivity. }
      assert (H' : dimension_factor_loop tk dk n (ty_exp (YMul tacc tr)) r1 = Ok e rest)
        by (cbn [ty_exp]; rewrite Dr; exact H).
      destruct (IHn (YMul tacc tr) r1 e rest W' ltac:(cbn [ylvl]; lia) H') as (t & tail & Wt & Lt & Dt & Pt & Tt).
      exists t, (TMultiply :: pr_ty tr ++ tail). repeat split; auto.
      + rewrite Pt. cbn [pr_ty]. napp. reflexivity.
      + rewrite Tr, Tt. cbn [app]. napp. reflexivity.
    - (* / *)
      apply bind_ok in H. destruct H as (rhs & r1 & E & H).
      destruct (power_sound_ty _ _ _ E) as (tr & Wr & Lr & Dr & Tr).
      assert (W' : wf_ty (YDiv tacc tr) = true).
      { cbn [wf_ty]. rewrite W, Wr, (proj2 (Nat.leb_le _ _) L), (proj2 (Nat.leb_le _ _) Lr). reflexivity. }
      assert (H' : dimension_factor_loop tk dk n (ty_exp (YDiv tacc tr)) r1 = Ok e rest)
        by (cbn [ty_exp]; rewrite Dr; exact H).
      destruct (IHn (YDiv tacc tr) r1 e rest W' ltac:(cbn [ylvl]; lia) H') as (t & tail & Wt & Lt & Dt & Pt & Tt).
      exists t, (TDivide :: pr_ty tr ++ tail). repeat split; auto.
      + rewrite Pt. cbn [pr_ty]. napp. reflexivity.
      + rewrite Tr, Tt. cbn [app]. napp. reflexivity.
  Qed.

  Lemma factor_sound_ty : SoundD (dimension_factor tk dk).
  Proof.
    intros ts e rest H. unfold dimension_factor in H.
    apply bind_ok in H. destruct H as (b & r1 & E & H).
    destruct (power_sound_ty _ _ _ E) as (tb & Wb & Lb & Db & Tb). subst b.
    destruct (factor_loop_sound _ tb r1 e rest Wb ltac:(lia) H) as (t & tail & Wt & Lt & Dt & Pt & Tt).
    exists t. repeat split; auto. rewrite Pt, Tb, Tt. napp. reflexivity.
  Qed.

  Lemma body_sound_ty : SoundT (type_annotation_body tk dk).
  Proof.
    intros ts a rest H. unfold type_annotation_body in H.
    assert (Dim : bind (dimension_factor tk dk ts) (fun d rest0 => Ok (TAExp d) rest0) = Ok a rest ->
              exists t, wf_ty t = true /\ ty_ann t = a /\ ts = pr_ty t ++ rest).
    { intros E0. apply bind_ok in E0. destruct E0 as (d & r1 & E & H0). inversion H0; subst.
      destruct (factor_sound_ty _ _ _ E) as (t & Wt & Lt & Dt & Tt).
      exists t. repeat split; auto. rewrite (ty_ann_exp t Lt), Dt. reflexivity. }
    destruct ts as [|t r]; [apply Dim; exact H|].
    destruct t; try (apply Dim; exact H).
    destruct k; try (apply Dim; exact H).
    - inversion H; subst. exists YBool. repeat split; auto.
    - inversion H; subst. exists YString. repeat split; auto.
    - inversion H; subst. exists YDateTime. repeat split; auto.
    - (* Fn *)
      destruct r as [|t1 r1]; [discriminate|]. destruct t1; try discriminate.
      destruct r1 as [|t2 r2]; [discriminate|]. destruct t2; try discriminate.
      apply bind_ok in H. destruct H as (ps & r3 & Eps & H).
      assert (PS : exists tps, forallb wf_ty tps = true /\ ps = map ty_ann tps /\ r2 = pr_tys tps ++ r3
                               /\ (match r3 with TComma :: _ => False | _ => True end)
                               /\ (tps = [] -> match r3 with TRParen :: _ => True | _ => False end)).
      { assert (NonEmpty : bind (tk r2) (fun a0 rest0 => fn_type_params_loop tk (S (length rest0)) [a0] rest0) = Ok ps r3 ->
                  exists tps, forallb wf_ty tps = true /\ ps = map ty_ann tps /\ r2 = pr_tys tps ++ r3
                               /\ (match r3 with TComma :: _ => False | _ => True end)
                               /\ (tps = [] -> match r3 with TRParen :: _ => True | _ => False end)).
        { intros E0. apply bind_ok in E0. destruct E0 as (a0 & r4 & E & H0).
          destruct (HT _ _ _ E) as (ta & Wa & Da & Ta).
          assert (W1 : forallb wf_ty [ta] = true) by (cbn [forallb]; rewrite Wa; reflexivity).
          assert (H1 : fn_type_params_loop tk (S (length r4)) (map ty_ann [ta]) r4 = Ok ps r3)
            by (cbn [map]; rewrite Da; exact H0).
          destruct (fn_params_loop_sound _ [ta] _ _ _ W1 H1) as (more & Wm & Em & Tm & NC).
          exists (ta :: more). cbn [forallb app] in *. rewrite Wa, Wm. repeat split; auto.
          - rewrite pr_tys_cons, Ta, Tm. napp. reflexivity.
          - discriminate. }
        destruct r2 as [|t3 r4]; [apply NonEmpty; exact Eps|].
        destruct t3; try (apply NonEmpty; exact Eps).
        inversion Eps; subst. exists []. repeat split; auto. }
      destruct PS as (tps & Wps & -> & -> & NC & _).
      destruct r3 as [|t3 r4]; [discriminate|]. destruct t3; try discriminate.
      destruct r4 as [|t4 r5]; [discriminate|]. destruct t4; try discriminate.
      apply bind_ok in H. destruct H as (ret & r6 & Er & H).
      destruct (HT _ _ _ Er) as (tr & Wr & Dr & Tr).
      destruct r6 as [|t6 r7]; [discriminate|]. destruct t6; try discriminate. inversion H; subst.
      exists (YFn tps tr). cbn [wf_ty ty_ann]. rewrite Wps, Wr. repeat split; auto.
      rewrite pr_fn. cbn [app]. napp. reflexivity.
    - (* List *)
      destruct r as [|t1 r1]; [discriminate|]. destruct t1; try discriminate.
      apply bind_ok in H. destruct H as (a0 & r2 & E & H).
      destruct (HT _ _ _ E) as (ta & Wa & Da & Ta).
      destruct r2 as [|t2 r3]; [discriminate|]. destruct t2; try discriminate. inversion H; subst.
      exists (YList ta). cbn [wf_ty ty_ann pr_ty]. repeat split; auto.
      cbn [app]. napp. reflexivity.
  Qed.
End Levels.

(* the knot *)
Lemma types_sound_d : forall d, SoundT (type_annotation_d d) /\ SoundD (dimension_expression_d d).
Proof.
  induction d as [|d [IT ID]].
  - split; intros ts x rest H; discriminate.
  - split.
    + apply (body_sound_ty (fun ts => type_annotation_d d ts) (fun ts => dimension_expression_d d ts)).
      * intros ts a rest H. apply IT. exact H.
      * intros ts e rest H. apply ID. exact H.
    + apply (factor_sound_ty (fun ts => type_annotation_d d ts) (fun ts => dimension_expression_d d ts)).
      * intros ts a rest H. apply IT. exact H.
      * intros ts e rest H. apply ID. exact H.
Qed.

Theorem type_annotation_sound : SoundT type_annotation.
Proof. intros ts a rest H. unfold type_annotation in H. eapply (proj1 (types_sound_d _)). exact H. Qed.

Theorem dimension_expression_sound : SoundD dimension_expression.
Proof. intros ts e rest H. unfold dimension_expression in H. eapply (proj2 (types_sound_d _)). exact H. Qed.
