(* C10 — the documented grammar of definitions (let with annotation and decorators, fn, dimension,
   unit, use, struct) as surface trees, the token sequence each tree stands for, and the statement
   it denotes. *)
From Coq Require Import List NArith ZArith Bool Arith Lia.
From NV Require Import Syntax.Token Syntax.Ast Syntax.StmtAst Syntax.StrEsc Syntax.Parser
  Syntax.Grammar Syntax.TypeGrammar.
Import ListNotations.
Local Open Scope nat_scope.

(* name [: annotation] = expression *)
Record svar := mk_svar { sv_name : str; sv_ann : option sty; sv_body : sx }.

Inductive sdeco :=
| SDMetric | SDBinary | SDAbbrev
| SDAliases (l : list (str * option accepts))
| SDUrl (lexeme : str) | SDName (lexeme : str) | SDDescription (lexeme : str)
| SDExample (code : str) (desc : option str).

Inductive sdef :=
| SFLet (decos : list sdeco) (v : svar)
| SFFn (decos : list sdeco) (name : str) (tps : list (str * bool)) (params : list (str * option sty))
       (ret : option sty) (body : option (sx * list svar))
| SFDimension (name : str) (ds : list sty)
| SFUnit (decos : list sdeco) (name : str) (ann : option sty) (e : option sx)
| SFUse (m : str) (path : list str)
| SFStruct (name : str) (tps : list (str * bool)) (fields : list (str * sty)).

(* ---- tokens *)
Definition pr_oann (a : option sty) : list token :=
  match a with Some t => TColon :: pr_ty t | None => [] end.
Definition pr_var (v : svar) : list token :=
  TIdent (sv_name v) :: pr_oann (sv_ann v) ++ TEqual :: pr (sv_body v).

Definition pr_accepts (a : option accepts) : list token :=
  match a with
  | None => []
  | Some AcLong => [TColon; TKw KLong]
  | Some AcShort => [TColon; TKw KShort]
  | Some AcBoth => [TColon; TKw KBoth]
  | Some AcNone => [TColon; TKw KNone]
  end.
Definition pr_alias (a : str * option accepts) : list token := TIdent (fst a) :: pr_accepts (snd a).
Fixpoint pr_alias_tail (l : list (str * option accepts)) : list token :=
  match l with [] => [] | a :: r => TComma :: pr_alias a ++ pr_alias_tail r end.
Definition pr_aliases (l : list (str * option accepts)) : list token :=
  match l with [] => [] | a :: r => pr_alias a ++ pr_alias_tail r end.

(* one decorator, on its own line *)
Definition pr_deco_body (d : sdeco) : list token :=
  match d with
  | SDMetric => [TIdent w_metric_prefixes]
  | SDBinary => [TIdent w_binary_prefixes]
  | SDAbbrev => [TIdent w_abbreviation]
  | SDAliases l => TIdent w_aliases :: TLParen :: pr_aliases l ++ [TRParen]
  | SDUrl s => [TIdent w_url; TLParen; TString s; TRParen]
  | SDName s => [TIdent w_name; TLParen; TString s; TRParen]
  | SDDescription s => [TIdent w_description; TLParen; TString s; TRParen]
  | SDExample c None => [TIdent w_example; TLParen; TString c; TRParen]
  | SDExample c (Some d) => [TIdent w_example; TLParen; TString c; TComma; TString d; TRParen]
  end.
Definition pr_deco (d : sdeco) : list token := TAt :: pr_deco_body d ++ [TNewline].
Fixpoint pr_decos (ds : list sdeco) : list token :=
  match ds with [] => [] | d :: r => pr_deco d ++ pr_decos r end.

Definition pr_tp (p : str * bool) : list token :=
  TIdent (fst p) :: (if snd p then [TColon; TIdent str_Dim] else []).
Fixpoint pr_tp_items (l : list (str * bool)) : list token :=
  match l with
  | [] => []
  | p :: r => pr_tp p ++ match r with [] => [] | _ => TComma :: pr_tp_items r end
  end.
Definition pr_tparams (l : list (str * bool)) : list token :=
  match l with [] => [] | _ => TLessThan :: pr_tp_items l ++ [TGreaterThan] end.

Definition pr_param (p : str * option sty) : list token := TIdent (fst p) :: pr_oann (snd p).
Fixpoint pr_params (l : list (str * option sty)) : list token :=
  match l with
  | [] => []
  | p :: r => pr_param p ++ match r with [] => [] | _ => TComma :: pr_params r end
  end.

Fixpoint pr_and (vs : list svar) : list token :=
  match vs with [] => [] | v :: r => TKw KAnd :: pr_var v ++ pr_and r end.
Definition pr_where (vs : list svar) : list token :=
  match vs with [] => [] | v :: r => TKw KWhere :: pr_var v ++ pr_and r end.
Definition pr_body (b : option (sx * list svar)) : list token :=
  match b with None => [] | Some (e, vs) => TEqual :: pr e ++ pr_where vs end.
Definition pr_ret (r : option sty) : list token :=
  match r with Some t => TArrow :: pr_ty t | None => [] end.

Fixpoint pr_dims (ds : list sty) : list token :=
  match ds with [] => [] | d :: r => TEqual :: pr_ty d ++ pr_dims r end.
Fixpoint pr_path (p : list str) : list token :=
  match p with [] => [] | m :: r => TDoubleColon :: TIdent m :: pr_path r end.
Definition pr_field (f : str * sty) : list token := TIdent (fst f) :: TColon :: pr_ty (snd f).
Fixpoint pr_fields (l : list (str * sty)) : list token :=
  match l with
  | [] => []
  | f :: r => pr_field f ++ match r with [] => [] | _ => TComma :: pr_fields r end
  end.

Definition pr_def (s : sdef) : list token :=
  match s with
  | SFLet ds v => pr_decos ds ++ TKw KLet :: pr_var v
  | SFFn ds name tps params ret body =>
      pr_decos ds ++ TKw KFn :: TIdent name :: pr_tparams tps ++ TLParen :: pr_params params
        ++ TRParen :: pr_ret ret ++ pr_body body
  | SFDimension name ds => TKw KDimension :: TIdent name :: pr_dims ds
  | SFUnit ds name ann e =>
      pr_decos ds ++ TKw KUnit :: TIdent name :: pr_oann ann
        ++ match e with Some x => TEqual :: pr x | None => [] end
  | SFUse m p => TKw KUse :: TIdent m :: pr_path p
  | SFStruct name tps fs => TKw KStruct :: TIdent name :: pr_tparams tps ++ TLCurly :: pr_fields fs ++ [TRCurly]
  end.

(* ---- meaning *)
Definition desugar_deco (d : sdeco) : decorator :=
  match d with
  | SDMetric => DMetricPrefixes
  | SDBinary => DBinaryPrefixes
  | SDAbbrev => DAbbreviation
  | SDAliases l => DAliases l
  | SDUrl s => DUrl (strip_and_escape s)
  | SDName s => DName (strip_and_escape s)
  | SDDescription s => DDescription (strip_and_escape s)
  | SDExample c d => DExample (strip_and_escape c) (option_map strip_and_escape d)
  end.
Definition desugar_var (decos : list decorator) (v : svar) : defvar :=
  mk_defvar (sv_name v) (option_map ty_ann (sv_ann v)) decos (desugar (sv_body v)).
Definition desugar_param (p : str * option sty) : str * option tann := (fst p, option_map ty_ann (snd p)).
Definition desugar_field (f : str * sty) : str * tann := (fst f, ty_ann (snd f)).

Definition desugar_def (s : sdef) : stmt :=
  match s with
  | SFLet ds v => StLet (desugar_var (map desugar_deco ds) v)
  | SFFn ds name tps params ret body =>
      StFn name tps (map desugar_param params) (option_map ty_ann ret)
           (match body with Some (e, _) => Some (desugar e) | None => None end)
           (match body with Some (_, vs) => map (desugar_var []) vs | None => [] end)
           (map desugar_deco ds)
  | SFDimension name ds => StDimension name (map ty_exp ds)
  | SFUnit ds name ann e =>
      StUnit name (option_map (fun a => TAExp (ty_exp a)) ann) (option_map desugar e) (map desugar_deco ds)
  | SFUse m p => StUse (m :: p)
  | SFStruct name tps fs => StStruct name tps (map desugar_field fs)
  end.

(* ---- well-formedness: the side conditions of the documented grammar *)
Definition wf_oann (a : option sty) : bool := match a with Some t => wf_ty t | None => true end.
Definition wf_odim (a : option sty) : bool := match a with Some t => wf_ty t && (1 <=? ylvl t) | None => true end.
Definition wf_var (v : svar) : bool := wf_oann (sv_ann v) && wf (sv_body v).
Definition is_example (d : sdeco) : bool := match d with SDExample _ _ => true | _ => false end.
Definition is_aliases (d : sdeco) : bool := match d with SDAliases _ => true | _ => false end.
Definition is_prefixed_aliases (d : sdeco) : bool :=
  match d with
  | SDAliases l => existsb (fun a => match snd a with Some _ => true | None => false end) l
  | _ => false
  end.

Definition wf_def (s : sdef) : bool :=
  match s with
  | SFLet ds v => wf_var v && negb (existsb is_prefixed_aliases ds) && negb (existsb is_example ds)
  | SFFn ds name tps params ret body =>
      forallb (fun p => wf_oann (snd p)) params && wf_oann ret
      && match body with Some (e, vs) => wf e && forallb wf_var vs | None => true end
      && negb (existsb is_aliases ds)
  | SFDimension name ds =>
      negb (starts_double_underscore name) && forallb (fun d => wf_ty d && (1 <=? ylvl d)) ds
  | SFUnit ds name ann e =>
      wf_odim ann && match e with Some x => wf x | None => true end && negb (existsb is_example ds)
  | SFUse _ _ => true
  | SFStruct name tps fs => forallb (fun f => wf_ty (snd f)) fs
  end.

(* what may follow a definition: the end of the input, or a separator that is not followed by
   where / and (which Parser::match_exact_beyond_linebreaks would attach to a function body) *)
Definition srest (rest : list token) : bool :=
  match rest with
  | [] => true
  | TNewline :: _ | TSemicolon :: _ =>
      match drop_separators rest with
      | TKw KWhere :: _ | TKw KAnd :: _ => false
      | _ => true
      end
  | _ => false
  end.
