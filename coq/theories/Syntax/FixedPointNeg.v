(* C15 — the fixed-point clause with negative literals.  A negative scalar literal (`x⁻¹` is the
   power with the literal -1) is echoed `-1` resp. `(-1)`, which is read back as the negation of 1; the
   re-elaborated tree is a different tree with the SAME echo in every printing mode.  `nneg` is that
   tree; `lift (erase e) = nneg e`, and the printer cannot tell `nneg e` from `e`. *)
From Coq Require Import List NArith ZArith Bool Arith Lia.
From NV Require Import Syntax.Token Syntax.Ast Syntax.StmtAst Syntax.StrEsc Syntax.Parser Syntax.Grammar
     Syntax.ParserProofs Syntax.TypedPrinter Syntax.TypedPrinterProofs Syntax.FixedPoint.
Import ListNotations.
Local Open Scope nat_scope.

Fixpoint nneg (e : texpr) : texpr :=
  match e with
  | XScalar true d => XNeg (XScalar false d)
  | XScalar false d => XScalar false d
  | XIdent n => XIdent n
  | XUnit n => XUnit n
  | XNeg a => XNeg (nneg a)
  | XFact k a => XFact k (nneg a)
  | XNot a => XNot (nneg a)
  | XBin op a b => XBin op (nneg a) (nneg b)
  | XCall name args => XCall name (map nneg args)
  | XCallable callee args => XCallable (nneg callee) (map nneg args)
  | XBool b => XBool b
  | XString s => XString s
  | XInterp s0 items => XInterp s0 (map (fun it => (nneg (fst (fst it)), snd (fst it), snd it)) items)
  | XIf c t f => XIf (nneg c) (nneg t) (nneg f)
  | XField a n => XField (nneg a) n
  | XHole => XHole
  | XList es => XList (map nneg es)
  | XStruct n fields => XStruct n (map (fun fe => (fst fe, nneg (snd fe))) fields)
  end.

(* the shape tests of the printer do not see the difference *)
Lemma nn_power : forall e, is_power (nneg e) = is_power e.
Proof. destruct e; try reflexivity. destruct negative; reflexivity. Qed.
Lemma nn_mul : forall e, is_mul (nneg e) = is_mul e.
Proof. destruct e; try reflexivity. destruct negative; reflexivity. Qed.
Lemma nn_add : forall e, is_add (nneg e) = is_add e.
Proof. destruct e; try reflexivity. destruct negative; reflexivity. Qed.
Lemma nn_if : forall e, is_if (nneg e) = is_if e.
Proof. destruct e; try reflexivity. destruct negative; reflexivity. Qed.
Lemma nn_conv : forall e, is_conv (nneg e) = is_conv e.
Proof. destruct e; try reflexivity. destruct negative; reflexivity. Qed.
Lemma nn_two : forall e, is_two (nneg e) = is_two e.
Proof. destruct e; try reflexivity. destruct negative; reflexivity. Qed.
Lemma nn_three : forall e, is_three (nneg e) = is_three e.
Proof. destruct e; try reflexivity. destruct negative; reflexivity. Qed.
Lemma nn_sugar : forall e, is_sugar (nneg e) = is_sugar e.
Proof.
  destruct e; try reflexivity.
  - destruct negative; reflexivity.
  - cbn [nneg is_sugar]. destruct args as [|a [|b r]]; reflexivity.
  - cbn [nneg is_sugar]. destruct e; try reflexivity; [destruct negative; reflexivity|].
    cbn [nneg]. destruct args as [|a [|b r]]; reflexivity.
Qed.

Lemma nn_lit_add : forall e, lit_add (nneg e) = true -> lit_add e = true.
Proof.
  induction e; intros H; try (cbn in H; discriminate H).
  - reflexivity.
  - cbn [nneg lit_add] in *. destruct op; try discriminate. apply andb_prop in H. destruct H as [H1 H2].
    rewrite (IHe1 H1), (IHe2 H2). reflexivity.
Qed.
Lemma nn_lit_mul : forall e, lit_mul (nneg e) = true -> lit_mul e = true.
Proof.
  induction e; intros H; try (cbn in H; discriminate H).
  - reflexivity.
  - cbn [nneg lit_mul] in *. destruct op; try discriminate. apply andb_prop in H. destruct H as [H1 H2].
    rewrite (IHe1 H1), (IHe2 H2). reflexivity.
Qed.

Lemma nn_fused : forall e, printable_t e = true -> fused (nneg e) = fused e.
Proof.
  intros e P. destruct e; try reflexivity; try (destruct negative; reflexivity).
  destruct op; try reflexivity.
  destruct e1; try (cbn [nneg fused]; reflexivity).
  destruct negative.
  - (* a negative literal in front of a unit is not printable *)
    destruct e2; try reflexivity; try (destruct negative; reflexivity); simpl in P; discriminate.
  - destruct e2; try reflexivity. destruct negative; reflexivity.
Qed.

Lemma nn_bare_add : forall a b, bare_add a b = false -> bare_add (nneg a) (nneg b) = false.
Proof.
  intros a b H. destruct (bare_add (nneg a) (nneg b)) eqn:E; [|reflexivity].
  unfold bare_add in *. apply andb_prop in E. destruct E as [E E3]. apply andb_prop in E. destruct E as [E1 E2].
  rewrite nn_add in E1. rewrite E1, (nn_lit_add _ E2), (nn_lit_add _ E3) in H. discriminate.
Qed.

Lemma nn_bare_mul : forall a b, printable_t b = true -> negb (bare_mul a b) || fused b = true ->
  bare_mul (nneg a) (nneg b) = bare_mul a b.
Proof.
  intros a b Pb H. unfold bare_mul in *. rewrite nn_mul, (nn_fused b Pb).
  destruct (is_mul b); [|reflexivity]. cbn [andb] in *.
  destruct (fused b); [reflexivity|]. cbn [orb] in *. rewrite orb_false_r in H. apply negb_true_iff in H.
  rewrite H. destruct (lit_mul (nneg a) && lit_mul (nneg b)) eqn:E; [|reflexivity].
  apply andb_prop in E. destruct E as [E1 E2]. rewrite (nn_lit_mul _ E1), (nn_lit_mul _ E2) in H. discriminate.
Qed.

(* the multiplication arm, by the shape of its operands *)
Definition nonscalar (e : texpr) : bool := match e with XScalar _ _ => false | _ => true end.
Definition nonunit (e : texpr) : bool := match e with XUnit _ | XIdent _ => false | _ => true end.
Definition mul_generic (a b : texpr) : sx :=
  SBin TMultiply (if is_power a || is_mul a then echo_tree Plain a else echo_tree Liberal a)
                 (if is_power b || bare_mul a b then echo_tree Plain b else echo_tree Liberal b).

Lemma echo_mul_nonscalar : forall m a b, nonscalar a = true ->
  echo_tree m (XBin Mul a b) = wrapm m (mul_generic a b).
Proof.
  intros m a b H. unfold mul_generic, wrapm. cbn [echo_tree].
  destruct a; try discriminate; destruct m; reflexivity.
Qed.
Lemma echo_mul_nonunit : forall m a b, nonunit b = true ->
  echo_tree m (XBin Mul a b) = wrapm m (mul_generic a b).
Proof.
  intros m a b H. unfold mul_generic, wrapm. cbn [echo_tree].
  destruct a; try (destruct m; reflexivity).
  destruct b; try discriminate; destruct m; reflexivity.
Qed.

Lemma nn_nonscalar : forall e, nonscalar e = true -> nonscalar (nneg e) = true.
Proof. destruct e; try reflexivity; discriminate. Qed.
Lemma nn_nonunit : forall e, nonunit e = true -> nonunit (nneg e) = true.
Proof. destruct e; try reflexivity; try discriminate. destruct negative; reflexivity. Qed.

Lemma echo_items_nn : forall items,
  (forall a f s, In (a, f, s) items -> echo_tree Plain (nneg a) = echo_tree Plain a) ->
  echo_items (echo_tree Plain) (map (fun it : texpr * option str * str => (nneg (fst (fst it)), snd (fst it), snd it)) items)
  = echo_items (echo_tree Plain) items.
Proof.
  induction items as [|[[a f] s] r IH]; intros H; [reflexivity|].
  cbn [map echo_items fst snd]. rewrite (H a f s (or_introl eq_refl)).
  rewrite IH by (intros b g t Hb; apply (H b g t); right; exact Hb).
  destruct r; reflexivity.
Qed.

Theorem nneg_echo : forall n e, tsize e < n -> printable_t e = true ->
  forall m, echo_tree m (nneg e) = echo_tree m e.
Proof.
  induction n; intros e Hs Hp m; [lia|].
  destruct e; simpl in Hs.
  - destruct negative, m; reflexivity.
  - reflexivity.
  - reflexivity.
  - simpl in Hp. cbn [nneg echo_tree]. rewrite (IHn e ltac:(lia) Hp Parens). reflexivity.
  - simpl in Hp. cbn [nneg echo_tree]. rewrite (IHn e ltac:(lia) Hp Parens). reflexivity.
  - simpl in Hp. cbn [nneg echo_tree]. rewrite (IHn e ltac:(lia) Hp Parens). reflexivity.
  - (* XBin *)
    pose proof Hp as Hp0. simpl in Hp. apply andb_prop in Hp. destruct Hp as [Hp Hop].
    apply andb_prop in Hp. destruct Hp as [Pa Pb].
    assert (Ha : forall m', echo_tree m' (nneg e1) = echo_tree m' e1) by (intros; apply IHn; [lia|exact Pa]).
    assert (Hb : forall m', echo_tree m' (nneg e2) = echo_tree m' e2) by (intros; apply IHn; [lia|exact Pb]).
    destruct op;
      try (cbn [nneg echo_tree token_of_binop];
           rewrite ?nn_power, ?nn_mul, ?nn_add, ?nn_if, ?nn_conv, ?nn_sugar, ?nn_two, ?nn_three, ?Ha, ?Hb;
           destruct m; reflexivity).
    + (* Add *)
      apply negb_true_iff in Hop.
      cbn [nneg echo_tree]. rewrite ?nn_power, ?nn_mul, ?nn_add, (nn_bare_add _ _ Hop), Hop, ?Ha, ?Hb.
      destruct m; reflexivity.
    + (* Mul *)
      cbn [nneg].
      assert (Gen : mul_generic (nneg e1) (nneg e2) = mul_generic e1 e2 \/ True) by (right; exact I). clear Gen.
      destruct (nonscalar e1) eqn:N1.
      * rewrite (echo_mul_nonscalar m _ _ (nn_nonscalar _ N1)), (echo_mul_nonscalar m _ _ N1).
        assert (Hop' : negb (bare_mul e1 e2) || fused e2 = true) by (destruct e1; try discriminate N1; exact Hop).
        unfold mul_generic. rewrite ?nn_power, ?nn_mul, (nn_bare_mul _ _ Pb Hop'), ?Ha, ?Hb. reflexivity.
      * destruct e1; try discriminate N1.
        destruct (nonunit e2) eqn:N2.
        -- assert (Hop' : negb (bare_mul (XScalar negative digits) e2) || fused e2 = true)
             by (destruct e2; try discriminate N2; exact Hop).
           rewrite (echo_mul_nonunit m _ _ (nn_nonunit _ N2)), (echo_mul_nonunit m _ _ N2).
           unfold mul_generic. rewrite ?nn_power, ?nn_mul, (nn_bare_mul _ _ Pb Hop'), ?Ha, ?Hb. reflexivity.
        -- (* a literal in front of a unit or identifier: printable only if it is not negative *)
           destruct e2; try discriminate N2; apply negb_true_iff in Hop; subst negative; reflexivity.
  - (* XCall *)
    simpl in Hp.
    assert (HA : forall a, In a args -> forall m', echo_tree m' (nneg a) = echo_tree m' a).
    { intros a Ha m'. apply IHn. pose proof (tsize_in a args Ha). lia. eapply forallb_forall in Hp; eauto. }
    assert (MM : map (echo_tree Plain) (map nneg args) = map (echo_tree Plain) args).
    { rewrite map_map. apply map_ext_in. intros a Ha. apply HA. exact Ha. }
    cbn [nneg echo_tree].
    destruct args as [|a0 [|a1 r]]; cbn [map] in *;
      destruct (call_sugar name); destruct m; try (rewrite ?MM; reflexivity).
    rewrite (HA a0 (or_introl eq_refl) Liberal). reflexivity.
  - (* XCallable *)
    simpl in Hp. apply andb_prop in Hp. destruct Hp as [Hc Hargs].
    assert (HA : forall a, In a args -> forall m', echo_tree m' (nneg a) = echo_tree m' a).
    { intros a Ha m'. apply IHn. pose proof (tsize_in a args Ha). lia. eapply forallb_forall in Hargs; eauto. }
    assert (MM : map (echo_tree Plain) (map nneg args) = map (echo_tree Plain) args).
    { rewrite map_map. apply map_ext_in. intros a Ha. apply HA. exact Ha. }
    pose proof (IHn e ltac:(lia) Hc Parens) as Hcal.
    assert (Generic : forall c', echo_tree Parens c' = echo_tree Parens e ->
              SCall (echo_tree Parens c') (map (echo_tree Plain) (map nneg args))
              = SCall (echo_tree Parens e) (map (echo_tree Plain) args)).
    { intros c' E. rewrite E, MM. reflexivity. }
    cbn [nneg echo_tree].
    destruct e; try (cbn [nneg] in *; destruct args as [|a0 [|a1 r]]; destruct m; apply Generic; exact Hcal).
    + (* a literal as callee *)
      destruct negative; cbn [nneg] in *; destruct args as [|a0 [|a1 r]]; destruct m; apply Generic; exact Hcal.
    + (* an identifier as callee: conversion sugar *)
      cbn [nneg] in *. destruct args as [|a0 [|a1 r]]; destruct m; try (apply Generic; exact Hcal).
      cbn [map]. destruct (conversion_sugar name); [|apply (Generic (XIdent name)); reflexivity].
      rewrite (HA a0 (or_introl eq_refl) Liberal). reflexivity.
  - reflexivity.
  - reflexivity.
  - (* XInterp *)
    simpl in Hp. cbn [nneg]. rewrite !echo_interp. f_equal.
    apply echo_items_nn. intros a f s Ha. apply IHn; [pose proof (tsize_in_items a f s _ Ha); lia|].
    destruct items as [|it items']; [contradiction|].
    eapply forallb_forall in Hp; [|exact Ha]. exact Hp.
  - (* XIf *)
    simpl in Hp. apply andb_prop in Hp. destruct Hp as [Hp H3]. apply andb_prop in Hp. destruct Hp as [H1 H2].
    cbn [nneg echo_tree]. rewrite (IHn e1 ltac:(lia) H1 Parens), (IHn e2 ltac:(lia) H2 Parens), (IHn e3 ltac:(lia) H3 Parens).
    reflexivity.
  - simpl in Hp. cbn [nneg echo_tree]. rewrite (IHn e ltac:(lia) Hp Parens). reflexivity.
  - reflexivity.
  - (* XList *)
    simpl in Hp. cbn [nneg echo_tree]. f_equal. rewrite map_map. apply map_ext_in. intros a Ha.
    apply IHn; [pose proof (tsize_in a es Ha); lia|]. eapply forallb_forall in Hp; eauto.
  - (* XStruct *)
    simpl in Hp. cbn [nneg echo_tree]. f_equal. rewrite map_map. apply map_ext_in. intros [f a] Ha. cbn [fst snd]. f_equal.
    apply IHn; [pose proof (tsize_in_fields f a fields Ha); lia|].
    eapply forallb_forall in Hp; [|exact Ha]. exact Hp.
Qed.
