(* C15 — text of the echo model for the correspondence check: the tokens of `pp e` in the
   format of numbat::verif::syntax::dump_tokens. *)
From NV Require Import Base.Show Syntax.Token Syntax.Ast Syntax.StmtAst Syntax.Exec Syntax.Grammar Syntax.TypedPrinter
  Syntax.TypeGrammar Syntax.StmtGrammar Syntax.DefEcho.

Definition show_pp (e : texpr) : string := join " " (map show_token (pp e) ++ ["Eof"]).

(* the tokens of the echo of a definition (decorators, let / unit / fn) *)
Definition show_def (e : edef) : string := join " " (map show_token (pp_def e) ++ ["Eof"]).
