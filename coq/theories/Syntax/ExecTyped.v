(* C15 — text of the echo model for the correspondence check: the tokens of `pp e` in the
   format of numbat::verif::syntax::dump_tokens. *)
From NV Require Import Base.Show Syntax.Token Syntax.Ast Syntax.Exec Syntax.Grammar Syntax.TypedPrinter.

Definition show_pp (e : texpr) : string := join " " (map show_token (pp e) ++ ["Eof"]).
