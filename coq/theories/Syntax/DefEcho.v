(* C15 — the echo of definitions: model of Statement::pretty_print (typed_ast.rs, as fixed) for
   `let`, `unit`, `fn`, `dimension` and `struct` definitions with their decorators (decorator_markup: one decorator per line,
   strings quoted with escape_numbat_string), over the echo of expressions (Syntax/TypedPrinter.v) and
   readable types given as type-annotation trees.  The echo is a well-formed definition of the
   documented grammar, hence (C10_roundtrip_def) it is accepted and read back as the definition it was
   printed from, decorators included. *)
From Coq Require Import List NArith ZArith Bool Arith Lia.
From NV Require Import Syntax.Token Syntax.Ast Syntax.StmtAst Syntax.StrEsc Syntax.StrEscProofs Syntax.Parser
  Syntax.Grammar Syntax.ParserProofs Syntax.TypeGrammar Syntax.TypeProofs Syntax.StmtGrammar Syntax.StmtProofs
  Syntax.TypedPrinter Syntax.TypedPrinterProofs.
Import ListNotations.
Local Open Scope nat_scope.

(* pretty_print.rs quoted_string *)
Definition quote_str (s : str) : str := c_quote :: escape_numbat_string s ++ [c_quote].

(* decorator_markup for one decorator *)
Definition echo_deco (d : decorator) : sdeco :=
  match d with
  | DMetricPrefixes => SDMetric
  | DBinaryPrefixes => SDBinary
  | DAbbreviation => SDAbbrev
  | DAliases l => SDAliases l
  | DUrl s => SDUrl (quote_str s)
  | DName s => SDName (quote_str s)
  | DDescription s => SDDescription (quote_str s)
  | DExample c d => SDExample (quote_str c) (option_map quote_str d)
  end.

Theorem deco_echo_roundtrip : forall d, desugar_deco (echo_deco d) = d.
Proof.
  intros d. destruct d as [| | |l|s|s|s|c o]; cbn [echo_deco desugar_deco]; unfold quote_str;
    rewrite ?string_escape_roundtrip; try reflexivity.
  destruct o as [x|]; cbn [option_map]; rewrite ?string_escape_roundtrip; reflexivity.
Qed.

Lemma decos_echo_roundtrip : forall ds, map desugar_deco (map echo_deco ds) = ds.
Proof. induction ds as [|d r IH]; [reflexivity|]. cbn [map]. rewrite deco_echo_roundtrip, IH. reflexivity. Qed.

(* every decorator, whatever strings and alias lists it carries, is read back from its echo *)
Theorem decorator_echo_parses : forall d rest,
  parse_decorator (pr_deco_body (echo_deco d) ++ rest) = Ok d rest.
Proof. intros d rest. rewrite decorator_ok. rewrite deco_echo_roundtrip. reflexivity. Qed.

(* ---- definitions as the echo sees them *)
Inductive edef :=
| EDLet (decos : list decorator) (name : str) (ty : sty) (body : texpr)
| EDUnit (decos : list decorator) (name : str) (ty : sty) (body : option texpr)
| EDFn (decos : list decorator) (name : str) (tps : list (str * bool)) (params : list (str * sty))
       (ret : sty) (body : option texpr) (locals : list (str * sty * texpr))
| EDDimension (name : str) (ds : list sty)
| EDStruct (name : str) (tps : list (str * bool)) (fields : list (str * sty)).

Definition surf_local (l : str * sty * texpr) : svar :=
  mk_svar (fst (fst l)) (Some (snd (fst l))) (echo_tree Plain (snd l)).
Definition surf (e : edef) : sdef :=
  match e with
  | EDLet ds n ty b => SFLet (map echo_deco ds) (mk_svar n (Some ty) (echo_tree Plain b))
  | EDUnit ds n ty b => SFUnit (map echo_deco ds) n (Some ty) (option_map (echo_tree Plain) b)
  | EDFn ds n tps ps ret b ls =>
      SFFn (map echo_deco ds) n tps (map (fun p => (fst p, Some (snd p))) ps) (Some ret)
           (match b with Some x => Some (echo_tree Plain x, map surf_local ls) | None => None end)
  | EDDimension n ds => SFDimension n ds
  | EDStruct n tps fs => SFStruct n tps fs
  end.

(* the tokens of the echo *)
Definition pp_def (e : edef) : list token := pr_def (surf e).

Definition is_example_d (d : decorator) : bool := match d with DExample _ _ => true | _ => false end.
Definition is_aliases_d (d : decorator) : bool := match d with DAliases _ => true | _ => false end.
Definition is_prefixed_d (d : decorator) : bool :=
  match d with
  | DAliases l => existsb (fun a => match snd a with Some _ => true | None => false end) l
  | _ => false
  end.

(* what can be echoed: printable expressions, well-formed readable types, and decorators the parser
   admits on that kind of definition (the typed statement came from a parse, so it has no others) *)
Definition echoable (e : edef) : bool :=
  match e with
  | EDLet ds n ty b =>
      wf_ty ty && printable_t b && negb (existsb is_prefixed_d ds) && negb (existsb is_example_d ds)
  | EDUnit ds n ty b =>
      wf_ty ty && (1 <=? ylvl ty) && match b with Some x => printable_t x | None => true end
      && negb (existsb is_example_d ds)
  | EDFn ds n tps ps ret b ls =>
      forallb (fun p => wf_ty (snd p)) ps && wf_ty ret
      && match b with
         | Some x => printable_t x && forallb (fun l => wf_ty (snd (fst l)) && printable_t (snd l)) ls
         | None => match ls with [] => true | _ => false end
         end
      && negb (existsb is_aliases_d ds)
  | EDDimension n ds => negb (starts_double_underscore n) && forallb (fun d => wf_ty d && (1 <=? ylvl d)) ds
  | EDStruct n tps fs => forallb (fun f => wf_ty (snd f)) fs
  end.

(* the statement the echo is read back as *)
Definition reread_local (l : str * sty * texpr) : defvar :=
  mk_defvar (fst (fst l)) (Some (ty_ann (snd (fst l)))) [] (reread (snd l)).
Definition reread_def (e : edef) : stmt :=
  match e with
  | EDLet ds n ty b => StLet (mk_defvar n (Some (ty_ann ty)) ds (reread b))
  | EDUnit ds n ty b => StUnit n (Some (TAExp (ty_exp ty))) (option_map reread b) ds
  | EDFn ds n tps ps ret b ls =>
      StFn n tps (map (fun p => (fst p, Some (ty_ann (snd p)))) ps) (Some (ty_ann ret))
           (option_map reread b) (match b with Some _ => map reread_local ls | None => [] end) ds
  | EDDimension n ds => StDimension n (map ty_exp ds)
  | EDStruct n tps fs => StStruct n tps (map desugar_field fs)
  end.

Lemma existsb_echo : forall (p : decorator -> bool) (q : sdeco -> bool) ds,
  (forall d, q (echo_deco d) = p d) -> existsb q (map echo_deco ds) = existsb p ds.
Proof.
  intros p q ds H. induction ds as [|d r IH]; [reflexivity|]. cbn [map existsb]. rewrite H, IH. reflexivity.
Qed.

Lemma wf_echo' : forall e, printable_t e = true -> wf (echo_tree Plain e) = true.
Proof. intros e H. eapply wf_echo; eauto. Qed.

Lemma surf_wf : forall e, echoable e = true -> wf_def (surf e) = true.
Proof.
  intros e H. destruct e; cbn [echoable] in H; cbn [surf wf_def].
  - apply andb_prop in H. destruct H as [H H4]. apply andb_prop in H. destruct H as [H H3].
    apply andb_prop in H. destruct H as [H1 H2].
    unfold wf_var. cbn [sv_ann sv_body wf_oann]. rewrite H1, (wf_echo' _ H2). cbn [andb].
    rewrite (existsb_echo is_prefixed_d is_prefixed_aliases) by (intros d; destruct d; reflexivity).
    rewrite (existsb_echo is_example_d is_example) by (intros d; destruct d; reflexivity).
    rewrite H3, H4. reflexivity.
  - apply andb_prop in H. destruct H as [H H4]. apply andb_prop in H. destruct H as [H H3].
    apply andb_prop in H. destruct H as [H1 H2].
    cbn [wf_odim]. rewrite H1, H2. cbn [andb].
    rewrite (existsb_echo is_example_d is_example) by (intros d; destruct d; reflexivity).
    rewrite H4. destruct body as [x|]; cbn [option_map]; [rewrite (wf_echo' _ H3)|]; reflexivity.
  - apply andb_prop in H. destruct H as [H H4]. apply andb_prop in H. destruct H as [H H3].
    apply andb_prop in H. destruct H as [H1 H2].
    rewrite (existsb_echo is_aliases_d is_aliases) by (intros d; destruct d; reflexivity).
    rewrite H4. cbn [wf_oann]. rewrite H2.
    assert (P : forallb (fun p : str * option sty => wf_oann (snd p)) (map (fun p : str * sty => (fst p, Some (snd p))) params) = true).
    { clear - H1. induction params as [|p r IH]; [reflexivity|]. cbn [forallb map] in *.
      apply andb_prop in H1. destruct H1 as [A B]. cbn [snd wf_oann]. rewrite A, (IH B). reflexivity. }
    rewrite P. cbn [andb].
    destruct body as [x|]; [|reflexivity].
    apply andb_prop in H3. destruct H3 as [Hx Hl]. rewrite (wf_echo' _ Hx). cbn [andb].
    rewrite ?andb_true_r. clear - Hl. induction locals as [|l r IH]; [reflexivity|]. cbn [forallb map] in *.
    apply andb_prop in Hl. destruct Hl as [A B]. apply andb_prop in A. destruct A as [A1 A2].
    change (wf_var (surf_local l)) with (wf_ty (snd (fst l)) && wf (echo_tree Plain (snd l))).
    rewrite A1, (wf_echo' _ A2), (IH B). reflexivity.
  - exact H.
  - exact H.
Qed.

Lemma surf_desugar : forall e, echoable e = true -> desugar_def (surf e) = reread_def e.
Proof.
  intros e H. destruct e; cbn [surf desugar_def reread_def]; try reflexivity; rewrite decos_echo_roundtrip.
  - reflexivity.
  - destruct body; reflexivity.
  - rewrite map_map. cbn [option_map].
    destruct body as [x|]; cbn [option_map]; [|reflexivity].
    rewrite map_map. reflexivity.
Qed.

(* the echo of a definition is accepted and read back as that definition: same name, the printed
   types, the decorators it carried (all strings unescaped to the original), the expression its
   body's echo denotes *)
Theorem echo_def_roundtrip : forall e, echoable e = true -> parse (pp_def e) = Ok [reread_def e] [].
Proof.
  intros e H. unfold pp_def. rewrite (roundtrip_def (surf e) (surf_wf e H)).
  rewrite (surf_desugar e H). reflexivity.
Qed.
