(* C10 — the lexer on decimal number literals, beyond the finite tables: the grammar of the
   documented number notation (book/src/basics/number-notation.md: integer digits with `_`
   separators, optional fraction, form without the leading zero, optional exponent with sign) and
   the model of Tokenizer::scan_single_token agree, for literals of any length and any Unicode
   identifier classes. *)
From Coq Require Import List NArith ZArith Bool Lia.
From NV Require Import Syntax.Token Syntax.Lexer.
Import ListNotations.
Local Open Scope N_scope.

(* ---- the grammar *)
Definition is_dus (c : N) : bool := is_ascii_digit c || (c =? 95).
Definition ends_us (ds : str) : bool := match rev ds with 95 :: _ => true | _ => false end.
(* a digit group: digits and `_`, starting and ending with a digit *)
Definition dgroup (ds : str) : bool :=
  match ds with c :: _ => is_ascii_digit c | [] => false end && forallb is_dus ds && negb (ends_us ds).
Definition dgroup0 (ds : str) : bool := match ds with [] => true | _ => dgroup ds end.

Record numlit := mk_num {
  n_int : str;                              (* [] for the form `.234` *)
  n_frac : option str;                      (* digits after the dot *)
  n_exp : option (N * option N * str)       (* e or E, sign, digits *)
}.
Definition pr_exp (x : option (N * option N * str)) : str :=
  match x with
  | Some (e, sg, ds) => e :: match sg with Some s => [s] | None => [] end ++ ds
  | None => []
  end.
Definition pr_frac (f : option str) : str := match f with Some fr => 46 :: fr | None => [] end.
Definition pr_num (n : numlit) : str := n_int n ++ pr_frac (n_frac n) ++ pr_exp (n_exp n).

Definition wf_exp (x : option (N * option N * str)) : bool :=
  match x with
  | Some (e, sg, ds) =>
      ((e =? 101) || (e =? 69))
      && match sg with Some s => (s =? 43) || (s =? 45) | None => true end
      && dgroup ds
  | None => true
  end.
Definition wf_num (n : numlit) : bool :=
  match n_int n with
  | [] => match n_frac n with Some fr => dgroup fr | None => false end
  | _ => dgroup (n_int n) && match n_frac n with Some fr => dgroup0 fr | None => true end
  end && wf_exp (n_exp n).

(* what may follow a literal: not a digit, `_` or `.` (they would belong to the literal or make it
   malformed) and not the beginning of an exponent *)
Definition exp_start (cs : str) : bool :=
  peek2_is (fun c => is_ascii_digit c || (c =? 43) || (c =? 45)) cs
  && peek_is (fun c => (c =? 101) || (c =? 69)) cs.
Definition num_stop (rest : str) : bool :=
  negb (peek_is (fun c => is_dus c || (c =? 46)) rest) && negb (exp_start rest).
(* `0x` / `0o` / `0b` start a literal in another base *)
Definition based_prefix (cs : str) : bool :=
  match cs with
  | 48 :: x :: _ => (x =? 120) || (x =? 111) || (x =? 98)
  | _ => false
  end.

(* ---- span_while *)
Lemma span_while_app : forall p ds rest, forallb p ds = true -> peek_is p rest = false ->
  span_while p (ds ++ rest) = (ds, rest).
Proof.
  induction ds as [|c r IH]; intros rest H S.
  - cbn [app]. destruct rest as [|x y]; [reflexivity|]. cbn [peek_is] in S. cbn [span_while]. rewrite S. reflexivity.
  - cbn [forallb] in H. apply andb_prop in H. destruct H as [Hc Hr].
    cbn [app span_while]. rewrite Hc. rewrite (IH rest Hr S). reflexivity.
Qed.

Lemma span_while_spec : forall p cs a b, span_while p cs = (a, b) ->
  cs = a ++ b /\ forallb p a = true /\ peek_is p b = false.
Proof.
  induction cs as [|c r IH]; intros a b H.
  - cbn [span_while] in H. inversion H; subst. repeat split; reflexivity.
  - cbn [span_while] in H. destruct (p c) eqn:Pc.
    + destruct (span_while p r) as [a' b'] eqn:E. inversion H; subst.
      destruct (IH a' b eq_refl) as (E1 & E2 & E3). subst r.
      repeat split; [|exact E3]. cbn [forallb]. rewrite Pc, E2. reflexivity.
    + inversion H; subst. repeat split. cbn [peek_is]. exact Pc.
Qed.

(* ---- digits *)
Lemma digit_cases : forall c, is_ascii_digit c = true ->
  c = 48 \/ c = 49 \/ c = 50 \/ c = 51 \/ c = 52 \/ c = 53 \/ c = 54 \/ c = 55 \/ c = 56 \/ c = 57.
Proof.
  intros c H. unfold is_ascii_digit, in_range in H. apply andb_prop in H. destruct H as [A B].
  apply N.leb_le in A. apply N.leb_le in B. lia.
Qed.
Ltac digits c H :=
  destruct (digit_cases c H) as [?|[?|[?|[?|[?|[?|[?|[?|[?|?]]]]]]]]]; subst c.

Lemma peek_dus_dot : forall rest, peek_is (fun c => is_dus c || (c =? 46)) rest = false ->
  peek_is is_dus rest = false /\ peek_is (N.eqb 46) rest = false /\ peek_is (N.eqb 95) rest = false
  /\ peek_is is_ascii_digit rest = false.
Proof.
  intros [|c r] H; [repeat split; reflexivity|]. cbn [peek_is] in *.
  apply orb_false_iff in H. destruct H as [A B]. unfold is_dus in A. apply orb_false_iff in A. destruct A as [A1 A2].
  repeat split.
  - unfold is_dus. rewrite A1, A2. reflexivity.
  - rewrite N.eqb_sym. exact B.
  - rewrite N.eqb_sym. exact A2.
  - exact A1.
Qed.

Lemma peek_app : forall p (ds rest : str), peek_is p (ds ++ rest) = match ds with [] => peek_is p rest | _ => peek_is p ds end.
Proof. intros p [|c r] rest; reflexivity. Qed.

(* Tokenizer::consume_stream_of_digits on a run of digits / separators that ends where it should *)
Lemma consume_ok : forall a nl nd ds rest,
  forallb is_dus ds = true -> ends_us ds = false ->
  (a = true -> peek_is is_ascii_digit ds = true) ->
  (nl = true -> peek_is (N.eqb 95) ds = false) ->
  peek_is is_dus rest = false ->
  (nd = true -> peek_is (N.eqb 46) rest = false) ->
  consume_stream_of_digits a nl nd (ds ++ rest) = LOk (ds, rest).
Proof.
  intros a nl nd ds rest G2 G3 Ha Hnl S1 Snd.
  assert (S3 : peek_is (N.eqb 95) rest = false).
  { destruct rest as [|x y]; [reflexivity|]. cbn [peek_is] in *. unfold is_dus in S1.
    apply orb_false_iff in S1. rewrite N.eqb_sym. tauto. }
  unfold consume_stream_of_digits.
  assert (E1 : a && negb (peek_is is_ascii_digit (ds ++ rest)) = false).
  { destruct a; [|reflexivity]. specialize (Ha eq_refl). destruct ds; [discriminate|].
    cbn [app peek_is] in *. rewrite Ha. reflexivity. }
  rewrite E1.
  assert (E2 : nl && peek_is (N.eqb 95) (ds ++ rest) = false).
  { destruct nl; [|reflexivity]. specialize (Hnl eq_refl). rewrite peek_app. destruct ds; [exact S3|exact Hnl]. }
  rewrite E2.
  change (fun c0 : N => is_ascii_digit c0 || (c0 =? 95)) with is_dus.
  rewrite (span_while_app is_dus ds rest G2 S1). unfold ends_us in G3. rewrite G3.
  destruct nd; [rewrite (Snd eq_refl)|]; reflexivity.
Qed.

Lemma dgroup_parts : forall ds, dgroup ds = true ->
  forallb is_dus ds = true /\ ends_us ds = false /\ peek_is is_ascii_digit ds = true /\ peek_is (N.eqb 95) ds = false.
Proof.
  intros ds G. unfold dgroup in G. apply andb_prop in G. destruct G as [G G3]. apply andb_prop in G. destruct G as [G1 G2].
  apply negb_true_iff in G3. destruct ds as [|c r]; [discriminate|]. cbn [peek_is]. repeat split; auto.
  digits c G1; reflexivity.
Qed.

Lemma dgroup0_parts : forall ds, dgroup0 ds = true ->
  forallb is_dus ds = true /\ ends_us ds = false /\ peek_is (N.eqb 95) ds = false.
Proof.
  intros [|c r] G; [repeat split; reflexivity|]. cbn [dgroup0] in G.
  destruct (dgroup_parts _ G) as (A & B & _ & D). auto.
Qed.

Lemma stop_parts : forall rest, num_stop rest = true ->
  peek_is is_dus rest = false /\ peek_is (N.eqb 46) rest = false /\ exp_start rest = false.
Proof.
  intros rest H. unfold num_stop in H. apply andb_prop in H. destruct H as [A B].
  apply negb_true_iff in A. apply negb_true_iff in B.
  destruct (peek_dus_dot rest A) as (S1 & S2 & _). auto.
Qed.

(* Tokenizer::scientific_notation *)
Lemma sci_ok : forall x rest, wf_exp x = true -> num_stop rest = true ->
  scientific_notation (pr_exp x ++ rest) = LOk (pr_exp x, rest).
Proof.
  intros x rest W S. destruct (stop_parts rest S) as (S1 & S2 & S3).
  destruct x as [[[e sg] ds]|].
  - cbn [wf_exp] in W. apply andb_prop in W. destruct W as [W W3]. apply andb_prop in W. destruct W as [W1 W2].
    destruct (dgroup_parts ds W3) as (G2 & G3 & G1 & G4).
    destruct ds as [|d r]; [discriminate|]. cbn [peek_is] in G1.
    unfold scientific_notation. cbn [pr_exp].
    destruct sg as [s|].
    + cbn [app peek2_is peek_is]. rewrite W1. rewrite <- orb_assoc. rewrite W2. rewrite orb_true_r. cbn [andb].
      change (d :: r ++ rest) with ((d :: r) ++ rest).
      rewrite (consume_ok true true true (d :: r) rest G2 G3 (fun _ => G1) (fun _ => G4) S1 (fun _ => S2)).
      reflexivity.
    + cbn [app peek2_is peek_is]. rewrite W1. rewrite G1. cbn [orb andb].
      assert (NS : (d =? 43) || (d =? 45) = false) by (digits d G1; reflexivity).
      rewrite NS.
      change (d :: r ++ rest) with ((d :: r) ++ rest).
      rewrite (consume_ok true true true (d :: r) rest G2 G3 (fun _ => G1) (fun _ => G4) S1 (fun _ => S2)).
      reflexivity.
  - cbn [pr_exp app]. unfold scientific_notation. unfold exp_start in S3. rewrite S3. reflexivity.
Qed.

Lemma pr_exp_head : forall x rest, wf_exp x = true -> num_stop rest = true ->
  peek_is is_dus (pr_exp x ++ rest) = false /\ peek_is (N.eqb 46) (pr_exp x ++ rest) = false.
Proof.
  intros x rest W S. destruct (stop_parts rest S) as (S1 & S2 & S3).
  destruct x as [[[e sg] ds]|]; [|split; assumption].
  cbn [wf_exp] in W. apply andb_prop in W. destruct W as [W _]. apply andb_prop in W. destruct W as [W1 _].
  cbn [pr_exp app peek_is].
  apply orb_prop in W1. destruct W1 as [E|E]; apply N.eqb_eq in E; subst e; split; reflexivity.
Qed.

(* ---- the converse: what the number scanners accept is in the grammar *)
Lemma consume_inv : forall a nl nd cs ds rest, consume_stream_of_digits a nl nd cs = LOk (ds, rest) ->
  cs = ds ++ rest /\ forallb is_dus ds = true /\ ends_us ds = false
  /\ (a = true -> peek_is is_ascii_digit cs = true) /\ (nl = true -> peek_is (N.eqb 95) cs = false)
  /\ peek_is is_dus rest = false.
Proof.
  intros a nl nd cs ds rest H. unfold consume_stream_of_digits in H.
  destruct (a && negb (peek_is is_ascii_digit cs)) eqn:E1; [discriminate|].
  destruct (nl && peek_is (N.eqb 95) cs) eqn:E2; [discriminate|].
  change (fun c0 : N => is_ascii_digit c0 || (c0 =? 95)) with is_dus in H.
  destruct (span_while is_dus cs) as [a' b'] eqn:E.
  destruct (match rev a' with 95 :: _ => true | _ => false end) eqn:E3; [discriminate|].
  destruct (nd && peek_is (N.eqb 46) b'); [discriminate|]. inversion H; subst.
  destruct (span_while_spec _ _ _ _ E) as (P1 & P2 & P3).
  repeat split; auto.
  - intros ->. cbn [andb] in E1. apply negb_false_iff in E1. exact E1.
  - intros ->. exact E2.
Qed.

Lemma dgroup_of : forall ds rest, forallb is_dus ds = true -> ends_us ds = false ->
  peek_is is_ascii_digit (ds ++ rest) = true -> peek_is is_dus rest = false -> dgroup ds = true.
Proof.
  intros ds rest A B C D. destruct ds as [|c r].
  - cbn [app] in C. destruct rest as [|x y]; [discriminate|]. cbn [peek_is] in *. unfold is_dus in D. rewrite C in D. discriminate.
  - cbn [app peek_is] in C. unfold dgroup. rewrite C, A, B. reflexivity.
Qed.

Lemma dgroup0_of : forall ds rest, forallb is_dus ds = true -> ends_us ds = false ->
  peek_is (N.eqb 95) (ds ++ rest) = false -> dgroup0 ds = true.
Proof.
  intros [|c r] rest A B C; [reflexivity|]. cbn [dgroup0]. unfold dgroup. rewrite A, B.
  cbn [app peek_is forallb] in *. apply andb_prop in A. destruct A as [A _]. unfold is_dus in A.
  rewrite N.eqb_sym in C. rewrite C in A. rewrite orb_false_r in A. rewrite A. reflexivity.
Qed.

Lemma sci_inv : forall cs ex rest, scientific_notation cs = LOk (ex, rest) ->
  exists x, wf_exp x = true /\ ex = pr_exp x /\ cs = ex ++ rest.
Proof.
  intros cs ex rest H. unfold scientific_notation in H.
  destruct (peek2_is (fun c => is_ascii_digit c || (c =? 43) || (c =? 45)) cs
            && peek_is (fun c => (c =? 101) || (c =? 69)) cs) eqn:E.
  - apply andb_prop in E. destruct E as [E2 E1].
    destruct cs as [|e r]; [discriminate|]. cbn [peek_is] in E1.
    destruct r as [|s r'']; [discriminate|]. cbn [peek2_is] in E2.
    destruct ((s =? 43) || (s =? 45)) eqn:Sg.
    + destruct (consume_stream_of_digits true true true r'') as [[ds rs]| | |] eqn:C; try discriminate.
      inversion H; subst.
      destruct (consume_inv _ _ _ _ _ _ C) as (P1 & P2 & P3 & P4 & P5 & P6). subst r''.
      exists (Some (e, Some s, ds)). cbn [wf_exp pr_exp app]. rewrite E1, Sg.
      rewrite (dgroup_of ds rest P2 P3 (P4 eq_refl) P6). repeat split; reflexivity.
    + destruct (consume_stream_of_digits true true true (s :: r'')) as [[ds rs]| | |] eqn:C; try discriminate.
      inversion H; subst.
      destruct (consume_inv _ _ _ _ _ _ C) as (P1 & P2 & P3 & P4 & P5 & P6).
      exists (Some (e, None, ds)). cbn [wf_exp pr_exp app]. rewrite E1.
      rewrite P1 in P4. rewrite (dgroup_of ds rest P2 P3 (P4 eq_refl) P6). rewrite P1. repeat split; reflexivity.
  - inversion H; subst. exists None. repeat split; reflexivity.
Qed.

Lemma tail_inv : forall c r t r', is_ascii_digit c = true ->
  scan_number_tail [c] r = LOk (Some t, r') ->
  exists n, wf_num n = true /\ t = TNumber (pr_num n) /\ c :: r = pr_num n ++ r'.
Proof.
  intros c r t r' Hc H. unfold scan_number_tail in H.
  destruct (consume_stream_of_digits false false false r) as [[ds1 r1]| | |] eqn:C1; try discriminate.
  destruct (consume_inv _ _ _ _ _ _ C1) as (P1 & P2 & P3 & _ & _ & P6). subst r.
  assert (G : dgroup (c :: ds1) = true).
  { unfold dgroup. cbn [forallb]. unfold is_dus at 1. rewrite Hc, P2. cbn [orb andb].
    unfold ends_us in *. cbn [rev]. destruct (rev ds1) as [|z w].
    - cbn [app]. digits c Hc; reflexivity.
    - cbn [app]. rewrite P3. reflexivity. }
  assert (FR : exists f r3, match f with Some fr => dgroup0 fr | None => true end = true
                         /\ r1 = pr_frac f ++ r3
                         /\ (match r1 with
                             | 46 :: r2 =>
                                 match consume_stream_of_digits false true true r2 with
                                 | LOk (ds2, r3) => LOk (46 :: ds2, r3)
                                 | LErr x => LErr x | LUnsupported => LUnsupported | LOutOfFuel => LOutOfFuel
                                 end
                             | _ => LOk ([], r1)
                             end = LOk (pr_frac f, r3)
                            \/ exists e, match r1 with
                             | 46 :: r2 =>
                                 match consume_stream_of_digits false true true r2 with
                                 | LOk (ds2, r3) => LOk (46 :: ds2, r3)
                                 | LErr x => LErr x | LUnsupported => LUnsupported | LOutOfFuel => LOutOfFuel
                                 end
                             | _ => LOk ([], r1)
                             end = e /\ match e with LOk _ => False | _ => True end)).
  { destruct r1 as [|z w].
    - exists None, []. repeat split. left. reflexivity.
    - destruct (N.eq_dec z 46) as [->|Nz].
      + destruct (consume_stream_of_digits false true true w) as [[ds2 r3]| | |] eqn:C2.
        * destruct (consume_inv _ _ _ _ _ _ C2) as (Q1 & Q2 & Q3 & _ & Q5 & Q6). subst w.
          exists (Some ds2), r3. split; [apply (dgroup0_of ds2 r3 Q2 Q3 (Q5 eq_refl))|].
          split; [reflexivity|]. left. reflexivity.
        * exists None, (46 :: w). repeat split. right. eexists. split; [reflexivity|exact I].
        * exists None, (46 :: w). repeat split. right. eexists. split; [reflexivity|exact I].
        * exists None, (46 :: w). repeat split. right. eexists. split; [reflexivity|exact I].
      + exists None, (z :: w). repeat split. left.
        destruct z as [|p]; [reflexivity|].
        do 6 (destruct p as [p|p|]; try reflexivity). congruence. }
  destruct FR as (f & r3 & Wf & E1 & [E2|(e & E2 & Bad)]).
  - rewrite E2 in H.
    destruct (scientific_notation r3) as [[ex r4]| | |] eqn:Sc; try discriminate.
    inversion H; subst.
    destruct (sci_inv _ _ _ Sc) as (x & Wx & -> & ->).
    exists (mk_num (c :: ds1) f x). unfold wf_num, pr_num. cbn [n_int n_frac n_exp].
    rewrite G, Wf, Wx. split; [reflexivity|]. split.
    + cbn [app]. reflexivity.
    + cbn [app]. repeat rewrite <- app_assoc. cbn [app]. reflexivity.
  - rewrite E2 in H. destruct e as [[? ?]| | |]; try contradiction; discriminate.
Qed.

Section Number.
  Variables xid_start xid_continue : N -> bool.
  (* the only fact about the Unicode classes that matters here: a digit does not start an identifier *)
  Hypothesis digit_not_start : forall c, is_ascii_digit c = true -> xid_start c = false.

  Notation sst := (scan_single_token xid_start xid_continue).
  Notation snt := (scan_number_tail).

  Definition ret_ (depth : list bool) (x : lres (option token * str)) : lres (option token * str * list bool) :=
    match x with
    | LOk (t, r) => LOk (t, r, depth)
    | LErr e => LErr e | LUnsupported => LUnsupported | LOutOfFuel => LOutOfFuel
    end.

  Lemma dispatch_digit : forall d la c r, is_ascii_digit c = true -> based_prefix (c :: r) = false ->
    sst d la (c :: r) = ret_ d (snt [c] r).
  Proof.
    intros d la c r H B. digits c H; try reflexivity.
    destruct r as [|x y]; [reflexivity|]. cbn [based_prefix] in B.
    unfold scan_single_token. cbn [N.eqb Pos.eqb andb peek_is]. rewrite B. reflexivity.
  Qed.

  Lemma tail_ok : forall c ds1 f x rest,
    dgroup (c :: ds1) = true -> match f with Some fr => dgroup0 fr | None => true end = true ->
    wf_exp x = true -> num_stop rest = true ->
    snt [c] (ds1 ++ pr_frac f ++ pr_exp x ++ rest) = LOk (Some (TNumber ((c :: ds1) ++ pr_frac f ++ pr_exp x)), rest).
  Proof.
    intros c ds1 f x rest G Wf Wx S.
    destruct (pr_exp_head x rest Wx S) as (X1 & X2).
    destruct (dgroup_parts _ G) as (G2 & G3 & _ & _).
    assert (T2 : forallb is_dus ds1 = true) by (cbn [forallb] in G2; apply andb_prop in G2; tauto).
    assert (T3 : ends_us ds1 = false).
    { unfold ends_us in *. cbn [rev] in G3. destruct (rev ds1) as [|z w]; [reflexivity|]. cbn [app] in G3. exact G3. }
    unfold scan_number_tail.
    destruct f as [fr|].
    - cbn [pr_frac]. 
      rewrite (consume_ok false false false ds1 ((46 :: fr) ++ pr_exp x ++ rest) T2 T3); try discriminate; [|reflexivity].
      cbn [app].
      destruct (dgroup0_parts fr Wf) as (F2 & F3 & F4).
      rewrite (consume_ok false true true fr (pr_exp x ++ rest) F2 F3); try discriminate; auto.
      rewrite (sci_ok x rest Wx S). cbn [app]. repeat repeat rewrite <- app_assoc. reflexivity.
    - cbn [pr_frac app].
      rewrite (consume_ok false false false ds1 (pr_exp x ++ rest) T2 T3); try discriminate; auto.
      assert (ND : forall (A : Type) (u : str -> A) (v : A),
                   match pr_exp x ++ rest with 46 :: r2 => u r2 | _ => v end = v).
      { intros A u v. destruct (pr_exp x ++ rest) as [|z w]; [reflexivity|]. cbn [peek_is] in X2.
        apply N.eqb_neq in X2. destruct z as [|p]; [reflexivity|].
        do 6 (destruct p as [p|p|]; try reflexivity). congruence. }
      rewrite ND. rewrite (sci_ok x rest Wx S). cbn [app]. reflexivity.
  Qed.

  Lemma digit_not_identifier_start : forall c, is_ascii_digit c = true -> is_identifier_start xid_start c = false.
  Proof.
    intros c H. unfold is_identifier_start. rewrite (digit_not_start c H). digits c H; reflexivity.
  Qed.

  (* completeness: every literal of the grammar is one Number token *)
  Theorem lex_number_complete : forall n rest d la,
    wf_num n = true -> num_stop rest = true -> based_prefix (pr_num n ++ rest) = false ->
    sst d la (pr_num n ++ rest) = LOk (Some (TNumber (pr_num n)), rest, d).
  Proof.
    intros [i f x] rest d la W S B. unfold wf_num in W. cbn [n_int n_frac n_exp] in W.
    apply andb_prop in W. destruct W as [W Wx]. unfold pr_num in *. cbn [n_int n_frac n_exp] in *.
    destruct i as [|c ds1].
    - (* .234 *)
      destruct f as [fr|]; [|discriminate].
      destruct (dgroup_parts fr W) as (F2 & F3 & F1 & F4).
      destruct (pr_exp_head x rest Wx S) as (X1 & X2).
      destruct fr as [|q fr']; [discriminate|]. cbn [peek_is] in F1.
      cbn [app pr_frac]. repeat rewrite <- app_assoc. cbn [app].
      assert (D1 : (46 =? q) = false) by (digits q F1; reflexivity). cbn [N.eqb] in D1.
      unfold scan_single_token. cbn [N.eqb Pos.eqb andb orb is_ascii_digit in_range N.leb N.compare Pos.compare Pos.compare_cont peek_is].
      rewrite D1. cbn [andb]. rewrite (digit_not_identifier_start q F1).
      change (q :: fr' ++ pr_exp x ++ rest) with ((q :: fr') ++ pr_exp x ++ rest).
      rewrite (consume_ok true true true (q :: fr') (pr_exp x ++ rest) F2 F3 (fun _ => F1) (fun _ => F4) X1 (fun _ => X2)).
      rewrite (sci_ok x rest Wx S). cbn [app]. repeat rewrite <- app_assoc. reflexivity.
    - apply andb_prop in W. destruct W as [G Wf].
      assert (Hc : is_ascii_digit c = true).
      { unfold dgroup in G. apply andb_prop in G. destruct G as [G _]. apply andb_prop in G. tauto. }
      cbn [app] in *. rewrite (dispatch_digit d la c _ Hc B).
      rewrite <- app_assoc. rewrite <- app_assoc.
      rewrite (tail_ok c ds1 f x rest G Wf Wx S). cbn [ret_ app]. repeat repeat rewrite <- app_assoc. reflexivity.
  Qed.

  (* ---- the converse at the level of scan_single_token *)
  Definition is_num_res (x : lres (option token * str * list bool)) : bool :=
    match x with LOk (Some (TNumber _), _, _) => true | _ => false end.

  Lemma keyword_not_number : forall s, match keyword_of s with Some (TNumber _) => false | _ => true end = true.
  Proof.
    intros s. unfold keyword_of.
    repeat match goal with |- context [if ?b then _ else _] => destruct b end; reflexivity.
  Qed.

  Ltac crush :=
    repeat first
      [ reflexivity
      | match goal with |- context [if ?b then _ else _] => destruct b end
      | match goal with |- context [match ?x with _ => _ end] => destruct x end ].

  Lemma based_not_number : forall d base isd pre cs,
    is_num_res (ret_ d (scan_based xid_continue base isd pre cs)) = false.
  Proof. intros. unfold scan_based. crush. Qed.

  Lemma other_not_number : forall d la c r, is_ascii_digit c = false -> (c =? 46) = false ->
    is_num_res (sst d la (c :: r)) = false.
  Proof.
    intros d la c r H1 H2. unfold scan_single_token. rewrite H1, H2.
    destruct (N.eqb_spec c 48) as [->|N48]; [discriminate H1|]. cbn [andb].
    repeat match goal with
           | |- is_num_res (if ?b then _ else _) = false => destruct b
           | |- context [span_while ?p ?x] => destruct (span_while p x)
           | |- context [keyword_of ?s] =>
               let K := fresh "K" in pose proof (keyword_not_number s) as K; destruct (keyword_of s) as [[]|]; try discriminate K; clear K
           end; crush.
  Qed.

  Lemma dispatch_based : forall d la x r, (x =? 120) || (x =? 111) || (x =? 98) = true ->
    is_num_res (sst d la (48 :: x :: r)) = false.
  Proof.
    intros d la x r H.
    assert (C : x = 120 \/ x = 111 \/ x = 98).
    { apply orb_prop in H. destruct H as [H|H]; [apply orb_prop in H; destruct H as [H|H]|];
        apply N.eqb_eq in H; auto. }
    destruct C as [ -> | [ -> | -> ] ];
      unfold scan_single_token;
      cbn [N.eqb Pos.eqb andb orb is_ascii_digit in_range N.leb N.compare Pos.compare Pos.compare_cont peek_is];
      apply based_not_number.
  Qed.

  (* soundness: a Number token is always a literal of the grammar, and nothing else is consumed *)
  Theorem lex_number_sound : forall d la cs l r d',
    sst d la cs = LOk (Some (TNumber l), r, d') ->
    exists n, wf_num n = true /\ l = pr_num n /\ cs = l ++ r /\ d' = d.
  Proof.
    intros d la cs l r d' H. destruct cs as [|c r0]; [discriminate|].
    destruct (is_ascii_digit c) eqn:Hc.
    - destruct (based_prefix (c :: r0)) eqn:B.
      + cbn [based_prefix] in B. destruct c as [|p]; [discriminate|].
        do 6 (destruct p as [p|p|]; try discriminate).
        destruct r0 as [|x r1]; [discriminate|].
        pose proof (dispatch_based d la x r1 B) as X. rewrite H in X. discriminate.
      + rewrite (dispatch_digit d la c r0 Hc B) in H.
        destruct (scan_number_tail [c] r0) as [[t r1]| | |] eqn:T; try discriminate.
        cbn [ret_] in H. inversion H; subst.
        destruct (tail_inv c r0 _ _ Hc T) as (n & Wn & En & Ec).
        exists n. inversion En; subst. repeat split; auto.
    - destruct (c =? 46) eqn:Hd.
      + apply N.eqb_eq in Hd. subst c.
        unfold scan_single_token in H.
        cbn [N.eqb Pos.eqb andb orb is_ascii_digit in_range N.leb N.compare Pos.compare Pos.compare_cont] in H.
        destruct (peek_is (N.eqb 46) r0 && peek2_is (N.eqb 46) r0); [discriminate|].
        destruct (peek_is (is_identifier_start xid_start) r0); [discriminate|].
        destruct (consume_stream_of_digits true true true r0) as [[ds r1]| | |] eqn:C; try discriminate.
        destruct (scientific_notation r1) as [[ex r2]| | |] eqn:Sc; try discriminate.
        inversion H; subst.
        destruct (consume_inv _ _ _ _ _ _ C) as (P1 & P2 & P3 & P4 & P5 & P6). subst r0.
        destruct (sci_inv _ _ _ Sc) as (x & Wx & -> & ->).
        exists (mk_num [] (Some ds) x). unfold wf_num, pr_num. cbn [n_int n_frac n_exp pr_frac app].
        rewrite (dgroup_of ds _ P2 P3 (P4 eq_refl) P6), Wx.
        repeat split; cbn [app]; repeat rewrite <- app_assoc; reflexivity.
      + pose proof (other_not_number d la c r0 Hc Hd) as X. rewrite H in X. discriminate.
  Qed.
End Number.
