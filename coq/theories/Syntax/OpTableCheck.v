(* C10 — the precedence chain, operator token sets, keyword map and subscript
   range that were re-extracted from numbat/src/{parser,tokenizer}.rs on this run
   (Gen/OpTable.v) are the ones the model uses. *)
From Coq Require Import String List NArith Ascii Bool.
From NV Require Import Base.Show Syntax.Token Syntax.Ast Syntax.Parser Syntax.Lexer Syntax.Exec Gen.OpTable.
Import ListNotations.
Open Scope string_scope.

(* every token kind without payload, alphabetically by Rust name, plus one
   representative of each kind with payload *)
Definition probe_tokens : list token :=
  [TArrow; TAt; TColon; TComma; TDivide; TDoubleColon; TEllipsis; TElse; TEqual; TEqualEqual; TExcl; TFalse;
   TGreaterOrEqual; TGreaterThan; TIdent []; TIf; TInf; TLBracket; TLCurly; TLParen; TLessOrEqual; TLessThan;
   TLogicalAnd; TLogicalOr; TMinus; TMultiply; TNaN; TNewline; TNotEqual; TNumber []; TPer; TPeriod; TPlus;
   TPostfixApply; TPower; TQuestionMark; TRBracket; TRCurly; TRParen; TSemicolon; TString []; TThen; TTo; TTrue;
   TUnicodeExponent []; TIntBase 16 []; TKw KLet; TKw KPrint; TKw KAssertEq].

Definition kind_name (t : token) : string :=
  match t with
  | TIdent _ => "Identifier" | TNumber _ => "Number" | TString _ => "StringFixed"
  | TUnicodeExponent _ => "UnicodeExponent" | TIntBase _ _ => "IntegerWithBase"
  | t => show_token t
  end.

Definition binop_name (o : binop) : string :=
  match o with
  | Add => "Add" | Sub => "Sub" | Mul => "Mul" | Div => "Div" | Power => "Power" | ConvertTo => "ConvertTo"
  | LessThan => "LessThan" | GreaterThan => "GreaterThan" | LessOrEqual => "LessOrEqual"
  | GreaterOrEqual => "GreaterOrEqual" | Equal => "Equal" | NotEqual => "NotEqual"
  | LogicalAnd => "LogicalAnd" | LogicalOr => "LogicalOr"
  end.

Definition row (name : string) (ops : token -> option binop) (next : string) :=
  (name,
   flat_map (fun t => match ops t with Some o => [(kind_name t, binop_name o)] | None => [] end) probe_tokens,
   next).

(* the model's chain: names of the definitions of Syntax/Parser.v; `model_chain_defs` pins them *)
Definition model_binop_levels :=
  [row "conversion" ops_conversion "logical_or"; row "logical_or" ops_or "logical_and";
   row "logical_and" ops_and "logical_neg"; row "comparison" ops_comparison "term";
   row "term" ops_term "factor"; row "factor" ops_factor "per_factor"; row "per_factor" ops_per "unary"].

Lemma model_chain_defs : forall ex,
  conversion ex = parse_binop ops_conversion (logical_or ex)
  /\ logical_or ex = parse_binop ops_or (logical_and ex)
  /\ logical_and ex = parse_binop ops_and (logical_neg ex)
  /\ comparison ex = parse_binop ops_comparison (term ex)
  /\ term ex = parse_binop ops_term (factor ex)
  /\ factor ex = parse_binop ops_factor (per_factor ex)
  /\ per_factor ex = parse_binop ops_per (unary ex).
Proof. intros ex. repeat split; reflexivity. Qed.

(* fall-through of the other levels (Syntax/ParserProofs.v `descend` is the semantic statement) *)
Definition model_fallthrough : list (string * string) :=
  [("expression", "postfix_apply"); ("postfix_apply", "condition"); ("condition", "conversion");
   ("logical_neg", "comparison"); ("unary", "ifactor"); ("ifactor", "power"); ("power", "factorial");
   ("factorial", "unicode_power"); ("unicode_power", "call"); ("call", "primary")].

Definition model_power_start : list string :=
  flat_map (fun t => if could_start_power [t] then [kind_name t] else []) probe_tokens.

Definition str_of_string (s : string) : str := map N_of_ascii (list_ascii_of_string s).

Definition keyword_kind (s : string) : string :=
  match keyword_of (str_of_string s) with Some t => show_token t | None => "Identifier" end.

Definition keywords_ok : bool :=
  forallb (fun p => String.eqb (keyword_kind (fst p)) (snd p)) keywords
  && Nat.eqb (length keywords) 30.

(* the superscripts-and-subscripts block of Unicode has its subscripts at U+2080 … U+209C *)
Definition subscript_block_ok : bool := N.eqb subscript_first 8320 && N.eqb subscript_last 8348.

Theorem optable_matches :
  binop_levels = model_binop_levels
  /\ fallthrough = model_fallthrough
  /\ power_start_tokens = model_power_start
  /\ keywords_ok = true
  /\ subscript_block_ok = true.
Proof. vm_compute. repeat split; reflexivity. Qed.
