(* C10 — the lexer on identifiers, beyond the finite tables: for ANY Unicode classes XID_Start /
   XID_Continue (parameters), an identifier start character followed by any number of continue
   characters is one token (the keyword it spells, or an Identifier with that lexeme), and conversely
   every Identifier token has that shape and nothing else was consumed. *)
From Coq Require Import List NArith ZArith Bool Lia.
From NV Require Import Syntax.Token Syntax.Lexer Syntax.LexNumber.
Import ListNotations.
Local Open Scope N_scope.

(* the characters scan_single_token tests before it looks for an identifier *)
Definition early (c : N) : bool :=
  (c =? 40) || (c =? 41) || (c =? 91) || (c =? 93) || (c =? 123) || (c =? 125) || (c =? 8804) || (c =? 60)
  || (c =? 8805) || (c =? 62) || (c =? 63) || is_ascii_digit c || (c =? 46) || (c =? 32) || (c =? 9) || (c =? 13)
  || (c =? 10) || (c =? 59) || (c =? 38) || (c =? 124) || (c =? 42) || (c =? 43) || (c =? 183) || (c =? 8901)
  || (c =? 215) || (c =? 47) || (c =? 247) || (c =? 94) || (c =? 44) || (c =? 10869) || (c =? 61) || (c =? 64)
  || (c =? 8594) || (c =? 10142) || (c =? 45) || (c =? 8722) || (c =? 8800) || (c =? 33) || (c =? 8315)
  || is_exponent_char c || (c =? 34) || (c =? 58) || (c =? 8230).

Section Ident.
  Variables xid_start xid_continue : N -> bool.
  Notation sst := (scan_single_token xid_start xid_continue).
  Notation istart := (is_identifier_start xid_start).
  Notation icont := (is_identifier_continue xid_continue).

  (* the identifier ends at `rest`; a `.` must be followed by another identifier (field access) *)
  Definition ident_stop (rest : str) : bool :=
    negb (peek_is icont rest) && negb (peek_is (N.eqb 46) rest && negb (peek2_is istart rest)).

  Definition word_token (w : str) : token :=
    match keyword_of w with Some k => k | None => TIdent w end.

  Theorem lex_ident_complete : forall c body rest d la,
    early c = false -> istart c = true -> forallb icont body = true -> ident_stop rest = true ->
    sst d la (c :: body ++ rest) = LOk (Some (word_token (c :: body)), rest, d).
  Proof.
    intros c body rest d la E S B St. unfold ident_stop in St. apply andb_prop in St. destruct St as [St1 St2].
    apply negb_true_iff in St1. apply negb_true_iff in St2.
    unfold early in E.
    assert (E48 : (c =? 48) = false).
    { destruct (N.eqb_spec c 48) as [->|]; [|reflexivity]. discriminate E. }
    repeat (apply orb_false_iff in E; let X := fresh "X" in destruct E as [E X]).
    unfold scan_single_token.
    repeat match goal with X : _ = false |- _ => rewrite X; clear X end.
    cbn [andb orb]. rewrite S.
    rewrite (span_while_app icont body rest B St1). rewrite St2.
    unfold word_token. destruct (keyword_of (c :: body)); reflexivity.
  Qed.

  Definition is_ident_res (x : lres (option token * str * list bool)) : bool :=
    match x with LOk (Some (TIdent _), _, _) => true | _ => false end.

  Lemma keyword_not_ident : forall s, match keyword_of s with Some (TIdent _) => false | _ => true end = true.
  Proof.
    intros s. unfold keyword_of.
    repeat match goal with |- context [if ?b then _ else _] => destruct b end; reflexivity.
  Qed.

  Ltac crush :=
    repeat first
      [ reflexivity
      | match goal with |- context [if ?b then _ else _] => destruct b end
      | match goal with |- context [match ?x with _ => _ end] => destruct x end ].

  (* soundness: an Identifier token is a start character followed by continue characters, it is not
     a keyword, and nothing else was consumed *)
  Theorem lex_ident_sound : forall d la cs l r d',
    sst d la cs = LOk (Some (TIdent l), r, d') ->
    exists c body, l = c :: body /\ istart c = true /\ forallb icont body = true
                   /\ keyword_of l = None /\ cs = l ++ r /\ peek_is icont r = false /\ d' = d.
  Proof.
    intros d la cs l r d' H. destruct cs as [|c r0]; [discriminate|].
    unfold scan_single_token in H.
    repeat match type of H with
           | (if ?b then _ else _) = _ =>
               let Q := fresh "Q" in
               destruct b eqn:Q;
               [ first [ discriminate H
                       | exfalso; revert H; clear; unfold scan_based, scan_number_tail;
                         repeat match goal with
                                | |- context [span_while ?p ?x] => destruct (span_while p x)
                                | |- context [consume_stream_of_digits ?a ?b ?c ?x] =>
                                    destruct (consume_stream_of_digits a b c x) as [[? ?]| | |]
                                | |- context [scientific_notation ?x] => destruct (scientific_notation x) as [[? ?]| | |]
                                | |- context [consume_string ?n ?e ?x] => destruct (consume_string n e x)
                                | |- context [if ?b then _ else _] => destruct b
                                | |- context [match ?x with _ => _ end] => destruct x
                                end; discriminate
                       | idtac ] | ]
           end.
    all: try discriminate H.
    all: try (match type of H with
              | context [scan_number_tail] =>
                  destruct (scan_number_tail [c] r0) as [[t r1]| | |] eqn:T; try discriminate H;
                  inversion H; subst;
                  match goal with
                  | Qd : is_ascii_digit ?cc = true |- _ =>
                      destruct (tail_inv cc _ _ _ Qd T) as (n & _ & En & _); discriminate En
                  end
              end).
    all: try (destruct (span_while icont r0) as [body rest] eqn:Sp;
              destruct (peek_is (N.eqb 46) rest && negb (peek2_is istart rest)); [discriminate H|];
              pose proof (keyword_not_ident (c :: body)) as K;
              destruct (keyword_of (c :: body)) as [k|] eqn:Kw;
              [ destruct k; try discriminate H; discriminate K | ];
              inversion H; subst;
              destruct (span_while_spec _ _ _ _ Sp) as (P1 & P2 & P3); subst r0;
              exists c, body; repeat split; auto).
  Qed.
End Ident.
