(* C10 — the documented syntax of type annotations and dimension expressions as data
   (grammar comment of parser.rs: type_annotation, dimension_expr, dim_factor, dim_power,
   dim_exponent, dim_primary).  No proofs here. *)
From Coq Require Import List NArith ZArith Bool Arith.
From NV Require Import Syntax.Token Syntax.Ast Syntax.StmtAst Syntax.StrEsc Syntax.Parser.
Import ListNotations.
Local Open Scope nat_scope.

(* dim_exponent ::= integer | minus dim_exponent | "(" dim_exponent ( divide dim_exponent )? ")" *)
Inductive sxp :=
| XNum (lexeme : str)
| XMinus (x : sxp)
| XPar (x : sxp)
| XParDiv (x y : sxp).

Fixpoint pr_sxp (x : sxp) : list token :=
  match x with
  | XNum l => [TNumber l]
  | XMinus a => TMinus :: pr_sxp a
  | XPar a => TLParen :: pr_sxp a ++ [TRParen]
  | XParDiv a b => TLParen :: pr_sxp a ++ TDivide :: pr_sxp b ++ [TRParen]
  end.

(* the exponent it denotes; None where the documentation has no value (not an integer literal,
   out of the i128 range, division by zero) *)
Fixpoint eval_sxp (x : sxp) : option exponent :=
  match x with
  | XNum l =>
      let d := remove_underscores l in
      if match d with [] => false | _ => all_digits d end && Z.leb (decimal_value d) i128_max
      then Some (decimal_value d, 1%positive) else None
  | XMinus a => option_map exp_neg (eval_sxp a)
  | XPar a => eval_sxp a
  | XParDiv a b =>
      match eval_sxp a, eval_sxp b with
      | Some ea, Some eb =>
          if exp_is_zero eb then None else if exp_fits (exp_div ea eb) then Some (exp_div ea eb) else None
      | _, _ => None
      end
  end.

(* type annotations and dimension expressions, one tree type *)
Inductive sty :=
| YUnity
| YIdent (name : str) (args : option (list sty))      (* Name  or  Name<A, B> *)
| YParen (d : sty)
| YPow (base : sty) (x : sxp)
| YUPow (base : sty) (lexeme : str)
| YMul (a b : sty)
| YDiv (a b : sty)
| YBool | YString | YDateTime
| YFn (params : list sty) (ret : sty)
| YList (t : sty).

(* levels of the dimension-expression part: 1 factor, 2 power, 3 primary; 0 = not a dimension expression *)
Definition ylvl (t : sty) : nat :=
  match t with
  | YUnity | YIdent _ _ | YParen _ => 3
  | YPow _ _ | YUPow _ _ => 2
  | YMul _ _ | YDiv _ _ => 1
  | _ => 0
  end.

Fixpoint pr_ty (t : sty) : list token :=
  let commas :=
    fix go (l : list sty) : list token :=
      match l with
      | [] => []
      | a :: r => pr_ty a ++ match r with [] => [] | _ :: _ => TComma :: go r end
      end in
  match t with
  | YUnity => [TNumber [49%N]]
  | YIdent n None => [TIdent n]
  | YIdent n (Some args) => TIdent n :: TLessThan :: commas args ++ [TGreaterThan]
  | YParen d => TLParen :: pr_ty d ++ [TRParen]
  | YPow b x => pr_ty b ++ TPower :: pr_sxp x
  | YUPow b l => pr_ty b ++ [TUnicodeExponent l]
  | YMul a b => pr_ty a ++ TMultiply :: pr_ty b
  | YDiv a b => pr_ty a ++ TDivide :: pr_ty b
  | YBool => [TKw KBool] | YString => [TKw KString] | YDateTime => [TKw KDateTime]
  | YFn ps r => TKw KCapitalFn :: TLBracket :: TLParen :: commas ps ++ TRParen :: TArrow :: pr_ty r ++ [TRBracket]
  | YList a => TKw KList :: TLessThan :: pr_ty a ++ [TGreaterThan]
  end.

Fixpoint pr_tys (l : list sty) : list token :=
  match l with
  | [] => []
  | a :: r => pr_ty a ++ match r with [] => [] | _ :: _ => TComma :: pr_tys r end
  end.

Fixpoint ty_exp (t : sty) : texp :=        (* the TypeExpression of a dimension-expression tree *)
  match t with
  | YUnity => TEUnity
  | YIdent n args => TEIdent n (match args with None => [] | Some l => map ty_ann l end)
  | YParen d => ty_exp d
  | YPow b x => TEPow (ty_exp b) (match eval_sxp x with Some e => e | None => (0%Z, 1%positive) end)
  | YUPow b l => TEPow (ty_exp b) (unicode_exponent_to_int l, 1%positive)
  | YMul a b => TEMul (ty_exp a) (ty_exp b)
  | YDiv a b => TEDiv (ty_exp a) (ty_exp b)
  | _ => TEUnity
  end
with ty_ann (t : sty) : tann :=            (* the TypeAnnotation *)
  match t with
  | YBool => TABool | YString => TAString | YDateTime => TADateTime
  | YFn ps r => TAFn (map ty_ann ps) (ty_ann r)
  | YList a => TAList (ty_ann a)
  | YUnity => TAExp TEUnity
  | YIdent n args => TAExp (TEIdent n (match args with None => [] | Some l => map ty_ann l end))
  | YParen d => TAExp (ty_exp d)
  | YPow b x => TAExp (TEPow (ty_exp b) (match eval_sxp x with Some e => e | None => (0%Z, 1%positive) end))
  | YUPow b l => TAExp (TEPow (ty_exp b) (unicode_exponent_to_int l, 1%positive))
  | YMul a b => TAExp (TEMul (ty_exp a) (ty_exp b))
  | YDiv a b => TAExp (TEDiv (ty_exp a) (ty_exp b))
  end.

Definition is_some {A} (o : option A) : bool := match o with Some _ => true | None => false end.

(* operands at the levels the grammar requires *)
Fixpoint wf_ty (t : sty) : bool :=
  match t with
  | YUnity | YBool | YString | YDateTime => true
  | YIdent n args =>
      negb (starts_double_underscore n) && match args with None => true | Some l => forallb wf_ty l end
  | YParen d => wf_ty d && (1 <=? ylvl d)
  | YPow b x => wf_ty b && (3 <=? ylvl b) && is_some (eval_sxp x)
  | YUPow b _ => wf_ty b && (3 <=? ylvl b)
  | YMul a b | YDiv a b => wf_ty a && wf_ty b && (1 <=? ylvl a) && (2 <=? ylvl b)
  | YFn ps r => forallb wf_ty ps && wf_ty r
  | YList a => wf_ty a
  end.
