(* C15 — the echo of a printable typed expression is a well-formed derivation tree of the
   documented grammar, hence (C10) it is read back as the tree it denotes. *)
From Coq Require Import List NArith ZArith Bool Arith Lia.
From NV Require Import Syntax.Token Syntax.Ast Syntax.StmtAst Syntax.StrEsc Syntax.Parser Syntax.Grammar
     Syntax.StrEscProofs Syntax.ParserProofs Syntax.GrammarProofs Syntax.TypedPrinter.
Import ListNotations.
Local Open Scope nat_scope.
Local Arguments Nat.leb : simpl never.
Local Arguments Nat.ltb : simpl never.

Fixpoint tsize (e : texpr) : nat :=
  match e with
  | XNeg a | XFact _ a | XNot a | XField a _ => S (tsize a)
  | XBin _ a b => S (tsize a + tsize b)
  | XCall _ args => S (list_sum (map tsize args))
  | XCallable c args => S (tsize c + list_sum (map tsize args))
  | XIf c t f => S (tsize c + tsize t + tsize f)
  | XList es => S (list_sum (map tsize es))
  | XStruct _ fields => S (list_sum (map (fun fe => tsize (snd fe)) fields))
  | XInterp _ items => S (list_sum (map (fun it => tsize (fst (fst it))) items))
  | _ => 1
  end.

Lemma tsize_in_items : forall (a : texpr) f s items, In (a, f, s) items ->
  tsize a <= list_sum (map (fun it : texpr * option str * str => tsize (fst (fst it))) items).
Proof.
  induction items; simpl; intros H; [tauto|]. destruct H as [->|H]; [simpl; lia|]. specialize (IHitems H). lia.
Qed.

Lemma echo_interp : forall m s0 items,
  echo_tree m (XInterp s0 items)
  = SInterp (c_quote :: escape_numbat_string s0 ++ [123%N]) (echo_items (echo_tree Plain) items).
Proof.
  intros m s0 items. cbn [echo_tree]. f_equal.
  induction items as [|[[a f] s] r IH]; [reflexivity|]. cbn [echo_items]. rewrite <- IH. reflexivity.
Qed.

Lemma echo_items_wf : forall items,
  (forall a f s, In (a, f, s) items -> wf (echo_tree Plain a) = true) ->
  forallb (fun it : sx * option str * str => wf (fst (fst it))) (echo_items (echo_tree Plain) items) = true.
Proof.
  induction items as [|[[a f] s] r IH]; intros H; [reflexivity|].
  cbn [echo_items forallb fst]. rewrite (H a f s (or_introl eq_refl)).
  rewrite IH; [reflexivity|]. intros b g t Hb. apply (H b g t). right. exact Hb.
Qed.

Lemma tsize_in : forall (a : texpr) args, In a args -> tsize a <= list_sum (map tsize args).
Proof.
  induction args; simpl; intros H; [tauto|]. destruct H as [->|H]; [lia|]. specialize (IHargs H). lia.
Qed.

Lemma tsize_in_fields : forall (f : str) (a : texpr) fields, In (f, a) fields ->
  tsize a <= list_sum (map (fun fe => tsize (snd fe)) fields).
Proof.
  induction fields; simpl; intros H; [tauto|]. destruct H as [->|H]; [simpl; lia|]. specialize (IHfields H). lia.
Qed.

Lemma lvl_num_tree : forall neg d, 10 <= lvl (num_tree neg d).
Proof. intros [] d; simpl; lia. Qed.

Lemma lvl_parens : forall e, 15 <= lvl (echo_tree Parens e).
Proof.
  destruct e; try (simpl; lia).
  - destruct negative; simpl; lia.
  - cbn [echo_tree]. destruct (call_sugar name) as [s|]; destruct args as [|a0 [|a1 r]]; simpl; lia.
  - cbn [echo_tree]. destruct e; destruct args as [|a0 [|a1 r]]; simpl; lia.
Qed.

Lemma lvl_liberal : forall e, 11 <= lvl (echo_tree Liberal e).
Proof.
  destruct e; try (simpl; lia).
  - destruct negative; simpl; lia.
  - cbn [echo_tree]. destruct op; try (simpl; lia).
    destruct e1; try (simpl; lia). destruct e2; simpl; lia.
  - cbn [echo_tree]. destruct (call_sugar name) as [s|]; destruct args as [|a0 [|a1 r]]; simpl; lia.
  - cbn [echo_tree]. destruct e; destruct args as [|a0 [|a1 r]]; simpl; lia.
Qed.

Lemma lvl_plain_power : forall e, is_power e = true -> 12 <= lvl (echo_tree Plain e).
Proof.
  destruct e; try discriminate. destruct op; try discriminate. intros _. cbn [echo_tree].
  destruct (is_two e2); [simpl; lia|]. destruct (is_three e2); simpl; lia.
Qed.

Lemma lvl_plain_mul : forall e, is_mul e = true -> 8 <= lvl (echo_tree Plain e).
Proof.
  destruct e; try discriminate. destruct op; try discriminate. intros _. cbn [echo_tree].
  destruct e1; try (simpl; lia); destruct e2; simpl; lia.
Qed.

Lemma lvl_plain_fused : forall e, fused e = true -> 11 <= lvl (echo_tree Plain e).
Proof.
  destruct e; try discriminate. destruct op; try discriminate.
  destruct e1; try discriminate. destruct e2; try discriminate; intros _; simpl; lia.
Qed.

Lemma lvl_plain_add : forall e, is_add e = true -> 7 <= lvl (echo_tree Plain e).
Proof.
  destruct e; try discriminate. destruct op; try discriminate. intros _. simpl. lia.
Qed.

Lemma lvl_plain_ge2 : forall e, is_if e = false -> 2 <= lvl (echo_tree Plain e).
Proof.
  destruct e; intros H; try discriminate; try (simpl; lia).
  - destruct negative; simpl; lia.
  - cbn [echo_tree]. destruct op; try (simpl; lia).
    + destruct e1; try (simpl; lia); destruct e2; simpl; lia.
    + destruct (is_two e2); [simpl; lia|]. destruct (is_three e2); simpl; lia.
  - cbn [echo_tree]. destruct (call_sugar name) as [[u|u]|]; destruct args as [|a0 [|a1 r]]; simpl; lia.
  - cbn [echo_tree]. destruct e; destruct args as [|a0 [|a1 r]]; try (simpl; lia).
    destruct (conversion_sugar name) as [[u|u]|]; simpl; lia.
Qed.

Lemma lvl_plain_ge3 : forall e, is_if e = false -> is_conv e = false -> is_sugar e = false ->
  3 <= lvl (echo_tree Plain e).
Proof.
  destruct e; intros H1 H2 H3; try discriminate; try (simpl; lia).
  - destruct negative; simpl; lia.
  - cbn [echo_tree]. destruct op; try discriminate; try (simpl; lia).
    + destruct e1; try (simpl; lia); destruct e2; simpl; lia.
    + destruct (is_two e2); [simpl; lia|]. destruct (is_three e2); simpl; lia.
  - cbn [echo_tree]. simpl in H3.
    destruct args as [|a0 [|a1 r]]; destruct (call_sugar name) as [s|]; try discriminate; simpl; lia.
  - cbn [echo_tree]. simpl in H3.
    destruct e; destruct args as [|a0 [|a1 r]]; try (simpl; lia).
    destruct (conversion_sugar name) as [s|]; try discriminate; simpl; lia.
Qed.

Lemma wf_bin_modes : forall m op a b,
  wf (echo_tree m (XBin op a b)) = wf (echo_tree Plain (XBin op a b)).
Proof.
  intros m op a b. destruct m; try reflexivity.
  cbn [echo_tree]. destruct op; try reflexivity. destruct a; try reflexivity. destruct b; reflexivity.
Qed.

Lemma lvl_choice : forall (c : bool) x k,
  (c = true -> k <= lvl (echo_tree Plain x)) -> k <= 11 ->
  k <= lvl (if c then echo_tree Plain x else echo_tree Liberal x).
Proof. intros [] x k H Hk; [apply H; reflexivity|]. pose proof (lvl_liberal x). lia. Qed.

Lemma wf_choice : forall (c : bool) m1 m2 x, (forall m, wf (echo_tree m x) = true) ->
  wf (if c then echo_tree m1 x else echo_tree m2 x) = true.
Proof. intros [] m1 m2 x H; apply H. Qed.

Lemma orb3 : forall a b c, a || b || c = true -> a = true \/ b = true \/ c = true.
Proof. intros [] [] []; simpl; auto. Qed.

Lemma wf_bin : forall op a b,
  (forall m, wf (echo_tree m a) = true) -> (forall m, wf (echo_tree m b) = true) ->
  printable_t (XBin op a b) = true ->
  wf (echo_tree Plain (XBin op a b)) = true.
Proof.
  intros op a b Wa Wb Hp. simpl in Hp. apply andb_prop in Hp. destruct Hp as [Hp Hop].
  pose proof (lvl_parens a) as LPa. pose proof (lvl_parens b) as LPb.
  destruct op.
  - (* Add *)
    cbn [echo_tree wf binlevel]. rewrite !wf_choice by assumption. cbn [andb].
    rewrite !leb_intro; [reflexivity| |].
    + apply lvl_choice; [|lia]. intros C. apply negb_true_iff in Hop. rewrite Hop, orb_false_r in C.
      apply orb_prop in C. destruct C as [C|C]; [pose proof (lvl_plain_power b C)|pose proof (lvl_plain_mul b C)]; lia.
    + apply lvl_choice; [|lia]. intros C. apply orb3 in C.
      destruct C as [C|[C|C]]; [pose proof (lvl_plain_power a C)|pose proof (lvl_plain_mul a C)|pose proof (lvl_plain_add a C)]; lia.
  - (* Sub *)
    cbn [echo_tree wf binlevel]. rewrite !wf_choice by assumption. cbn [andb].
    rewrite !leb_intro; [reflexivity| |].
    + apply lvl_choice; [|lia]. intros C.
      apply orb_prop in C. destruct C as [C|C]; [pose proof (lvl_plain_power b C)|pose proof (lvl_plain_mul b C)]; lia.
    + apply lvl_choice; [|lia]. intros C.
      apply orb_prop in C. destruct C as [C|C]; [pose proof (lvl_plain_power a C)|pose proof (lvl_plain_mul a C)]; lia.
  - (* Mul *)
    assert (Generic :
      (negb (bare_mul a b) || fused b = true) ->
      wf (SBin TMultiply (if is_power a || is_mul a then echo_tree Plain a else echo_tree Liberal a)
                         (if is_power b || bare_mul a b then echo_tree Plain b else echo_tree Liberal b)) = true).
    { intros Hb. cbn [wf binlevel]. rewrite !wf_choice by assumption. cbn [andb].
      rewrite !leb_intro; [reflexivity| |].
      - apply lvl_choice; [|lia]. intros C. apply orb_prop in C. destruct C as [C|C].
        + pose proof (lvl_plain_power b C). lia.
        + rewrite C in Hb. simpl in Hb. pose proof (lvl_plain_fused b Hb). lia.
      - apply lvl_choice; [|lia]. intros C.
        apply orb_prop in C. destruct C as [C|C]; [pose proof (lvl_plain_power a C)|pose proof (lvl_plain_mul a C)]; lia. }
    cbn [echo_tree].
    destruct a; try (apply Generic; exact Hop).
    destruct b; try (apply Generic; exact Hop);
      apply negb_true_iff in Hop; subst; reflexivity.
  - (* Div *)
    cbn [echo_tree wf binlevel]. rewrite !wf_choice by assumption. cbn [andb].
    rewrite !leb_intro; [reflexivity| |].
    + apply lvl_choice; [|lia]. intros C. pose proof (lvl_plain_power b C). lia.
    + apply lvl_choice; [|lia]. intros C.
      apply orb_prop in C. destruct C as [C|C]; [pose proof (lvl_plain_power a C)|pose proof (lvl_plain_mul a C)]; lia.
  - (* Power *)
    cbn [echo_tree]. destruct (is_two b); [|destruct (is_three b)]; cbn [wf]; rewrite ?Wa, ?Wb; cbn [andb];
      rewrite !leb_intro by lia; reflexivity.
  - (* ConvertTo *)
    cbn [echo_tree wf binlevel].
    assert (A1 : wf (if is_if a then echo_tree Parens a else echo_tree Plain a) = true) by (apply wf_choice; assumption).
    assert (B1 : wf (if is_if b || is_conv b || is_sugar b then echo_tree Parens b else echo_tree Plain b) = true)
      by (apply wf_choice; assumption).
    rewrite A1, B1. cbn [andb]. rewrite !leb_intro; [reflexivity| |].
    + destruct (is_if b) eqn:I1; [cbn [orb]; lia|]. destruct (is_conv b) eqn:I2; [cbn [orb]; lia|].
      destruct (is_sugar b) eqn:I3; [cbn [orb]; lia|]. cbn [orb]. apply lvl_plain_ge3; assumption.
    + destruct (is_if a) eqn:I1; [lia|]. apply lvl_plain_ge2. assumption.
  - cbn [echo_tree token_of_binop wf binlevel]. rewrite Wa, Wb. cbn [andb]. rewrite !leb_intro by lia. reflexivity.
  - cbn [echo_tree token_of_binop wf binlevel]. rewrite Wa, Wb. cbn [andb]. rewrite !leb_intro by lia. reflexivity.
  - cbn [echo_tree token_of_binop wf binlevel]. rewrite Wa, Wb. cbn [andb]. rewrite !leb_intro by lia. reflexivity.
  - cbn [echo_tree token_of_binop wf binlevel]. rewrite Wa, Wb. cbn [andb]. rewrite !leb_intro by lia. reflexivity.
  - cbn [echo_tree token_of_binop wf binlevel]. rewrite Wa, Wb. cbn [andb]. rewrite !leb_intro by lia. reflexivity.
  - cbn [echo_tree token_of_binop wf binlevel]. rewrite Wa, Wb. cbn [andb]. rewrite !leb_intro by lia. reflexivity.
  - cbn [echo_tree token_of_binop wf binlevel]. rewrite Wa, Wb. cbn [andb]. rewrite !leb_intro by lia. reflexivity.
  - cbn [echo_tree token_of_binop wf binlevel]. rewrite Wa, Wb. cbn [andb]. rewrite !leb_intro by lia. reflexivity.
Qed.

Lemma forallb_map_wf : forall (args : list texpr),
  (forall a, In a args -> wf (echo_tree Plain a) = true) ->
  forallb wf (map (echo_tree Plain) args) = true.
Proof.
  intros args H. apply forallb_forall. intros s Hs. apply in_map_iff in Hs.
  destruct Hs as (a & <- & Ha). apply H. exact Ha.
Qed.

Theorem wf_echo : forall n e, tsize e < n -> printable_t e = true ->
  forall m, wf (echo_tree m e) = true.
Proof.
  induction n; intros e Hs Hp m; [lia|].
  destruct e; simpl in Hs.
  - destruct m, negative; reflexivity.
  - reflexivity.
  - reflexivity.
  - (* XNeg *)
    simpl in Hp. pose proof (IHn e ltac:(lia) Hp Parens) as W. pose proof (lvl_parens e).
    destruct m; cbn [echo_tree wrapm wf]; rewrite W, leb_intro by lia; reflexivity.
  - (* XFact *)
    simpl in Hp. pose proof (IHn e ltac:(lia) Hp Parens) as W. pose proof (lvl_parens e).
    destruct m; cbn [echo_tree wrapm wf]; rewrite W, leb_intro by lia; reflexivity.
  - (* XNot *)
    simpl in Hp. pose proof (IHn e ltac:(lia) Hp Parens) as W. pose proof (lvl_parens e).
    destruct m; cbn [echo_tree wrapm wf]; rewrite W, leb_intro by lia; reflexivity.
  - (* XBin *)
    rewrite wf_bin_modes. pose proof Hp as Hp'. simpl in Hp'.
    apply andb_prop in Hp'. destruct Hp' as [Hp' _]. apply andb_prop in Hp'. destruct Hp' as [Hp1 Hp2].
    apply wf_bin; [intros m'; apply IHn; [lia|exact Hp1] | intros m'; apply IHn; [lia|exact Hp2] | exact Hp].
  - (* XCall *)
    simpl in Hp.
    assert (HA : forall a, In a args -> forall m', wf (echo_tree m' a) = true).
    { intros a Ha m'. apply IHn. pose proof (tsize_in a args Ha). lia. eapply forallb_forall in Hp; eauto. }
    assert (Generic : wf (SCall (SIdent name) (map (echo_tree Plain) args)) = true).
    { cbn [wf lvl]. rewrite forallb_map_wf by (intros a Ha; apply HA; exact Ha). reflexivity. }
    cbn [echo_tree].
    destruct (call_sugar name) as [[u|u]|]; destruct args as [|a0 [|a1 r]]; destruct m; try exact Generic.
    + cbn [sugar_tree wf lvl pr could_start_power starts_lparen]. rewrite (HA a0 (or_introl eq_refl) Liberal).
      pose proof (lvl_liberal a0). rewrite !leb_intro by lia. reflexivity.
    + cbn [sugar_tree wf binlevel lvl]. rewrite (HA a0 (or_introl eq_refl) Liberal).
      pose proof (lvl_liberal a0). rewrite !leb_intro by lia. reflexivity.
  - (* XCallable *)
    simpl in Hp. apply andb_prop in Hp. destruct Hp as [Hc Hargs].
    assert (HA : forall a, In a args -> forall m', wf (echo_tree m' a) = true).
    { intros a Ha m'. apply IHn. pose proof (tsize_in a args Ha). lia. eapply forallb_forall in Hargs; eauto. }
    assert (Generic : wf (SCall (echo_tree Parens e) (map (echo_tree Plain) args)) = true).
    { cbn [wf]. rewrite (IHn e ltac:(lia) Hc Parens). pose proof (lvl_parens e). rewrite leb_intro by lia.
      rewrite forallb_map_wf by (intros a Ha; apply HA; exact Ha). reflexivity. }
    cbn [echo_tree].
    destruct e; try exact Generic.
    destruct args as [|a0 [|a1 r]]; try exact Generic. destruct m; try exact Generic.
    destruct (conversion_sugar name) as [[u|u]|]; try exact Generic.
    + cbn [sugar_tree wf lvl pr could_start_power starts_lparen]. rewrite (HA a0 (or_introl eq_refl) Liberal).
      pose proof (lvl_liberal a0). rewrite !leb_intro by lia. reflexivity.
    + cbn [sugar_tree wf binlevel lvl]. rewrite (HA a0 (or_introl eq_refl) Liberal).
      pose proof (lvl_liberal a0). rewrite !leb_intro by lia. reflexivity.
  - destruct m; reflexivity.
  - destruct m; reflexivity.
  - (* XInterp *)
    rewrite echo_interp. cbn [wf]. simpl in Hp.
    destruct items as [|it items']; [discriminate|].
    assert (G : forallb (fun it0 : sx * option str * str => wf (fst (fst it0)))
                  (echo_items (echo_tree Plain) (it :: items')) = true).
    { apply echo_items_wf. intros a f s Ha. apply IHn; [pose proof (tsize_in_items a f s _ Ha); lia|].
      eapply forallb_forall in Hp; [|exact Ha]. exact Hp. }
    destruct it as [[a f] s]. cbn [echo_items] in *. exact G.
  - (* XIf *)
    simpl in Hp. apply andb_prop in Hp. destruct Hp as [Hp H3]. apply andb_prop in Hp. destruct Hp as [H1 H2].
    pose proof (IHn e1 ltac:(lia) H1 Parens) as W1. pose proof (IHn e2 ltac:(lia) H2 Parens) as W2.
    pose proof (IHn e3 ltac:(lia) H3 Parens) as W3.
    pose proof (lvl_parens e1). pose proof (lvl_parens e2). pose proof (lvl_parens e3).
    destruct m; cbn [echo_tree wrapm wf]; rewrite W1, W2, W3; cbn [andb]; rewrite !leb_intro by lia; reflexivity.
  - (* XField *)
    simpl in Hp. pose proof (IHn e ltac:(lia) Hp Parens) as W. pose proof (lvl_parens e).
    destruct m; cbn [echo_tree wf]; rewrite W, leb_intro by lia; reflexivity.
  - destruct m; reflexivity.
  - (* XList *)
    simpl in Hp. destruct m; cbn [echo_tree wf]; apply forallb_map_wf; intros a Ha; apply IHn;
      try (pose proof (tsize_in a es Ha); lia); eapply forallb_forall in Hp; eauto.
  - (* XStruct *)
    simpl in Hp.
    assert (G : forallb (fun fe : str * sx => wf (snd fe))
                  (map (fun fe : str * texpr => (fst fe, echo_tree Plain (snd fe))) fields) = true).
    { apply forallb_forall. intros s Hs'. apply in_map_iff in Hs'. destruct Hs' as ([f a] & <- & Ha). simpl.
      apply IHn; [pose proof (tsize_in_fields f a fields Ha); lia|].
      eapply forallb_forall in Hp; [|exact Ha]. exact Hp. }
    destruct m; cbn [echo_tree wf]; exact G.
Qed.

(* the echo of every printable expression is read back, as the tree its concrete syntax denotes *)
Definition reread (e : texpr) : expr := desugar (echo_tree Plain e).

Theorem echo_roundtrip : forall e, printable_t e = true -> parse (pp e) = Ok [StExpr (reread e)] [].
Proof.
  intros e Hp. unfold pp, reread. apply roundtrip. eapply wf_echo; eauto.
Qed.

(* ---- what is read back *)
Lemma desugar_bin_modes : forall m op a b,
  desugar (echo_tree m (XBin op a b)) = desugar (echo_tree Plain (XBin op a b)).
Proof.
  intros m op a b. destruct m; try reflexivity.
  cbn [echo_tree]. destruct op; try reflexivity. destruct a; try reflexivity. destruct b; reflexivity.
Qed.

Lemma desugar_choice : forall (c : bool) m1 m2 x r,
  (forall m, desugar (echo_tree m x) = r) ->
  desugar (if c then echo_tree m1 x else echo_tree m2 x) = r.
Proof. intros [] m1 m2 x r H; apply H. Qed.

Lemma desugar_num_tree : forall neg d, no_underscore d = true ->
  desugar (num_tree neg d) = erase (XScalar neg d).
Proof.
  intros neg d H. destruct neg; simpl; rewrite remove_underscores_id by exact H; reflexivity.
Qed.

Lemma map_desugar_echo : forall (args : list texpr),
  (forall a, In a args -> desugar (echo_tree Plain a) = erase a) ->
  map desugar (map (echo_tree Plain) args) = map erase args.
Proof.
  intros args H. rewrite map_map. apply map_ext_in. exact H.
Qed.

Theorem desugar_echo : forall n e, tsize e < n -> exact_t e = true ->
  forall m, desugar (echo_tree m e) = erase e.
Proof.
  induction n; intros e Hs Hx m; [lia|].
  destruct e; simpl in Hs.
  - simpl in Hx. destruct m; cbn [echo_tree]; try (destruct negative; cbn [desugar]); apply desugar_num_tree; exact Hx.
  - reflexivity.
  - reflexivity.
  - simpl in Hx. pose proof (IHn e ltac:(lia) Hx Parens) as D. destruct m; cbn [echo_tree wrapm desugar erase]; rewrite D; reflexivity.
  - simpl in Hx. pose proof (IHn e ltac:(lia) Hx Parens) as D. destruct m; cbn [echo_tree wrapm desugar erase]; rewrite D; reflexivity.
  - simpl in Hx. pose proof (IHn e ltac:(lia) Hx Parens) as D. destruct m; cbn [echo_tree wrapm desugar erase]; rewrite D; reflexivity.
  - (* XBin *)
    rewrite desugar_bin_modes. simpl in Hx. apply andb_prop in Hx. destruct Hx as [H1 H2].
    assert (Da : forall m', desugar (echo_tree m' e1) = erase e1) by (intros; apply IHn; [lia|exact H1]).
    assert (Db : forall m', desugar (echo_tree m' e2) = erase e2) by (intros; apply IHn; [lia|exact H2]).
    destruct op; cbn [echo_tree erase];
      try (cbn [desugar binop_of token_of_binop]; rewrite ?(desugar_choice _ _ _ _ _ Da), ?(desugar_choice _ _ _ _ _ Db), ?Da, ?Db; reflexivity).
    + (* Mul *)
      assert (Generic :
        desugar (SBin TMultiply (if is_power e1 || is_mul e1 then echo_tree Plain e1 else echo_tree Liberal e1)
                                (if is_power e2 || bare_mul e1 e2 then echo_tree Plain e2 else echo_tree Liberal e2))
        = EBin Mul (erase e1) (erase e2)).
      { cbn [desugar binop_of]. rewrite (desugar_choice _ _ _ _ _ Da), (desugar_choice _ _ _ _ _ Db). reflexivity. }
      destruct e1; try exact Generic. destruct e2; try exact Generic;
        cbn [desugar]; simpl in H1; rewrite desugar_num_tree by exact H1; reflexivity.
    + (* Power *)
      destruct (is_two e2); [|destruct (is_three e2)]; cbn [desugar]; rewrite ?Da, ?Db; reflexivity.
  - (* XCall *)
    simpl in Hx. apply andb_prop in Hx. destruct Hx as [Hn Hargs].
    destruct (call_sugar name) as [s|] eqn:Cs; [discriminate|].
    assert (HA : forall a, In a args -> desugar (echo_tree Plain a) = erase a).
    { intros a Ha. apply IHn. pose proof (tsize_in a args Ha). lia. eapply forallb_forall in Hargs; eauto. }
    cbn [echo_tree]. rewrite Cs. cbn [desugar erase]. rewrite map_desugar_echo by exact HA. reflexivity.
  - (* XCallable *)
    simpl in Hx. apply andb_prop in Hx. destruct Hx as [Hx Hsug]. apply andb_prop in Hx. destruct Hx as [Hc Hargs].
    assert (HA : forall a, In a args -> desugar (echo_tree Plain a) = erase a).
    { intros a Ha. apply IHn. pose proof (tsize_in a args Ha). lia. eapply forallb_forall in Hargs; eauto. }
    assert (Generic : desugar (SCall (echo_tree Parens e) (map (echo_tree Plain) args)) = erase (XCallable e args)).
    { cbn [desugar erase]. rewrite (IHn e ltac:(lia) Hc Parens), map_desugar_echo by exact HA. reflexivity. }
    cbn [echo_tree].
    destruct e; try exact Generic.
    destruct args as [|a0 [|a1 r]]; try exact Generic. destruct m; try exact Generic.
    destruct (conversion_sugar name) as [s|]; [discriminate|exact Generic].
  - destruct m; reflexivity.
  - destruct m; cbn [echo_tree desugar erase]; rewrite string_escape_roundtrip; reflexivity.
  - (* XInterp *)
    rewrite echo_interp. cbn [desugar erase]. rewrite string_escape_roundtrip_delim. simpl in Hx.
    f_equal. f_equal. f_equal.
    assert (HA : forall a f s, In (a, f, s) items -> desugar (echo_tree Plain a) = erase a).
    { intros a f s Ha. apply IHn; [pose proof (tsize_in_items a f s _ Ha); lia|].
      eapply forallb_forall in Hx; [|exact Ha]. exact Hx. }
    clear - HA. induction items as [|[[a f] s] r IH]; [reflexivity|].
    cbn [echo_items flat_map fst snd]. rewrite string_escape_roundtrip_delim.
    rewrite (HA a f s (or_introl eq_refl)). rewrite IH; [reflexivity|].
    intros b g t Hb. apply (HA b g t). right. exact Hb.
  - (* XIf *)
    simpl in Hx. apply andb_prop in Hx. destruct Hx as [Hx H3]. apply andb_prop in Hx. destruct Hx as [H1 H2].
    pose proof (IHn e1 ltac:(lia) H1 Parens) as D1. pose proof (IHn e2 ltac:(lia) H2 Parens) as D2.
    pose proof (IHn e3 ltac:(lia) H3 Parens) as D3.
    destruct m; cbn [echo_tree wrapm desugar erase]; rewrite D1, D2, D3; reflexivity.
  - simpl in Hx. pose proof (IHn e ltac:(lia) Hx Parens) as D. destruct m; cbn [echo_tree desugar erase]; rewrite D; reflexivity.
  - destruct m; reflexivity.
  - (* XList *)
    simpl in Hx.
    assert (HA : forall a, In a es -> desugar (echo_tree Plain a) = erase a).
    { intros a Ha. apply IHn. pose proof (tsize_in a es Ha). lia. eapply forallb_forall in Hx; eauto. }
    destruct m; cbn [echo_tree desugar erase]; rewrite map_desugar_echo by exact HA; reflexivity.
  - (* XStruct *)
    simpl in Hx.
    assert (G : map (fun fe : str * sx => (fst fe, desugar (snd fe)))
                  (map (fun fe : str * texpr => (fst fe, echo_tree Plain (snd fe))) fields)
                = map (fun fe : str * texpr => (fst fe, erase (snd fe))) fields).
    { rewrite map_map. apply map_ext_in. intros [f a] Ha. simpl. f_equal.
      apply IHn; [pose proof (tsize_in_fields f a fields Ha); lia|].
      eapply forallb_forall in Hx; [|exact Ha]. exact Hx. }
    destruct m; cbn [echo_tree desugar erase]; rewrite G; reflexivity.
Qed.

Theorem echo_roundtrip_exact : forall e, printable_t e = true -> exact_t e = true ->
  parse (pp e) = Ok [StExpr (erase e)] [].
Proof.
  intros e Hp Hx. rewrite (echo_roundtrip e Hp). unfold reread.
  rewrite (desugar_echo (S (tsize e)) e ltac:(lia) Hx Plain). reflexivity.
Qed.
