(* C10 — proofs about Syntax/Parser.v: every well-formed derivation tree of the
   documented grammar (Syntax/Grammar.v) is read back by the parser model as
   the tree the documentation prescribes. *)
From Coq Require Import List NArith ZArith Bool Arith Lia.
From NV Require Import Syntax.Token Syntax.Ast Syntax.StrEsc Syntax.Parser Syntax.Grammar.
Import ListNotations.
Local Open Scope nat_scope.
Local Arguments Nat.leb : simpl never.
Local Arguments Nat.ltb : simpl never.

(* ---- the parser function of each precedence level, at nesting depth d *)
Definition L (d k : nat) : parser :=
  let ex := expression_d d in
  match k with
  | 0 => postfix_apply ex | 1 => condition ex | 2 => conversion ex | 3 => logical_or ex
  | 4 => logical_and ex | 5 => logical_neg ex | 6 => comparison ex | 7 => term ex
  | 8 => factor ex | 9 => per_factor ex | 10 => unary ex | 11 => ifactor ex
  | 12 => power ex | 13 => factorial ex | 14 => unicode_power ex | 15 => call ex
  | _ => primary ex
  end.

(* the loop of the left-recursive levels *)
Definition loopfn (d k : nat) : option (nat -> expr -> list token -> res expr) :=
  let ex := expression_d d in
  match k with
  | 0 => Some (postfix_loop ex)
  | 2 => Some (fun m => binop_loop m ops_conversion (L d 3))
  | 3 => Some (fun m => binop_loop m ops_or (L d 4))
  | 4 => Some (fun m => binop_loop m ops_and (L d 5))
  | 6 => Some (fun m => binop_loop m ops_comparison (L d 7))
  | 7 => Some (fun m => binop_loop m ops_term (L d 8))
  | 8 => Some (fun m => binop_loop m ops_factor (L d 9))
  | 9 => Some (fun m => binop_loop m ops_per (L d 10))
  | 11 => Some (ifactor_loop ex)
  | 15 => Some (call_loop ex)
  | _ => None
  end.

(* level at which a token continues an expression to its left *)
Definition contlvl (t : token) : option nat :=
  match t with
  | TPostfixApply => Some 0
  | TArrow | TTo => Some 2
  | TLogicalOr => Some 3
  | TLogicalAnd => Some 4
  | TLessThan | TGreaterThan | TLessOrEqual | TGreaterOrEqual | TEqualEqual | TNotEqual => Some 6
  | TPlus | TMinus => Some 7
  | TMultiply | TDivide => Some 8
  | TPer => Some 9
  | TNumber _ | TIdent _ | TQuestionMark | TLParen => Some 11
  | TPower => Some 12
  | TExcl => Some 13
  | TUnicodeExponent _ => Some 14
  | TLCurly => Some 16
  | _ => None
  end.
Definition callcont (t : token) : bool := match t with TLParen | TPeriod => true | _ => false end.

Definition blocks (k : nat) (tok : token) : bool :=
  match contlvl tok with Some j => k <=? j | None => false end.

(* what may follow a tree that is parsed by the level-k function *)
Definition follow (k : nat) (t : sx) (rest : list token) : bool :=
  match rest with
  | [] => true
  | tok :: _ => negb (blocks k tok) && negb ((k <=? 15) && ends_call t && callcont tok)
  end.

(* level of the prefix constructs a token opens *)
Definition prefixlvl (t : token) : nat :=
  match t with TIf => 1 | TExcl => 5 | TMinus | TPlus => 10 | _ => 16 end.
Definition is_first (t : token) : bool :=
  match t with
  | TNumber _ | TIntBase _ _ | TNaN | TInf | TIdent _ | TQuestionMark | TTrue | TFalse | TString _
  | TLParen | TMinus | TPlus | TExcl | TIf => true
  | _ => false
  end.

Definition nocont (k : nat) (rest : list token) : Prop :=
  match rest with
  | [] => True
  | tok :: _ => contlvl tok <> Some k /\ (k = 15 -> callcont tok = false)
  end.
Definition noprefix (k : nat) (ts : list token) : Prop :=
  match ts with [] => True | tok :: _ => k < prefixlvl tok end.

Ltac split_k k n :=
  match n with
  | O => idtac
  | S ?n' => destruct k as [|k]; [| split_k k n']
  end.

Lemma L_loop : forall d k lf ts,
  loopfn d k = Some lf ->
  L d k ts = bind (L d (S k) ts) (fun e rest => lf (S (length rest)) e rest).
Proof.
  intros d k lf ts H.
  do 16 (destruct k as [|k]; [try discriminate; inversion H; subst; reflexivity|]).
  discriminate.
Qed.

Lemma loop_exit : forall d k lf m acc rest,
  loopfn d k = Some lf -> 1 <= m -> nocont k rest -> lf m acc rest = Ok acc rest.
Proof.
  intros d k lf m acc rest H Hm Hn.
  destruct m as [|m]; [lia|].
  do 16 (destruct k as [|k];
         [first [discriminate
                | solve [inversion H; subst; clear H; simpl;
                         destruct rest as [|tok r]; [reflexivity|];
                         destruct Hn as [Hn1 Hn2];
                         destruct tok; try reflexivity; simpl in *;
                         try (exfalso; apply Hn1; reflexivity);
                         try (specialize (Hn2 eq_refl); discriminate)]]|]).
  discriminate.
Qed.

(* going down one level: the level-k function returns what level k+1 returned
   when the input does not open a level-k prefix form and what follows does not
   continue level k *)
Lemma descend : forall d k ts e rest,
  k < 16 -> L d (S k) ts = Ok e rest -> noprefix k ts -> nocont k rest ->
  L d k ts = Ok e rest.
Proof.
  intros d k ts e rest Hk H Hp Hn.
  destruct (loopfn d k) as [lf|] eqn:Hl.
  - rewrite (L_loop d k lf ts Hl), H. simpl. eapply loop_exit; eauto. lia.
  - split_k k 16; try discriminate; try lia.
    + (* 1 condition *)
      unfold L, condition. unfold L in H. cbn [condition_n].
      destruct ts as [|tok r]; [exact H|]. destruct tok; try exact H. simpl in Hp. lia.
    + (* 5 logical_neg *)
      unfold L, logical_neg. unfold L in H. cbn [logical_neg_n].
      destruct ts as [|tok r]; [exact H|]. destruct tok; try exact H. simpl in Hp. lia.
    + (* 10 unary *)
      unfold L, unary. unfold L in H. cbn [unary_n].
      destruct ts as [|tok r]; [exact H|]. destruct tok; try exact H; simpl in Hp; lia.
    + (* 12 power *)
      unfold L, power. unfold L in H. cbn [power_n]. rewrite H. simpl.
      destruct rest as [|tok r]; [reflexivity|]. destruct Hn as [Hn _].
      destruct tok; try reflexivity. exfalso; apply Hn; reflexivity.
    + (* 13 factorial *)
      unfold L, factorial. unfold L in H. rewrite H. simpl.
      destruct rest as [|tok r]; [reflexivity|]. destruct Hn as [Hn _].
      destruct tok; try reflexivity. exfalso; apply Hn; reflexivity.
    + (* 14 unicode_power *)
      unfold L, unicode_power. unfold L in H. rewrite H. simpl.
      destruct rest as [|tok r]; [reflexivity|]. destruct Hn as [Hn _].
      destruct tok; try reflexivity. exfalso; apply Hn; reflexivity.
Qed.

(* ---- basic facts about trees *)
Ltac wf_split :=
  repeat match goal with
         | H : _ && _ = true |- _ => apply andb_prop in H; destruct H
         | H : (_ <=? _) = true |- _ => apply Nat.leb_le in H
         | H : negb _ = true |- _ => apply negb_true_iff in H
         end.

Lemma lvl_le_16 : forall t, lvl t <= 16.
Proof.
  destruct t; simpl; try lia. destruct op; simpl; lia.
Qed.

Lemma lvl16_ends_call : forall t, lvl t = 16 -> ends_call t = true.
Proof.
  destruct t; simpl; intros H; try reflexivity; try discriminate.
  destruct op; simpl in H; discriminate.
Qed.

Lemma pr_first : forall t, wf t = true ->
  exists tok r, pr t = tok :: r /\ is_first tok = true /\ lvl t <= prefixlvl tok.
Proof.
  assert (Leaf : forall t tok r, pr t = tok :: r -> is_first tok = true -> lvl t <= prefixlvl tok ->
                 exists tok r, pr t = tok :: r /\ is_first tok = true /\ lvl t <= prefixlvl tok).
  { intros. eauto. }
  induction t; intros W; simpl in W; wf_split;
    try (eapply Leaf; [reflexivity|reflexivity|simpl; lia]).
  - destruct b; (eapply Leaf; [reflexivity|reflexivity|simpl; lia]).
  - destruct (IHt H) as (tok & r & E & F & Lv). simpl. rewrite E. simpl.
    eexists; eexists; repeat split; eauto. lia.
  - destruct (IHt H) as (tok & r & E & F & Lv). simpl. rewrite E. simpl.
    eexists; eexists; repeat split; eauto. lia.
  - destruct (IHt H) as (tok & r & E & F & Lv). simpl. rewrite E. simpl.
    eexists; eexists; repeat split; eauto. lia.
  - destruct (IHt H) as (tok & r & E & F & Lv). simpl pr. rewrite E. simpl.
    eexists; eexists; repeat split; eauto. lia.
  - destruct (IHt1 H) as (tok & r & E & F & Lv). simpl. rewrite E. simpl.
    eexists; eexists; repeat split; eauto. lia.
  - destruct (IHt1 H) as (tok & r & E & F & Lv). simpl. rewrite E. simpl.
    eexists; eexists; repeat split; eauto. lia.
  - destruct (binlevel op) as [k|] eqn:B; [|discriminate]. wf_split.
    destruct (IHt1 H) as (tok & r & E & F & Lv). simpl. rewrite E, B. simpl.
    eexists; eexists; repeat split; eauto. lia.
  - destruct (IHt1 H) as (tok & r & E & F & Lv). simpl. rewrite E. simpl.
    eexists; eexists; repeat split; eauto. lia.
Qed.

Lemma pr_nonempty : forall t, wf t = true -> 1 <= length (pr t).
Proof.
  intros t W. destruct (pr_first t W) as (tok & r & E & _). rewrite E. simpl. lia.
Qed.

(* nesting depth of parentheses / argument lists *)
Fixpoint depth (t : sx) : nat :=
  match t with
  | SParen e => S (depth e)
  | SCall f args => Nat.max (depth f) (S (list_max (map depth args)))
  | SField e _ | SUPow e _ | SFact e _ | SNeg e | SPos e | SNot e => depth e
  | SPow a _ b | SIMul a b | SBin _ a b | SApply a b => Nat.max (depth a) (depth b)
  | SIf c t e => Nat.max (depth c) (Nat.max (depth t) (depth e))
  | _ => 0
  end.

Fixpoint size (t : sx) : nat :=
  match t with
  | SParen e | SField e _ | SUPow e _ | SFact e _ | SNeg e | SPos e | SNot e => S (size e)
  | SCall f args => S (size f + list_sum (map size args))
  | SPow a _ b | SIMul a b | SBin _ a b | SApply a b => S (size a + size b)
  | SIf c t e => S (size c + size t + size e)
  | _ => 1
  end.

Lemma size_in : forall (a : sx) args, In a args -> size a <= list_sum (map size args).
Proof.
  induction args; simpl; intros H; [tauto|]. destruct H as [->|H]; [lia|]. specialize (IHargs H). lia.
Qed.

Lemma depth_in : forall (a : sx) args, In a args -> depth a <= list_max (map depth args).
Proof.
  induction args; simpl; intros H; [tauto|]. destruct H as [->|H]; [lia|]. specialize (IHargs H). lia.
Qed.

(* ---- follow sets *)
Lemma follow_nil : forall k t, follow k t [] = true.
Proof. reflexivity. Qed.

Lemma follow_mono : forall k j t rest, follow k t rest = true -> k <= j -> follow j t rest = true.
Proof.
  intros k j t [|tok r] H Hkj; [reflexivity|]. unfold follow, blocks in *.
  apply andb_prop in H. destruct H as [H1 H2]. apply andb_true_intro. split.
  - destruct (contlvl tok) as [c|]; [|reflexivity].
    apply negb_true_iff in H1. apply Nat.leb_gt in H1. apply negb_true_iff. apply Nat.leb_gt. lia.
  - apply negb_true_iff in H2. apply negb_true_iff.
    destruct (j <=? 15) eqn:J; [|reflexivity]. apply Nat.leb_le in J.
    assert (K : (k <=? 15) = true) by (apply Nat.leb_le; lia). rewrite K in H2. exact H2.
Qed.

Lemma follow_ends : forall k t t' rest, ends_call t = ends_call t' -> follow k t rest = follow k t' rest.
Proof. intros k t t' [|tok r] E; [reflexivity|]. unfold follow. rewrite E. reflexivity. Qed.

Lemma follow_nocont : forall k j t rest,
  follow k t rest = true -> k <= j -> j < 16 -> (j = 15 -> ends_call t = true) -> nocont j rest.
Proof.
  intros k j t [|tok r] H Hkj Hj He; [exact I|]. unfold follow, blocks in H.
  apply andb_prop in H. destruct H as [H1 H2]. split.
  - intros C. rewrite C in H1. apply negb_true_iff in H1. apply Nat.leb_gt in H1. lia.
  - intros ->. rewrite (He eq_refl) in H2. apply negb_true_iff in H2.
    assert (K : (k <=? 15) = true) by (apply Nat.leb_le; lia). rewrite K in H2. simpl in H2. exact H2.
Qed.

Lemma follow_tok : forall k t tok r,
  (match contlvl tok with Some j => j < k | None => True end) -> callcont tok = false ->
  follow k t (tok :: r) = true.
Proof.
  intros k t tok r H C. unfold follow, blocks. rewrite C.
  rewrite andb_false_r. simpl. rewrite andb_true_r. apply negb_true_iff.
  destruct (contlvl tok); [apply Nat.leb_gt; lia|reflexivity].
Qed.

(* ---- closing a tree's own-level facts downwards *)
Definition P (d : nat) (t : sx) (k : nat) : Prop :=
  forall rest, follow k t rest = true -> L d k (pr t ++ rest) = Ok (desugar t) rest.

Definition LoopForm (d : nat) (t : sx) (k : nat) : Prop :=
  forall lf, loopfn d k = Some lf ->
  forall rest, follow (S k) t rest = true ->
  exists m, S (length rest) <= m /\ L d k (pr t ++ rest) = lf m (desugar t) rest.

Lemma P_down : forall d t, wf t = true -> P d t (lvl t) -> forall k, k <= lvl t -> P d t k.
Proof.
  intros d t W Own k Hk. remember (lvl t - k) as n eqn:Hn. revert k Hk Hn.
  induction n; intros k Hk Hn.
  - assert (k = lvl t) by lia. subst k. exact Own.
  - intros rest F. pose proof (lvl_le_16 t) as L16.
    apply descend; try lia.
    + apply (IHn (S k)); try lia. eapply follow_mono; eauto.
    + destruct (pr_first t W) as (tok & r & E & _ & Lv). rewrite E. simpl. lia.
    + eapply follow_nocont; eauto; try lia. intros ->. apply lvl16_ends_call. lia.
Qed.

Lemma Loop_down : forall d t k, P d t (S k) -> LoopForm d t k.
Proof.
  intros d t k HP lf Hl rest F. exists (S (length rest)). split; [lia|].
  rewrite (L_loop d k lf _ Hl). rewrite (HP rest F). reflexivity.
Qed.

(* own loop form + exit gives the own-level statement *)
Lemma P_of_loop : forall d t k lf, loopfn d k = Some lf -> LoopForm d t k ->
  (k = 15 -> ends_call t = true) -> k < 16 -> P d t k.
Proof.
  intros d t k lf Hl HL He Hk rest F.
  destruct (HL lf Hl rest (follow_mono _ _ _ _ F (Nat.le_succ_diag_r k))) as (m & Hm & E).
  rewrite E. eapply loop_exit; eauto; try lia.
  eapply follow_nocont; eauto.
Qed.

(* ---- helper facts about the parser functions *)
Lemma skip_first : forall tok r, is_first tok = true -> skip_empty_lines (tok :: r) = tok :: r.
Proof. intros tok r H. destruct tok; try discriminate; reflexivity. Qed.

Lemma arguments_first : forall ex tok r, is_first tok = true ->
  arguments ex (tok :: r) = bind (ex (tok :: r)) (fun e rest => arguments_loop ex (S (length rest)) [e] rest).
Proof. intros ex tok r H. destruct tok; try discriminate; reflexivity. Qed.

Lemma arguments_loop_comma : forall ex n acc tok r, is_first tok = true ->
  arguments_loop ex (S n) acc (TComma :: tok :: r) =
  match ex (tok :: r) with
  | Ok e rest => arguments_loop ex n (acc ++ [e]) rest
  | Err _ => Err MissingClosingParen
  | OutOfFuel => OutOfFuel
  | Unsupported => Unsupported
  end.
Proof. intros ex n acc tok r H. destruct tok; try discriminate; reflexivity. Qed.

Fixpoint tailp (r : list sx) : list token :=
  match r with [] => [] | a :: r' => TComma :: pr a ++ tailp r' end.

Lemma pr_args_cons : forall a r, pr_args (a :: r) = pr a ++ tailp r.
Proof.
  intros a r. revert a. induction r as [|b r IH]; intros a; simpl.
  - reflexivity.
  - f_equal. f_equal. apply (IH b).
Qed.

Lemma pr_call : forall f args, pr (SCall f args) = pr f ++ TLParen :: pr_args args ++ [TRParen].
Proof. reflexivity. Qed.

Lemma count_excl_repeat : forall n rest,
  (match rest with TExcl :: _ => False | _ => True end) ->
  count_excl (repeat TExcl n ++ rest) = (n, rest).
Proof.
  induction n; intros rest H; simpl.
  - destruct rest as [|tok r]; [reflexivity|]. destruct tok; try reflexivity. contradiction.
  - rewrite (IHn rest H). reflexivity.
Qed.

Lemma power_n_mono : forall ex n ts e rest, power_n ex n ts = Ok e rest ->
  forall n', n <= n' -> power_n ex n' ts = Ok e rest.
Proof.
  induction n; intros ts e rest H n' Hn; [discriminate|].
  destruct n' as [|n']; [lia|]. simpl in *.
  destruct (factorial ex ts) as [e0 r0| | |]; simpl in *; try discriminate.
  destruct r0 as [|t1 r1]; [exact H|]. destruct t1; try exact H.
  destruct r1 as [|t2 r2].
  - destruct (power_n ex n []) eqn:E; simpl in H; try discriminate.
    rewrite (IHn _ _ _ E n'); [exact H|lia].
  - destruct t2;
      match goal with
      | H : bind (power_n ex n ?X) _ = _ |- _ =>
          destruct (power_n ex n X) eqn:E; simpl in H; try discriminate;
          rewrite (IHn _ _ _ E n'); [exact H|lia]
      end.
Qed.

Lemma condition_n_mono : forall ex n ts e rest, condition_n ex n ts = Ok e rest ->
  forall n', n <= n' -> condition_n ex n' ts = Ok e rest.
Proof.
  induction n; intros ts e rest H n' Hn; [discriminate|].
  destruct n' as [|n']; [lia|]. simpl in *.
  destruct ts as [|t0 r0]; [exact H|]. destruct t0; try exact H.
  destruct (conversion ex r0) as [c r1| | |]; simpl in *; try discriminate.
  destruct (skip_empty_lines r1) as [|t1 r2]; [exact H|]. destruct t1; try exact H.
  destruct (condition_n ex n (skip_empty_lines r2)) as [t r3| | |] eqn:E1; simpl in H; try discriminate.
  rewrite (IHn _ _ _ E1 n'); [|lia]. simpl.
  destruct (skip_empty_lines r3) as [|t2 r4]; [exact H|]. destruct t2; try exact H.
  destruct (condition_n ex n (skip_empty_lines r4)) as [f r5| | |] eqn:E2; simpl in H; try discriminate.
  rewrite (IHn _ _ _ E2 n'); [|lia]. exact H.
Qed.

Lemma lvl15_ends_call : forall t, 15 <= lvl t -> ends_call t = true.
Proof.
  destruct t; simpl; intros H; try reflexivity; try lia.
  destruct op; simpl in H; lia.
Qed.

Lemma binop_step : forall d k op lf m acc r,
  binlevel op = Some k -> loopfn d k = Some lf ->
  lf (S m) acc (op :: r) = bind (L d (S k) r) (fun rhs rest => lf m (EBin (binop_of op) acc rhs) rest).
Proof.
  intros d k op lf m acc r B Hl.
  destruct op; try discriminate; inversion B; subst; inversion Hl; subst; reflexivity.
Qed.

Lemma binlevel_cont : forall op k, binlevel op = Some k -> contlvl op = Some k /\ callcont op = false.
Proof. intros op k B. destruct op; try discriminate; inversion B; split; reflexivity. Qed.

Lemma binlevel_loop : forall d op k, binlevel op = Some k -> exists lf, loopfn d k = Some lf.
Proof. intros d op k B. destruct op; try discriminate; inversion B; eexists; reflexivity. Qed.
