(* C10 — proofs about Syntax/Parser.v: every well-formed derivation tree of the
   documented grammar (Syntax/Grammar.v) is read back by the parser model as
   the tree the documentation prescribes. *)
From Coq Require Import List NArith ZArith Bool Arith Lia.
From NV Require Import Syntax.Token Syntax.Ast Syntax.StmtAst Syntax.StrEsc Syntax.Parser Syntax.Grammar.
Import ListNotations.
Local Open Scope nat_scope.
Local Arguments Nat.leb : simpl never.
Local Arguments Nat.ltb : simpl never.

(* ---- the parser function of each precedence level, at nesting depth d *)
Definition L (d k : nat) : parser :=
  let ex := expression_d d in
  match k with
  | 0 => postfix_apply ex | 1 => condition ex | 2 => conversion ex | 3 => logical_or ex
  | 4 => logical_and ex | 5 => logical_neg ex | 6 => comparison ex | 7 => term ex
  | 8 => factor ex | 9 => per_factor ex | 10 => unary ex | 11 => ifactor ex
  | 12 => power ex | 13 => factorial ex | 14 => unicode_power ex | 15 => call ex
  | _ => primary ex
  end.

(* the loop of the left-recursive levels *)
Definition loopfn (d k : nat) : option (nat -> expr -> list token -> res expr) :=
  let ex := expression_d d in
  match k with
  | 0 => Some (postfix_loop ex)
  | 2 => Some (fun m => binop_loop m ops_conversion (L d 3))
  | 3 => Some (fun m => binop_loop m ops_or (L d 4))
  | 4 => Some (fun m => binop_loop m ops_and (L d 5))
  | 6 => Some (fun m => binop_loop m ops_comparison (L d 7))
  | 7 => Some (fun m => binop_loop m ops_term (L d 8))
  | 8 => Some (fun m => binop_loop m ops_factor (L d 9))
  | 9 => Some (fun m => binop_loop m ops_per (L d 10))
  | 11 => Some (ifactor_loop ex)
  | 15 => Some (call_loop ex)
  | _ => None
  end.

(* level at which a token continues an expression to its left *)
Definition contlvl (t : token) : option nat :=
  match t with
  | TPostfixApply => Some 0
  | TArrow | TTo => Some 2
  | TLogicalOr => Some 3
  | TLogicalAnd => Some 4
  | TLessThan | TGreaterThan | TLessOrEqual | TGreaterOrEqual | TEqualEqual | TNotEqual => Some 6
  | TPlus | TMinus => Some 7
  | TMultiply | TDivide => Some 8
  | TPer => Some 9
  | TNumber _ | TIdent _ | TQuestionMark | TLParen => Some 11
  | TPower => Some 12
  | TExcl => Some 13
  | TUnicodeExponent _ => Some 14
  | TLCurly => Some 16
  | _ => None
  end.
Definition callcont (t : token) : bool := match t with TLParen | TPeriod => true | _ => false end.

Definition blocks (k : nat) (tok : token) : bool :=
  match contlvl tok with Some j => k <=? j | None => false end.

(* what may follow a tree that is parsed by the level-k function *)
Definition follow (k : nat) (t : sx) (rest : list token) : bool :=
  match rest with
  | [] => true
  | tok :: _ => negb (blocks k tok) && negb ((k <=? 15) && ends_call t && callcont tok)
  end.

(* level of the prefix constructs a token opens *)
Definition prefixlvl (t : token) : nat :=
  match t with TIf => 1 | TExcl => 5 | TMinus | TPlus => 10 | _ => 16 end.
Definition is_first (t : token) : bool :=
  match t with
  | TNumber _ | TIntBase _ _ | TNaN | TInf | TIdent _ | TQuestionMark | TTrue | TFalse | TString _
  | TInterpStart _ | TLParen | TLBracket | TMinus | TPlus | TExcl | TIf => true
  | _ => false
  end.

Definition nocont (k : nat) (rest : list token) : Prop :=
  match rest with
  | [] => True
  | tok :: _ => contlvl tok <> Some k /\ (k = 15 -> callcont tok = false)
  end.
Definition noprefix (k : nat) (ts : list token) : Prop :=
  match ts with [] => True | tok :: _ => k < prefixlvl tok end.

Ltac split_k k n :=
  match n with
  | O => idtac
  | S ?n' => destruct k as [|k]; [| split_k k n']
  end.

Lemma L_loop : forall d k lf ts,
  loopfn d k = Some lf ->
  L d k ts = bind (L d (S k) ts) (fun e rest => lf (S (length rest)) e rest).
Proof.
  intros d k lf ts H.
  do 16 (destruct k as [|k]; [try discriminate; inversion H; subst; reflexivity|]).
  discriminate.
Qed.

Lemma loop_exit : forall d k lf m acc rest,
  loopfn d k = Some lf -> 1 <= m -> nocont k rest -> lf m acc rest = Ok acc rest.
Proof.
  intros d k lf m acc rest H Hm Hn.
  destruct m as [|m]; [lia|].
  do 16 (destruct k as [|k];
         [first [discriminate
                | solve [inversion H; subst; clear H; simpl;
                         destruct rest as [|tok r]; [reflexivity|];
                         destruct Hn as [Hn1 Hn2];
                         destruct tok; try reflexivity; simpl in *;
                         try (exfalso; apply Hn1; reflexivity);
                         try (specialize (Hn2 eq_refl); discriminate)]]|]).
  discriminate.
Qed.

(* going down one level: the level-k function returns what level k+1 returned
   when the input does not open a level-k prefix form and what follows does not
   continue level k *)
Lemma descend : forall d k ts e rest,
  k < 16 -> L d (S k) ts = Ok e rest -> noprefix k ts -> nocont k rest ->
  L d k ts = Ok e rest.
Proof.
  intros d k ts e rest Hk H Hp Hn.
  destruct (loopfn d k) as [lf|] eqn:Hl.
  - rewrite (L_loop d k lf ts Hl), H. simpl. eapply loop_exit; eauto. lia.
  - split_k k 16; try discriminate; try lia.
    + (* 1 condition *)
      unfold L, condition. unfold L in H. cbn [condition_n].
      destruct ts as [|tok r]; [exact H|]. destruct tok; try exact H. simpl in Hp. lia.
    + (* 5 logical_neg *)
      unfold L, logical_neg. unfold L in H. cbn [logical_neg_n].
      destruct ts as [|tok r]; [exact H|]. destruct tok; try exact H. simpl in Hp. lia.
    + (* 10 unary *)
      unfold L, unary. unfold L in H. cbn [unary_n].
      destruct ts as [|tok r]; [exact H|]. destruct tok; try exact H; simpl in Hp; lia.
    + (* 12 power *)
      unfold L, power. unfold L in H. cbn [power_n]. rewrite H. simpl.
      destruct rest as [|tok r]; [reflexivity|]. destruct Hn as [Hn _].
      destruct tok; try reflexivity. exfalso; apply Hn; reflexivity.
    + (* 13 factorial *)
      unfold L, factorial. unfold L in H. rewrite H. simpl.
      destruct rest as [|tok r]; [reflexivity|]. destruct Hn as [Hn _].
      destruct tok; try reflexivity. exfalso; apply Hn; reflexivity.
    + (* 14 unicode_power *)
      unfold L, unicode_power. unfold L in H. rewrite H. simpl.
      destruct rest as [|tok r]; [reflexivity|]. destruct Hn as [Hn _].
      destruct tok; try reflexivity. exfalso; apply Hn; reflexivity.
Qed.

(* ---- basic facts about trees *)
Ltac wf_split :=
  repeat match goal with
         | H : _ && _ = true |- _ => apply andb_prop in H; destruct H
         | H : (_ <=? _) = true |- _ => apply Nat.leb_le in H
         | H : negb _ = true |- _ => apply negb_true_iff in H
         end.

Lemma lvl_le_16 : forall t, lvl t <= 16.
Proof.
  destruct t; simpl; try lia. destruct op; simpl; lia.
Qed.

Lemma lvl16_ends_call : forall t, lvl t = 16 -> ends_call t = true.
Proof.
  destruct t; simpl; intros H; try reflexivity; try discriminate.
  destruct op; simpl in H; discriminate.
Qed.

Lemma pr_first : forall t, wf t = true ->
  exists tok r, pr t = tok :: r /\ is_first tok = true /\ lvl t <= prefixlvl tok.
Proof.
  assert (Leaf : forall t tok r, pr t = tok :: r -> is_first tok = true -> lvl t <= prefixlvl tok ->
                 exists tok r, pr t = tok :: r /\ is_first tok = true /\ lvl t <= prefixlvl tok).
  { intros. eauto. }
  induction t; intros W; simpl in W; wf_split;
    try (eapply Leaf; [reflexivity|reflexivity|simpl; lia]).
  - destruct b; (eapply Leaf; [reflexivity|reflexivity|simpl; lia]).
  - destruct (IHt H) as (tok & r & E & F & Lv). simpl. rewrite E. simpl.
    eexists; eexists; repeat split; eauto. lia.
  - destruct (IHt H) as (tok & r & E & F & Lv). simpl. rewrite E. simpl.
    eexists; eexists; repeat split; eauto. lia.
  - destruct (IHt H) as (tok & r & E & F & Lv). simpl. rewrite E. simpl.
    eexists; eexists; repeat split; eauto. lia.
  - destruct (IHt H) as (tok & r & E & F & Lv). simpl pr. rewrite E. simpl.
    eexists; eexists; repeat split; eauto. lia.
  - destruct (IHt1 H) as (tok & r & E & F & Lv). simpl. rewrite E. simpl.
    eexists; eexists; repeat split; eauto. lia.
  - destruct (IHt1 H) as (tok & r & E & F & Lv). simpl. rewrite E. simpl.
    eexists; eexists; repeat split; eauto. lia.
  - destruct (binlevel op) as [k|] eqn:B; [|discriminate]. wf_split.
    destruct (IHt1 H) as (tok & r & E & F & Lv). simpl. rewrite E, B. simpl.
    eexists; eexists; repeat split; eauto. lia.
  - destruct (IHt1 H) as (tok & r & E & F & Lv). simpl. rewrite E. simpl.
    eexists; eexists; repeat split; eauto. lia.
Qed.

Lemma pr_nonempty : forall t, wf t = true -> 1 <= length (pr t).
Proof.
  intros t W. destruct (pr_first t W) as (tok & r & E & _). rewrite E. simpl. lia.
Qed.

(* nesting depth of parentheses / argument lists *)
Fixpoint depth (t : sx) : nat :=
  match t with
  | SParen e => S (depth e)
  | SList es => S (list_max (map depth es))
  | SInterp _ items => S (list_max (map (fun it => depth (fst (fst it))) items))
  | SStruct _ fields => S (list_max (map (fun fe => depth (snd fe)) fields))
  | SCall f args => Nat.max (depth f) (S (list_max (map depth args)))
  | SField e _ | SUPow e _ | SFact e _ | SNeg e | SPos e | SNot e => depth e
  | SPow a _ b | SIMul a b | SBin _ a b | SApply a b => Nat.max (depth a) (depth b)
  | SIf c t e => Nat.max (depth c) (Nat.max (depth t) (depth e))
  | _ => 0
  end.

Fixpoint size (t : sx) : nat :=
  match t with
  | SParen e | SField e _ | SUPow e _ | SFact e _ | SNeg e | SPos e | SNot e => S (size e)
  | SCall f args => S (size f + list_sum (map size args))
  | SList es => S (list_sum (map size es))
  | SInterp _ items => S (list_sum (map (fun it => size (fst (fst it))) items))
  | SStruct _ fields => S (list_sum (map (fun fe => size (snd fe)) fields))
  | SPow a _ b | SIMul a b | SBin _ a b | SApply a b => S (size a + size b)
  | SIf c t e => S (size c + size t + size e)
  | _ => 1
  end.

Lemma size_in : forall (a : sx) args, In a args -> size a <= list_sum (map size args).
Proof.
  induction args; simpl; intros H; [tauto|]. destruct H as [->|H]; [lia|]. specialize (IHargs H). lia.
Qed.

Lemma depth_in : forall (a : sx) args, In a args -> depth a <= list_max (map depth args).
Proof.
  induction args; simpl; intros H; [tauto|]. destruct H as [->|H]; [lia|]. specialize (IHargs H). lia.
Qed.

Lemma size_in_fields : forall (f : str) (a : sx) fields, In (f, a) fields ->
  size a <= list_sum (map (fun fe => size (snd fe)) fields).
Proof.
  induction fields; simpl; intros H; [tauto|]. destruct H as [->|H]; [simpl; lia|]. specialize (IHfields H). lia.
Qed.

Lemma depth_in_fields : forall (f : str) (a : sx) fields, In (f, a) fields ->
  depth a <= list_max (map (fun fe => depth (snd fe)) fields).
Proof.
  induction fields; simpl; intros H; [tauto|]. destruct H as [->|H]; [simpl; lia|]. specialize (IHfields H). lia.
Qed.

Lemma size_in_items : forall (a : sx) f lx items, In (a, f, lx) items ->
  size a <= list_sum (map (fun it : sx * option str * str => size (fst (fst it))) items).
Proof.
  induction items; simpl; intros H; [tauto|]. destruct H as [->|H]; [simpl; lia|]. specialize (IHitems H). lia.
Qed.
Lemma depth_in_items : forall (a : sx) f lx items, In (a, f, lx) items ->
  depth a <= list_max (map (fun it : sx * option str * str => depth (fst (fst it))) items).
Proof.
  induction items; simpl; intros H; [tauto|]. destruct H as [->|H]; [simpl; lia|]. specialize (IHitems H). lia.
Qed.

(* ---- follow sets *)
Lemma follow_nil : forall k t, follow k t [] = true.
Proof. reflexivity. Qed.

Lemma follow_mono : forall k j t rest, follow k t rest = true -> k <= j -> follow j t rest = true.
Proof.
  intros k j t [|tok r] H Hkj; [reflexivity|]. unfold follow, blocks in *.
  apply andb_prop in H. destruct H as [H1 H2]. apply andb_true_intro. split.
  - destruct (contlvl tok) as [c|]; [|reflexivity].
    apply negb_true_iff in H1. apply Nat.leb_gt in H1. apply negb_true_iff. apply Nat.leb_gt. lia.
  - apply negb_true_iff in H2. apply negb_true_iff.
    destruct (j <=? 15) eqn:J; [|reflexivity]. apply Nat.leb_le in J.
    assert (K : (k <=? 15) = true) by (apply Nat.leb_le; lia). rewrite K in H2. exact H2.
Qed.

Lemma follow_ends : forall k t t' rest, ends_call t = ends_call t' -> follow k t rest = follow k t' rest.
Proof. intros k t t' [|tok r] E; [reflexivity|]. unfold follow. rewrite E. reflexivity. Qed.

Lemma follow_nocont : forall k j t rest,
  follow k t rest = true -> k <= j -> j < 16 -> (j = 15 -> ends_call t = true) -> nocont j rest.
Proof.
  intros k j t [|tok r] H Hkj Hj He; [exact I|]. unfold follow, blocks in H.
  apply andb_prop in H. destruct H as [H1 H2]. split.
  - intros C. rewrite C in H1. apply negb_true_iff in H1. apply Nat.leb_gt in H1. lia.
  - intros ->. rewrite (He eq_refl) in H2. apply negb_true_iff in H2.
    assert (K : (k <=? 15) = true) by (apply Nat.leb_le; lia). rewrite K in H2. simpl in H2. exact H2.
Qed.

Lemma follow_tok : forall k t tok r,
  (match contlvl tok with Some j => j < k | None => True end) -> callcont tok = false ->
  follow k t (tok :: r) = true.
Proof.
  intros k t tok r H C. unfold follow, blocks. rewrite C.
  rewrite andb_false_r. simpl. rewrite andb_true_r. apply negb_true_iff.
  destruct (contlvl tok); [apply Nat.leb_gt; lia|reflexivity].
Qed.

(* ---- closing a tree's own-level facts downwards *)
Definition P (d : nat) (t : sx) (k : nat) : Prop :=
  forall rest, follow k t rest = true -> L d k (pr t ++ rest) = Ok (desugar t) rest.

Definition LoopForm (d : nat) (t : sx) (k : nat) : Prop :=
  forall lf, loopfn d k = Some lf ->
  forall rest, follow (S k) t rest = true ->
  exists m, S (length rest) <= m /\ L d k (pr t ++ rest) = lf m (desugar t) rest.

Lemma P_down : forall d t, wf t = true -> P d t (lvl t) -> forall k, k <= lvl t -> P d t k.
Proof.
  intros d t W Own k Hk. remember (lvl t - k) as n eqn:Hn. revert k Hk Hn.
  induction n; intros k Hk Hn.
  - assert (k = lvl t) by lia. subst k. exact Own.
  - intros rest F. pose proof (lvl_le_16 t) as L16.
    apply descend; try lia.
    + apply (IHn (S k)); try lia. eapply follow_mono; eauto.
    + destruct (pr_first t W) as (tok & r & E & _ & Lv). rewrite E. simpl. lia.
    + eapply follow_nocont; eauto; try lia. intros ->. apply lvl16_ends_call. lia.
Qed.

Lemma Loop_down : forall d t k, P d t (S k) -> LoopForm d t k.
Proof.
  intros d t k HP lf Hl rest F. exists (S (length rest)). split; [lia|].
  rewrite (L_loop d k lf _ Hl). rewrite (HP rest F). reflexivity.
Qed.

(* own loop form + exit gives the own-level statement *)
Lemma P_of_loop : forall d t k lf, loopfn d k = Some lf -> LoopForm d t k ->
  (k = 15 -> ends_call t = true) -> k < 16 -> P d t k.
Proof.
  intros d t k lf Hl HL He Hk rest F.
  destruct (HL lf Hl rest (follow_mono _ _ _ _ F (Nat.le_succ_diag_r k))) as (m & Hm & E).
  rewrite E. eapply loop_exit; eauto; try lia.
  eapply follow_nocont; eauto.
Qed.

(* ---- helper facts about the parser functions *)
Lemma skip_first : forall tok r, is_first tok = true -> skip_empty_lines (tok :: r) = tok :: r.
Proof. intros tok r H. destruct tok; try discriminate; reflexivity. Qed.

Lemma arguments_first : forall ex tok r, is_first tok = true ->
  arguments ex (tok :: r) = bind (ex (tok :: r)) (fun e rest => arguments_loop ex (S (length rest)) [e] rest).
Proof. intros ex tok r H. destruct tok; try discriminate; reflexivity. Qed.

Lemma arguments_loop_comma : forall ex n acc tok r, is_first tok = true ->
  arguments_loop ex (S n) acc (TComma :: tok :: r) =
  match ex (tok :: r) with
  | Ok e rest => arguments_loop ex n (acc ++ [e]) rest
  | Err _ => Err MissingClosingParen
  | OutOfFuel => OutOfFuel
  | Unsupported => Unsupported
  end.
Proof. intros ex n acc tok r H. destruct tok; try discriminate; reflexivity. Qed.

Fixpoint tailp (r : list sx) : list token :=
  match r with [] => [] | a :: r' => TComma :: pr a ++ tailp r' end.

Lemma pr_args_cons : forall a r, pr_args (a :: r) = pr a ++ tailp r.
Proof.
  intros a r. revert a. induction r as [|b r IH]; intros a; simpl.
  - reflexivity.
  - f_equal. f_equal. apply (IH b).
Qed.

Lemma pr_call : forall f args, pr (SCall f args) = pr f ++ TLParen :: pr_args args ++ [TRParen].
Proof. reflexivity. Qed.

Lemma count_excl_repeat : forall n rest,
  (match rest with TExcl :: _ => False | _ => True end) ->
  count_excl (repeat TExcl n ++ rest) = (n, rest).
Proof.
  induction n; intros rest H; simpl.
  - destruct rest as [|tok r]; [reflexivity|]. destruct tok; try reflexivity. contradiction.
  - rewrite (IHn rest H). reflexivity.
Qed.

Lemma power_n_mono : forall ex n ts e rest, power_n ex n ts = Ok e rest ->
  forall n', n <= n' -> power_n ex n' ts = Ok e rest.
Proof.
  induction n; intros ts e rest H n' Hn; [discriminate|].
  destruct n' as [|n']; [lia|]. simpl in *.
  destruct (factorial ex ts) as [e0 r0| | |]; simpl in *; try discriminate.
  destruct r0 as [|t1 r1]; [exact H|]. destruct t1; try exact H.
  destruct r1 as [|t2 r2].
  - destruct (power_n ex n []) eqn:E; simpl in H; try discriminate.
    rewrite (IHn _ _ _ E n'); [exact H|lia].
  - destruct t2;
      match goal with
      | H : bind (power_n ex n ?X) _ = _ |- _ =>
          destruct (power_n ex n X) eqn:E; simpl in H; try discriminate;
          rewrite (IHn _ _ _ E n'); [exact H|lia]
      end.
Qed.

Lemma condition_n_mono : forall ex n ts e rest, condition_n ex n ts = Ok e rest ->
  forall n', n <= n' -> condition_n ex n' ts = Ok e rest.
Proof.
  induction n; intros ts e rest H n' Hn; [discriminate|].
  destruct n' as [|n']; [lia|]. simpl in *.
  destruct ts as [|t0 r0]; [exact H|]. destruct t0; try exact H.
  destruct (conversion ex r0) as [c r1| | |]; simpl in *; try discriminate.
  destruct (skip_empty_lines r1) as [|t1 r2]; [exact H|]. destruct t1; try exact H.
  destruct (condition_n ex n (skip_empty_lines r2)) as [t r3| | |] eqn:E1; simpl in H; try discriminate.
  rewrite (IHn _ _ _ E1 n'); [|lia]. simpl.
  destruct (skip_empty_lines r3) as [|t2 r4]; [exact H|]. destruct t2; try exact H.
  destruct (condition_n ex n (skip_empty_lines r4)) as [f r5| | |] eqn:E2; simpl in H; try discriminate.
  rewrite (IHn _ _ _ E2 n'); [|lia]. exact H.
Qed.

Lemma lvl15_ends_call : forall t, 15 <= lvl t -> ends_call t = true.
Proof.
  destruct t; simpl; intros H; try reflexivity; try lia.
  destruct op; simpl in H; lia.
Qed.

Lemma binop_step : forall d k op lf m acc r,
  binlevel op = Some k -> loopfn d k = Some lf ->
  lf (S m) acc (op :: r) = bind (L d (S k) r) (fun rhs rest => lf m (EBin (binop_of op) acc rhs) rest).
Proof.
  intros d k op lf m acc r B Hl.
  destruct op; try discriminate; inversion B; subst; inversion Hl; subst; reflexivity.
Qed.

Lemma binlevel_cont : forall op k, binlevel op = Some k -> contlvl op = Some k /\ callcont op = false.
Proof. intros op k B. destruct op; try discriminate; inversion B; split; reflexivity. Qed.

Lemma binlevel_loop : forall d op k, binlevel op = Some k -> exists lf, loopfn d k = Some lf.
Proof. intros d op k B. destruct op; try discriminate; inversion B; eexists; reflexivity. Qed.

(* ---- each construct at its own level *)
Ltac napp := repeat (rewrite <- app_assoc || (progress (cbn [app]))).

Lemma own_leaf : forall d t,
  match t with
  | SNum _ | SNaN | SInf | SHole | SBool _ | SStr _ | SBased _ _ | SIdent _ => True
  | _ => False
  end -> wf t = true -> P d t 16.
Proof.
  intros d t Ht W rest F. destruct t; try contradiction; try reflexivity.
  - (* SBased *) simpl in W. apply negb_true_iff in W. unfold L. cbn [pr app primary]. rewrite W. reflexivity.
  - (* SIdent *) unfold L. cbn [pr app primary desugar].
    destruct rest as [|tok r]; [reflexivity|]. destruct tok; try reflexivity. cbv in F. discriminate.
  - destruct b; reflexivity.
Qed.

Lemma own_paren : forall d e, P d e 0 -> P (S d) (SParen e) 16.
Proof.
  intros d e HP rest F. cbn [pr desugar]. napp. unfold L. cbn [primary].
  change (expression_d (S d)) with (L d 0). rewrite HP; [reflexivity|].
  apply follow_tok; simpl; auto.
Qed.

Lemma arguments_loop_ok : forall d r rest acc n,
  (forall a, In a r -> wf a = true /\ P d a 0) ->
  S (length (tailp r ++ TRParen :: rest)) <= n ->
  arguments_loop (expression_d (S d)) n acc (tailp r ++ TRParen :: rest) = Ok (acc ++ map desugar r) rest.
Proof.
  induction r as [|a r IH]; intros rest acc n HA Hn.
  - destruct n; [simpl in Hn; lia|]. simpl. rewrite app_nil_r. reflexivity.
  - destruct n; [simpl in Hn; lia|].
    destruct (HA a (or_introl eq_refl)) as [Wa Pa].
    destruct (pr_first a Wa) as (tok & ra & E & Fi & _).
    cbn [tailp]. napp. rewrite E. cbn [app].
    rewrite arguments_loop_comma by exact Fi.
    change (expression_d (S d)) with (L d 0) at 1.
    replace (tok :: ra ++ tailp r ++ TRParen :: rest) with (pr a ++ tailp r ++ TRParen :: rest)
      by (rewrite E; reflexivity).
    rewrite Pa.
    + rewrite IH.
      * rewrite <- app_assoc. reflexivity.
      * intros b Hb. apply HA. right. exact Hb.
      * cbn [tailp] in Hn. rewrite !app_length in *. cbn [length] in *. rewrite !app_length in Hn. lia.
    + destruct r; cbn [tailp app]; apply follow_tok; simpl; auto.
Qed.

Lemma arguments_ok : forall d args rest,
  (forall a, In a args -> wf a = true /\ P d a 0) ->
  arguments (expression_d (S d)) (pr_args args ++ TRParen :: rest) = Ok (map desugar args) rest.
Proof.
  intros d [|a r] rest HA.
  - reflexivity.
  - rewrite pr_args_cons.
    destruct (HA a (or_introl eq_refl)) as [Wa Pa].
    destruct (pr_first a Wa) as (tok & ra & E & Fi & _).
    napp. rewrite E. cbn [app]. rewrite arguments_first by exact Fi.
    change (expression_d (S d)) with (L d 0) at 1.
    replace (tok :: ra ++ tailp r ++ TRParen :: rest) with (pr a ++ tailp r ++ TRParen :: rest)
      by (rewrite E; reflexivity).
    rewrite Pa.
    + cbn [bind]. rewrite arguments_loop_ok; [reflexivity| |lia].
      intros b Hb. apply HA. right. exact Hb.
    + destruct r; cbn [tailp app]; apply follow_tok; simpl; auto.
Qed.

Lemma pr_list : forall es, pr (SList es) = TLBracket :: pr_args es ++ [TRBracket].
Proof. reflexivity. Qed.

Lemma pr_struct : forall n fields, pr (SStruct n fields) = TIdent n :: TLCurly :: pr_fields fields ++ [TRCurly].
Proof. reflexivity. Qed.

Lemma list_loop_first : forall ex n els tok r, is_first tok = true ->
  list_loop ex (S n) els (tok :: r) =
  bind (ex (tok :: r)) (fun e rest =>
    match skip_empty_lines rest with
    | TComma :: r' => list_loop ex n (els ++ [e]) (skip_empty_lines r')
    | TRBracket :: r' => list_loop ex n (els ++ [e]) (skip_empty_lines (TRBracket :: r'))
    | _ => Err ExpectedCommaOrRightBracketInList
    end).
Proof. intros ex n els tok r H. destruct tok; try discriminate; reflexivity. Qed.

Lemma list_loop_ok : forall d es rest acc n,
  (forall a, In a es -> wf a = true /\ P d a 0) ->
  S (length (pr_args es ++ TRBracket :: rest)) <= n ->
  list_loop (expression_d (S d)) n acc (pr_args es ++ TRBracket :: rest) = Ok (EList (acc ++ map desugar es)) rest.
Proof.
  induction es as [|a r IH]; intros rest acc n HA Hn.
  - destruct n; [simpl in Hn; lia|]. simpl. rewrite app_nil_r. reflexivity.
  - destruct n; [simpl in Hn; lia|].
    destruct (HA a (or_introl eq_refl)) as [Wa Pa].
    destruct (pr_first a Wa) as (tok & ra & E & Fi & _).
    rewrite pr_args_cons. napp. rewrite E. cbn [app].
    rewrite list_loop_first by exact Fi.
    change (expression_d (S d)) with (L d 0) at 1.
    replace (tok :: ra ++ tailp r ++ TRBracket :: rest) with (pr a ++ tailp r ++ TRBracket :: rest)
      by (rewrite E; reflexivity).
    assert (HA' : forall b, In b r -> wf b = true /\ P d b 0) by (intros b Hb; apply HA; right; exact Hb).
    rewrite Pa.
    + cbn [bind]. destruct r as [|b r'].
      * cbn [tailp app skip_empty_lines].
        assert (Hl : S (length (pr_args [] ++ TRBracket :: rest)) <= n).
        { rewrite pr_args_cons in Hn. cbn [tailp] in Hn. rewrite !app_length in Hn. rewrite E in Hn. simpl in *. lia. }
        pose proof (IH rest (acc ++ [desugar a]) n HA' Hl) as IH1. cbn [pr_args app] in IH1.
        rewrite IH1. cbn [map]. rewrite <- app_assoc. reflexivity.
      * cbn [tailp app skip_empty_lines].
        destruct (HA' b (or_introl eq_refl)) as [Wb _].
        destruct (pr_first b Wb) as (tokb & rb & Eb & Fib & _).
        rewrite <- (pr_args_cons b r').
        assert (Sk : skip_empty_lines (pr_args (b :: r') ++ TRBracket :: rest) = pr_args (b :: r') ++ TRBracket :: rest).
        { rewrite pr_args_cons, Eb. cbn [app]. apply skip_first. exact Fib. }
        replace (pr b ++ tailp r' ++ TRBracket :: rest) with (pr_args (b :: r') ++ TRBracket :: rest)
          by (rewrite pr_args_cons, <- app_assoc; reflexivity).
        rewrite Sk.
        rewrite (IH rest (acc ++ [desugar a]) n HA'); [rewrite <- app_assoc; reflexivity|].
        rewrite (pr_args_cons a (b :: r')) in Hn. cbn [tailp] in Hn. rewrite !app_length in Hn. cbn [length] in Hn.
        rewrite !app_length in Hn. rewrite E in Hn. rewrite pr_args_cons. rewrite !app_length. cbn [length] in *. lia.
    + destruct r; cbn [tailp app]; apply follow_tok; simpl; auto.
Qed.

Lemma own_list : forall d es, (forall a, In a es -> wf a = true /\ P d a 0) -> P (S d) (SList es) 16.
Proof.
  intros d es HA rest F. rewrite pr_list. napp. unfold L. cbn [primary desugar].
  assert (Sk : skip_empty_lines (pr_args es ++ TRBracket :: rest) = pr_args es ++ TRBracket :: rest).
  { destruct es as [|a r]; [reflexivity|].
    destruct (HA a (or_introl eq_refl)) as [Wa _]. destruct (pr_first a Wa) as (tok & ra & E & Fi & _).
    rewrite pr_args_cons, E. cbn [app]. apply skip_first. exact Fi. }
  rewrite Sk. rewrite list_loop_ok; [reflexivity|exact HA|lia].
Qed.

(* ---- interpolated strings *)
Lemma pr_interp : forall l0 items, pr (SInterp l0 items) = TInterpStart l0 :: pr_items items.
Proof.
  intros l0 items. reflexivity.
Qed.

Definition iparts (items : list (sx * option str * str)) : list (ipart expr) :=
  flat_map (fun it => [PExpr (desugar (fst (fst it))) (snd (fst it)); PFixed (strip_and_escape (snd it))]) items.

(* the tokens from the string part that follows an interpolation *)
Definition pr_isep (lx : str) (r : list (sx * option str * str)) : list token :=
  match r with [] => [TInterpEnd lx] | _ :: _ => TInterpMiddle lx :: pr_items r end.

Lemma starts_first : forall tok r, is_first tok = true -> starts_no_expression (tok :: r) = false.
Proof. intros tok r H. destruct tok; try discriminate; reflexivity. Qed.

Lemma interpolation_ok : forall d a f lx r rest, wf a = true -> P d a 0 ->
  interpolation (expression_d (S d)) (pr a ++ pr_spec f ++ pr_isep lx r ++ rest)
  = Ok [PExpr (desugar a) f] (pr_isep lx r ++ rest).
Proof.
  intros d a f lx r rest Wa Pa. unfold interpolation.
  destruct (pr_first a Wa) as (tok & ra & E & Fi & _).
  assert (S0 : starts_no_expression (pr a ++ pr_spec f ++ pr_isep lx r ++ rest) = false).
  { rewrite E. cbn [app]. apply starts_first. exact Fi. }
  rewrite S0. change (expression_d (S d)) with (L d 0).
  rewrite Pa.
  - cbn [bind]. destruct f as [x|]; cbn [pr_spec app]; [reflexivity|].
    destruct r; reflexivity.
  - destruct f as [x|]; cbn [pr_spec app]; [apply follow_tok; simpl; auto|].
    destruct r; cbn [pr_isep app]; apply follow_tok; simpl; auto.
Qed.

Lemma interp_loop_ok : forall d r lx acc n rest,
  (forall a f l, In (a, f, l) r -> wf a = true /\ P d a 0) -> length r < n ->
  interp_loop (expression_d (S d)) n acc (pr_isep lx r ++ rest)
  = Ok (EInterp (filter nonempty_part (acc ++ PFixed (strip_and_escape lx) :: iparts r))) rest.
Proof.
  induction r as [|[[a f] lx'] r IH]; intros lx acc n rest HA Hn; (destruct n; [simpl in Hn; lia|]).
  - reflexivity.
  - cbn [pr_isep app interp_loop pr_items]. rewrite <- !app_assoc.
    change (match r with [] => [TInterpEnd lx'] | _ :: _ => TInterpMiddle lx' :: pr_items r end) with (pr_isep lx' r).
    destruct (HA a f lx' (or_introl eq_refl)) as [Wa Pa].
    rewrite (interpolation_ok d a f lx' r rest Wa Pa). cbn [bind].
    rewrite IH; [|intros b g l Hb; apply (HA b g l); right; exact Hb|simpl in Hn; lia].
    unfold iparts. cbn [flat_map fst snd]. rewrite <- app_assoc. reflexivity.
Qed.

Lemma len_items : forall items, length items <= length (pr_items items).
Proof.
  induction items as [|[[a f] lx] r IH]; [simpl; lia|].
  cbn [pr_items length]. rewrite !app_length. destruct r; cbn [length] in *; lia.
Qed.

Lemma own_interp : forall d l0 items, items <> [] ->
  (forall a f l, In (a, f, l) items -> wf a = true /\ P d a 0) -> P (S d) (SInterp l0 items) 16.
Proof.
  intros d l0 items NE HA rest F. rewrite pr_interp. unfold L. cbn [app primary desugar].
  destruct items as [|[[a f] lx] r]; [contradiction|].
  cbn [pr_items]. rewrite <- !app_assoc.
  change (match r with [] => [TInterpEnd lx] | _ :: _ => TInterpMiddle lx :: pr_items r end) with (pr_isep lx r).
  destruct (HA a f lx (or_introl eq_refl)) as [Wa Pa].
  rewrite (interpolation_ok d a f lx r rest Wa Pa). cbn [bind].
  rewrite interp_loop_ok; [|intros b g l Hb; apply (HA b g l); right; exact Hb|].
  - cbn [flat_map fst snd app]. reflexivity.
  - pose proof (len_items r). rewrite app_length. destruct r; cbn [pr_isep length] in *; lia.
Qed.

Lemma struct_loop_ok : forall d name fs rest acc n,
  (forall f a, In (f, a) fs -> wf a = true /\ P d a 0) ->
  S (length (pr_fields fs ++ TRCurly :: rest)) <= n ->
  struct_loop (expression_d (S d)) n name acc (pr_fields fs ++ TRCurly :: rest)
  = Ok (EStruct name (acc ++ map (fun fe => (fst fe, desugar (snd fe))) fs)) rest.
Proof.
  induction fs as [|[f a] r IH]; intros rest acc n HA Hn.
  - destruct n; [simpl in Hn; lia|]. simpl. rewrite app_nil_r. reflexivity.
  - destruct n; [simpl in Hn; lia|].
    destruct (HA f a (or_introl eq_refl)) as [Wa Pa].
    destruct (pr_first a Wa) as (tok & ra & E & Fi & _).
    assert (HA' : forall g b, In (g, b) r -> wf b = true /\ P d b 0) by (intros g b Hb; eapply HA; right; exact Hb).
    cbn [pr_fields]. napp. cbn [struct_loop skip_empty_lines].
    assert (Sk : forall X, skip_empty_lines (pr a ++ X) = pr a ++ X).
    { intros X. rewrite E. cbn [app]. apply skip_first. exact Fi. }
    rewrite Sk. change (expression_d (S d)) with (L d 0) at 1.
    rewrite Pa.
    + cbn [bind]. destruct r as [|[g b] r'].
      * cbn [app skip_empty_lines].
        assert (Hl : S (length (pr_fields [] ++ TRCurly :: rest)) <= n).
        { cbn [pr_fields] in Hn. rewrite !app_length in Hn. rewrite E in Hn. simpl in *. lia. }
        pose proof (IH rest (acc ++ [(f, desugar a)]) n HA' Hl) as IH1. cbn [pr_fields app] in IH1.
        rewrite IH1. cbn [map fst snd]. rewrite <- app_assoc. reflexivity.
      * cbn [app skip_empty_lines].
        replace (skip_empty_lines (pr_fields ((g, b) :: r') ++ TRCurly :: rest))
          with (pr_fields ((g, b) :: r') ++ TRCurly :: rest) by reflexivity.
        rewrite (IH rest (acc ++ [(f, desugar a)]) n HA'); [cbn [map fst snd]; rewrite <- app_assoc; reflexivity|].
        cbn [pr_fields] in Hn. rewrite E in Hn. repeat first [rewrite app_length in * | progress (cbn [length pr_fields app] in * )]. lia.
    + destruct r as [|[g b] r']; cbn [app]; apply follow_tok; simpl; auto.
Qed.

Lemma own_struct : forall d name fs, (forall f a, In (f, a) fs -> wf a = true /\ P d a 0) ->
  P (S d) (SStruct name fs) 16.
Proof.
  intros d name fs HA rest F. rewrite pr_struct. napp. unfold L. cbn [primary desugar].
  assert (Sk : skip_empty_lines (pr_fields fs ++ TRCurly :: rest) = pr_fields fs ++ TRCurly :: rest).
  { destruct fs as [|[f a] r]; reflexivity. }
  rewrite Sk. rewrite struct_loop_ok; [reflexivity|exact HA|lia].
Qed.

Lemma follow16 : forall t tok r, contlvl tok <> Some 16 -> follow 16 t (tok :: r) = true.
Proof.
  intros t tok r H. unfold follow, blocks.
  destruct tok; try reflexivity; try (exfalso; apply H; reflexivity).
Qed.

Lemma own_call : forall d f args,
  LoopForm (S d) f 15 -> (forall a, In a args -> wf a = true /\ P d a 0) ->
  LoopForm (S d) (SCall f args) 15.
Proof.
  intros d f args HL HA lf Hl rest F.
  rewrite pr_call. napp.
  destruct (HL lf Hl (TLParen :: pr_args args ++ TRParen :: rest)) as (m & Hm & E).
  { apply follow16. discriminate. }
  rewrite E. inversion Hl; subst lf. destruct m as [|m]; [lia|].
  change (postfix_apply (expression_d d)) with (expression_d (S d)).
  cbn [call_loop]. rewrite arguments_ok by exact HA. cbn [bind desugar].
  exists m. split; [|reflexivity].
  simpl in Hm. rewrite app_length in Hm. simpl in Hm. lia.
Qed.

Lemma own_field : forall d e n, LoopForm d e 15 -> LoopForm d (SField e n) 15.
Proof.
  intros d e n HL lf Hl rest F. cbn [pr]. napp.
  destruct (HL lf Hl (TPeriod :: TIdent n :: rest)) as (m & Hm & E).
  { apply follow16. discriminate. }
  rewrite E. inversion Hl; subst lf. destruct m as [|m]; [lia|].
  cbn [call_loop desugar]. exists m. split; [|reflexivity]. simpl in Hm. lia.
Qed.

Lemma own_upow : forall d e l, P d e 15 -> P d (SUPow e l) 14.
Proof.
  intros d e l HP rest F. cbn [pr desugar]. napp. unfold L. unfold unicode_power.
  change (call (expression_d d)) with (L d 15). rewrite HP; [reflexivity|].
  apply follow_tok; simpl; auto.
Qed.

Lemma own_fact : forall d e n, P d e 14 -> P d (SFact e n) 13.
Proof.
  intros d e n HP rest F. cbn [pr desugar]. napp. unfold L. unfold factorial.
  change (unicode_power (expression_d d)) with (L d 14). rewrite HP.
  - cbn [bind]. rewrite count_excl_repeat; [reflexivity|].
    destruct rest as [|tok r]; [exact I|]. destruct tok; try exact I. cbv in F. discriminate.
  - cbn [repeat app]. apply follow_tok; simpl; auto.
Qed.

Lemma own_pow : forall d a neg b,
  wf a = true -> wf b = true -> 12 <= lvl b ->
  P d a 13 -> P d b 12 -> P d (SPow a neg b) 12.
Proof.
  intros d a neg b Wa Wb Lb Pa Pb rest F.
  assert (Fb : follow 12 b rest = true) by (rewrite <- F; apply follow_ends; reflexivity).
  specialize (Pb rest Fb). unfold L in Pb. unfold power in Pb.
  cbn [pr desugar]. napp. unfold L. unfold power.
  pose proof (pr_nonempty a Wa) as La.
  destruct (pr_first b Wb) as (tok & rb & Eb & Fib & Lvb).
  remember (length (pr a ++ TPower :: (if neg then [TMinus] else []) ++ pr b ++ rest)) as n eqn:Hn.
  cbn [power_n]. change (factorial (expression_d d)) with (L d 13).
  rewrite Pa by (apply follow_tok; simpl; auto). cbn [bind].
  assert (Hfuel : S (length (pr b ++ rest)) <= n).
  { subst n. rewrite !app_length. simpl. rewrite !app_length. destruct neg; simpl; lia. }
  destruct neg; cbn [app].
  - rewrite (power_n_mono _ _ _ _ _ Pb n Hfuel). reflexivity.
  - rewrite Eb. cbn [app].
    assert (tok <> TMinus) by (intros ->; simpl in Lvb; lia).
    replace (tok :: rb ++ rest) with (pr b ++ rest) by (rewrite Eb; reflexivity).
    destruct tok; try congruence;
      rewrite (power_n_mono _ _ _ _ _ Pb n Hfuel); reflexivity.
Qed.

Lemma own_imul : forall d a b,
  wf a = true -> wf b = true ->
  could_start_power (pr b) = true -> starts_lparen (pr b) && ends_call a = false ->
  LoopForm d a 11 -> P d b 12 -> LoopForm d (SIMul a b) 11.
Proof.
  intros d a b Wa Wb Cs Sl HL Pb lf Hl rest F.
  cbn [pr desugar]. napp.
  destruct (pr_first b Wb) as (tok & rb & Eb & Fib & Lvb).
  destruct (HL lf Hl (pr b ++ rest)) as (m & Hm & E).
  { rewrite Eb in *. cbn [app]. unfold follow, blocks. simpl in Sl.
    destruct tok; try discriminate; destruct (ends_call a); try reflexivity; discriminate. }
  rewrite E. inversion Hl; subst lf. destruct m as [|m]; [lia|].
  cbn [ifactor_loop].
  assert (C : could_start_power (pr b ++ rest) = true).
  { rewrite Eb in *. cbn [app]. destruct tok; try discriminate; reflexivity. }
  rewrite C. change (power (expression_d d)) with (L d 12).
  rewrite Pb by (rewrite <- F; apply follow_ends; reflexivity).
  cbn [bind]. exists m. split; [|reflexivity].
  rewrite app_length in Hm. pose proof (pr_nonempty b Wb). lia.
Qed.

Lemma unary_minus : forall ex X, unary ex (TMinus :: X) = bind (unary ex X) (fun rhs rest => Ok (EUn Negate rhs) rest).
Proof. reflexivity. Qed.
Lemma unary_plus : forall ex X, unary ex (TPlus :: X) = unary ex X.
Proof. reflexivity. Qed.
Lemma logical_neg_excl : forall ex X,
  logical_neg ex (TExcl :: X) = bind (logical_neg ex X) (fun rhs rest => Ok (EUn LogicalNeg rhs) rest).
Proof. reflexivity. Qed.

Lemma own_neg : forall d e, P d e 10 -> P d (SNeg e) 10.
Proof.
  intros d e HP rest F. cbn [pr desugar app]. unfold L. rewrite unary_minus.
  change (unary (expression_d d)) with (L d 10).
  rewrite HP; [reflexivity|]. rewrite <- F. apply follow_ends. reflexivity.
Qed.

Lemma own_pos : forall d e, P d e 10 -> P d (SPos e) 10.
Proof.
  intros d e HP rest F. cbn [pr desugar app]. unfold L. rewrite unary_plus.
  change (unary (expression_d d)) with (L d 10).
  rewrite HP; [reflexivity|]. rewrite <- F. apply follow_ends. reflexivity.
Qed.

Lemma own_not : forall d e, P d e 5 -> P d (SNot e) 5.
Proof.
  intros d e HP rest F. cbn [pr desugar app]. unfold L. rewrite logical_neg_excl.
  change (logical_neg (expression_d d)) with (L d 5).
  rewrite HP; [reflexivity|]. rewrite <- F. apply follow_ends. reflexivity.
Qed.

Lemma own_bin : forall d op k a b,
  binlevel op = Some k -> wf b = true ->
  LoopForm d a k -> P d b (S k) -> LoopForm d (SBin op a b) k.
Proof.
  intros d op k a b B Wb HL Pb lf Hl rest F.
  cbn [pr desugar]. napp.
  destruct (binlevel_cont op k B) as [C1 C2].
  destruct (HL lf Hl (op :: pr b ++ rest)) as (m & Hm & E).
  { apply follow_tok; [rewrite C1; lia|exact C2]. }
  rewrite E. destruct m as [|m]; [lia|].
  rewrite (binop_step d k op lf m _ _ B Hl).
  rewrite Pb by (rewrite <- F; apply follow_ends; reflexivity).
  cbn [bind]. exists m. split; [|reflexivity].
  simpl in Hm. rewrite app_length in Hm. pose proof (pr_nonempty b Wb). lia.
Qed.

Lemma condition_if : forall ex r,
  condition ex (TIf :: r) =
  bind (conversion ex r) (fun c rest =>
    match skip_empty_lines rest with
    | TThen :: r1 =>
        bind (condition_n ex (S (length r)) (skip_empty_lines r1)) (fun t rest1 =>
          match skip_empty_lines rest1 with
          | TElse :: r2 =>
              bind (condition_n ex (S (length r)) (skip_empty_lines r2)) (fun e rest2 => Ok (EIf c t e) rest2)
          | _ => Err ExpectedElse
          end)
    | _ => Err ExpectedThen
    end).
Proof. reflexivity. Qed.

Lemma own_if : forall d c t e,
  wf c = true -> wf t = true -> wf e = true ->
  P d c 2 -> P d t 1 -> P d e 1 -> P d (SIf c t e) 1.
Proof.
  intros d c t e Wc Wt We Pc Pt Pe rest F.
  assert (Fe : follow 1 e rest = true) by (rewrite <- F; apply follow_ends; reflexivity).
  specialize (Pe rest Fe).
  specialize (Pt (TElse :: pr e ++ rest) ltac:(apply follow_tok; simpl; auto)).
  unfold L, condition in Pe, Pt.
  cbn [pr desugar]. napp. unfold L. rewrite condition_if.
  remember (S (length (pr c ++ TThen :: pr t ++ TElse :: pr e ++ rest))) as n eqn:Hn.
  change (conversion (expression_d d)) with (L d 2).
  rewrite Pc by (apply follow_tok; simpl; auto). cbn [bind skip_empty_lines].
  destruct (pr_first t Wt) as (tok1 & r1 & E1 & F1 & _).
  destruct (pr_first e We) as (tok2 & r2 & E2 & F2 & _).
  assert (S1 : skip_empty_lines (pr t ++ TElse :: pr e ++ rest) = pr t ++ TElse :: pr e ++ rest).
  { rewrite E1. cbn [app]. apply skip_first. exact F1. }
  assert (S2 : skip_empty_lines (pr e ++ rest) = pr e ++ rest).
  { rewrite E2. cbn [app]. apply skip_first. exact F2. }
  rewrite S1.
  rewrite (condition_n_mono _ _ _ _ _ Pt n).
  2:{ subst n. rewrite !app_length. cbn [length]. rewrite !app_length. cbn [length]. rewrite !app_length. lia. }
  cbn [bind skip_empty_lines]. rewrite S2.
  rewrite (condition_n_mono _ _ _ _ _ Pe n).
  2:{ subst n. rewrite !app_length. cbn [length]. rewrite !app_length. cbn [length]. rewrite !app_length. lia. }
  reflexivity.
Qed.

Lemma own_apply : forall d e f,
  wf f = true -> 15 <= lvl f -> ident_or_call (desugar f) = true ->
  LoopForm d e 0 -> P d f 15 -> LoopForm d (SApply e f) 0.
Proof.
  intros d e f Wf Lf Hic HL Pf lf Hl rest F.
  cbn [pr]. napp.
  destruct (HL lf Hl (TPostfixApply :: pr f ++ rest)) as (m & Hm & E).
  { apply follow_tok; simpl; auto. }
  rewrite E. inversion Hl; subst lf. destruct m as [|m]; [lia|].
  cbn [postfix_loop].
  destruct (pr_first f Wf) as (tok & rf & Ef & Ff & _).
  assert (S1 : skip_empty_lines (pr f ++ rest) = pr f ++ rest).
  { rewrite Ef. cbn [app]. apply skip_first. exact Ff. }
  rewrite S1. change (call (expression_d d)) with (L d 15).
  rewrite Pf.
  2:{ apply (follow_mono 1); [|lia]. rewrite <- F. apply follow_ends.
      rewrite (lvl15_ends_call f Lf). reflexivity. }
  cbn [bind desugar]. exists m. split.
  - simpl in Hm. rewrite app_length in Hm. pose proof (pr_nonempty f Wf). lia.
  - destruct (desugar f); try discriminate; reflexivity.
Qed.

(* ---- all trees *)
Definition Good (t : sx) : Prop :=
  wf t = true -> forall d, depth t <= d ->
  (forall k, k <= lvl t -> P d t k) /\ (forall k, k <= lvl t -> LoopForm d t k).

Lemma close : forall d t, wf t = true -> P d t (lvl t) -> LoopForm d t (lvl t) ->
  (forall k, k <= lvl t -> P d t k) /\ (forall k, k <= lvl t -> LoopForm d t k).
Proof.
  intros d t W HP HL. split.
  - apply P_down; auto.
  - intros k Hk. destruct (Nat.eq_dec k (lvl t)) as [->|Hne]; [exact HL|].
    apply Loop_down. apply P_down; auto. lia.
Qed.

Lemma no_loop : forall d t k, loopfn d k = None -> LoopForm d t k.
Proof. intros d t k H lf Hl. congruence. Qed.

Lemma close_loop : forall d t lf, wf t = true -> loopfn d (lvl t) = Some lf ->
  ends_call t = true -> lvl t < 16 -> LoopForm d t (lvl t) ->
  (forall k, k <= lvl t -> P d t k) /\ (forall k, k <= lvl t -> LoopForm d t k).
Proof.
  intros d t lf W Hl He Hk HL. apply close; auto.
  eapply P_of_loop; eauto.
Qed.

Theorem good_all : forall n t, size t < n -> Good t.
Proof.
  induction n; intros t Hs; [lia|].
  destruct t; intros W d Hd; pose proof W as W0; simpl in W, Hs, Hd; wf_split;
    try (apply close; [reflexivity | apply own_leaf; [exact I|reflexivity] | apply no_loop; reflexivity]).
  - (* SBased *)
    apply close; [exact W0 | apply own_leaf; [exact I|exact W0] | apply no_loop; reflexivity].
  - (* SInterp *)
    destruct d as [|d]; [lia|].
    apply close; [exact W0 | | apply no_loop; reflexivity].
    destruct items as [|it items']; [discriminate|].
    apply own_interp; [discriminate|]. intros a f l Ha.
    pose proof (size_in_items a f l _ Ha). pose proof (depth_in_items a f l _ Ha).
    assert (Wa : wf a = true) by (eapply forallb_forall in W; [|exact Ha]; exact W).
    split; [exact Wa|]. destruct (IHn a ltac:(lia) Wa d ltac:(lia)) as [Pa _]. apply Pa. lia.
  - (* SParen *)
    destruct d as [|d]; [lia|].
    destruct (IHn t ltac:(lia) W d ltac:(lia)) as [Pe _].
    apply close; [exact W0 | apply own_paren; apply Pe; lia | apply no_loop; reflexivity].
  - (* SList *)
    destruct d as [|d]; [lia|].
    apply close; [exact W0 | | apply no_loop; reflexivity].
    apply own_list. intros a Ha. pose proof (size_in a es Ha). pose proof (depth_in a es Ha).
    assert (Wa : wf a = true) by (eapply forallb_forall in W; eauto).
    split; [exact Wa|]. destruct (IHn a ltac:(lia) Wa d ltac:(lia)) as [Pa _]. apply Pa. lia.
  - (* SStruct *)
    destruct d as [|d]; [lia|].
    apply close; [exact W0 | | apply no_loop; reflexivity].
    apply own_struct. intros f a Ha. pose proof (size_in_fields f a fields Ha). pose proof (depth_in_fields f a fields Ha).
    assert (Wa : wf a = true) by (eapply forallb_forall in W; [|exact Ha]; exact W).
    split; [exact Wa|]. destruct (IHn a ltac:(lia) Wa d ltac:(lia)) as [Pa _]. apply Pa. lia.
  - (* SCall *)
    destruct d as [|d]; [lia|].
    destruct (IHn t ltac:(lia) ltac:(assumption) (S d) ltac:(lia)) as [_ Lf].
    assert (HA : forall a, In a args -> wf a = true /\ P d a 0).
    { intros a Ha. pose proof (size_in a args Ha). pose proof (depth_in a args Ha).
      assert (Wa : wf a = true).
      { match goal with Hf : forallb wf args = true |- _ => eapply forallb_forall in Hf; eauto end. }
      split; [exact Wa|].
      destruct (IHn a ltac:(lia) Wa d ltac:(lia)) as [Pa _]. apply Pa. lia. }
    eapply close_loop; try reflexivity; [exact W0|simpl; lia|].
    apply own_call; [apply Lf; assumption|exact HA].
  - (* SField *)
    destruct (IHn t ltac:(lia) ltac:(assumption) d ltac:(lia)) as [_ Lf].
    eapply close_loop; try reflexivity; [exact W0|simpl; lia|].
    apply own_field. apply Lf. assumption.
  - (* SUPow *)
    destruct (IHn t ltac:(lia) ltac:(assumption) d ltac:(lia)) as [Pe _].
    apply close; [exact W0 | apply own_upow; apply Pe; assumption | apply no_loop; reflexivity].
  - (* SFact *)
    destruct (IHn t ltac:(lia) ltac:(assumption) d ltac:(lia)) as [Pe _].
    apply close; [exact W0 | apply own_fact; apply Pe; assumption | apply no_loop; reflexivity].
  - (* SPow *)
    destruct (IHn t1 ltac:(lia) ltac:(assumption) d ltac:(lia)) as [Pa _].
    destruct (IHn t2 ltac:(lia) ltac:(assumption) d ltac:(lia)) as [Pb _].
    apply close; [exact W0 | apply own_pow; auto | apply no_loop; reflexivity].
  - (* SIMul *)
    destruct (IHn t1 ltac:(lia) ltac:(assumption) d ltac:(lia)) as [_ La].
    destruct (IHn t2 ltac:(lia) ltac:(assumption) d ltac:(lia)) as [Pb _].
    assert (OL : LoopForm d (SIMul t1 t2) 11).
    { apply own_imul; [assumption|assumption|assumption|assumption|apply La; assumption|apply Pb; assumption]. }
    eapply close; [exact W0| |exact OL].
    eapply P_of_loop; try reflexivity; [exact OL|simpl; lia|simpl; lia].
  - (* SNeg *)
    destruct (IHn t ltac:(lia) ltac:(assumption) d ltac:(lia)) as [Pe _].
    apply close; [exact W0 | apply own_neg; apply Pe; assumption | apply no_loop; reflexivity].
  - (* SPos *)
    destruct (IHn t ltac:(lia) ltac:(assumption) d ltac:(lia)) as [Pe _].
    apply close; [exact W0 | apply own_pos; apply Pe; assumption | apply no_loop; reflexivity].
  - (* SBin *)
    destruct (binlevel op) as [k|] eqn:B; [|discriminate]. wf_split.
    destruct (IHn t1 ltac:(lia) ltac:(assumption) d ltac:(lia)) as [_ La].
    destruct (IHn t2 ltac:(lia) ltac:(assumption) d ltac:(lia)) as [Pb _].
    assert (Lv : lvl (SBin op t1 t2) = k) by (simpl; rewrite B; reflexivity).
    destruct (binlevel_loop d op k B) as [lf Hl].
    assert (Hk : k < 15) by (destruct op; inversion B; lia).
    assert (OL : LoopForm d (SBin op t1 t2) k).
    { apply own_bin; [exact B|assumption|apply La; lia|apply Pb; lia]. }
    rewrite <- Lv in OL.
    eapply close; [exact W0| |exact OL].
    rewrite Lv in *. eapply P_of_loop; eauto; lia.
  - (* SNot *)
    destruct (IHn t ltac:(lia) ltac:(assumption) d ltac:(lia)) as [Pe _].
    apply close; [exact W0 | apply own_not; apply Pe; assumption | apply no_loop; reflexivity].
  - (* SIf *)
    destruct (IHn t1 ltac:(lia) ltac:(assumption) d ltac:(lia)) as [Pc _].
    destruct (IHn t2 ltac:(lia) ltac:(assumption) d ltac:(lia)) as [Pt _].
    destruct (IHn t3 ltac:(lia) ltac:(assumption) d ltac:(lia)) as [Pe _].
    apply close; [exact W0 | apply own_if; auto | apply no_loop; reflexivity].
  - (* SApply *)
    destruct (IHn t1 ltac:(lia) ltac:(assumption) d ltac:(lia)) as [_ Le].
    destruct (IHn t2 ltac:(lia) ltac:(assumption) d ltac:(lia)) as [Pf _].
    assert (OL : LoopForm d (SApply t1 t2) 0).
    { apply own_apply; [assumption|assumption|assumption|apply Le; lia|apply Pf; assumption]. }
    eapply close; [exact W0| |exact OL].
    eapply P_of_loop; try reflexivity; [exact OL|simpl; lia].
Qed.

(* ---- the statement-level wrapper *)
Lemma depth_tailp : forall r, (forall a, In a r -> depth a <= length (pr a)) ->
  list_max (map depth r) <= length (tailp r).
Proof.
  induction r as [|a r IH]; intros H; simpl; [lia|].
  rewrite app_length. pose proof (H a (or_introl eq_refl)).
  assert (list_max (map depth r) <= length (tailp r)) by (apply IH; intros b Hb; apply H; right; exact Hb).
  lia.
Qed.

Lemma depth_args : forall args, (forall a, In a args -> depth a <= length (pr a)) ->
  list_max (map depth args) <= length (pr_args args).
Proof.
  intros [|a r] Hin; [simpl; lia|]. rewrite pr_args_cons, app_length.
  change (list_max (map depth (a :: r))) with (Nat.max (depth a) (list_max (map depth r))).
  pose proof (Hin a (or_introl eq_refl)).
  pose proof (depth_tailp r (fun b Hb => Hin b (or_intror Hb))). lia.
Qed.

Lemma depth_fields : forall fs, (forall f a, In (f, a) fs -> depth a <= length (pr a)) ->
  list_max (map (fun fe => depth (snd fe)) fs) <= length (pr_fields fs).
Proof.
  induction fs as [|[f a] r IH]; intros Hin; [simpl; lia|].
  change (list_max (map (fun fe => depth (snd fe)) ((f, a) :: r)))
    with (Nat.max (depth a) (list_max (map (fun fe => depth (snd fe)) r))).
  cbn [pr_fields length]. rewrite app_length.
  pose proof (Hin f a (or_introl eq_refl)).
  assert (list_max (map (fun fe => depth (snd fe)) r) <= length (pr_fields r))
    by (apply IH; intros g b Hb; eapply Hin; right; exact Hb).
  destruct r; simpl in *; lia.
Qed.

Lemma depth_items : forall items, (forall a f l, In (a, f, l) items -> depth a <= length (pr a)) ->
  list_max (map (fun it : sx * option str * str => depth (fst (fst it))) items) <= length (pr_items items).
Proof.
  induction items as [|[[a f] lx] r IH]; intros Hin; [simpl; lia|].
  change (list_max (map (fun it : sx * option str * str => depth (fst (fst it))) ((a, f, lx) :: r)))
    with (Nat.max (depth a) (list_max (map (fun it : sx * option str * str => depth (fst (fst it))) r))).
  cbn [pr_items]. rewrite !app_length.
  pose proof (Hin a f lx (or_introl eq_refl)).
  assert (list_max (map (fun it : sx * option str * str => depth (fst (fst it))) r) <= length (pr_items r))
    by (apply IH; intros b g l Hb; apply (Hin b g l); right; exact Hb).
  destruct r; [simpl in *; lia|cbn [length] in *; lia].
Qed.

Lemma depth_le_len : forall n t, size t < n -> depth t <= length (pr t).
Proof.
  induction n; intros t Hs; [lia|].
  destruct t; simpl in Hs; try (simpl; lia);
    try (pose proof (IHn t ltac:(lia)); simpl; rewrite ?app_length; simpl; lia);
    try (pose proof (IHn t1 ltac:(lia)); pose proof (IHn t2 ltac:(lia)); simpl; rewrite ?app_length; simpl;
         rewrite ?app_length; simpl; lia).
  - (* SInterp *)
    rewrite pr_interp. cbn [depth length].
    assert (list_max (map (fun it : sx * option str * str => depth (fst (fst it))) items) <= length (pr_items items)).
    { apply depth_items. intros b g l Hb. apply IHn. pose proof (size_in_items b g l items Hb). lia. }
    lia.
  - (* SList *)
    rewrite pr_list. cbn [depth length]. rewrite app_length. cbn [length].
    assert (list_max (map depth es) <= length (pr_args es)).
    { apply depth_args. intros b Hb. apply IHn. pose proof (size_in b es Hb). lia. }
    lia.
  - (* SStruct *)
    rewrite pr_struct. cbn [depth length]. rewrite app_length. cbn [length].
    assert (list_max (map (fun fe => depth (snd fe)) fields) <= length (pr_fields fields)).
    { apply depth_fields. intros f b Hb. apply IHn. pose proof (size_in_fields f b fields Hb). lia. }
    lia.
  - (* SCall *)
    rewrite pr_call. cbn [depth]. rewrite !app_length. cbn [length]. rewrite app_length. cbn [length].
    pose proof (IHn t ltac:(lia)).
    assert (list_max (map depth args) <= length (pr_args args)).
    { apply depth_args. intros b Hb. apply IHn. pose proof (size_in b args Hb). lia. }
    lia.
  - (* SIf *)
    pose proof (IHn t1 ltac:(lia)); pose proof (IHn t2 ltac:(lia)); pose proof (IHn t3 ltac:(lia)).
    simpl. rewrite !app_length. simpl. rewrite !app_length. simpl. lia.
Qed.

Lemma expression_ok : forall t rest, wf t = true -> follow 0 t rest = true ->
  forall d, length (pr t) <= d -> L d 0 (pr t ++ rest) = Ok (desugar t) rest.
Proof.
  intros t rest W F d Hd.
  destruct (good_all (S (size t)) t ltac:(lia) W d) as [HP _].
  - pose proof (depth_le_len _ t (Nat.lt_succ_diag_r _)). lia.
  - apply (HP 0 ltac:(lia) rest F).
Qed.

Lemma statement_first : forall tok r, is_first tok = true ->
  statement (tok :: r) = bind (expression (tok :: r)) (fun e rest => Ok (StExpr e) rest).
Proof. intros tok r H. destruct tok; try discriminate; reflexivity. Qed.

Theorem roundtrip : forall t, wf t = true -> parse (pr t) = Ok [StExpr (desugar t)] [].
Proof.
  intros t W. destruct (pr_first t W) as (tok & r & E & Fi & _).
  unfold parse. rewrite E. rewrite skip_first by exact Fi.
  cbn [parse_loop].
  rewrite statement_first by exact Fi. unfold expression.
  change (expression_d (S (length (tok :: r)))) with (L (length (tok :: r)) 0).
  rewrite <- E. rewrite <- (app_nil_r (pr t)) at 2.
  rewrite (expression_ok t [] W eq_refl); [reflexivity|lia].
Qed.

Lemma statement_let_plain : forall n r,
  statement (TKw KLet :: TIdent n :: TEqual :: r) =
  bind (expression (skip_empty_lines r)) (fun e rest => Ok (StLet (mk_defvar n None [] e)) rest).
Proof.
  intros n r. unfold statement. cbn [statement_n parse_variable negb bind].
  destruct (expression (skip_empty_lines r)); reflexivity.
Qed.

Lemma statement_procedure : forall k r, is_procedure k = true ->
  statement (TKw k :: r) = parse_procedure k r.
Proof. intros k r H. destruct k; try discriminate; reflexivity. Qed.

Theorem roundtrip_stmt : forall s, wf_stmt s = true -> parse (pr_stmt s) = Ok [desugar_stmt s] [].
Proof.
  intros [t|n t|k args] W; simpl in W.
  - apply roundtrip. exact W.
  - (* let *)
    destruct (pr_first t W) as (tok & r & E & Fi & _).
    unfold parse. cbn [pr_stmt skip_empty_lines parse_loop].
    rewrite statement_let_plain.
    rewrite E. rewrite skip_first by exact Fi. unfold expression.
    change (expression_d (S (length (tok :: r)))) with (L (length (tok :: r)) 0).
    rewrite <- E. rewrite <- (app_nil_r (pr t)).
    rewrite (expression_ok t [] W eq_refl); [reflexivity|rewrite app_length; simpl; lia].
  - (* procedure call *)
    apply andb_prop in W. destruct W as [Hk Wa].
    unfold parse. cbn [pr_stmt skip_empty_lines parse_loop].
    rewrite statement_procedure by exact Hk. cbn [parse_procedure].
    rewrite arguments_ok; [reflexivity|].
    intros a Ha. assert (Waa : wf a = true) by (eapply forallb_forall in Wa; eauto).
    split; [exact Waa|]. intros rest F.
    apply expression_ok; auto.
    clear - Ha. rewrite app_length. simpl.
    induction args as [|b r IH]; [contradiction|].
    rewrite pr_args_cons, app_length. destruct Ha as [->|Ha]; [lia|].
    specialize (IH Ha). destruct r as [|c r']; [contradiction|].
    rewrite pr_args_cons in IH. cbn [tailp]. cbn [length]. rewrite !app_length in *. simpl in *. lia.
Qed.

Theorem parens_irrelevant : forall t t',
  wf t = true -> wf t' = true -> desugar t = desugar t' -> parse (pr t) = parse (pr t').
Proof. intros t t' W W' E. rewrite (roundtrip t W), (roundtrip t' W'), E. reflexivity. Qed.
