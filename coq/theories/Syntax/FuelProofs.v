(* C10 — the parser model never runs out of fuel, on any token list, and every
   level function consumes at least one token when it succeeds. *)
From Coq Require Import List NArith ZArith Bool Arith Lia.
From NV Require Import Syntax.Token Syntax.Ast Syntax.StmtAst Syntax.StrEsc Syntax.Parser.
Import ListNotations.
Local Open Scope nat_scope.

(* strict: success consumes at least one token; weak: success does not lengthen the input *)
Definition good {A} (r : res A) (ts : list token) : Prop :=
  r <> OutOfFuel /\ forall a rest, r = Ok a rest -> length rest < length ts.
Definition goodle {A} (r : res A) (ts : list token) : Prop :=
  r <> OutOfFuel /\ forall a rest, r = Ok a rest -> length rest <= length ts.

Lemma good_goodle : forall A (r : res A) ts, good r ts -> goodle r ts.
Proof. intros A r ts [H1 H2]. split; [exact H1|]. intros a rest E. specialize (H2 a rest E). lia. Qed.

Lemma good_err : forall A e ts, @good A (Err e) ts.
Proof. intros. split; [discriminate|intros; discriminate]. Qed.
Lemma goodle_err : forall A e ts, @goodle A (Err e) ts.
Proof. intros. split; [discriminate|intros; discriminate]. Qed.
Lemma good_uns : forall A ts, @good A Unsupported ts.
Proof. intros. split; [discriminate|intros; discriminate]. Qed.
Lemma goodle_uns : forall A ts, @goodle A Unsupported ts.
Proof. intros. split; [discriminate|intros; discriminate]. Qed.
Lemma good_ok : forall A (a : A) r ts, length r < length ts -> good (Ok a r) ts.
Proof. intros. split; [discriminate|]. intros a' r' E. inversion E; subst. assumption. Qed.
Lemma goodle_ok : forall A (a : A) r ts, length r <= length ts -> goodle (Ok a r) ts.
Proof. intros. split; [discriminate|]. intros a' r' E. inversion E; subst. assumption. Qed.

Lemma good_weaken : forall A (r : res A) ts ts', good r ts -> length ts <= length ts' -> good r ts'.
Proof. intros A r ts ts' [H1 H2] L. split; [exact H1|]. intros a rest E. specialize (H2 a rest E). lia. Qed.
Lemma goodle_weaken : forall A (r : res A) ts ts', goodle r ts -> length ts <= length ts' -> goodle r ts'.
Proof. intros A r ts ts' [H1 H2] L. split; [exact H1|]. intros a rest E. specialize (H2 a rest E). lia. Qed.
Lemma goodle_good : forall A (r : res A) ts ts', goodle r ts -> length ts < length ts' -> good r ts'.
Proof. intros A r ts ts' [H1 H2] L. split; [exact H1|]. intros a rest E. specialize (H2 a rest E). lia. Qed.

(* bind: the continuation runs on the remaining tokens *)
Lemma good_bind : forall A B (r : res A) (k : A -> list token -> res B) ts,
  goodle r ts -> (forall a rest, r = Ok a rest -> good (k a rest) ts) -> good (bind r k) ts.
Proof.
  intros A B r k ts [H1 H2] Hk. destruct r; simpl; try (split; [discriminate|intros; discriminate]).
  - apply Hk. reflexivity.
  - congruence.
Qed.
Lemma goodle_bind : forall A B (r : res A) (k : A -> list token -> res B) ts,
  goodle r ts -> (forall a rest, r = Ok a rest -> goodle (k a rest) ts) -> goodle (bind r k) ts.
Proof.
  intros A B r k ts [H1 H2] Hk. destruct r; simpl; try (split; [discriminate|intros; discriminate]).
  - apply Hk. reflexivity.
  - congruence.
Qed.

Lemma skip_le : forall ts, length (skip_empty_lines ts) <= length ts.
Proof. induction ts as [|t r IH]; simpl; [lia|]. destruct t; simpl; lia. Qed.

Ltac len := simpl in *; repeat match goal with
  | |- context [skip_empty_lines ?x] => let H := fresh in pose proof (skip_le x) as H; revert H
  | H : context [skip_empty_lines ?x] |- _ => let H' := fresh in pose proof (skip_le x) as H'; revert H H'
  end; intros; simpl in *; lia.

Section Levels.
  Variable expression : parser.
  Variable b : nat.
  Hypothesis Hex : forall ts, S (length ts) <= b -> good (expression ts) ts.

  Lemma binop_loop_good : forall ops next,
    (forall ts, length ts <= b -> good (next ts) ts) ->
    forall n acc ts, length ts < n -> length ts <= b -> goodle (binop_loop n ops next acc ts) ts.
  Proof.
    intros ops next Hn. induction n; intros acc ts L Lb; [lia|]. simpl.
    destruct ts as [|t r]; [apply goodle_ok; lia|].
    destruct (ops t); [|apply goodle_ok; lia].
    assert (G : good (next r) r) by (apply Hn; simpl in Lb; lia).
    apply goodle_bind.
    - apply good_goodle. eapply good_weaken; [exact G|simpl; lia].
    - intros rhs rest E. destruct G as [_ G2]. specialize (G2 rhs rest E).
      eapply goodle_weaken; [apply IHn; simpl in *; lia|simpl; lia].
  Qed.

  Lemma parse_binop_good : forall ops next,
    (forall ts, length ts <= b -> good (next ts) ts) ->
    forall ts, length ts <= b -> good (parse_binop ops next ts) ts.
  Proof.
    intros ops next Hn ts Lb. unfold parse_binop. specialize (Hn ts Lb) as G.
    apply good_bind; [apply good_goodle; exact G|].
    intros e rest E. destruct G as [_ G2]. specialize (G2 e rest E).
    eapply goodle_good; [apply binop_loop_good; [exact Hn|lia|lia]|lia].
  Qed.

  Lemma arguments_loop_good : forall n args ts, length ts < n -> length ts <= b ->
    goodle (arguments_loop expression n args ts) ts.
  Proof.
    induction n; intros args ts L Lb; [lia|]. simpl.
    pose proof (skip_le ts) as S1.
    destruct (skip_empty_lines ts) as [|t r] eqn:E; [apply goodle_err|].
    destruct t; try apply goodle_err.
    - (* TRParen *) apply goodle_ok. simpl in S1. lia.
    - (* TComma *)
      pose proof (skip_le r) as S2.
      destruct (skip_empty_lines r) as [|t2 r2] eqn:E2.
      + assert (G : good (expression []) []) by (apply Hex; simpl in *; lia).
        destruct (expression []) eqn:Ex; try apply goodle_err; try apply goodle_uns.
        * destruct G as [_ G]. specialize (G a rest eq_refl). simpl in G. lia.
        * destruct G as [G _]. congruence.
      + assert (Common : goodle (match expression (t2 :: r2) with
                                  | Ok e rest => arguments_loop expression n (args ++ [e]) rest
                                  | Err _ => Err MissingClosingParen
                                  | OutOfFuel => OutOfFuel
                                  | Unsupported => Unsupported end) ts).
        { assert (G : good (expression (t2 :: r2)) (t2 :: r2)) by (apply Hex; simpl in *; lia).
          destruct (expression (t2 :: r2)) eqn:Ex; try apply goodle_err; try apply goodle_uns.
          - destruct G as [_ G]. specialize (G a rest eq_refl).
            eapply goodle_weaken; [apply IHn; simpl in *; lia|simpl in *; lia].
          - destruct G as [G _]. congruence. }
        destruct t2; try exact Common. apply goodle_ok. simpl in *. lia.
  Qed.

  Lemma arguments_good : forall ts, S (length ts) <= b -> goodle (arguments expression ts) ts.
  Proof.
    intros ts Lb. unfold arguments. pose proof (skip_le ts) as S1.
    assert (Common : goodle (bind (expression (skip_empty_lines ts))
              (fun e rest => arguments_loop expression (S (length rest)) [e] rest)) ts).
    { assert (G : good (expression (skip_empty_lines ts)) (skip_empty_lines ts)) by (apply Hex; lia).
      apply goodle_bind.
      - apply good_goodle. eapply good_weaken; [exact G|lia].
      - intros e rest E. destruct G as [_ G]. specialize (G e rest E).
        eapply goodle_weaken; [apply arguments_loop_good; lia|lia]. }
    destruct (skip_empty_lines ts) as [|t r] eqn:E; [exact Common|].
    destruct t; try exact Common. apply goodle_ok. simpl in S1. lia.
  Qed.

  Lemma list_loop_good : forall n els ts, length ts < n -> S (length ts) <= b ->
    goodle (list_loop expression n els ts) ts.
  Proof.
    induction n; intros els ts L Lb; [lia|]. simpl.
    assert (Common : goodle (bind (expression (skip_empty_lines ts)) (fun e rest =>
              match skip_empty_lines rest with
              | TComma :: r => list_loop expression n (els ++ [e]) (skip_empty_lines r)
              | TRBracket :: r => list_loop expression n (els ++ [e]) (skip_empty_lines (TRBracket :: r))
              | _ => Err ExpectedCommaOrRightBracketInList
              end)) ts).
    { pose proof (skip_le ts) as S1.
      assert (G : good (expression (skip_empty_lines ts)) (skip_empty_lines ts)) by (apply Hex; lia).
      apply goodle_bind.
      - apply good_goodle. eapply good_weaken; [exact G|lia].
      - intros e rest E. destruct G as [_ G]. specialize (G e rest E).
        pose proof (skip_le rest) as S2.
        destruct (skip_empty_lines rest) as [|t r] eqn:E2; [apply goodle_err|].
        destruct t; try apply goodle_err.
        + pose proof (skip_le (TRBracket :: r)) as S3.
          eapply goodle_weaken; [apply IHn; simpl in *; lia|simpl in *; lia].
        + pose proof (skip_le r) as S3.
          eapply goodle_weaken; [apply IHn; simpl in *; lia|simpl in *; lia]. }
    destruct ts as [|t r]; [exact Common|]. destruct t; try exact Common.
    apply goodle_ok. simpl. lia.
  Qed.

  Lemma struct_loop_good : forall n name fields ts, length ts < n -> S (length ts) <= b ->
    goodle (struct_loop expression n name fields ts) ts.
  Proof.
    induction n; intros name fields ts L Lb; [lia|]. simpl.
    assert (Common : goodle (match skip_empty_lines ts with
            | TIdent f :: r =>
                match skip_empty_lines r with
                | TColon :: r' =>
                    bind (expression (skip_empty_lines r')) (fun e rest =>
                      match skip_empty_lines rest with
                      | TComma :: r'' => struct_loop expression n name (fields ++ [(f, e)]) (skip_empty_lines r'')
                      | TRCurly :: r'' => struct_loop expression n name (fields ++ [(f, e)]) (TRCurly :: r'')
                      | _ => Err ExpectedCommaOrRightCurlyInStructFieldList
                      end)
                | _ => Err ExpectedColonAfterFieldName
                end
            | _ => Err ExpectedFieldNameInStruct
            end) ts).
    { pose proof (skip_le ts) as S1.
      destruct (skip_empty_lines ts) as [|t r] eqn:E; [apply goodle_err|].
      destruct t; try apply goodle_err.
      pose proof (skip_le r) as S2.
      destruct (skip_empty_lines r) as [|t2 r2] eqn:E2; [apply goodle_err|].
      destruct t2; try apply goodle_err.
      pose proof (skip_le r2) as S3.
      assert (G : good (expression (skip_empty_lines r2)) (skip_empty_lines r2)) by (apply Hex; simpl in *; lia).
      apply goodle_bind.
      - apply good_goodle. eapply good_weaken; [exact G|simpl in *; lia].
      - intros e rest Ee. destruct G as [_ G]. specialize (G e rest Ee).
        pose proof (skip_le rest) as S4.
        destruct (skip_empty_lines rest) as [|t3 r3] eqn:E3; [apply goodle_err|].
        destruct t3; try apply goodle_err.
        + eapply goodle_weaken; [apply IHn; simpl in *; lia|simpl in *; lia].
        + pose proof (skip_le r3) as S5.
          eapply goodle_weaken; [apply IHn; simpl in *; lia|simpl in *; lia]. }
    destruct ts as [|t r]; [exact Common|]. destruct t; try exact Common.
    apply goodle_ok. simpl. lia.
  Qed.

  Lemma interpolation_good : forall ts, S (length ts) <= b -> good (interpolation expression ts) ts.
  Proof.
    intros ts Lb. unfold interpolation. destruct (starts_no_expression ts); [apply good_err|].
    assert (G : good (expression ts) ts) by (apply Hex; lia).
    apply good_bind.
    - apply good_goodle. exact G.
    - intros e rest E. destruct G as [_ G]. specialize (G e rest E).
      destruct rest as [|t r]; [apply good_ok; exact G|].
      destruct t; try (apply good_ok; exact G). apply good_ok. simpl in *. lia.
  Qed.

  Lemma interp_loop_good : forall n acc ts, length ts < n -> length ts <= b ->
    goodle (interp_loop expression n acc ts) ts.
  Proof.
    induction n; intros acc ts L Lb; [lia|]. simpl.
    destruct ts as [|t r]; [apply goodle_err|].
    destruct t; try apply goodle_err.
    - (* TInterpMiddle *)
      assert (G : good (interpolation expression r) r) by (apply interpolation_good; simpl in Lb; lia).
      apply goodle_bind.
      + apply good_goodle. eapply good_weaken; [exact G|simpl; lia].
      + intros ps rest E. destruct G as [_ G]. specialize (G ps rest E).
        eapply goodle_weaken; [apply IHn; simpl in *; lia|simpl in *; lia].
    - (* TInterpEnd *) apply goodle_ok. simpl. lia.
  Qed.

  Lemma primary_good : forall ts, length ts <= b -> good (primary expression ts) ts.
  Proof.
    intros ts Lb. unfold primary.
    destruct ts as [|t r]; [apply good_err|].
    destruct t; try apply good_err; try apply good_uns; try (apply good_ok; simpl; lia).
    - (* TLParen *)
      assert (G : good (expression r) r) by (apply Hex; simpl in Lb; lia).
      apply good_bind.
      + apply good_goodle. eapply good_weaken; [exact G|simpl; lia].
      + intros inner rest E. destruct G as [_ G]. specialize (G inner rest E).
        destruct rest as [|t2 r2]; [apply good_err|]. destruct t2; try apply good_err.
        apply good_ok. simpl in *. lia.
    - (* TLBracket *)
      pose proof (skip_le r).
      eapply goodle_good; [apply list_loop_good; simpl in *; lia|simpl; lia].
    - (* TKw *) destruct k; apply good_err.
    - (* TIntBase *)
      destruct (i128_overflow _); [apply good_err|apply good_ok; simpl; lia].
    - (* TIdent *)
      destruct r as [|t2 r2]; [apply good_ok; simpl; lia|].
      destruct t2; try (apply good_ok; simpl; lia).
      pose proof (skip_le r2).
      eapply goodle_good; [apply struct_loop_good; simpl in *; lia|simpl; lia].
    - (* TInterpStart *)
      assert (G : good (interpolation expression r) r) by (apply interpolation_good; simpl in Lb; lia).
      apply good_bind.
      + apply good_goodle. eapply good_weaken; [exact G|simpl; lia].
      + intros ps rest E. destruct G as [_ G]. specialize (G ps rest E).
        eapply goodle_good; [apply interp_loop_good; simpl in *; lia|simpl in *; lia].
  Qed.

  Lemma call_loop_good : forall n e ts, length ts < n -> length ts <= b ->
    goodle (call_loop expression n e ts) ts.
  Proof.
    induction n; intros e ts L Lb; [lia|]. simpl.
    destruct ts as [|t r]; [apply goodle_ok; lia|].
    destruct t; try (apply goodle_ok; lia).
    - (* TLParen *)
      assert (G : goodle (arguments expression r) r) by (apply arguments_good; simpl in Lb; lia).
      apply goodle_bind.
      + eapply goodle_weaken; [exact G|simpl; lia].
      + intros args rest E. destruct G as [_ G]. specialize (G args rest E).
        eapply goodle_weaken; [apply IHn; simpl in *; lia|simpl; lia].
    - (* TPeriod *)
      destruct r as [|t2 r2]; [apply goodle_err|]. destruct t2; try apply goodle_err.
      eapply goodle_weaken; [apply IHn; simpl in *; lia|simpl; lia].
  Qed.

  Lemma call_good : forall ts, length ts <= b -> good (call expression ts) ts.
  Proof.
    intros ts Lb. unfold call. pose proof (primary_good ts Lb) as G.
    apply good_bind; [apply good_goodle; exact G|].
    intros e rest E. destruct G as [_ G]. specialize (G e rest E).
    eapply goodle_good; [apply call_loop_good; lia|lia].
  Qed.

  Lemma unicode_power_good : forall ts, length ts <= b -> good (unicode_power expression ts) ts.
  Proof.
    intros ts Lb. unfold unicode_power. pose proof (call_good ts Lb) as G.
    apply good_bind; [apply good_goodle; exact G|].
    intros e rest E. destruct G as [_ G]. specialize (G e rest E).
    destruct rest as [|t r]; [apply good_ok; assumption|].
    destruct t; try (apply good_ok; assumption). apply good_ok. simpl in *. lia.
  Qed.

  Lemma count_excl_le : forall ts, length (snd (count_excl ts)) <= length ts.
  Proof.
    induction ts as [|t r IH]; simpl; [lia|]. destruct t; simpl; try lia.
    destruct (count_excl r). simpl in *. lia.
  Qed.

  Lemma factorial_good : forall ts, length ts <= b -> good (factorial expression ts) ts.
  Proof.
    intros ts Lb. unfold factorial. pose proof (unicode_power_good ts Lb) as G.
    apply good_bind; [apply good_goodle; exact G|].
    intros e rest E. destruct G as [_ G]. specialize (G e rest E).
    pose proof (count_excl_le rest) as C. destruct (count_excl rest) as [k r]. simpl in C.
    destruct k; apply good_ok; lia.
  Qed.

  Lemma power_n_good : forall n ts, length ts < n -> length ts <= b -> good (power_n expression n ts) ts.
  Proof.
    induction n; intros ts L Lb; [lia|]. simpl. pose proof (factorial_good ts Lb) as G.
    apply good_bind; [apply good_goodle; exact G|].
    intros e rest E. destruct G as [_ G]. specialize (G e rest E).
    destruct rest as [|t r]; [apply good_ok; assumption|].
    destruct t; try (apply good_ok; assumption).
    assert (Plain : good (bind (power_n expression n r) (fun rhs rest' => Ok (EBin Power e rhs) rest')) ts).
    { assert (G2 : good (power_n expression n r) r) by (apply IHn; simpl in *; lia).
      apply good_bind; [apply good_goodle; eapply good_weaken; [exact G2|simpl in *; lia]|].
      intros rhs rest' E2. destruct G2 as [_ G2]. specialize (G2 rhs rest' E2). apply good_ok. simpl in *. lia. }
    destruct r as [|t2 r2]; [exact Plain|]. destruct t2; try exact Plain.
    assert (G2 : good (power_n expression n r2) r2) by (apply IHn; simpl in *; lia).
    apply good_bind; [apply good_goodle; eapply good_weaken; [exact G2|simpl in *; lia]|].
    intros rhs rest' E2. destruct G2 as [_ G2]. specialize (G2 rhs rest' E2). apply good_ok. simpl in *. lia.
  Qed.

  Lemma power_good : forall ts, length ts <= b -> good (power expression ts) ts.
  Proof. intros ts Lb. unfold power. apply power_n_good; lia. Qed.

  Lemma ifactor_loop_good : forall n acc ts, length ts < n -> length ts <= b ->
    goodle (ifactor_loop expression n acc ts) ts.
  Proof.
    induction n; intros acc ts L Lb; [lia|]. simpl.
    destruct (could_start_power ts); [|apply goodle_ok; lia].
    pose proof (power_good ts Lb) as G.
    apply goodle_bind; [apply good_goodle; exact G|].
    intros rhs rest E. destruct G as [_ G]. specialize (G rhs rest E).
    eapply goodle_weaken; [apply IHn; lia|lia].
  Qed.

  Lemma ifactor_good : forall ts, length ts <= b -> good (ifactor expression ts) ts.
  Proof.
    intros ts Lb. unfold ifactor. pose proof (power_good ts Lb) as G.
    apply good_bind; [apply good_goodle; exact G|].
    intros e rest E. destruct G as [_ G]. specialize (G e rest E).
    eapply goodle_good; [apply ifactor_loop_good; lia|lia].
  Qed.

  Lemma unary_n_good : forall n ts, length ts < n -> length ts <= b -> good (unary_n expression n ts) ts.
  Proof.
    induction n; intros ts L Lb; [lia|]. simpl.
    destruct ts as [|t r]; [apply ifactor_good; exact Lb|].
    destruct t; try (apply ifactor_good; exact Lb).
    - (* TPlus *) eapply good_weaken; [apply IHn; simpl in *; lia|simpl; lia].
    - (* TMinus *)
      assert (G : good (unary_n expression n r) r) by (apply IHn; simpl in *; lia).
      apply good_bind; [apply good_goodle; eapply good_weaken; [exact G|simpl; lia]|].
      intros rhs rest E. destruct G as [_ G]. specialize (G rhs rest E). apply good_ok. simpl. lia.
  Qed.

  Lemma unary_good : forall ts, length ts <= b -> good (unary expression ts) ts.
  Proof. intros ts Lb. unfold unary. apply unary_n_good; lia. Qed.

  Lemma comparison_good : forall ts, length ts <= b -> good (comparison expression ts) ts.
  Proof.
    unfold comparison, term, factor, per_factor.
    apply parse_binop_good, parse_binop_good, parse_binop_good, parse_binop_good. exact unary_good.
  Qed.

  Lemma logical_neg_n_good : forall n ts, length ts < n -> length ts <= b ->
    good (logical_neg_n expression n ts) ts.
  Proof.
    induction n; intros ts L Lb; [lia|]. simpl.
    destruct ts as [|t r]; [apply comparison_good; exact Lb|].
    destruct t; try (apply comparison_good; exact Lb).
    assert (G : good (logical_neg_n expression n r) r) by (apply IHn; simpl in *; lia).
    apply good_bind; [apply good_goodle; eapply good_weaken; [exact G|simpl; lia]|].
    intros rhs rest E. destruct G as [_ G]. specialize (G rhs rest E). apply good_ok. simpl. lia.
  Qed.

  Lemma conversion_good : forall ts, length ts <= b -> good (conversion expression ts) ts.
  Proof.
    unfold conversion, logical_or, logical_and.
    apply parse_binop_good, parse_binop_good, parse_binop_good.
    intros ts Lb. unfold logical_neg. apply logical_neg_n_good; lia.
  Qed.

  Lemma condition_n_good : forall n ts, length ts < n -> length ts <= b ->
    good (condition_n expression n ts) ts.
  Proof.
    induction n; intros ts L Lb; [lia|]. simpl.
    destruct ts as [|t r]; [apply conversion_good; exact Lb|].
    destruct t; try (apply conversion_good; exact Lb).
    assert (G : good (conversion expression r) r) by (apply conversion_good; simpl in Lb; lia).
    apply good_bind; [apply good_goodle; eapply good_weaken; [exact G|simpl; lia]|].
    intros c rest E. destruct G as [_ G]. specialize (G c rest E).
    pose proof (skip_le rest) as S1.
    destruct (skip_empty_lines rest) as [|t1 r1] eqn:E1; [apply good_err|].
    destruct t1; try apply good_err.
    pose proof (skip_le r1) as S2.
    assert (G1 : good (condition_n expression n (skip_empty_lines r1)) (skip_empty_lines r1))
      by (apply IHn; simpl in *; lia).
    apply good_bind; [apply good_goodle; eapply good_weaken; [exact G1|simpl in *; lia]|].
    intros t rest1 Et. destruct G1 as [_ G1]. specialize (G1 t rest1 Et).
    pose proof (skip_le rest1) as S3.
    destruct (skip_empty_lines rest1) as [|t2 r2] eqn:E2; [apply good_err|].
    destruct t2; try apply good_err.
    pose proof (skip_le r2) as S4.
    assert (G2 : good (condition_n expression n (skip_empty_lines r2)) (skip_empty_lines r2))
      by (apply IHn; simpl in *; lia).
    apply good_bind; [apply good_goodle; eapply good_weaken; [exact G2|simpl in *; lia]|].
    intros e rest2 Ee. destruct G2 as [_ G2]. specialize (G2 e rest2 Ee). apply good_ok. simpl in *. lia.
  Qed.

  Lemma condition_good : forall ts, length ts <= b -> good (condition expression ts) ts.
  Proof. intros ts Lb. unfold condition. apply condition_n_good; lia. Qed.

  Lemma postfix_loop_good : forall n acc ts, length ts < n -> length ts <= b ->
    goodle (postfix_loop expression n acc ts) ts.
  Proof.
    induction n; intros acc ts L Lb; [lia|]. simpl.
    destruct ts as [|t r]; [apply goodle_ok; lia|].
    destruct t; try (apply goodle_ok; lia).
    pose proof (skip_le r) as S1.
    assert (G : good (call expression (skip_empty_lines r)) (skip_empty_lines r))
      by (apply call_good; simpl in *; lia).
    apply goodle_bind; [apply good_goodle; eapply good_weaken; [exact G|simpl in *; lia]|].
    intros f rest E. destruct G as [_ G]. specialize (G f rest E).
    destruct f; try apply goodle_err;
      (eapply goodle_weaken; [apply IHn; simpl in *; lia|simpl in *; lia]).
  Qed.

  Lemma postfix_apply_good : forall ts, length ts <= b -> good (postfix_apply expression ts) ts.
  Proof.
    intros ts Lb. unfold postfix_apply. pose proof (condition_good ts Lb) as G.
    apply good_bind; [apply good_goodle; exact G|].
    intros e rest E. destruct G as [_ G]. specialize (G e rest E).
    eapply goodle_good; [apply postfix_loop_good; lia|lia].
  Qed.
End Levels.

Lemma expression_d_good : forall d ts, S (length ts) <= d -> good (expression_d d ts) ts.
Proof.
  induction d; intros ts L; [lia|]. cbn [expression_d].
  apply (postfix_apply_good (expression_d d) d IHd). lia.
Qed.

Lemma expression_good : forall ts, good (expression ts) ts.
Proof. intros ts. unfold expression. apply expression_d_good. lia. Qed.

Lemma arguments_top_good : forall r, goodle (arguments (expression_d (S (length r))) r) r.
Proof.
  intros r. apply (arguments_good (expression_d (S (length r))) (S (length r))); [|lia].
  intros ts L. apply expression_d_good. lia.
Qed.

(* brute force for the functions that only look at a fixed token pattern *)
Ltac gstep :=
  first [ apply good_err | apply goodle_err | apply good_uns | apply goodle_uns
        | (apply good_ok; simpl in *; lia) | (apply goodle_ok; simpl in *; lia)
        | match goal with |- context [match ?x with _ => _ end] => is_var x; destruct x end
        | match goal with |- context [if ?c then _ else _] => destruct c end ].
Ltac gsolve := repeat gstep.

Lemma good_bind_w : forall A B (r : res A) (k : A -> list token -> res B) ts ts0,
  good r ts0 -> length ts0 <= length ts ->
  (forall a rest, r = Ok a rest -> length rest < length ts0 -> good (k a rest) ts) -> good (bind r k) ts.
Proof.
  intros A B r k ts ts0 [H1 H2] L Hk. destruct r; simpl; try (split; [discriminate|intros; discriminate]).
  - apply Hk; [reflexivity|]. apply (H2 a rest eq_refl).
  - congruence.
Qed.
Lemma goodle_bind_w : forall A B (r : res A) (k : A -> list token -> res B) ts ts0,
  good r ts0 -> length ts0 <= length ts ->
  (forall a rest, r = Ok a rest -> length rest < length ts0 -> goodle (k a rest) ts) -> goodle (bind r k) ts.
Proof.
  intros A B r k ts ts0 [H1 H2] L Hk. destruct r; simpl; try (split; [discriminate|intros; discriminate]).
  - apply Hk; [reflexivity|]. apply (H2 a rest eq_refl).
  - congruence.
Qed.

(* ---- dimension expressions and type annotations *)
Lemma dimension_exponent_n_good : forall n ts, length ts < n -> good (dimension_exponent_n n ts) ts.
Proof.
  induction n; intros ts L; [lia|]. simpl.
  destruct ts as [|t r]; [apply good_err|]. destruct t; try apply good_err.
  - (* ( *)
    apply (good_bind_w _ _ _ _ _ r); [apply IHn; simpl in L; lia|simpl; lia|].
    intros e rest E Lr. destruct rest as [|t1 r1]; [apply good_err|]. destruct t1; try apply good_err.
    + apply good_ok. simpl in *. lia.
    + apply (good_bind_w _ _ _ _ _ r1); [apply IHn; simpl in *; lia|simpl in *; lia|].
      intros rhs rest2 E2 L2. destruct (exp_is_zero rhs); [apply good_err|].
      destruct rest2 as [|t2 r2]; [apply good_err|]. destruct t2; try apply good_err.
      destruct (exp_fits _); [apply good_ok; simpl in *; lia|apply good_err].
  - (* - *)
    apply (good_bind_w _ _ _ _ _ r); [apply IHn; simpl in L; lia|simpl; lia|].
    intros e rest E Lr. apply good_ok. simpl. lia.
  - (* number *)
    destruct (negb _); [apply good_err|]. destruct (Z.leb _ _); [apply good_ok; simpl; lia|apply good_err].
Qed.

Lemma dimension_exponent_good : forall ts, good (dimension_exponent ts) ts.
Proof. intros ts. apply dimension_exponent_n_good. lia. Qed.

Section TypeFuel.
  Variable tk : list token -> res tann.
  Variable dk : list token -> res texp.
  Variable b : nat.
  Hypothesis Htk : forall ts, S (length ts) <= b -> good (tk ts) ts.
  Hypothesis Hdk : forall ts, S (length ts) <= b -> good (dk ts) ts.

  Lemma type_args_loop_good : forall n args ts, length ts < n -> length ts <= b ->
    good (type_args_loop tk n args ts) ts.
  Proof.
    induction n; intros args ts L Lb; [lia|]. simpl.
    destruct ts as [|t r]; [apply good_err|]. destruct t; try apply good_err; try apply good_uns.
    - apply (good_bind_w _ _ _ _ _ r); [apply Htk; simpl in Lb; lia|simpl; lia|].
      intros a rest E Lr. eapply good_weaken; [apply IHn; simpl in *; lia|simpl; lia].
    - apply good_ok. simpl. lia.
  Qed.

  Lemma dimension_primary_good : forall ts, length ts <= b -> good (dimension_primary tk dk ts) ts.
  Proof.
    intros ts Lb. unfold dimension_primary.
    destruct ts as [|t r]; [apply good_err|]. destruct t; try apply good_err.
    - (* ( *)
      apply (good_bind_w _ _ _ _ _ r); [apply Hdk; simpl in Lb; lia|simpl; lia|].
      intros d rest E Lr. destruct rest as [|t1 r1]; [apply good_err|]. destruct t1; try apply good_err.
      apply good_ok. simpl in *. lia.
    - (* number *) destruct (list_eq_dec _ _ _); [apply good_ok; simpl; lia|apply good_err].
    - (* identifier *)
      destruct (starts_double_underscore name); [apply good_err|].
      assert (Plain : good (Ok (TEIdent name []) r) (TIdent name :: r)) by (apply good_ok; simpl; lia).
      destruct r as [|t1 r1]; [exact Plain|]. destruct t1; try exact Plain.
      assert (Gen : good (bind (tk r1) (fun a rest =>
                 bind (type_args_loop tk (S (length rest)) [a] rest) (fun args rest1 => Ok (TEIdent name args) rest1)))
                 (TIdent name :: TLessThan :: r1)).
      { apply (good_bind_w _ _ _ _ _ r1); [apply Htk; simpl in Lb; lia|simpl; lia|].
        intros a rest E Lr.
        apply (good_bind_w _ _ _ _ _ rest); [apply type_args_loop_good; simpl in *; lia|simpl; lia|].
        intros args rest1 E1 L1. apply good_ok. simpl in *. lia. }
      destruct r1 as [|t2 r2]; [exact Gen|]. destruct t2; try exact Gen.
      + apply good_ok. simpl. lia.
      + apply good_uns.
  Qed.

  Lemma dimension_power_good : forall ts, length ts <= b -> good (dimension_power tk dk ts) ts.
  Proof.
    intros ts Lb. unfold dimension_power.
    apply (good_bind_w _ _ _ _ _ ts); [apply dimension_primary_good; exact Lb|lia|].
    intros e rest E Lr. destruct rest as [|t r]; [apply good_ok; exact Lr|].
    destruct t; try (apply good_ok; exact Lr).
    - apply (good_bind_w _ _ _ _ _ r); [apply dimension_exponent_good|simpl in *; lia|].
      intros x rest1 E1 L1. apply good_ok. simpl in *. lia.
    - apply good_ok. simpl in *. lia.
  Qed.

  Lemma dimension_factor_loop_good : forall n acc ts, length ts < n -> length ts <= b ->
    goodle (dimension_factor_loop tk dk n acc ts) ts.
  Proof.
    induction n; intros acc ts L Lb; [lia|]. simpl.
    destruct ts as [|t r]; [apply goodle_ok; lia|]. destruct t; try (apply goodle_ok; lia).
    - apply (goodle_bind_w _ _ _ _ _ r); [apply dimension_power_good; simpl in Lb; lia|simpl; lia|].
      intros rhs rest E Lr. eapply goodle_weaken; [apply IHn; simpl in *; lia|simpl; lia].
    - apply (goodle_bind_w _ _ _ _ _ r); [apply dimension_power_good; simpl in Lb; lia|simpl; lia|].
      intros rhs rest E Lr. eapply goodle_weaken; [apply IHn; simpl in *; lia|simpl; lia].
  Qed.

  Lemma dimension_factor_good : forall ts, length ts <= b -> good (dimension_factor tk dk ts) ts.
  Proof.
    intros ts Lb. unfold dimension_factor.
    apply (good_bind_w _ _ _ _ _ ts); [apply dimension_power_good; exact Lb|lia|].
    intros e rest E Lr. eapply goodle_good; [apply dimension_factor_loop_good; lia|lia].
  Qed.

  Lemma fn_type_params_loop_good : forall n ps ts, length ts < n -> length ts <= b ->
    goodle (fn_type_params_loop tk n ps ts) ts.
  Proof.
    induction n; intros ps ts L Lb; [lia|]. simpl.
    destruct ts as [|t r]; [apply goodle_ok; lia|]. destruct t; try (apply goodle_ok; lia).
    apply (goodle_bind_w _ _ _ _ _ r); [apply Htk; simpl in Lb; lia|simpl; lia|].
    intros a rest E Lr. eapply goodle_weaken; [apply IHn; simpl in *; lia|simpl; lia].
  Qed.

  Lemma type_annotation_body_good : forall ts, length ts <= b -> good (type_annotation_body tk dk ts) ts.
  Proof.
    intros ts Lb. unfold type_annotation_body.
    assert (D : good (bind (dimension_factor tk dk ts) (fun d rest => Ok (TAExp d) rest)) ts).
    { apply (good_bind_w _ _ _ _ _ ts); [apply dimension_factor_good; exact Lb|lia|].
      intros d rest E Lr. apply good_ok. exact Lr. }
    destruct ts as [|t r]; [exact D|]. destruct t; try exact D.
    destruct k; try exact D; try (apply good_ok; simpl; lia).
    - (* Fn *)
      destruct r as [|t1 r1]; [apply good_err|]. destruct t1; try apply good_err.
      destruct r1 as [|t2 r2]; [apply good_err|]. destruct t2; try apply good_err.
      assert (Tail : forall ps rest, length rest <= length r2 ->
                good (match rest with
                      | TRParen :: TArrow :: rest1 =>
                          bind (tk rest1) (fun ret rest2 =>
                            match rest2 with
                            | TRBracket :: rest3 => Ok (TAFn ps ret) rest3
                            | _ => Err ExpectedTokenInFunctionType
                            end)
                      | TRParen :: _ => Err ExpectedTokenInFunctionType
                      | _ => Err MissingClosingParen
                      end) (TKw KCapitalFn :: TLBracket :: TLParen :: r2)).
      { intros ps rest Lr. destruct rest as [|t3 r3]; [apply good_err|]. destruct t3; try apply good_err.
        destruct r3 as [|t4 r4]; [apply good_err|]. destruct t4; try apply good_err.
        apply (good_bind_w _ _ _ _ _ r4); [apply Htk; simpl in *; lia|simpl in *; lia|].
        intros ret rest2 E2 L2. destruct rest2 as [|t5 r5]; [apply good_err|]. destruct t5; try apply good_err.
        apply good_ok. simpl in *. lia. }
      assert (Gen : good (bind (bind (tk r2) (fun a rest => fn_type_params_loop tk (S (length rest)) [a] rest))
                 (fun ps rest => match rest with
                      | TRParen :: TArrow :: rest1 =>
                          bind (tk rest1) (fun ret rest2 =>
                            match rest2 with
                            | TRBracket :: rest3 => Ok (TAFn ps ret) rest3
                            | _ => Err ExpectedTokenInFunctionType
                            end)
                      | TRParen :: _ => Err ExpectedTokenInFunctionType
                      | _ => Err MissingClosingParen
                      end)) (TKw KCapitalFn :: TLBracket :: TLParen :: r2)).
      { assert (G1 : good (bind (tk r2) (fun a rest => fn_type_params_loop tk (S (length rest)) [a] rest)) r2).
        { apply (good_bind_w _ _ _ _ _ r2); [apply Htk; simpl in *; lia|lia|].
          intros a rest E Lr. eapply goodle_good; [apply fn_type_params_loop_good; simpl in *; lia|lia]. }
        apply (good_bind_w _ _ _ _ _ r2); [exact G1|simpl; lia|].
        intros ps rest E Lr. apply Tail. lia. }
      destruct r2 as [|t3 r3]; [exact Gen|]. destruct t3; try exact Gen.
      cbn [bind]. apply (Tail [] (TRParen :: r3)). lia.
    - (* List *)
      destruct r as [|t1 r1]; [apply good_err|]. destruct t1; try apply good_err.
      apply (good_bind_w _ _ _ _ _ r1); [apply Htk; simpl in *; lia|simpl; lia|].
      intros a rest E Lr. destruct rest as [|t2 r2]; [apply good_err|].
      destruct t2; try apply good_err; try apply good_uns. apply good_ok. simpl in *. lia.
  Qed.
End TypeFuel.

Lemma type_knot_good : forall d,
  (forall ts, S (length ts) <= d -> good (type_annotation_d d ts) ts)
  /\ (forall ts, S (length ts) <= d -> good (dimension_expression_d d ts) ts).
Proof.
  induction d; [split; intros ts L; lia|]. destruct IHd as [I1 I2]. split; intros ts L; cbn [type_annotation_d dimension_expression_d].
  - apply (type_annotation_body_good _ _ d); [exact I1|exact I2|lia].
  - apply (dimension_factor_good _ _ d); [exact I1|exact I2|lia].
Qed.

Lemma type_annotation_good : forall ts, good (type_annotation ts) ts.
Proof. intros ts. unfold type_annotation. apply (proj1 (type_knot_good (S (length ts)))). lia. Qed.
Lemma dimension_expression_good : forall ts, good (dimension_expression ts) ts.
Proof. intros ts. unfold dimension_expression. apply (proj2 (type_knot_good (S (length ts)))). lia. Qed.

(* ---- statements *)
Lemma opt_ann_good : forall r,
  goodle (match r with
          | TColon :: r1 => bind (type_annotation r1) (fun a rest => Ok (Some a) rest)
          | _ => Ok None r
          end) r.
Proof.
  intros r. assert (P : goodle (Ok (@None tann) r) r) by (apply goodle_ok; lia).
  destruct r as [|t r1]; [exact P|]. destruct t; try exact P.
  apply good_goodle. apply (good_bind_w _ _ _ _ _ r1); [apply type_annotation_good|simpl; lia|].
  intros a rest E Lr. apply good_ok. simpl. lia.
Qed.

Lemma parse_variable_good : forall flush decos ts, good (parse_variable flush decos ts) ts.
Proof.
  intros flush decos ts. unfold parse_variable.
  destruct ts as [|t r]; [apply good_err|]. destruct t; try apply good_err.
  pose proof (opt_ann_good r) as G.
  apply good_bind; [eapply goodle_weaken; [exact G|simpl; lia]|].
  intros a rest E. destruct G as [_ G]. specialize (G a rest E).
  destruct rest as [|t1 r1]; [apply good_err|]. destruct t1; try apply good_err.
  pose proof (skip_le r1). pose proof (expression_good (skip_empty_lines r1)) as Ge.
  apply (good_bind_w _ _ _ _ _ (skip_empty_lines r1)); [exact Ge|simpl in *; lia|].
  intros e rest2 E2 L2.
  destruct (flush && contains_aliases_with_prefixes decos); [apply good_err|].
  destruct (flush && contains_examples decos); [apply good_err|]. apply good_ok. simpl in *. lia.
Qed.

Lemma parse_procedure_good : forall k ts, good (parse_procedure k ts) ts.
Proof.
  intros k ts. unfold parse_procedure. destruct ts as [|t r]; [apply good_err|]. destruct t; try apply good_err.
  pose proof (arguments_top_good r) as G.
  apply good_bind; [eapply goodle_weaken; [exact G|simpl; lia]|].
  intros a rest Ea. destruct G as [_ G]. specialize (G a rest Ea). apply good_ok. simpl. lia.
Qed.

Lemma type_parameters_loop_good : forall n acc ts, length ts < n -> good (type_parameters_loop n acc ts) ts.
Proof.
  induction n; intros acc ts L; [lia|]. simpl.
  destruct ts as [|t r]; [apply good_err|]. destruct t; try apply good_err; try apply good_uns.
  - apply good_ok. simpl. lia.
  - (* identifier *)
    assert (B : good (match r with
                      | TColon :: TIdent bd :: r1 => if list_eq_dec N.eq_dec bd str_Dim then Ok true r1 else Err UnknownBound
                      | TColon :: _ => Err ExpectedBoundInTypeParameterDefinition
                      | _ => Ok false r
                      end) (TIdent name :: r)).
    { destruct r as [|t1 r1]; [apply good_ok; simpl; lia|]. destruct t1; try (apply good_ok; simpl; lia).
      destruct r1 as [|t2 r2]; [apply good_err|]. destruct t2; try apply good_err.
      destruct (list_eq_dec _ _ _); [apply good_ok; simpl; lia|apply good_err]. }
    apply (good_bind_w _ _ _ _ _ (TIdent name :: r)); [exact B|lia|].
    intros bd rest E Lr. destruct rest as [|t1 r1]; [apply good_err|].
    destruct t1; try apply good_err;
      (eapply good_weaken; [apply IHn; simpl in *; lia|simpl in *; lia]).
Qed.

Lemma type_parameters_good : forall ts, goodle (type_parameters ts) ts.
Proof.
  intros ts. unfold type_parameters. assert (P : goodle (Ok (@nil (str * bool)) ts) ts) by (apply goodle_ok; lia).
  destruct ts as [|t r]; [exact P|]. destruct t; try exact P.
  apply good_goodle. eapply good_weaken; [apply type_parameters_loop_good; lia|simpl; lia].
Qed.

Lemma fn_params_loop_good : forall n acc ts, length ts < n -> good (fn_params_loop n acc ts) ts.
Proof.
  induction n; intros acc ts L; [lia|]. simpl.
  destruct ts as [|t r]; [apply good_err|]. destruct t; try apply good_err.
  - apply good_ok. simpl. lia.
  - pose proof (opt_ann_good r) as G.
    apply good_bind; [eapply goodle_weaken; [exact G|simpl; lia]|].
    intros a rest E. destruct G as [_ G]. specialize (G a rest E).
    pose proof (skip_le rest) as S1.
    destruct (skip_empty_lines rest) as [|t1 r1] eqn:E1; [apply good_err|].
    destruct t1; try apply good_err.
    + apply good_ok. simpl in *. lia.
    + pose proof (skip_le r1) as S2.
      assert (Rec : good (fn_params_loop n (acc ++ [(name, a)]) (skip_empty_lines r1)) (TIdent name :: r)).
      { eapply good_weaken; [apply IHn; simpl in *; lia|simpl in *; lia]. }
      destruct (skip_empty_lines r1) as [|t2 r2] eqn:E2; [exact Rec|].
      destruct t2; try exact Rec. apply good_ok. simpl in *. lia.
Qed.

Lemma drop_separators_le : forall ts, length (drop_separators ts) <= length ts.
Proof. induction ts as [|t r IH]; simpl; [lia|]. destruct t; simpl; lia. Qed.

Lemma match_kw_shorter : forall k ts r, match_kw_beyond_linebreaks k ts = Some r -> length r < length ts.
Proof.
  intros k ts r H. unfold match_kw_beyond_linebreaks in H. pose proof (skip_le ts).
  destruct (match drop_separators ts with [] => false | t :: _ => is_kw k t end).
  - destruct (skip_empty_lines ts) as [|t r1] eqn:E; [discriminate|].
    destruct (is_kw k t); [|discriminate]. inversion H; subst. simpl in *. lia.
  - destruct ts as [|t r1]; [discriminate|]. destruct (is_kw k t); [|discriminate]. inversion H; subst. simpl. lia.
Qed.

Lemma local_variable_good : forall ts, good (local_variable ts) ts.
Proof.
  intros ts. unfold local_variable. pose proof (skip_le ts).
  pose proof (parse_variable_good false [] (skip_empty_lines ts)) as [G1 G2].
  destruct (parse_variable false [] (skip_empty_lines ts)) eqn:E; try apply good_err; try apply good_uns.
  - specialize (G2 a rest eq_refl). apply good_ok. lia.
  - congruence.
Qed.

Lemma and_loop_good : forall n acc ts, length ts < n -> goodle (and_loop n acc ts) ts.
Proof.
  induction n; intros acc ts L; [lia|]. simpl.
  destruct (match_kw_beyond_linebreaks KAnd ts) as [r|] eqn:M; [|apply goodle_ok; lia].
  pose proof (match_kw_shorter _ _ _ M).
  apply (goodle_bind_w _ _ _ _ _ r); [apply local_variable_good|lia|].
  intros v rest E Lr. eapply goodle_weaken; [apply IHn; lia|lia].
Qed.

Lemma parse_function_declaration_good : forall decos ts, good (parse_function_declaration decos ts) ts.
Proof.
  intros decos ts. unfold parse_function_declaration.
  destruct ts as [|t r]; [apply good_err|]. destruct t; try apply good_err.
  pose proof (type_parameters_good r) as G.
  apply good_bind; [eapply goodle_weaken; [exact G|simpl; lia]|].
  intros tps rest E. destruct G as [_ G]. specialize (G tps rest E).
  destruct rest as [|t1 rest1]; [apply good_err|]. destruct t1; try apply good_err.
  set (rest1a := match rest1 with TNewline :: x => x | _ => rest1 end).
  assert (La : length rest1a <= length rest1) by (subst rest1a; destruct rest1 as [|t2 x]; [lia|]; destruct t2; simpl; lia).
  apply (good_bind_w _ _ _ _ _ rest1a); [apply fn_params_loop_good; lia|simpl in *; lia|].
  intros params rest2 E2 L2.
  assert (Gret : goodle (match rest2 with
                         | TArrow :: r2 => bind (type_annotation r2) (fun a x => Ok (Some a) x)
                         | _ => Ok None rest2
                         end) rest2).
  { assert (P : goodle (Ok (@None tann) rest2) rest2) by (apply goodle_ok; lia).
    destruct rest2 as [|t2 r2]; [exact P|]. destruct t2; try exact P.
    apply good_goodle. apply (good_bind_w _ _ _ _ _ r2); [apply type_annotation_good|simpl; lia|].
    intros a x Ea Lx. apply good_ok. simpl. lia. }
  apply good_bind; [eapply goodle_weaken; [exact Gret|simpl in *; lia]|].
  intros ret rest3 E3. destruct Gret as [_ Gret]. specialize (Gret ret rest3 E3).
  assert (Gbody : goodle (match rest3 with
                  | TEqual :: r3 =>
                      bind (expression (skip_empty_lines r3)) (fun b rest4 =>
                        match match_kw_beyond_linebreaks KWhere rest4 with
                        | Some r4 =>
                            bind (local_variable r4) (fun v rest5 =>
                              bind (and_loop (S (length rest5)) [v] rest5) (fun vs rest6 => Ok (Some b, vs) rest6))
                        | None => Ok (Some b, []) rest4
                        end)
                  | _ => Ok (None, []) rest3
                  end) rest3).
  { assert (P : goodle (Ok (@None expr, @nil defvar) rest3) rest3) by (apply goodle_ok; lia).
    destruct rest3 as [|t3 r3]; [exact P|]. destruct t3; try exact P.
    pose proof (skip_le r3). apply good_goodle.
    apply (good_bind_w _ _ _ _ _ (skip_empty_lines r3)); [apply expression_good|simpl; lia|].
    intros bdy rest4 E4 L4.
    destruct (match_kw_beyond_linebreaks KWhere rest4) as [r4|] eqn:M; [|apply good_ok; simpl in *; lia].
    pose proof (match_kw_shorter _ _ _ M).
    apply (good_bind_w _ _ _ _ _ r4); [apply local_variable_good|simpl in *; lia|].
    intros v rest5 E5 L5.
    apply good_bind; [eapply goodle_weaken; [apply and_loop_good; lia|simpl in *; lia]|].
    intros vs rest6 E6. pose proof (proj2 (and_loop_good (S (length rest5)) [v] rest5 ltac:(lia)) vs rest6 E6).
    apply good_ok. simpl in *. lia. }
  apply good_bind; [eapply goodle_weaken; [exact Gbody|simpl in *; lia]|].
  intros bl rest7 E7. destruct Gbody as [_ Gbody]. specialize (Gbody bl rest7 E7).
  destruct (contains_aliases decos); [apply good_err|]. apply good_ok. simpl in *. lia.
Qed.

Lemma dimension_eq_loop_good : forall n acc ts, length ts < n -> goodle (dimension_eq_loop n acc ts) ts.
Proof.
  induction n; intros acc ts L; [lia|]. simpl.
  destruct ts as [|t r]; [apply goodle_ok; lia|]. destruct t; try (apply goodle_ok; lia).
  pose proof (skip_le r).
  apply (goodle_bind_w _ _ _ _ _ (skip_empty_lines r)); [apply dimension_expression_good|simpl; lia|].
  intros d rest E Lr. eapply goodle_weaken; [apply IHn; simpl in *; lia|simpl in *; lia].
Qed.

Lemma parse_dimension_declaration_good : forall ts, good (parse_dimension_declaration ts) ts.
Proof.
  intros ts. unfold parse_dimension_declaration.
  destruct ts as [|t r]; [apply good_err|]. destruct t; try apply good_err.
  destruct (starts_double_underscore name); [apply good_err|].
  apply good_bind; [eapply goodle_weaken; [apply dimension_eq_loop_good; lia|simpl; lia]|].
  intros ds rest E. pose proof (proj2 (dimension_eq_loop_good (S (length r)) [] r ltac:(lia)) ds rest E).
  apply good_ok. simpl. lia.
Qed.

Lemma accepts_prefix_good : forall ts, goodle (accepts_prefix ts) ts.
Proof. intros ts. unfold accepts_prefix. gsolve. Qed.

Lemma alias_entry_good : forall ts, good (alias_entry ts) ts.
Proof.
  intros ts. unfold alias_entry. destruct ts as [|t r]; [apply good_err|]. destruct t; try apply good_err.
  apply good_bind; [eapply goodle_weaken; [apply accepts_prefix_good|simpl; lia]|].
  intros a rest E. pose proof (proj2 (accepts_prefix_good r) a rest E). apply good_ok. simpl. lia.
Qed.

Lemma aliases_loop_good : forall n acc ts, length ts < n -> good (aliases_loop n acc ts) ts.
Proof.
  induction n; intros acc ts L; [lia|]. simpl.
  destruct ts as [|t r]; [apply good_err|]. destruct t; try apply good_err.
  - apply good_ok. simpl. lia.
  - apply (good_bind_w _ _ _ _ _ r); [apply alias_entry_good|simpl; lia|].
    intros a rest E Lr. eapply good_weaken; [apply IHn; simpl in *; lia|simpl; lia].
Qed.

Lemma list_of_aliases_good : forall ts, good (list_of_aliases ts) ts.
Proof.
  intros ts. unfold list_of_aliases.
  assert (G : good (bind (alias_entry ts) (fun a rest => aliases_loop (S (length rest)) [a] rest)) ts).
  { apply (good_bind_w _ _ _ _ _ ts); [apply alias_entry_good|lia|].
    intros a rest E Lr. eapply good_weaken; [apply aliases_loop_good; lia|lia]. }
  destruct ts as [|t r]; [exact G|]. destruct t; try exact G. apply good_ok. simpl. lia.
Qed.

Lemma parse_decorator_good : forall ts, good (parse_decorator ts) ts.
Proof.
  intros ts. unfold parse_decorator.
  destruct ts as [|t r]; [apply good_err|]. destruct t; try apply good_err.
  destruct (seq name w_metric_prefixes); [apply good_ok; simpl; lia|].
  destruct (seq name w_binary_prefixes); [apply good_ok; simpl; lia|].
  destruct (seq name w_abbreviation); [apply good_ok; simpl; lia|].
  destruct (seq name w_aliases).
  { destruct r as [|t1 r1]; [apply good_err|]. destruct t1; try apply good_err.
    apply (good_bind_w _ _ _ _ _ r1); [apply list_of_aliases_good|simpl; lia|].
    intros l rest E Lr. apply good_ok. simpl in *. lia. }
  destruct (seq name w_url || seq name w_name || seq name w_description); [gsolve|].
  destruct (seq name w_example); [gsolve|apply good_err].
Qed.

Lemma parse_unit_declaration_good : forall decos ts, good (parse_unit_declaration decos ts) ts.
Proof.
  intros decos ts. unfold parse_unit_declaration.
  destruct ts as [|t r]; [apply good_err|]. destruct t; try apply good_err.
  assert (G : goodle (match r with
                      | TColon :: r1 => bind (dimension_expression r1) (fun d rest => Ok (Some d) rest)
                      | _ => Ok None r
                      end) r).
  { assert (P : goodle (Ok (@None texp) r) r) by (apply goodle_ok; lia).
    destruct r as [|t1 r1]; [exact P|]. destruct t1; try exact P.
    apply good_goodle. apply (good_bind_w _ _ _ _ _ r1); [apply dimension_expression_good|simpl; lia|].
    intros d rest E Lr. apply good_ok. simpl. lia. }
  apply good_bind; [eapply goodle_weaken; [exact G|simpl; lia]|].
  intros d rest E. destruct G as [_ G]. specialize (G d rest E).
  destruct (contains_examples decos); [apply good_err|].
  assert (NoEq : good (match d with
                       | Some _ => Ok (StUnit name (option_map TAExp d) None decos) rest
                       | None => if is_end_of_statement rest then Ok (StUnit name None None decos) rest
                                 else Err ExpectedColonOrEqualAfterUnitIdentifier
                       end) (TIdent name :: r)).
  { destruct d; [apply good_ok; simpl; lia|]. destruct (is_end_of_statement rest); [apply good_ok; simpl; lia|apply good_err]. }
  destruct rest as [|t1 r1]; [exact NoEq|]. destruct t1; try exact NoEq.
  pose proof (skip_le r1).
  apply (good_bind_w _ _ _ _ _ (skip_empty_lines r1)); [apply expression_good|simpl in *; lia|].
  intros e rest2 E2 L2. apply good_ok. simpl in *. lia.
Qed.

Lemma use_loop_good : forall n acc ts, length ts < n -> goodle (use_loop n acc ts) ts.
Proof.
  induction n; intros acc ts L; [lia|]. simpl.
  destruct ts as [|t r]; [apply goodle_ok; lia|]. destruct t; try (apply goodle_ok; lia).
  destruct r as [|t1 r1]; [apply goodle_err|]. destruct t1; try apply goodle_err.
  eapply goodle_weaken; [apply IHn; simpl in *; lia|simpl; lia].
Qed.

Lemma parse_use_good : forall ts, good (parse_use ts) ts.
Proof.
  intros ts. unfold parse_use. destruct ts as [|t r]; [apply good_err|]. destruct t; try apply good_err.
  apply good_bind; [eapply goodle_weaken; [apply use_loop_good; lia|simpl; lia]|].
  intros p rest E. pose proof (proj2 (use_loop_good (S (length r)) [name] r ltac:(lia)) p rest E).
  apply good_ok. simpl. lia.
Qed.

Lemma struct_fields_loop_good : forall n acc ts, length ts < n -> good (struct_fields_loop n acc ts) ts.
Proof.
  induction n; intros acc ts L; [lia|]. simpl.
  assert (Common : good (match skip_empty_lines ts with
          | TIdent f :: r =>
              match skip_empty_lines r with
              | TColon :: r1 =>
                  bind (type_annotation (skip_empty_lines r1)) (fun a rest =>
                    match skip_empty_lines rest with
                    | TComma :: r2 => struct_fields_loop n (acc ++ [(f, a)]) (skip_empty_lines r2)
                    | TRCurly :: r2 => struct_fields_loop n (acc ++ [(f, a)]) (TRCurly :: r2)
                    | _ => Err ExpectedCommaOrRightCurlyInStructFieldList
                    end)
              | _ => Err ExpectedColonAfterFieldName
              end
          | _ => Err ExpectedFieldNameInStruct
          end) ts).
  { pose proof (skip_le ts) as S1.
    destruct (skip_empty_lines ts) as [|t r] eqn:E; [apply good_err|]. destruct t; try apply good_err.
    pose proof (skip_le r) as S2.
    destruct (skip_empty_lines r) as [|t2 r2] eqn:E2; [apply good_err|]. destruct t2; try apply good_err.
    pose proof (skip_le r2) as S3.
    apply (good_bind_w _ _ _ _ _ (skip_empty_lines r2)); [apply type_annotation_good|simpl in *; lia|].
    intros a rest Ea La. pose proof (skip_le rest) as S4.
    destruct (skip_empty_lines rest) as [|t3 r3] eqn:E3; [apply good_err|]. destruct t3; try apply good_err.
    - eapply good_weaken; [apply IHn; simpl in *; lia|simpl in *; lia].
    - pose proof (skip_le r3) as S5. eapply good_weaken; [apply IHn; simpl in *; lia|simpl in *; lia]. }
  destruct ts as [|t r]; [exact Common|]. destruct t; try exact Common. apply good_ok. simpl. lia.
Qed.

Lemma parse_struct_good : forall ts, good (parse_struct ts) ts.
Proof.
  intros ts. unfold parse_struct. destruct ts as [|t r]; [apply good_err|]. destruct t; try apply good_err.
  pose proof (type_parameters_good r) as G.
  apply good_bind; [eapply goodle_weaken; [exact G|simpl; lia]|].
  intros tps rest E. destruct G as [_ G]. specialize (G tps rest E).
  destruct rest as [|t1 r1]; [apply good_err|]. destruct t1; try apply good_err.
  pose proof (skip_le r1).
  apply (good_bind_w _ _ _ _ _ (skip_empty_lines r1)); [apply struct_fields_loop_good; simpl in *; lia|simpl in *; lia|].
  intros fs rest2 E2 L2. apply good_ok. simpl in *. lia.
Qed.

Lemma statement_n_good : forall n decos ts, length ts < n -> good (statement_n n decos ts) ts.
Proof.
  induction n; intros decos ts L; [lia|]. cbn [statement_n].
  destruct (negb _); [apply good_err|].
  assert (E : good (bind (expression ts) (fun e rest => Ok (StExpr e) rest)) ts).
  { pose proof (expression_good ts) as G. apply good_bind; [apply good_goodle; exact G|].
    intros e rest Ee. destruct G as [_ G]. specialize (G e rest Ee). apply good_ok. exact G. }
  destruct ts as [|t r]; [exact E|]. destruct t; try exact E.
  - (* @ *)
    apply (good_bind_w _ _ _ _ _ r); [apply parse_decorator_good|simpl; lia|].
    intros d rest Ed Ld. pose proof (skip_le rest).
    eapply good_weaken; [apply IHn; simpl in *; lia|simpl in *; lia].
  - destruct k; try exact E.
    + apply (good_bind_w _ _ _ _ _ r); [apply parse_variable_good|simpl; lia|].
      intros v rest Ev Lv. apply good_ok. simpl. lia.
    + eapply good_weaken; [apply parse_function_declaration_good|simpl; lia].
    + eapply good_weaken; [apply parse_dimension_declaration_good|simpl; lia].
    + eapply good_weaken; [apply parse_unit_declaration_good|simpl; lia].
    + eapply good_weaken; [apply parse_use_good|simpl; lia].
    + eapply good_weaken; [apply parse_struct_good|simpl; lia].
    + eapply good_weaken; [apply parse_procedure_good|simpl; lia].
    + eapply good_weaken; [apply parse_procedure_good|simpl; lia].
    + eapply good_weaken; [apply parse_procedure_good|simpl; lia].
    + eapply good_weaken; [apply parse_procedure_good|simpl; lia].
Qed.

Lemma statement_good : forall ts, good (statement ts) ts.
Proof. intros ts. unfold statement. apply statement_n_good. lia. Qed.

Lemma parse_loop_fuel : forall n acc ts, length ts < n -> parse_loop n acc ts <> OutOfFuel.
Proof.
  induction n; intros acc ts L; [lia|]. simpl.
  destruct ts as [|t r]; [discriminate|].
  pose proof (statement_good (t :: r)) as [G1 G2].
  destruct (statement (t :: r)) as [e rest| | |] eqn:E; try discriminate; [|congruence].
  specialize (G2 e rest eq_refl).
  destruct rest as [|t2 r2]; [discriminate|].
  destruct t2; try discriminate.
  - destruct (last_is_rparen _); discriminate.
  - pose proof (skip_le (TNewline :: r2)). apply IHn. simpl in *. lia.
  - pose proof (skip_le r2). apply IHn. simpl in *. lia.
Qed.

Theorem parse_never_out_of_fuel : forall ts, parse ts <> OutOfFuel.
Proof.
  intros ts. unfold parse. apply parse_loop_fuel. pose proof (skip_le ts). lia.
Qed.

(* a successful expression parse returns a proper suffix length *)
Theorem expression_consumes : forall ts e rest, expression ts = Ok e rest -> length rest < length ts.
Proof. intros ts e rest E. apply (proj2 (expression_good ts) e rest E). Qed.
