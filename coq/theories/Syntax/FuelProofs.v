(* C10 — the parser model never runs out of fuel, on any token list, and every
   level function consumes at least one token when it succeeds. *)
From Coq Require Import List NArith ZArith Bool Arith Lia.
From NV Require Import Syntax.Token Syntax.Ast Syntax.StrEsc Syntax.Parser.
Import ListNotations.
Local Open Scope nat_scope.

(* strict: success consumes at least one token; weak: success does not lengthen the input *)
Definition good {A} (r : res A) (ts : list token) : Prop :=
  r <> OutOfFuel /\ forall a rest, r = Ok a rest -> length rest < length ts.
Definition goodle {A} (r : res A) (ts : list token) : Prop :=
  r <> OutOfFuel /\ forall a rest, r = Ok a rest -> length rest <= length ts.

Lemma good_goodle : forall A (r : res A) ts, good r ts -> goodle r ts.
Proof. intros A r ts [H1 H2]. split; [exact H1|]. intros a rest E. specialize (H2 a rest E). lia. Qed.

Lemma good_err : forall A e ts, @good A (Err e) ts.
Proof. intros. split; [discriminate|intros; discriminate]. Qed.
Lemma goodle_err : forall A e ts, @goodle A (Err e) ts.
Proof. intros. split; [discriminate|intros; discriminate]. Qed.
Lemma good_uns : forall A ts, @good A Unsupported ts.
Proof. intros. split; [discriminate|intros; discriminate]. Qed.
Lemma goodle_uns : forall A ts, @goodle A Unsupported ts.
Proof. intros. split; [discriminate|intros; discriminate]. Qed.
Lemma good_ok : forall A (a : A) r ts, length r < length ts -> good (Ok a r) ts.
Proof. intros. split; [discriminate|]. intros a' r' E. inversion E; subst. assumption. Qed.
Lemma goodle_ok : forall A (a : A) r ts, length r <= length ts -> goodle (Ok a r) ts.
Proof. intros. split; [discriminate|]. intros a' r' E. inversion E; subst. assumption. Qed.

Lemma good_weaken : forall A (r : res A) ts ts', good r ts -> length ts <= length ts' -> good r ts'.
Proof. intros A r ts ts' [H1 H2] L. split; [exact H1|]. intros a rest E. specialize (H2 a rest E). lia. Qed.
Lemma goodle_weaken : forall A (r : res A) ts ts', goodle r ts -> length ts <= length ts' -> goodle r ts'.
Proof. intros A r ts ts' [H1 H2] L. split; [exact H1|]. intros a rest E. specialize (H2 a rest E). lia. Qed.
Lemma goodle_good : forall A (r : res A) ts ts', goodle r ts -> length ts < length ts' -> good r ts'.
Proof. intros A r ts ts' [H1 H2] L. split; [exact H1|]. intros a rest E. specialize (H2 a rest E). lia. Qed.

(* bind: the continuation runs on the remaining tokens *)
Lemma good_bind : forall A B (r : res A) (k : A -> list token -> res B) ts,
  goodle r ts -> (forall a rest, r = Ok a rest -> good (k a rest) ts) -> good (bind r k) ts.
Proof.
  intros A B r k ts [H1 H2] Hk. destruct r; simpl; try (split; [discriminate|intros; discriminate]).
  - apply Hk. reflexivity.
  - congruence.
Qed.
Lemma goodle_bind : forall A B (r : res A) (k : A -> list token -> res B) ts,
  goodle r ts -> (forall a rest, r = Ok a rest -> goodle (k a rest) ts) -> goodle (bind r k) ts.
Proof.
  intros A B r k ts [H1 H2] Hk. destruct r; simpl; try (split; [discriminate|intros; discriminate]).
  - apply Hk. reflexivity.
  - congruence.
Qed.

Lemma skip_le : forall ts, length (skip_empty_lines ts) <= length ts.
Proof. induction ts as [|t r IH]; simpl; [lia|]. destruct t; simpl; lia. Qed.

Ltac len := simpl in *; repeat match goal with
  | |- context [skip_empty_lines ?x] => let H := fresh in pose proof (skip_le x) as H; revert H
  | H : context [skip_empty_lines ?x] |- _ => let H' := fresh in pose proof (skip_le x) as H'; revert H H'
  end; intros; simpl in *; lia.

Section Levels.
  Variable expression : parser.
  Variable b : nat.
  Hypothesis Hex : forall ts, S (length ts) <= b -> good (expression ts) ts.

  Lemma binop_loop_good : forall ops next,
    (forall ts, length ts <= b -> good (next ts) ts) ->
    forall n acc ts, length ts < n -> length ts <= b -> goodle (binop_loop n ops next acc ts) ts.
  Proof.
    intros ops next Hn. induction n; intros acc ts L Lb; [lia|]. simpl.
    destruct ts as [|t r]; [apply goodle_ok; lia|].
    destruct (ops t); [|apply goodle_ok; lia].
    assert (G : good (next r) r) by (apply Hn; simpl in Lb; lia).
    apply goodle_bind.
    - apply good_goodle. eapply good_weaken; [exact G|simpl; lia].
    - intros rhs rest E. destruct G as [_ G2]. specialize (G2 rhs rest E).
      eapply goodle_weaken; [apply IHn; simpl in *; lia|simpl; lia].
  Qed.

  Lemma parse_binop_good : forall ops next,
    (forall ts, length ts <= b -> good (next ts) ts) ->
    forall ts, length ts <= b -> good (parse_binop ops next ts) ts.
  Proof.
    intros ops next Hn ts Lb. unfold parse_binop. specialize (Hn ts Lb) as G.
    apply good_bind; [apply good_goodle; exact G|].
    intros e rest E. destruct G as [_ G2]. specialize (G2 e rest E).
    eapply goodle_good; [apply binop_loop_good; [exact Hn|lia|lia]|lia].
  Qed.

  Lemma arguments_loop_good : forall n args ts, length ts < n -> length ts <= b ->
    goodle (arguments_loop expression n args ts) ts.
  Proof.
    induction n; intros args ts L Lb; [lia|]. simpl.
    pose proof (skip_le ts) as S1.
    destruct (skip_empty_lines ts) as [|t r] eqn:E; [apply goodle_err|].
    destruct t; try apply goodle_err.
    - (* TRParen *) apply goodle_ok. simpl in S1. lia.
    - (* TComma *)
      pose proof (skip_le r) as S2.
      destruct (skip_empty_lines r) as [|t2 r2] eqn:E2.
      + assert (G : good (expression []) []) by (apply Hex; simpl in *; lia).
        destruct (expression []) eqn:Ex; try apply goodle_err; try apply goodle_uns.
        * destruct G as [_ G]. specialize (G a rest eq_refl). simpl in G. lia.
        * destruct G as [G _]. congruence.
      + assert (Common : goodle (match expression (t2 :: r2) with
                                  | Ok e rest => arguments_loop expression n (args ++ [e]) rest
                                  | Err _ => Err MissingClosingParen
                                  | OutOfFuel => OutOfFuel
                                  | Unsupported => Unsupported end) ts).
        { assert (G : good (expression (t2 :: r2)) (t2 :: r2)) by (apply Hex; simpl in *; lia).
          destruct (expression (t2 :: r2)) eqn:Ex; try apply goodle_err; try apply goodle_uns.
          - destruct G as [_ G]. specialize (G a rest eq_refl).
            eapply goodle_weaken; [apply IHn; simpl in *; lia|simpl in *; lia].
          - destruct G as [G _]. congruence. }
        destruct t2; try exact Common. apply goodle_ok. simpl in *. lia.
  Qed.

  Lemma arguments_good : forall ts, S (length ts) <= b -> goodle (arguments expression ts) ts.
  Proof.
    intros ts Lb. unfold arguments. pose proof (skip_le ts) as S1.
    assert (Common : goodle (bind (expression (skip_empty_lines ts))
              (fun e rest => arguments_loop expression (S (length rest)) [e] rest)) ts).
    { assert (G : good (expression (skip_empty_lines ts)) (skip_empty_lines ts)) by (apply Hex; lia).
      apply goodle_bind.
      - apply good_goodle. eapply good_weaken; [exact G|lia].
      - intros e rest E. destruct G as [_ G]. specialize (G e rest E).
        eapply goodle_weaken; [apply arguments_loop_good; lia|lia]. }
    destruct (skip_empty_lines ts) as [|t r] eqn:E; [exact Common|].
    destruct t; try exact Common. apply goodle_ok. simpl in S1. lia.
  Qed.

  Lemma list_loop_good : forall n els ts, length ts < n -> S (length ts) <= b ->
    goodle (list_loop expression n els ts) ts.
  Proof.
    induction n; intros els ts L Lb; [lia|]. simpl.
    assert (Common : goodle (bind (expression (skip_empty_lines ts)) (fun e rest =>
              match skip_empty_lines rest with
              | TComma :: r => list_loop expression n (els ++ [e]) (skip_empty_lines r)
              | TRBracket :: r => list_loop expression n (els ++ [e]) (skip_empty_lines (TRBracket :: r))
              | _ => Err ExpectedCommaOrRightBracketInList
              end)) ts).
    { pose proof (skip_le ts) as S1.
      assert (G : good (expression (skip_empty_lines ts)) (skip_empty_lines ts)) by (apply Hex; lia).
      apply goodle_bind.
      - apply good_goodle. eapply good_weaken; [exact G|lia].
      - intros e rest E. destruct G as [_ G]. specialize (G e rest E).
        pose proof (skip_le rest) as S2.
        destruct (skip_empty_lines rest) as [|t r] eqn:E2; [apply goodle_err|].
        destruct t; try apply goodle_err.
        + pose proof (skip_le (TRBracket :: r)) as S3.
          eapply goodle_weaken; [apply IHn; simpl in *; lia|simpl in *; lia].
        + pose proof (skip_le r) as S3.
          eapply goodle_weaken; [apply IHn; simpl in *; lia|simpl in *; lia]. }
    destruct ts as [|t r]; [exact Common|]. destruct t; try exact Common.
    apply goodle_ok. simpl. lia.
  Qed.

  Lemma struct_loop_good : forall n name fields ts, length ts < n -> S (length ts) <= b ->
    goodle (struct_loop expression n name fields ts) ts.
  Proof.
    induction n; intros name fields ts L Lb; [lia|]. simpl.
    assert (Common : goodle (match skip_empty_lines ts with
            | TIdent f :: r =>
                match skip_empty_lines r with
                | TColon :: r' =>
                    bind (expression (skip_empty_lines r')) (fun e rest =>
                      match skip_empty_lines rest with
                      | TComma :: r'' => struct_loop expression n name (fields ++ [(f, e)]) (skip_empty_lines r'')
                      | TRCurly :: r'' => struct_loop expression n name (fields ++ [(f, e)]) (TRCurly :: r'')
                      | _ => Err ExpectedCommaOrRightCurlyInStructFieldList
                      end)
                | _ => Err ExpectedColonAfterFieldName
                end
            | _ => Err ExpectedFieldNameInStruct
            end) ts).
    { pose proof (skip_le ts) as S1.
      destruct (skip_empty_lines ts) as [|t r] eqn:E; [apply goodle_err|].
      destruct t; try apply goodle_err.
      pose proof (skip_le r) as S2.
      destruct (skip_empty_lines r) as [|t2 r2] eqn:E2; [apply goodle_err|].
      destruct t2; try apply goodle_err.
      pose proof (skip_le r2) as S3.
      assert (G : good (expression (skip_empty_lines r2)) (skip_empty_lines r2)) by (apply Hex; simpl in *; lia).
      apply goodle_bind.
      - apply good_goodle. eapply good_weaken; [exact G|simpl in *; lia].
      - intros e rest Ee. destruct G as [_ G]. specialize (G e rest Ee).
        pose proof (skip_le rest) as S4.
        destruct (skip_empty_lines rest) as [|t3 r3] eqn:E3; [apply goodle_err|].
        destruct t3; try apply goodle_err.
        + eapply goodle_weaken; [apply IHn; simpl in *; lia|simpl in *; lia].
        + pose proof (skip_le r3) as S5.
          eapply goodle_weaken; [apply IHn; simpl in *; lia|simpl in *; lia]. }
    destruct ts as [|t r]; [exact Common|]. destruct t; try exact Common.
    apply goodle_ok. simpl. lia.
  Qed.

  Lemma primary_good : forall ts, length ts <= b -> good (primary expression ts) ts.
  Proof.
    intros ts Lb. unfold primary.
    destruct ts as [|t r]; [apply good_err|].
    destruct t; try apply good_err; try apply good_uns; try (apply good_ok; simpl; lia).
    - (* TLParen *)
      assert (G : good (expression r) r) by (apply Hex; simpl in Lb; lia).
      apply good_bind.
      + apply good_goodle. eapply good_weaken; [exact G|simpl; lia].
      + intros inner rest E. destruct G as [_ G]. specialize (G inner rest E).
        destruct rest as [|t2 r2]; [apply good_err|]. destruct t2; try apply good_err.
        apply good_ok. simpl in *. lia.
    - (* TLBracket *)
      pose proof (skip_le r).
      eapply goodle_good; [apply list_loop_good; simpl in *; lia|simpl; lia].
    - (* TKw *) destruct k; apply good_err.
    - (* TIntBase *)
      destruct (i128_overflow _); [apply good_err|apply good_ok; simpl; lia].
    - (* TIdent *)
      destruct r as [|t2 r2]; [apply good_ok; simpl; lia|].
      destruct t2; try (apply good_ok; simpl; lia).
      pose proof (skip_le r2).
      eapply goodle_good; [apply struct_loop_good; simpl in *; lia|simpl; lia].
  Qed.

  Lemma call_loop_good : forall n e ts, length ts < n -> length ts <= b ->
    goodle (call_loop expression n e ts) ts.
  Proof.
    induction n; intros e ts L Lb; [lia|]. simpl.
    destruct ts as [|t r]; [apply goodle_ok; lia|].
    destruct t; try (apply goodle_ok; lia).
    - (* TLParen *)
      assert (G : goodle (arguments expression r) r) by (apply arguments_good; simpl in Lb; lia).
      apply goodle_bind.
      + eapply goodle_weaken; [exact G|simpl; lia].
      + intros args rest E. destruct G as [_ G]. specialize (G args rest E).
        eapply goodle_weaken; [apply IHn; simpl in *; lia|simpl; lia].
    - (* TPeriod *)
      destruct r as [|t2 r2]; [apply goodle_err|]. destruct t2; try apply goodle_err.
      eapply goodle_weaken; [apply IHn; simpl in *; lia|simpl; lia].
  Qed.

  Lemma call_good : forall ts, length ts <= b -> good (call expression ts) ts.
  Proof.
    intros ts Lb. unfold call. pose proof (primary_good ts Lb) as G.
    apply good_bind; [apply good_goodle; exact G|].
    intros e rest E. destruct G as [_ G]. specialize (G e rest E).
    eapply goodle_good; [apply call_loop_good; lia|lia].
  Qed.

  Lemma unicode_power_good : forall ts, length ts <= b -> good (unicode_power expression ts) ts.
  Proof.
    intros ts Lb. unfold unicode_power. pose proof (call_good ts Lb) as G.
    apply good_bind; [apply good_goodle; exact G|].
    intros e rest E. destruct G as [_ G]. specialize (G e rest E).
    destruct rest as [|t r]; [apply good_ok; assumption|].
    destruct t; try (apply good_ok; assumption). apply good_ok. simpl in *. lia.
  Qed.

  Lemma count_excl_le : forall ts, length (snd (count_excl ts)) <= length ts.
  Proof.
    induction ts as [|t r IH]; simpl; [lia|]. destruct t; simpl; try lia.
    destruct (count_excl r). simpl in *. lia.
  Qed.

  Lemma factorial_good : forall ts, length ts <= b -> good (factorial expression ts) ts.
  Proof.
    intros ts Lb. unfold factorial. pose proof (unicode_power_good ts Lb) as G.
    apply good_bind; [apply good_goodle; exact G|].
    intros e rest E. destruct G as [_ G]. specialize (G e rest E).
    pose proof (count_excl_le rest) as C. destruct (count_excl rest) as [k r]. simpl in C.
    destruct k; apply good_ok; lia.
  Qed.

  Lemma power_n_good : forall n ts, length ts < n -> length ts <= b -> good (power_n expression n ts) ts.
  Proof.
    induction n; intros ts L Lb; [lia|]. simpl. pose proof (factorial_good ts Lb) as G.
    apply good_bind; [apply good_goodle; exact G|].
    intros e rest E. destruct G as [_ G]. specialize (G e rest E).
    destruct rest as [|t r]; [apply good_ok; assumption|].
    destruct t; try (apply good_ok; assumption).
    assert (Plain : good (bind (power_n expression n r) (fun rhs rest' => Ok (EBin Power e rhs) rest')) ts).
    { assert (G2 : good (power_n expression n r) r) by (apply IHn; simpl in *; lia).
      apply good_bind; [apply good_goodle; eapply good_weaken; [exact G2|simpl in *; lia]|].
      intros rhs rest' E2. destruct G2 as [_ G2]. specialize (G2 rhs rest' E2). apply good_ok. simpl in *. lia. }
    destruct r as [|t2 r2]; [exact Plain|]. destruct t2; try exact Plain.
    assert (G2 : good (power_n expression n r2) r2) by (apply IHn; simpl in *; lia).
    apply good_bind; [apply good_goodle; eapply good_weaken; [exact G2|simpl in *; lia]|].
    intros rhs rest' E2. destruct G2 as [_ G2]. specialize (G2 rhs rest' E2). apply good_ok. simpl in *. lia.
  Qed.

  Lemma power_good : forall ts, length ts <= b -> good (power expression ts) ts.
  Proof. intros ts Lb. unfold power. apply power_n_good; lia. Qed.

  Lemma ifactor_loop_good : forall n acc ts, length ts < n -> length ts <= b ->
    goodle (ifactor_loop expression n acc ts) ts.
  Proof.
    induction n; intros acc ts L Lb; [lia|]. simpl.
    destruct (could_start_power ts); [|apply goodle_ok; lia].
    pose proof (power_good ts Lb) as G.
    apply goodle_bind; [apply good_goodle; exact G|].
    intros rhs rest E. destruct G as [_ G]. specialize (G rhs rest E).
    eapply goodle_weaken; [apply IHn; lia|lia].
  Qed.

  Lemma ifactor_good : forall ts, length ts <= b -> good (ifactor expression ts) ts.
  Proof.
    intros ts Lb. unfold ifactor. pose proof (power_good ts Lb) as G.
    apply good_bind; [apply good_goodle; exact G|].
    intros e rest E. destruct G as [_ G]. specialize (G e rest E).
    eapply goodle_good; [apply ifactor_loop_good; lia|lia].
  Qed.

  Lemma unary_n_good : forall n ts, length ts < n -> length ts <= b -> good (unary_n expression n ts) ts.
  Proof.
    induction n; intros ts L Lb; [lia|]. simpl.
    destruct ts as [|t r]; [apply ifactor_good; exact Lb|].
    destruct t; try (apply ifactor_good; exact Lb).
    - (* TPlus *) eapply good_weaken; [apply IHn; simpl in *; lia|simpl; lia].
    - (* TMinus *)
      assert (G : good (unary_n expression n r) r) by (apply IHn; simpl in *; lia).
      apply good_bind; [apply good_goodle; eapply good_weaken; [exact G|simpl; lia]|].
      intros rhs rest E. destruct G as [_ G]. specialize (G rhs rest E). apply good_ok. simpl. lia.
  Qed.

  Lemma unary_good : forall ts, length ts <= b -> good (unary expression ts) ts.
  Proof. intros ts Lb. unfold unary. apply unary_n_good; lia. Qed.

  Lemma comparison_good : forall ts, length ts <= b -> good (comparison expression ts) ts.
  Proof.
    unfold comparison, term, factor, per_factor.
    apply parse_binop_good, parse_binop_good, parse_binop_good, parse_binop_good. exact unary_good.
  Qed.

  Lemma logical_neg_n_good : forall n ts, length ts < n -> length ts <= b ->
    good (logical_neg_n expression n ts) ts.
  Proof.
    induction n; intros ts L Lb; [lia|]. simpl.
    destruct ts as [|t r]; [apply comparison_good; exact Lb|].
    destruct t; try (apply comparison_good; exact Lb).
    assert (G : good (logical_neg_n expression n r) r) by (apply IHn; simpl in *; lia).
    apply good_bind; [apply good_goodle; eapply good_weaken; [exact G|simpl; lia]|].
    intros rhs rest E. destruct G as [_ G]. specialize (G rhs rest E). apply good_ok. simpl. lia.
  Qed.

  Lemma conversion_good : forall ts, length ts <= b -> good (conversion expression ts) ts.
  Proof.
    unfold conversion, logical_or, logical_and.
    apply parse_binop_good, parse_binop_good, parse_binop_good.
    intros ts Lb. unfold logical_neg. apply logical_neg_n_good; lia.
  Qed.

  Lemma condition_n_good : forall n ts, length ts < n -> length ts <= b ->
    good (condition_n expression n ts) ts.
  Proof.
    induction n; intros ts L Lb; [lia|]. simpl.
    destruct ts as [|t r]; [apply conversion_good; exact Lb|].
    destruct t; try (apply conversion_good; exact Lb).
    assert (G : good (conversion expression r) r) by (apply conversion_good; simpl in Lb; lia).
    apply good_bind; [apply good_goodle; eapply good_weaken; [exact G|simpl; lia]|].
    intros c rest E. destruct G as [_ G]. specialize (G c rest E).
    pose proof (skip_le rest) as S1.
    destruct (skip_empty_lines rest) as [|t1 r1] eqn:E1; [apply good_err|].
    destruct t1; try apply good_err.
    pose proof (skip_le r1) as S2.
    assert (G1 : good (condition_n expression n (skip_empty_lines r1)) (skip_empty_lines r1))
      by (apply IHn; simpl in *; lia).
    apply good_bind; [apply good_goodle; eapply good_weaken; [exact G1|simpl in *; lia]|].
    intros t rest1 Et. destruct G1 as [_ G1]. specialize (G1 t rest1 Et).
    pose proof (skip_le rest1) as S3.
    destruct (skip_empty_lines rest1) as [|t2 r2] eqn:E2; [apply good_err|].
    destruct t2; try apply good_err.
    pose proof (skip_le r2) as S4.
    assert (G2 : good (condition_n expression n (skip_empty_lines r2)) (skip_empty_lines r2))
      by (apply IHn; simpl in *; lia).
    apply good_bind; [apply good_goodle; eapply good_weaken; [exact G2|simpl in *; lia]|].
    intros e rest2 Ee. destruct G2 as [_ G2]. specialize (G2 e rest2 Ee). apply good_ok. simpl in *. lia.
  Qed.

  Lemma condition_good : forall ts, length ts <= b -> good (condition expression ts) ts.
  Proof. intros ts Lb. unfold condition. apply condition_n_good; lia. Qed.

  Lemma postfix_loop_good : forall n acc ts, length ts < n -> length ts <= b ->
    goodle (postfix_loop expression n acc ts) ts.
  Proof.
    induction n; intros acc ts L Lb; [lia|]. simpl.
    destruct ts as [|t r]; [apply goodle_ok; lia|].
    destruct t; try (apply goodle_ok; lia).
    pose proof (skip_le r) as S1.
    assert (G : good (call expression (skip_empty_lines r)) (skip_empty_lines r))
      by (apply call_good; simpl in *; lia).
    apply goodle_bind; [apply good_goodle; eapply good_weaken; [exact G|simpl in *; lia]|].
    intros f rest E. destruct G as [_ G]. specialize (G f rest E).
    destruct f; try apply goodle_err;
      (eapply goodle_weaken; [apply IHn; simpl in *; lia|simpl in *; lia]).
  Qed.

  Lemma postfix_apply_good : forall ts, length ts <= b -> good (postfix_apply expression ts) ts.
  Proof.
    intros ts Lb. unfold postfix_apply. pose proof (condition_good ts Lb) as G.
    apply good_bind; [apply good_goodle; exact G|].
    intros e rest E. destruct G as [_ G]. specialize (G e rest E).
    eapply goodle_good; [apply postfix_loop_good; lia|lia].
  Qed.
End Levels.

Lemma expression_d_good : forall d ts, S (length ts) <= d -> good (expression_d d ts) ts.
Proof.
  induction d; intros ts L; [lia|]. cbn [expression_d].
  apply (postfix_apply_good (expression_d d) d IHd). lia.
Qed.

Lemma expression_good : forall ts, good (expression ts) ts.
Proof. intros ts. unfold expression. apply expression_d_good. lia. Qed.

Lemma arguments_top_good : forall r, goodle (arguments (expression_d (S (length r))) r) r.
Proof.
  intros r. apply (arguments_good (expression_d (S (length r))) (S (length r))); [|lia].
  intros ts L. apply expression_d_good. lia.
Qed.

Lemma statement_good : forall ts, good (statement ts) ts.
Proof.
  intros ts. unfold statement.
  assert (E : good (bind (expression ts) (fun e rest => Ok (StExpr e) rest)) ts).
  { pose proof (expression_good ts) as G. apply good_bind; [apply good_goodle; exact G|].
    intros e rest Ee. destruct G as [_ G]. specialize (G e rest Ee). apply good_ok. exact G. }
  destruct ts as [|t r]; [exact E|]. destruct t; try exact E.
  destruct k; try exact E.
  - (* let *)
    unfold parse_variable.
    destruct r as [|t1 r1]; [apply good_err|]. destruct t1; try apply good_err.
    destruct r1 as [|t2 r2]; [apply good_err|]. destruct t2; try apply good_err; try apply good_uns.
    pose proof (skip_le r2). pose proof (expression_good (skip_empty_lines r2)) as G.
    apply good_bind; [apply good_goodle; eapply good_weaken; [exact G|simpl; lia]|].
    intros e rest Ee. destruct G as [_ G]. specialize (G e rest Ee). apply good_ok. simpl. lia.
  - (* print *)
    simpl. destruct r as [|t1 r1]; [apply good_err|]. destruct t1; try apply good_err.
    pose proof (arguments_top_good r1) as G.
    apply good_bind; [eapply goodle_weaken; [exact G|simpl; lia]|].
    intros a rest Ea. destruct G as [_ G]. specialize (G a rest Ea). apply good_ok. simpl. lia.
  - simpl. destruct r as [|t1 r1]; [apply good_err|]. destruct t1; try apply good_err.
    pose proof (arguments_top_good r1) as G.
    apply good_bind; [eapply goodle_weaken; [exact G|simpl; lia]|].
    intros a rest Ea. destruct G as [_ G]. specialize (G a rest Ea). apply good_ok. simpl. lia.
  - simpl. destruct r as [|t1 r1]; [apply good_err|]. destruct t1; try apply good_err.
    pose proof (arguments_top_good r1) as G.
    apply good_bind; [eapply goodle_weaken; [exact G|simpl; lia]|].
    intros a rest Ea. destruct G as [_ G]. specialize (G a rest Ea). apply good_ok. simpl. lia.
  - simpl. destruct r as [|t1 r1]; [apply good_err|]. destruct t1; try apply good_err.
    pose proof (arguments_top_good r1) as G.
    apply good_bind; [eapply goodle_weaken; [exact G|simpl; lia]|].
    intros a rest Ea. destruct G as [_ G]. specialize (G a rest Ea). apply good_ok. simpl. lia.
Qed.

Lemma parse_loop_fuel : forall n acc ts, length ts < n -> parse_loop n acc ts <> OutOfFuel.
Proof.
  induction n; intros acc ts L; [lia|]. simpl.
  destruct ts as [|t r]; [discriminate|].
  destruct (starts_other_statement (t :: r)); [discriminate|].
  pose proof (statement_good (t :: r)) as [G1 G2].
  destruct (statement (t :: r)) as [e rest| | |] eqn:E; try discriminate; [|congruence].
  specialize (G2 e rest eq_refl).
  destruct rest as [|t2 r2]; [discriminate|].
  destruct t2; try discriminate.
  - destruct (last_is_rparen _); discriminate.
  - pose proof (skip_le (TNewline :: r2)). apply IHn. simpl in *. lia.
  - pose proof (skip_le r2). apply IHn. simpl in *. lia.
Qed.

Theorem parse_never_out_of_fuel : forall ts, parse ts <> OutOfFuel.
Proof.
  intros ts. unfold parse. apply parse_loop_fuel. pose proof (skip_le ts). lia.
Qed.

(* a successful expression parse returns a proper suffix length *)
Theorem expression_consumes : forall ts e rest, expression ts = Ok e rest -> length rest < length ts.
Proof. intros ts e rest E. apply (proj2 (expression_good ts) e rest E). Qed.
